"""X-packeting - packets, parts and the message <-> packet layering of the proto stacks (extra; specs/proto/PktLayer.tla,
PktParts.tla, PktDevices.tla).

  layer   PktLayer.tla: .txMsgs -> .txPkts -> wire and wire -> .rxPkts -> .rxMsgs as sequences, one action per service
          call, the environment delivers raw receptions (well formed, truncated, from a source no remote has) and the
          application adds / removes remotes.  TLC checks exactly-once / order / attribution / counter invariants and dumps
          complete state graphs; binding A: every edge is replayed on a real proto.UdpStack over a datagram socket double
          (replay.replay) and walked with a real proto.TcpServerStack (its connections are socket doubles; conform(),
          because the order in which packets of different connections are queued is not documented).  The stacks run
          unmodified; their packet class is replaced by a packet made of parts (a PackerPart head, a PackifierPart flags
          byte, a PacketPart body) so that "not enough raw data" and "cannot be packed" come from the library's parts.
  parts   PktParts.tla: Part / PackerPart / PackifierPart / Packet and chains of parts as a structural table (sizes from
          field lists, which slice of the raw data each part holds, where the unparsed rest starts, when parse refuses);
          TLC checks the algebra (slices partition the parsed prefix, pack o parse = identity on it, longer raw data never
          changes what was parsed) and emits the table; binding C: every row replayed on the real classes.
  devices PktDevices.tla: uid assignment and host address rules of the device classes as a table (binding C).
"""
import random
import time
from concurrent.futures import ThreadPoolExecutor, as_completed

from .. import doubles_net as dn
from .. import env, graph, replay, tlc
from ..replay import Divergence
from ._net import jvm_env
from ._netstacks import DestSocket, PairSock, RecDeque, conform, add_walk, guarded, quiet_console

PROP = "X-packeting"
SPEC_DIR = env.SPECS + "/proto"
LOCAL = ("127.0.0.1", 7100)

INVS = ["TxExactlyOnce", "TxInOrder", "RxExactlyOnce", "RightRemote", "RxInOrder", "Counters"]
APROPS = ["MalformedIsolated", "UnknownDropped"]
STATS = {"received": "pkt_received", "parseErr": "pkt_parse_error", "packErr": "pkt_pack_error", "msgRecv": "msg_received"}


def _tf(b):
    return "TRUE" if b else "FALSE"


def layer_cfg(k, props=True):
    s = "SPECIFICATION Spec\nCONSTANTS\n"
    for name in ("NRemotes", "NInit", "MaxTx", "MaxRx"):
        s += "  %s = %d\n" % (name, k[name])
    s += "  Strangers = {%s}\n" % ", ".join(str(x) for x in k["Strangers"])
    for name in ("Dynamic", "Removal", "IdleSvc", "DefaultTx", "BadTx", "BadRx", "Ordered"):
        s += "  %s = %s\n" % (name, _tf(k[name]))
    if props:
        s += "".join("INVARIANT %s\n" % p for p in INVS) + "".join("PROPERTY %s\n" % p for p in APROPS)
    return s


def layer_consts(**kw):
    k = dict(NRemotes=2, NInit=0, MaxTx=0, MaxRx=0, Strangers=[8, 9], Dynamic=False, Removal=False, IdleSvc=False,
             DefaultTx=True, BadTx=True, BadRx=True, Ordered=True)
    k.update(kw)
    return k


# ------------------------------------------------------------------ a packet made of parts (test packet class)
def make_packet_class(packeting):
    """The packet class handed to the stacks (in place of packeting.Packet, whose parse takes a whole reception).

    frame = head (PackerPart '!BB': kind, body length) + flags (PackifierPart '1 1 2 4') + body (PacketPart, `length` bytes).
    As the docstrings of packeting.py say: a part's parse(raw) "assigns to fields" and "returns offset into raw of
    unparsed portion" and raises ValueError when raw is "not enough raw data"; pack() returns .packed and raises ValueError
    when sizes do not match; "need to add parts to packet in subclass"; a PacketPart may "reference other parts of its
    Packet".  The message text of the stacks (msg.encode('ascii') is handed in as packed=) is the frame itself."""
    from ioflo.aid.byting import packifyInto, unpackify

    class Head(packeting.PackerPart):
        Format = "!BB"

        def __init__(self, kind=0, length=0, **kwa):
            self.kind, self.length = kind, length
            super(Head, self).__init__(**kwa)

        def parse(self, raw):
            off = super(Head, self).parse(raw)
            self.kind, self.length = self.packer.unpack_from(self.packed)
            return off

        def pack(self, **kwa):
            if not (0 <= self.kind < 128 and 0 <= self.length < 128):
                raise ValueError("Build Head: field out of range")
            self.packer.pack_into(self.packed, 0, self.kind, self.length)
            if self.size != self.packer.size:
                raise ValueError("Build Head: size packed={0} not match format={1}".format(self.size, self.packer.size))
            return self.packed

    class Flags(packeting.PackifierPart):
        Format = "1 1 2 4"

        def __init__(self, fields=(False, True, 0, 0), **kwa):
            self.fields = tuple(fields)
            super(Flags, self).__init__(**kwa)

        def parse(self, raw):
            off = super(Flags, self).parse(raw)
            self.fields = tuple(unpackify(self.fmt, self.packed, boolean=True, size=self.fmtSize))
            return off

        def pack(self, **kwa):
            size = packifyInto(self.packed, fmt=self.fmt, fields=self.fields)
            if self.size != size:
                raise ValueError("Build Flags: size packed={0} not match format={1}".format(self.size, size))
            return self.packed

    class Body(packeting.PacketPart):
        def parse(self, raw):
            need = self.packet.head.length
            if raw is None or len(raw) < need:
                raise ValueError("Parse Body: Not enough raw data for body. Need {0} bytes, got {1} bytes.".format(
                    need, len(raw or b"")))
            self.packed = bytearray(raw[:need])
            return self.size

        def pack(self, **kwa):
            if self.size != self.packet.head.length:
                raise ValueError("Build Body: size packed={0} not match head={1}".format(self.size, self.packet.head.length))
            return self.packed

    class PartsPacket(packeting.Packet):
        def __init__(self, stack=None, **kwa):
            super(PartsPacket, self).__init__(stack=stack, **kwa)
            self.head = Head()
            self.flags = Flags()
            self.body = Body(packet=self)

        @property
        def parts(self):
            return (self.head, self.flags, self.body)

        def parse(self, raw):
            raw = bytearray(raw)
            off = self.head.parse(raw)
            off += self.flags.parse(raw[off:])
            off += self.body.parse(raw[off:])
            self.packed = raw[:off]
            return self.size

        def pack(self):
            text = bytearray(self.packed)
            n = self.head.packer.size + self.flags.fmtSize
            if len(text) < n:
                raise ValueError("Build Packet: no room for head and flags")
            self.head.kind, self.head.length = text[0], text[1]
            self.flags.fields = tuple(unpackify(self.flags.fmt, text[2:3], boolean=True, size=1))
            self.body.packed = bytearray(text[n:])
            self.packed = bytearray()
            for part in self.parts:
                self.packed.extend(part.pack())
            return self.packed

    return PartsPacket


def frame(tag, n, ok=True):
    """the text of submission / reception n: kind, declared body length, flags byte, body (all ASCII)"""
    body = ("%s%02d" % (tag, n)) + "x" * (n % 3)
    declared = len(body) if ok else len(body) + 3
    return chr(0x4D) + chr(declared) + chr(0x40 + (n * 5) % 0x3F) + body


def truncated(text, n):
    """a reception cut inside the head, the flags or the body (never empty: no data at all is not a reception)"""
    cuts = [1, 2, 3, len(text) - 1, len(text) - 2]
    return text[:max(1, cuts[n % len(cuts)])]


class _Namespace(object):
    """stands in for a module: the given names are replaced, everything else is the module's"""

    def __init__(self, module, **names):
        self._module = module
        self.__dict__.update(names)

    def __getattr__(self, name):
        return getattr(self._module, name)


# ------------------------------------------------------------------ addresses
class Conc(object):
    """concretisation of the model's addresses (remote r has address r; strangers 8, 9): `given` is what the remote device
    is created with, `actual` what packets carry.  Strangers share the host or the port of remote 1."""

    def __init__(self, label, given, actual):
        self.label, self.given, self.actual = label, given, actual
        self.back = {v: k for k, v in actual.items()}


CONCS = [
    Conc("plain", {1: ("10.0.1.1", 7001), 2: ("10.0.1.2", 7002), 3: ("10.0.1.3", 7001)},
         {1: ("10.0.1.1", 7001), 2: ("10.0.1.2", 7002), 3: ("10.0.1.3", 7001), 8: ("10.0.1.1", 7008), 9: ("10.0.1.9", 7001)}),
    # host names are normalised when the device is made (pinned test: 'localhost' -> '127.0.0.1'); ports differ only
    Conc("alias", {1: ("localhost", 7001), 2: ("127.0.0.1", 7002), 3: ("localhost", 7003)},
         {1: ("127.0.0.1", 7001), 2: ("127.0.0.1", 7002), 3: ("127.0.0.1", 7003), 8: ("127.0.0.1", 7008), 9: ("127.0.0.2", 7001)}),
]


# ------------------------------------------------------------------ adapters
class LayerAdapter(object):
    """common part: numbering of submissions / receptions, projection of the queues, the service calls"""

    flavor = "?"
    has_msg_stat = True

    def setup(self, init, conc):
        self.conc = conc
        self.sub = []            # [(lane, to, ok)]
        self.dlv = []            # [(kind, src)]
        self.txid = {}           # frame text -> submission number
        self.rxid = {}           # frame text -> reception number
        self.objs = {}           # remote number -> device object (current members)
        self.seen = []           # (device object, remote number) of every remote ever made

    def close(self):
        for u in reversed(getattr(self, "undo", [])):
            u()
        self.undo = []

    # ---- projection
    def rid(self, obj):
        for o, r in self.seen:
            if o is obj:
                return r
        return ("unknown remote object", repr(obj)[:60])

    def _tx(self, data, addr, where):
        if isinstance(data, (bytes, bytearray)):
            data = bytes(data).decode("latin-1")
        n = self.txid.get(data)
        if n is None:
            return ("unknown %s" % where, data)
        to = self.sub[n - 1][1]
        if addr != self.conc.actual.get(to):
            return ("misaddressed", n, str(addr))
        return n

    def _rx(self, data, addr, where):
        if isinstance(data, (bytes, bytearray)):
            data = bytes(data).decode("latin-1")
        n = self.rxid.get(data)
        if n is None:
            return ("unknown %s" % where, data)
        if addr != self.conc.actual.get(self.dlv[n - 1][1]):
            return ("wrong source", n, str(addr))
        return n

    def _msg_entry(self, e):
        # documented: "deque of duples to hold received msgs and source remotes"
        if not (isinstance(e, tuple) and len(e) == 2):
            return ("not a (msg, remote) duple", repr(e)[:60])
        n = self.rxid.get(e[0])
        if n is None:
            return ("unknown message", repr(e[0])[:60])
        return {"n": n, "r": self.rid(e[1])}

    def project(self):
        st = self.stack
        out = {"known": tuple(self.rid(o) for o in st.remotes.values())}
        txm = []
        for e in st.txMsgs:
            if not (isinstance(e, tuple) and len(e) == 2):
                txm.append(("not a (msg, remote) duple", repr(e)[:60]))
                continue
            n = self.txid.get(e[0])
            if n is None:
                txm.append(("unknown message", repr(e[0])[:60]))
            elif self.rid(e[1]) != self.sub[n - 1][1]:
                txm.append(("misrouted", n, self.rid(e[1])))
            else:
                txm.append(n)
        out["txMsgs"] = tuple(txm)
        out["txPkts"] = tuple(self._tx(pkt.packed, ha, "queued packet") for (pkt, ha) in st.txPkts)
        w = self.wire()
        out["wire"] = w if isinstance(w, dict) else tuple(w)
        out["inbox"] = tuple(self.inbox())
        out["rxPkts"] = tuple(self._rx(pkt.packed, ha, "received packet") for (pkt, ha) in st.rxPkts)
        out["rxMsgs"] = tuple(self._msg_entry(e) for e in st.rxMsgs)
        out["got"] = tuple(self._msg_entry(e) for e in st.rxMsgs.log)
        stats = {k: st.stats.get(v, 0) for k, v in STATS.items()}
        if not self.has_msg_stat:
            del stats["msgRecv"]
        out["stats"] = stats
        return out

    # ---- steps
    def submit(self, lane, to, ok):
        self.sub.append((lane, to, ok))
        n = len(self.sub)
        text = frame("t", n, ok)
        self.txid[text] = n
        return text

    def step(self, name, args, expected=None):
        st = self.stack
        none_known = not st.remotes
        if name == "AddRemote":
            self.add_remote(int(args[0]))
        elif name == "RemoveRemote":
            self.remove_remote(int(args[0]))
        elif name == "Message":
            r, ok = int(args[0]), bool(args[1])
            st.message(self.submit("msg", r, ok), self.objs[r])
        elif name == "MessageDefault":
            ok = bool(args[0])
            first = self.rid(list(st.remotes.values())[0]) if not none_known else 0
            text = self.submit("msg", first, ok)
            if none_known:
                try:
                    st.message(text)      # "otherwise Raise exception": an exception or a refusal without one
                except Exception:
                    pass
            else:
                st.message(text)
        elif name in ("Transmit", "TransmitDefault"):
            if name == "Transmit":
                r, ok = int(args[0]), bool(args[1])
            else:
                ok = bool(args[0])
                r = self.rid(list(st.remotes.values())[0]) if not none_known else 0
            text = self.submit("pkt", r, ok)
            pkt = self.Packet(stack=st, packed=text.encode("ascii"))
            if name == "Transmit":
                st.transmit(pkt, self.conc.actual[r])
            elif none_known:
                try:
                    st.transmit(pkt)
                except Exception:
                    pass
            else:
                st.transmit(pkt)
        elif name == "Deliver":
            kind, a = str(args[0]), int(args[1])
            self.dlv.append((kind, a))
            n = len(self.dlv)
            text = frame("r", n)
            if kind == "good":
                self.rxid[text] = n
            else:
                text = truncated(text, n)
            self.deliver(text.encode("ascii"), a, n)
        else:
            self.service(name)
        return self.project()

    SERVICE = {"SvcTxMsgOnce": "serviceTxMsgOnce", "SvcTxMsgs": "serviceTxMsgs", "SvcTxPktsOnce": "serviceTxPktsOnce",
               "SvcTxPkts": "serviceTxPkts", "SvcAllTx": "serviceAllTx", "SvcAllTxOnce": "serviceAllTxOnce",
               "SvcReceivesOnce": "serviceReceivesOnce", "SvcReceives": "serviceReceives",
               "SvcRxPktsOnce": "serviceRxPktsOnce", "SvcRxPkts": "serviceRxPkts", "SvcRxMsgsOnce": "serviceRxMsgsOnce",
               "SvcRxMsgs": "serviceRxMsgs", "SvcAllRx": "serviceAllRx", "SvcAllRxOnce": "serviceAllRxOnce",
               "SvcAll": "serviceAll"}

    def service(self, name):
        getattr(self.stack, self.SERVICE[name])()


class UdpAdapter(LayerAdapter):
    """a real UdpStack over udp.SocketUdpNb over a datagram socket double (no port is bound)"""

    flavor = "udp"

    def __init__(self, init, conc):
        env.use_repo()
        from ioflo.aio.proto import packeting, stacking, devicing
        from ioflo.aio.udp import udping
        quiet_console()
        self.setup(init, conc)
        self.devicing = devicing
        self.Packet = make_packet_class(packeting)
        self.undo = [dn.install(stacking, "packeting", _Namespace(packeting, Packet=self.Packet))]
        fake = dn.FakeSocketModule(factory=lambda fam, typ, proto: DestSocket(name="udp", family=fam, type=typ, proto=proto))
        self.undo.append(dn.install(udping, "socket", fake))
        try:
            self.stack = stacking.UdpStack(ha=LOCAL, name="udp", rxMsgs=RecDeque())
            self.sock = fake.last
            if len(fake.created) != 1 or self.sock.bound != LOCAL or not self.stack.handler.opened:
                raise AssertionError("UdpStack did not open exactly one datagram socket double on its address")
            for r in init["known"]:
                self.add_remote(int(r))
        except Exception:
            self.close()
            raise

    def add_remote(self, r):
        dev = self.devicing.IpRemoteDevice(stack=self.stack, ha=self.conc.given[r], name="remote%d" % r)
        if dev.ha != self.conc.actual[r]:
            raise AssertionError("remote made with address %r has address %r" % (self.conc.given[r], dev.ha))
        self.stack.addRemote(dev)
        self.objs[r] = dev
        self.seen.append((dev, r))

    def remove_remote(self, r):
        self.stack.removeRemote(self.objs.pop(r))

    def deliver(self, data, a, n):
        self.sock.push("recvfrom", dn.dgram(data, self.conc.actual[a]))

    def wire(self):
        return [self._tx(b, addr, "datagram") for (b, addr) in self.sock.dgrams_sent]

    def inbox(self):
        out = []
        pend = [x for x in self.sock.pending("recvfrom")]
        byraw = {}
        for n, (kind, a) in enumerate(self.dlv, 1):
            text = frame("r", n)
            byraw[(text if kind == "good" else truncated(text, n)).encode("ascii"), self.conc.actual[a]] = n
        for x in pend:
            out.append(byraw.get((x[1], x[2]), ("unknown pending datagram", repr(x))))
        return out


SRV = ("127.0.0.1", 7200)
BIG = 1 << 20


def split_frames(data):
    """the frames (head 2 bytes, flags 1 byte, body of the declared length) in a byte string; a trailing piece stays"""
    out = []
    data = bytes(data)
    while len(data) >= 3 and len(data) >= 3 + data[1]:
        out.append(data[:3 + data[1]])
        data = data[3 + data[1]:]
    if data:
        out.append(data)
    return out


class TcpServerAdapter(LayerAdapter):
    """a real TcpServerStack over tcp.Server; every remote is one accepted connection whose socket is a double (what the
    stack sends appears in the far end's inbox, the harness puts receptions into the near end's inbox).  The stack makes
    the remote of a connection itself (serviceConnects).  The handler's own queues are emptied with every service step
    of the model (how a stream transport moves bytes is C24 / C36)."""

    flavor = "tcpserver"
    has_msg_stat = False       # msg_received is kept by UdpStack only

    def __init__(self, init, conc):
        env.use_repo()
        from ioflo.aio.proto import packeting, stacking
        from ioflo.aio.tcp import serving
        quiet_console()
        self.setup(init, conc)
        self.Packet = make_packet_class(packeting)
        self.undo = [dn.install(stacking, "packeting", _Namespace(packeting, Packet=self.Packet))]
        sfake = dn.FakeSocketModule()
        self.undo.append(dn.install(serving, "socket", sfake))
        try:
            self.stack = stacking.TcpServerStack(ha=SRV, name="server", rxMsgs=RecDeque())
            listen = sfake.last
            if listen is None or not listen.listening:
                raise AssertionError("the server stack did not open a listening socket double")
            self.near, self.far = {}, {}
            for r in init["known"]:
                r = int(r)
                ca = conc.actual[r]
                b = PairSock(name="near%d" % r, peer=ca, sockname=self.stack.handler.eha, connected=True)
                a = PairSock(name="far%d" % r, peer=self.stack.handler.eha, sockname=ca, connected=True)
                a.link(b)
                listen.push("accept", dn.conn(b, ca))
                self.near[r], self.far[r] = b, a
                self.stack.serviceConnects()          # one connection at a time: remotes in the order 1, 2, ...
                if ca not in self.stack.handler.ixes or ca not in self.stack.haRemotes:
                    raise AssertionError("the server stack did not accept connection %r and make its remote" % (ca,))
                self.objs[r] = self.stack.haRemotes[ca]
                self.seen.append((self.objs[r], r))
        except Exception:
            self.close()
            raise

    def add_remote(self, r):
        raise NotImplementedError("remotes of a server stack are its connections")

    remove_remote = add_remote

    def deliver(self, data, a, n):
        self.near[a].inbox.extend(data)

    def _open(self, on):
        for b in self.near.values():
            b.tx_budget = b.rx_budget = BIG if on else 0

    def service(self, name):
        st = self.stack
        self._open(True)
        try:
            if name in ("SvcReceives", "SvcReceivesOnce", "SvcAllRx", "SvcAllRxOnce"):
                st.handler.serviceReceivesAllIx()
            getattr(st, self.SERVICE[name])()
            if name in ("SvcTxPkts", "SvcTxPktsOnce", "SvcAllTx", "SvcAllTxOnce"):
                st.handler.serviceTxesAllIx()
        finally:
            self._open(False)
        for ca, ix in st.handler.ixes.items():
            if ix.txes:
                raise AssertionError("the connection's transmit queue was not emptied by an unlimited socket")

    def wire(self):
        out = {}
        for r, a in self.far.items():
            out[r] = tuple(self._tx(f, self.conc.actual[r], "frame sent") for f in split_frames(a.inbox))
        return out

    def inbox(self):
        pend = []
        for r, b in self.near.items():
            ix = self.stack.handler.ixes.get(self.conc.actual[r])
            held = bytes(ix.rxbs) if ix is not None else b""
            for f in split_frames(held + bytes(b.inbox)):
                pend.append(self._rx(f, self.conc.actual[r], "pending frame"))
        return sorted(pend, key=lambda x: (not isinstance(x, int), repr(x) if not isinstance(x, int) else x))



class _Keyed(TcpServerAdapter):
    """for conform(): the key of a step is (action name, arguments)"""

    def step(self, name, key, candidates=None):
        return TcpServerAdapter.step(self, name, key[1])


def match_per_destination(spec_state, actual):
    """streams: the order of packets on the wire is observable per connection only"""
    st = dict(spec_state)
    sub = st["sub"]
    st["wire"] = {r: tuple(n for n in st["wire"] if int(sub[int(n) - 1]["to"]) == r) for r in actual["wire"]}
    st["stats"] = {k: v for k, v in st["stats"].items() if k in actual["stats"]}      # counters this stack does not keep
    return replay._compare(st, actual, None) is None


def probe_gram(ctx):
    """a bare GramStack (a datagram stack without remotes): one well formed reception taken through .rxPkts to .rxMsgs"""
    env.use_repo()
    from ioflo.aio.proto import stacking
    from ._netstacks import GramHandler
    quiet_console()
    st = stacking.GramStack(handler=GramHandler(LOCAL), ha=LOCAL, name="gram", rxMsgs=RecDeque())
    st.handler.sock.push("recvfrom", dn.dgram(b"hello", ("10.0.1.1", 7001)))
    steps = [{"action": "Deliver", "state": "b'hello' from ('10.0.1.1', 7001)"}]
    try:
        st.serviceReceives()
        steps.append({"action": "SvcReceives", "state": "rxPkts %d" % len(st.rxPkts)})
        st.serviceRxPkts()
    except Exception as ex:
        ctx.diverge(Divergence(PROP, "exception", "SvcRxPkts", "gram:" + replay.innermost_ioflo_frame(ex.__traceback__),
                               "%s: %s" % (type(ex).__name__, str(ex)[:160]), steps=steps))
        return
    got = list(st.rxMsgs)
    okay = (len(got) == 1 and isinstance(got[0], tuple) and len(got[0]) == 2 and got[0][0] == "hello" and
            st.stats.get("pkt_received", 0) == 1 and not st.rxPkts)
    if not okay:
        ctx.diverge(Divergence(PROP, "state-mismatch", "SvcRxPkts", "gram:rxMsgs",
                               "expected one (msg, remote) duple carrying 'hello' and pkt_received = 1, got %r %r" % (
                                   got, dict(st.stats)), steps=steps))


# ------------------------------------------------------------------ the layer check
def layer_jobs(ctx):
    """(tag, flavor, constants) of the graphs"""
    q = ctx.quick
    one = [] if q else [9]          # thorough: longer behaviours, one stranger (quick: two strangers, shorter behaviours)
    jobs = [
        ("tx", "udp", layer_consts(NInit=2, MaxTx=3 if q else 4)),
        ("txdyn", "udp", layer_consts(Dynamic=True, MaxTx=2 if q else 3, IdleSvc=q)),
        ("rx", "udp", layer_consts(NInit=2, MaxRx=3 if q else 4, Strangers=one or [8, 9])),
        ("rxdyn", "udp", layer_consts(NInit=1, Dynamic=True, Removal=True, MaxRx=2 if q else 3, Strangers=one or [8, 9])),
        ("both", "udp", layer_consts(NInit=1, MaxTx=1 if q else 2, MaxRx=1, IdleSvc=q)),
        # a stream server: remotes are connections (static), nothing truncated (an incomplete packet just waits: C36), no
        # stranger, transmit needs a destination, packets of different connections are queued in an undocumented order
        ("tcptx", "tcpserver", layer_consts(NInit=2, MaxTx=2 if q else 3, Strangers=[], DefaultTx=False, BadRx=False, Ordered=False)),
        ("tcprx", "tcpserver", layer_consts(NInit=2, MaxRx=3 if q else 4, Strangers=[], DefaultTx=False, BadRx=False, Ordered=False,
                                            IdleSvc=q)),
    ]
    return jobs


TX_ACTIONS = ["Message", "MessageDefault", "Transmit", "SvcTxMsgOnce", "SvcTxMsgs", "SvcTxPktsOnce", "SvcTxPkts", "SvcAllTx",
              "SvcAllTxOnce", "SvcAll"]
RX_ACTIONS = ["Deliver", "SvcReceivesOnce", "SvcReceives", "SvcRxPktsOnce", "SvcRxPkts", "SvcRxMsgsOnce", "SvcRxMsgs", "SvcAllRx",
              "SvcAllRxOnce", "SvcAll"]


def expected_actions(k):
    """the actions a configuration is meant to exercise (vacuity guard)"""
    need = []
    if k["MaxTx"]:
        need += TX_ACTIONS + (["TransmitDefault"] if k["DefaultTx"] else [])
    if k["MaxRx"]:
        need += RX_ACTIONS
    if k["Dynamic"]:
        need.append("AddRemote")
    if k["Removal"]:
        need.append("RemoveRemote")
    return sorted(set(need))


def run_layer(ctx, d):
    jobs = layer_jobs(ctx)

    def model(job):
        tag, flavor, k = job
        return tlc.run("PktLayer", layer_cfg(k), spec_dir=SPEC_DIR, dump_dot="%s/%s.dot" % (d, tag), deadlock=False,
                       tag="xpk" + tag, extra_env=jvm_env(ctx.quick), workers=max(1, env.NCPU // 4), timeout=3000)

    t0 = time.time()
    total = cov = nsteps = 0
    taken = set()
    tlc_done = [t0]

    def process(job, res):
        nonlocal total, cov, nsteps
        (tag, flavor, k) = job
        name = "PktLayer/%s" % tag
        ctx.add_model(res, name, k)
        if not res.ok:
            ctx.diverge(Divergence(PROP, "model", res.error_name or res.error, name, "specification property violated in the model",
                                   steps=[{"action": a, "state": st} for a, st in res.trace]))
            return
        tlc.require_coverage(res, expected_actions(k), name)
        taken.update(a for a, c in res.coverage.items() if c[1] > 0)
        g = graph.load_dot("%s/%s.dot" % (d, tag))
        _layer_vacuity(g, k, name)
        if flavor == "tcpserver":
            w = conform(PROP, g, lambda init: guarded(_Keyed)(init, CONCS[0]), match=match_per_destination,
                        where="tcpserver/plain:")
            e, t = add_walk(ctx, w, g, name)
            if not w.complete and not w.divergences:
                raise tlc.TlcError("the walk of %s was cut short" % name)
            # edges of specification alternatives the implementation never chooses are not followed (and not demanded)
            ctx.extra.setdefault("walks", {})[tag] = {"edges_followed": e, "edges_distinct": len(
                {(u, lab, v) for u, es in g.out.items() for (lab, act, v) in es}), "states_visited": len(w.states),
                "states": len(g.states), "complete": w.complete}
            total += e
            cov += e
            nsteps += w.steps
            ctx.sample({"graph": tag, "walk": {"nodes": w.nodes, "executions": w.execs, "ambiguous": w.ambiguous}})
            return
        paths = graph.edge_cover(g, max_len=30)
        traces = replay.graph_paths_to_traces(g, paths)
        # both concretisations of the addresses on the small graphs of the thorough tier, otherwise one (alternating)
        concs = CONCS if (not ctx.quick and g.nedges <= 60000) else [CONCS[len(tag) % 2]]
        for conc in concs:
            n, divs = replay.replay(PROP, traces, lambda init, conc=conc: guarded(UdpAdapter)(init, conc))
            for dv in divs:
                dv.where = "%s/%s:%s" % (flavor, conc.label, dv.where)
            ctx.diverge(divs)
            nsteps += n
        total += len({(u, lab, v) for u, es in g.out.items() for (lab, act, v) in es})     # (TLC dumps some edges twice)
        cov += graph.covered_edges(paths)
        ctx.add_validated(len(traces) * len(concs), {"graph": tag, "path": [x[0] for x in traces[len(traces) // 2]][:20]})

    # replay every graph as soon as TLC has dumped it (the other models are still running)
    with ThreadPoolExecutor(max_workers=len(jobs)) as ex:
        futs = {ex.submit(model, job): job for job in jobs}
        for fut in as_completed(futs):
            tlc_done[0] = time.time()
            process(futs[fut], fut.result())
    ctx.extra.setdefault("phase_s", {})["layer_tlc"] = round(tlc_done[0] - t0, 1)
    ctx.extra["phase_s"]["layer_total"] = round(time.time() - t0, 1)
    need = ["AddRemote", "RemoveRemote", "Message", "MessageDefault", "Transmit", "TransmitDefault", "Deliver"] + \
        sorted(LayerAdapter.SERVICE)
    missing = [a for a in need if a not in taken]
    if missing and not ctx.divs:
        raise tlc.TlcError("vacuous model runs (PktLayer): actions never taken: %s" % ", ".join(missing))
    return total, cov, nsteps


def _layer_vacuity(g, k, name):
    """the graph must hold what the properties talk about"""
    sts = list(g.states.values())
    want = []
    if k["MaxRx"] >= 2:
        want.append(("a message attributed to a remote", any(len(s["got"]) > 0 for s in sts)))
        if k["Strangers"]:
            want.append(("a packet from an unknown source dropped",
                         any(s["stats"]["received"] > len(s["got"]) for s in sts)))
        if not k["Ordered"]:
            want.append(("packets of two sources queued in either order",
                         any(len(set(v for (lab, act, v) in es if lab == "SvcReceives")) > 1 for es in g.out.values())))
        if k["BadRx"]:
            want.append(("a truncated reception counted", any(s["stats"]["parseErr"] > 0 for s in sts)))
    if k["MaxTx"] >= 2:
        want.append(("a message on the wire", any(len(s["wire"]) > 0 for s in sts)))
        if k["BadTx"]:
            want.append(("a submission that cannot be packed counted", any(s["stats"]["packErr"] > 0 for s in sts)))
    bad = [w for w, okay in want if not okay]
    if bad:
        raise tlc.TlcError("vacuous model run (%s): never reached: %s" % (name, "; ".join(bad)))


# ------------------------------------------------------------------ parts table (binding C)
PART_INVS = ["SlicesPartition", "PackParseIdentity", "Threshold", "Monotone", "RoundTrip", "LeastBytes"]
CODES = {1: "B", 2: "H", 4: "I", 8: "Q"}


def parts_cfg(k):
    return ("SPECIFICATION Spec\nCONSTANTS\n  MaxRaw = %d\n  Widths = {%s}\n  Bits = {%s}\n  MaxFields = %d\n  ChainFields = %d\n"
            "  MaxChain = %d\n  Sizes = {%s}\n" % (k["MaxRaw"], ", ".join(map(str, k["Widths"])), ", ".join(map(str, k["Bits"])),
                                                  k["MaxFields"], k["ChainFields"], k["MaxChain"], ", ".join(map(str, k["Sizes"])))
            + "".join("INVARIANT %s\n" % p for p in PART_INVS))


def make_field_parts(packeting):
    """parts that really carry fields, written as packeting.py tells subclasses to: parse = the base parse, then the
    fields are read from .packed; pack = the fields are written into .packed, the size is verified"""
    from ioflo.aid.byting import packifyInto, unpackify

    class FPacker(packeting.PackerPart):
        def parse(self, raw):
            off = super(FPacker, self).parse(raw)
            self.fields = self.packer.unpack_from(self.packed)
            return off

        def pack(self, **kwa):
            self.packer.pack_into(self.packed, 0, *self.fields)
            if self.size != self.packer.size:
                raise ValueError("Build Packer: size packed={0} not match format={1}".format(self.size, self.packer.size))
            return self.packed

    class FPackifier(packeting.PackifierPart):
        def parse(self, raw):
            off = super(FPackifier, self).parse(raw)
            self.fields = unpackify(self.fmt, self.packed, boolean=True, size=self.fmtSize) if self.fmt.split() else ()
            return off

        def pack(self, **kwa):
            size = packifyInto(self.packed, fmt=self.fmt, fields=self.fields) if self.fmt.split() else 0
            if self.size != size:
                raise ValueError("Build Packifier: size packed={0} not match format={1}".format(self.size, size))
            return self.packed

    return FPacker, FPackifier


def _fmt(p):
    if p["t"] == "packer":
        return "!" + "".join(CODES[int(w)] for w in p["f"])
    return " ".join(str(int(b)) for b in p["f"])


def replay_parts(ctx, table, packeting):
    """every row of the table on the real classes; returns the number of evaluations"""
    from binascii import hexlify
    rng = random.Random(ctx.seed)
    FPacker, FPackifier = make_field_parts(packeting)
    n = 0
    nbad = [0]

    def bad(row, what, exp, got):
        nbad[0] += 1
        if nbad[0] <= 12:
            key = "%s L=%s" % ("+".join("%s(%s)" % (p["t"], ",".join(map(str, p["f"]))) for p in row["parts"]), row["L"]) \
                if row["k"] == "chain" else str({k: row[k] for k in row if k in ("size", "given", "L")})
            ctx.diverge(Divergence(PROP, "table-mismatch", row["k"], what, "%s: expected %r got %r" % (key, exp, got),
                                   expected=row, actual=repr(got)))

    def shown(row, o):
        s = o.show()
        if not (isinstance(s, str) and type(o).__name__ in s and hexlify(bytes(o.packed)).decode("ascii") in s):
            bad(row, "show", "a text naming the class and the hexadecimal contents", s)

    for row in table:
        if row["k"] == "part":
            kw = {}
            if row["size"] >= 0:
                kw["size"] = row["size"]
            given = bytes(rng.randrange(1, 256) for _ in range(row["given"])) if row["given"] >= 0 else None
            if given is not None:
                kw["packed"] = given
            o = packeting.Part(**kw)
            n += 1
            if (len(o), o.size, len(o.packed)) != (row["len"],) * 3:
                bad(row, "Part.size", row["len"], (len(o), o.size, len(o.packed)))
            elif bytes(o.packed) != (bytes(row["len"]) if row["zeros"] else given):
                bad(row, "Part.packed", "zeros" if row["zeros"] else tuple(given), tuple(o.packed))
            if not isinstance(o.packed, bytearray):
                bad(row, "Part.packed", "bytearray", type(o.packed).__name__)
            shown(row, o)
            continue
        if row["k"] == "packet":
            raw = bytes(rng.randrange(256) for _ in range(row["L"]))
            marker = object()
            pkt = packeting.Packet(stack=marker)
            r = pkt.parse(raw)
            n += 1
            if (r, pkt.size, bytes(pkt.packed)) != (row["rest"], row["len"], raw):
                bad(row, "Packet.parse", (row["rest"], row["len"], tuple(raw)), (r, pkt.size, tuple(pkt.packed)))
            if bytes(pkt.pack()) != raw or pkt.stack is not marker:
                bad(row, "Packet.pack", tuple(raw), tuple(pkt.packed))
            if packeting.PacketPart(packet=pkt).packet is not pkt:
                bad(row, "PacketPart.packet", "the packet", "something else")
            shown(row, pkt)
            continue
        # a chain of parts over raw data of length L
        L, parts, sizes = row["L"], row["parts"], row["sizes"]
        raw = bytearray(rng.randrange(256) for _ in range(L))
        off = 0
        for p, sz in zip(parts, sizes):          # bit fields that do not fill their last byte: the rest is padding (zero)
            bits = sum(p["f"])
            if p["t"] == "packifier" and bits % 8 and off + sz <= L:
                raw[off + sz - 1] &= (0xFF << (8 - bits % 8)) & 0xFF
            off += sz
        for fielded in (False, True):
            objs = []
            for p in parts:
                cls = {(False, "packer"): packeting.PackerPart, (False, "packifier"): packeting.PackifierPart,
                       (True, "packer"): FPacker, (True, "packifier"): FPackifier}[fielded, p["t"]]
                objs.append(cls(fmt=_fmt(p)))
            for o, p, sz in zip(objs, parts, sizes):
                if (o.size, len(o), bytes(o.packed), o.fmt) != (sz, sz, bytes(sz), _fmt(p)):
                    bad(row, "%s.size" % p["t"], (sz, "zeros"), (o.size, len(o), tuple(o.packed), o.fmt))
                if p["t"] == "packifier" and o.fmtSize != sz:
                    bad(row, "packifier.fmtSize", sz, o.fmtSize)
            off = 0
            failed = 0
            slices = []
            for i, (o, sz) in enumerate(zip(objs, sizes), 1):
                rest = raw[off:]
                n += 1
                if bool(o.verifySize(rest)) != row["enough"][i - 1]:
                    bad(row, "%s.verifySize" % parts[i - 1]["t"], row["enough"][i - 1], o.verifySize(rest))
                try:
                    r = o.parse(rest)
                except ValueError:
                    failed = i
                    break
                if r != sz or bytes(o.packed) != bytes(raw[off:off + sz]) or o.size != sz:
                    bad(row, "%s.parse" % parts[i - 1]["t"], (sz, tuple(raw[off:off + sz])), (r, tuple(o.packed)))
                    failed = -1
                    break
                slices.append([off + 1, off + sz])
                off += r
            if failed == -1:
                continue
            if (failed, slices, off) != (row["failed"], row["slices"], row["rest"]):
                bad(row, "chain.parse", (row["failed"], row["slices"], row["rest"]), (failed, slices, off))
                continue
            for o, sz in list(zip(objs, sizes))[len(slices):]:      # the refusing part and those behind it are untouched
                if bytes(o.packed) != bytes(sz):
                    bad(row, "refused part", "unchanged (zeros)", tuple(o.packed))
            for o in objs:
                shown(row, o)
            if fielded:
                joined = b"".join(bytes(o.pack()) for o in objs[:len(slices)])
                n += 1
                if joined != bytes(raw[:off]):
                    bad(row, "chain.pack", tuple(raw[:off]), tuple(joined))
            elif len(parts) == 1:
                # the constructor parses raw data handed to it
                cls = packeting.PackerPart if parts[0]["t"] == "packer" else packeting.PackifierPart
                n += 1
                try:
                    o = cls(fmt=_fmt(parts[0]), raw=raw)
                    got = (0, bytes(o.packed))
                except ValueError:
                    got = (1, None)
                exp = (0, bytes(raw[:sizes[0]])) if row["failed"] == 0 else (1, None)
                if got != exp:
                    bad(row, "%s(raw=)" % parts[0]["t"], exp, got)
    return n


def run_parts(ctx, d):
    env.use_repo()
    from ioflo.aio.proto import packeting
    k = ctx.pick({"MaxRaw": 7, "Widths": [1, 2], "Bits": [3, 8, 12], "MaxFields": 3, "ChainFields": 1, "MaxChain": 3, "Sizes": [0, 2, 3]},
                 {"MaxRaw": 9, "Widths": [1, 2, 4], "Bits": [1, 3, 4, 8, 12], "MaxFields": 3, "ChainFields": 1, "MaxChain": 3,
                  "Sizes": [0, 1, 2, 5]})
    out = d + "/parts.json"
    res = tlc.run("PktParts", parts_cfg(k), spec_dir=SPEC_DIR, extra_env=dict(jvm_env(ctx.quick), TABLE_OUT=out), tag="xpkparts",
                  workers=max(1, env.NCPU // 4), timeout=3000)
    return k, out, res


def finish_parts(ctx, k, out, res):
    import json
    from ioflo.aio.proto import packeting
    ctx.add_model(res, "PktParts", k)
    if not res.ok:
        ctx.diverge(Divergence(PROP, "model", res.error_name or res.error, "PktParts", "lemma violated in the model",
                               steps=[{"action": a, "state": st} for a, st in res.trace]))
        return 0, 0
    table = json.load(open(out))
    kinds = {r["k"] for r in table}
    refused = sum(1 for r in table if r["k"] == "chain" and r["failed"] > 1)
    if kinds != {"chain", "part", "packet"} or not refused:
        raise tlc.TlcError("vacuous parts table: kinds %s, chains refused behind the first part %d" % (sorted(kinds), refused))
    n = replay_parts(ctx, table, packeting)
    ctx.add_validated(len(table), [r for r in table if r["k"] == "chain" and r["failed"] == 2][:1] or table[:1])
    return len(table), n


# ------------------------------------------------------------------ devices table (binding C)
DEV_INVS = ["GivenKept", "AutoFresh", "PlainNext"]
HOSTS = {"numeric": "10.1.2.3", "name": "localhost", "any": "0.0.0.0", "empty": ""}


def run_devices(ctx, d):
    k = ctx.pick({"MaxUid": 4, "MaxPuid": 3}, {"MaxUid": 5, "MaxPuid": 5})
    out = d + "/devices.json"
    cfg = "SPECIFICATION Spec\nCONSTANTS\n  MaxUid = %d\n  MaxPuid = %d\n" % (k["MaxUid"], k["MaxPuid"]) + \
        "".join("INVARIANT %s\n" % p for p in DEV_INVS)
    res = tlc.run("PktDevices", cfg, spec_dir=SPEC_DIR, extra_env=dict(jvm_env(ctx.quick), TABLE_OUT=out), tag="xpkdev",
                  workers=max(1, env.NCPU // 4), timeout=3000)
    return k, out, res


def finish_devices(ctx, k, out, res):
    import json
    from ioflo.aio.proto import devicing, stacking
    ctx.add_model(res, "PktDevices", k)
    if not res.ok:
        ctx.diverge(Divergence(PROP, "model", res.error_name or res.error, "PktDevices", "lemma violated in the model",
                               steps=[{"action": a, "state": st} for a, st in res.trace]))
        return 0, 0
    table = json.load(open(out))

    class IpRemoteStack(stacking.RemoteStack, stacking.IpStack):
        """a stack with remotes and an IP local device, without a handler (no socket)"""
        Port = 7100

    n = 0
    nbad = [0]

    def bad(row, what, exp, got):
        nbad[0] += 1
        if nbad[0] <= 12:
            ctx.diverge(Divergence(PROP, "table-mismatch", row["k"], what, "%s: expected %r got %r" % (
                {k: row[k] for k in row if k in ("family", "given", "puid", "local", "set", "nouids")}, exp, got),
                expected=row, actual=repr(got)))

    def raised(row, what, ex):
        nbad[0] += 1
        if nbad[0] <= 12:
            ctx.diverge(Divergence(PROP, "exception", what, replay.innermost_ioflo_frame(ex.__traceback__),
                                   "%s: %s" % (type(ex).__name__, str(ex)[:160]), expected=row))

    families = {"plain": [(devicing.Device, False), (devicing.LocalDevice, False), (devicing.IpDevice, True), (devicing.IpLocalDevice, True)],
                "remote": [(devicing.RemoteDevice, False), (devicing.IpRemoteDevice, True)],
                "single": [(devicing.SingleRemoteDevice, False), (devicing.IpSingleRemoteDevice, True)]}
    for row in table:
        if row["k"] == "ha":
            for cls in (devicing.IpDevice, devicing.IpLocalDevice, devicing.IpRemoteDevice, devicing.IpSingleRemoteDevice):
                what = "%s.ha" % cls.__name__
                try:
                    st = IpRemoteStack(uid=1, name="local", ha=("127.0.0.1", 7100))
                    kw = {} if row["given"] == "none" else {"ha": (HOSTS[row["given"]], 7055)}
                    dev = cls(stack=st, name="dev", **kw)
                    n += 1
                    exp = (HOSTS["numeric"] if row["host"] == "same" else "127.0.0.1", st.Port if row["port"] == "stack" else 7055)
                    if tuple(dev.ha) != exp or (dev.host, dev.port) != exp:
                        bad(row, what, exp, (dev.ha, dev.host, dev.port))
                        continue
                    # "Setter for host property" / "Setter for port property"
                    what = "host setter"
                    dev.host = "10.9.8.7"
                    if (dev.host, dev.port, tuple(dev.ha)) != ("10.9.8.7", exp[1], ("10.9.8.7", exp[1])):
                        bad(row, "%s.host setter" % cls.__name__, ("10.9.8.7", exp[1]), dev.ha)
                    what = "port setter"
                    dev.port = 7066
                    if (dev.host, dev.port, tuple(dev.ha)) != ("10.9.8.7", 7066, ("10.9.8.7", 7066)):
                        bad(row, "%s.port setter" % cls.__name__, ("10.9.8.7", 7066), dev.ha)
                except Exception as ex:
                    raised(row, what, ex)
            continue
        for cls, ip in families[row["family"]]:
            try:
                base = IpRemoteStack if ip else stacking.RemoteStack
                st = base(uid=row["local"], name="local", puid=row["puid"], **({"ha": ("127.0.0.1", 7100)} if ip else {"ha": "local"}))
                if (st.local.uid, st.puid) != (row["local"], row["puid"]):
                    bad(row, "stack", (row["local"], row["puid"]), (st.local.uid, st.puid))
                    continue
                kw = {}
                if row["family"] == "remote":
                    for u in row["set"]:
                        st.addRemote(devicing.RemoteDevice(stack=st, uid=u, name="r%d" % u, ha=("10.0.0.%d" % u, 7000 + u) if ip else "h%d" % u))
                    if st.puid != row["puid"]:
                        bad(row, "stack.puid", row["puid"], st.puid)
                        continue
                elif row["family"] == "single" and not row["nouids"]:
                    kw["uids"] = (set, tuple, list)[len(row["set"]) % 3](row["set"])
                if row["given"]:
                    kw["uid"] = row["given"]
                dev = cls(stack=st, name="dev", **kw)
                n += 1
                if (dev.uid, st.puid) != (row["uid"], row["puidAfter"]):
                    bad(row, "%s.uid" % cls.__name__, (row["uid"], row["puidAfter"]), (dev.uid, st.puid))
                if dev.stack is not st or dev.name != "dev":
                    bad(row, "%s attributes" % cls.__name__, "stack and name as given", (dev.stack, dev.name))
                if row["family"] == "single" and not row["nouids"]:
                    # documented attribute ".uids is sequence or set of used uids to not use for remote"
                    got = getattr(dev, "uids", "(no attribute uids)")
                    if got == "(no attribute uids)" or not set(row["set"]) <= set(got):
                        bad(row, "%s.uids" % cls.__name__, sorted(row["set"]), got if isinstance(got, str) else sorted(got))
            except Exception as ex:
                raised(row, "%s()" % cls.__name__, ex)
    ctx.add_validated(len(table), table[len(table) // 2])
    return len(table), n


def run(ctx):
    ctx.rule = ("PktLayer.tla: complete state graphs (transmit side, receive side, both; static and changing remotes) of the "
                "message/packet queues of a stack with remotes, every service call an action, receptions well formed / "
                "truncated / from an unknown source; every edge replayed on a real UdpStack over a datagram socket double "
                "with a packet class built from the library's parts (queues, wire, attributed remotes and counters compared "
                "after every step).  PktParts.tla / PktDevices.tla: every case of the grids is a state, TLC checks the lemmas and "
                "emits the tables, every row replayed on the real part / packet / device classes.  distinct = graph edges + "
                "table rows")
    ctx.assume("TLC, vf/doubles_net.py, the packet class built from PackerPart / PackifierPart / PacketPart in "
               "vf/families/packeting.py and the projection functions are trusted")
    ctx.assume("the handler accepts every packet offered (transient failures and partial sends: C35, C36)")
    d = env.subdir("xpk")
    with ThreadPoolExecutor(max_workers=2) as ex:
        fp = ex.submit(run_parts, ctx, d)
        fd = ex.submit(run_devices, ctx, d)
        total, cov, nsteps = run_layer(ctx, d)
        probe_gram(ctx)
        t0 = time.time()
        prow, pn = finish_parts(ctx, *fp.result())
        drow, dn_ = finish_devices(ctx, *fd.result())
        ctx.extra["phase_s"]["tables"] = round(time.time() - t0, 1)
    ctx.exhaustive = (cov == total and total > 0 and prow > 0 and drow > 0)
    ctx.extra.update({"graph_edges": total, "edges_replayed": cov, "parts_rows": prow, "devices_rows": drow,
                      "distinct_nontrivial": cov + prow + drow, "evaluations": nsteps + pn + dn_})


EXTRAS = {"packeting": run}
