"""C16 - script layout does not change what is built (specs/build/Layout.tla, LayoutCases.tla).

A. For small complete programs (one of them in two files: a `load` command pulls in the second, whose last command may be
   split before a connective, end in a comment, a blank line or a backslash continuation) TLC enumerates every layout reachable with MaxActs layout actions (indent, backslash
   split, connective split, blank / comment line, trailing comment) and checks Join(lines) = Cmds on each; deeper
   layouts are drawn at random with the same actions and judged by TLC as in B.  Every layout is printed as text, built with the real Builder and run for 6 ticks
   with the real Skedder; the projected house (before and after link resolution), the recorded run and the word lists
   given to Builder.dispatch must equal those of the canonical layout.
B. The example plans that build stand-alone are re-laid out at random with the same actions (implemented here); the
   layouts together with the word lists the real Builder dispatched are handed to TLC (LayoutCases.tla), which checks
   them against the documented reading Join; the built houses must equal the canonical layout's.
"""
import glob
import json
import os
import random
import zlib
from concurrent.futures import ProcessPoolExecutor

from .. import env, tlc
from ..replay import Divergence
from . import _bscript as B

SPEC_DIR = env.SPECS + "/build"
ACTIONS = ["AnyIndent", "AnySplitBackslash", "AnySplitConnective", "AnyInsertBlank", "AnyInsertComment", "AnyTrailComment"]
RESERVED = {"to", "by", "with", "from", "per", "for", "cum", "qua", "via", "as", "at", "in", "of", "on", "re", "is", "if", "be",
            "into", "and", "not", "+-", "==", "<", "<=", ">=", ">", "!="}
INDENTS = {0: "", 1: "  ", 2: "      ", 3: "\t"}
TRAIL = "  # trailing: it's a \"comment\" # with marks"
COMMENT = "# comment line 'single \"double # hash"

# small complete programs (one command per entry, words as written); they run for 6 ticks of 1/8 s
SUBFILE = "vfsub.flo"
# a plan in two files: the commands after `load` continue the framer the loaded file works on
LOADED_SUB = ['go next if elapsed >= 0.125', 'frame f2', 'do vfrec at enter with tag "t2"', 'go f3 if elapsed >= 0.125',
              'put 3 into .a.b of root']
PROGRAMS = {
    "loaded": [
        'house hl', 'framer fm be active at 0.125 first f1', 'frame f1', 'do vfrec at recur with tag "t # 1"',
        'load ' + SUBFILE, 'frame f3', 'bid stop me'],
    "compact": [
        'house hl', 'init .a.b with value 1', 'framer fm be active at 0.125 first f1',
        'frame f1', 'do vfrec at recur with tag "t # 1"', 'put 3 into .a.b of root',
        'go next if .a.b == 3 and elapsed >= 0.125',
        'frame f2', 'do vfrec at enter with tag "t2"', 'bid stop me'],
    "transitions": [
        'house hl', 'init .a.b with value 1', 'init .a.msg with value "x # y"',
        'framer fm be active at 0.125 first f1',
        'frame f0', 'do vfrec at enter with tag "t # 0"', 'go f2 if elapsed >= 0.25',
        'frame f1 in f0', 'do vfrec at recur with tag "t1"', 'put 3 into .a.b',
        'go next if .a.b == 3 and elapsed >= 0.125',
        'frame f2', 'do vfrec at enter with tag "t2"', 'inc .a.b with 2', 'bid stop me'],
    "auxiliaries": [
        'house hl', 'init .c.n with value 0',
        'framer ax be aux first a1', 'frame a1', 'do vfrec at enter with tag "a1"', 'recur', 'inc .c.n with 1', 'native',
        'go a2 if .c.n >= 2', 'frame a2', 'do vfrec at enter with tag "a2"', 'done me',
        'framer fm be active at 0.125 in front first m1',
        'frame m1', 'aux ax if .c.n of root >= 0', 'do vfrec at exit with tag "m1x"', 'go m2 if elapsed >= 0.25',
        'frame m2', 'let me if .c.n == 2 +- 1', 'do vfrec at enter with tag "m2"', 'print done "and # dusted"',
        'set .c.n with 7', 'copy .c.n into .c.m', 'timeout 0.125',
        'frame m3', 'do vfrec at enter with tag \'m 3\'', 'bid stop all'],
}


def words(cmd):
    """split one written command into words (quoted strings stay whole)"""
    out, cur, q = [], "", None
    for ch in cmd:
        if q:
            cur += ch
            if ch == q:
                q = None
        elif ch in "\"'":
            cur += ch
            q = ch
        elif ch == " ":
            if cur:
                out.append(cur)
            cur = ""
        else:
            cur += ch
    if cur:
        out.append(cur)
    return out


def render(lines):
    out = []
    for l in lines:
        ind = INDENTS[l["ind"]]
        if l["kind"] == "blank":
            out.append(ind)
        elif l["kind"] == "comment":
            out.append(ind + COMMENT)
        else:
            s = ind + " ".join(l["toks"])
            if l["bs"]:
                s += " \\"
            if l["tc"]:
                s += TRAIL
            out.append(s)
    return "\n".join(out) + "\n"


def splice(cmds, subcmds):
    """the commands the builder is handed: those of the loaded file follow the load command"""
    if not subcmds:
        return list(cmds)
    k = next(i for i, c in enumerate(cmds) if c[0] == "load")
    return list(cmds[:k + 1]) + list(subcmds) + list(cmds[k + 1:])


def canonical(cmds):
    return [{"kind": "code", "toks": list(c), "ind": 0, "bs": False, "tc": False} for c in cmds]


def random_layout(rng, cmds, nacts):
    """the layout actions of Layout.tla applied at random (for scripts too large to enumerate)"""
    lines = canonical(cmds)
    done = 0
    tries = 0
    while done < nacts and tries < nacts * 20:
        tries += 1
        a = rng.randrange(6)
        i = rng.randrange(len(lines))
        l = lines[i]
        if a == 0:
            k = rng.randrange(4)
            if l["ind"] == k:
                continue
            l["ind"] = k
        elif a in (1, 2):
            if l["kind"] != "code" or len(l["toks"]) < 2:
                continue
            if a == 1:
                j = rng.randrange(1, len(l["toks"]))
            else:
                cand = [j for j in range(1, len(l["toks"])) if l["toks"][j] in RESERVED]
                if not cand or l["toks"][0] == "load":
                    continue
                j = rng.choice(cand)
            first = {"kind": "code", "toks": l["toks"][:j], "ind": l["ind"], "bs": a == 1, "tc": False}
            second = {"kind": "code", "toks": l["toks"][j:], "ind": 0, "bs": l["bs"], "tc": l["tc"]}
            lines[i:i + 1] = [first, second]
        elif a in (3, 4):
            pos = rng.randrange(len(lines) + 1)
            if pos > 0 and lines[pos - 1]["bs"]:
                continue
            lines.insert(pos, {"kind": "blank" if a == 3 else "comment", "toks": [], "ind": 0, "bs": False, "tc": False})
        else:
            if l["kind"] != "code" or l["bs"] or l["tc"]:
                continue
            l["tc"] = True
        done += 1
    return lines


def _prog():
    return {"tick": 2, "shares": {}}


def _digest(x):
    return "%08x:%d" % (zlib.crc32(x.encode()), len(x))


def eval_layout(text, run=True, full=False):
    """build (projection + dispatched words), then build again and run 6 ticks recording the events.
    house / events are digests unless full (thousands of layouts are compared; the reference keeps the text).
    text is the script, or (script, text of the loaded file SUBFILE)"""
    files = None
    if isinstance(text, (tuple, list)):
        text, subtext = text
        files = {SUBFILE: subtext}
    r = B.build(text, want_dispatch=True, files=files)
    house = json.dumps([r["pre"], r["post"]], sort_keys=True, default=repr)
    res = {"outcome": r["outcome"], "etype": r["etype"], "msg": r["msg"][:300], "where": r["where"], "dispatch": r["dispatch"],
           "house": house if full else _digest(house), "events": None}
    if run and r["outcome"] == "built":
        from ..flo import run as florun
        wd = None
        if files:
            wd = os.path.join(env.subdir("c16run"), "d%d" % os.getpid())
            os.makedirs(wd, exist_ok=True)
            with open(os.path.join(wd, SUBFILE), "w") as f:
                f.write(files[SUBFILE])
        rr = florun.run(_prog(), script=text, max_ticks=6, workdir=wd)
        ev = json.dumps([rr["events"], rr["error"], rr.get("statuses")], sort_keys=True, default=repr)
        res["events"] = ev if full else _digest(ev)
    return res


def _chunk(args):
    texts, run, cmds = args
    out = []
    for t in texts:
        r = eval_layout(t, run)
        if cmds is not None and r["dispatch"] == cmds:
            r["dispatch"] = True        # read as written (saves memory: thousands of layouts)
        out.append(r)
    return out


def pmap(texts, run, nproc, cmds=None):
    if nproc <= 1 or len(texts) < 200:
        return _chunk((texts, run, cmds))
    size = max(40, len(texts) // (nproc * 8))
    chunks = [(texts[i:i + size], run, cmds) for i in range(0, len(texts), size)]
    out = []
    with ProcessPoolExecutor(max_workers=nproc) as ex:
        for part in ex.map(_chunk, chunks):
            out.extend(part)
    return out


def describe(lines, cmds):
    """which layout features a layout uses (for reports)"""
    d = []
    if any(l["ind"] for l in lines):
        d.append("indent")
    if any(l["bs"] for l in lines):
        d.append("backslash")
    if sum(1 for l in lines if l["kind"] == "code") > len(cmds) + sum(1 for l in lines if l["bs"]):
        d.append("connective-continuation")
    if any(l["kind"] == "blank" for l in lines):
        d.append("blank")
    if any(l["kind"] == "comment" for l in lines):
        d.append("comment-line")
    if any(l["tc"] for l in lines):
        d.append("trailing-comment")
    return "+".join(d) or "canonical"


def compare(ctx, name, cmds, lines, ref, got, text):
    what = describe(lines, cmds)
    step = [{"layout": what, "script": text}]
    if got["outcome"] != ref["outcome"] or got["etype"] != ref["etype"]:
        if got["outcome"] == "error" and got["etype"] not in B.SCRIPT_ERRORS:
            ctx.diverge(Divergence("C16", "exception", what, got["where"], "%s: %s" % (got["etype"], got["msg"][:160]), steps=step,
                                   expected=ref["outcome"], actual=got["etype"], extra={"program": name}))
        else:
            ctx.diverge(Divergence("C16", "state-mismatch", what, "outcome", "canonical layout %s, this layout %s %s" % (
                ref["outcome"], got["etype"] or got["outcome"], " ".join(got["msg"].split())[:160]), steps=step,
                expected=ref["outcome"], actual=got["etype"] or got["outcome"], extra={"program": name}))
        return False
    if got["dispatch"] is True:
        got = dict(got, dispatch=cmds)
    if got["dispatch"] != ref["dispatch"]:
        k = next((i for i, (a, b) in enumerate(zip(got["dispatch"], ref["dispatch"])) if a != b), min(len(got["dispatch"]), len(ref["dispatch"])))
        ctx.diverge(Divergence("C16", "state-mismatch", what, "dispatch", "command %d read as %r, documented reading %r" % (
            k + 1, got["dispatch"][k] if k < len(got["dispatch"]) else None, ref["dispatch"][k] if k < len(ref["dispatch"]) else None),
            steps=step, expected=ref["dispatch"], actual=got["dispatch"], extra={"program": name}))
        return False
    if got["house"] != ref["house"]:
        detail = first_difference(text, ref.get("text"), "house")
        ctx.diverge(Divergence("C16", "state-mismatch", what, "house", "built house differs from the canonical layout's: %s" % detail,
                               steps=step, extra={"program": name}))
        return False
    if got["events"] != ref["events"]:
        detail = first_difference(text, ref.get("text"), "events")
        ctx.diverge(Divergence("C16", "state-mismatch", what, "run", "recorded 6-tick run differs from the canonical layout's: %s" % detail,
                               steps=step, extra={"program": name}))
        return False
    return True


def first_difference(text, reftext, key):
    """rebuild both layouts in this process and name the first differing element"""
    if reftext is None:
        return "?"
    a = eval_layout(reftext, run=(key == "events"), full=True)[key]
    b = eval_layout(text, run=(key == "events"), full=True)[key]
    a, b = json.loads(a) if a else None, json.loads(b) if b else None

    def diff(x, y, path):
        if type(x) != type(y):
            return "%s: %r vs %r" % (path, x, y)
        if isinstance(x, dict):
            for k in sorted(set(x) | set(y)):
                if k not in x or k not in y:
                    return "%s.%s: %r vs %r" % (path, k, x.get(k, "<absent>"), y.get(k, "<absent>"))
                d = diff(x[k], y[k], path + "." + k)
                if d:
                    return d
            return None
        if isinstance(x, list):
            if len(x) != len(y):
                return "%s: %d vs %d elements" % (path, len(x), len(y))
            for i, (p, q) in enumerate(zip(x, y)):
                d = diff(p, q, "%s[%d]" % (path, i))
                if d:
                    return d
            return None
        return None if x == y else "%s: %r vs %r" % (path, x, y)
    return (diff(a, b, key) or "?")[:300]


def emitted(res):
    return B.emitted_json(res.out)


def cfg_text(maxacts, emit="all"):
    s = open(SPEC_DIR + "/Layout.cfg").read()
    return s.replace("MaxActs = 2", "MaxActs = %d" % maxacts).replace('Emit = "none"', 'Emit = "%s"' % emit)


def plans():
    out = []
    for p in sorted(glob.glob(os.path.join(env.REPO, "ioflo", "app", "plan", "*.flo"))):
        text = open(p).read()
        if any(l.split()[:1] == ["load"] for l in text.splitlines()):
            continue        # loads another file relative to its own directory
        out.append((os.path.basename(p), text))
    return out


def run_c16(ctx):
    ctx.rule = ("A: every layout reachable with MaxActs layout actions from the canonical layout of small complete programs "
                "(TLC exhaustive) plus seeded random deeper layouts judged by TLC (LayoutCases); B: seeded random layouts of the example plans, "
                "validated by TLC against the documented reading; distinct = distinct layouts built")
    B.install()
    work = env.subdir("c16")
    nproc = min(env.NCPU, 8)
    total = nexh = 0
    # ---------------- A
    rng = random.Random(ctx.seed)
    cases = []
    maxacts = 2
    for name, prog in PROGRAMS.items():
        # exhaustive enumeration: the two-file program `loaded` always, `compact` and `transitions` in the thorough tier;
        # `auxiliaries` (30 commands, tens of thousands of two-action layouts) only by random deeper layouts
        depth_only = name == "auxiliaries" or (ctx.quick and name != "loaded")
        cmds = [words(c) for c in prog]
        subcmds = [words(c) for c in LOADED_SUB] if name == "loaded" else []
        full = splice(cmds, subcmds)          # what the builder is to be handed
        inp = os.path.join(work, name + ".json")
        with open(inp, "w") as f:
            json.dump({"cmds": cmds, "sub": subcmds}, f)
        layouts = []
        if not depth_only:
            # every distinct state prints its layout once
            res, rows = B.run_emitting(lambda w: tlc.run("Layout", cfg_text(maxacts), spec_dir=SPEC_DIR, extra_env={"LAYOUT_INPUT": inp},
                                                         tag="c16" + name, workers=w),
                                       lambda r: r.distinct, "Layout/" + name)
            ctx.add_model(res, "Layout/" + name, {"MaxActs": maxacts, "commands": len(cmds), "commands_loaded_file": len(subcmds)})
            if not res.ok:
                ctx.diverge(Divergence("C16", "model", res.error_name or res.error, "Layout", "specification property violated in the model",
                                       steps=[{"action": a, "state": s} for a, s in res.trace]))
                return
            tlc.require_coverage(res, ACTIONS, "Layout/" + name)
            layouts = [{"lines": r["lines"], "sub": r["sub"]} for r in rows]
            nexh += len(layouts)
        # deeper layouts: the same actions applied at random here; TLC judges below (LayoutCases) that each is a layout
        # of the program by the documented reading
        ndeep = ctx.pick(120, 2500)
        deep = [{"lines": random_layout(rng, cmds, rng.randint(2, 12)),
                 "sub": random_layout(rng, subcmds, rng.randint(1, 8)) if subcmds else []} for _ in range(ndeep)]
        seen = set()
        uniq = []
        for l in layouts + deep:
            k = json.dumps(l, sort_keys=True)
            if k not in seen:
                seen.add(k)
                uniq.append(l)

        def text_of(l):
            return (render(l["lines"]), render(l["sub"])) if subcmds else render(l["lines"])

        texts = [text_of(l) for l in uniq]
        reftext = text_of({"lines": canonical(cmds), "sub": canonical(subcmds)})
        ref = eval_layout(reftext)
        ref["text"] = reftext
        if ref["outcome"] != "built" or ref["dispatch"] != full:
            # one command per line, no indentation: the documented reading is the script itself
            k = next((i for i, (a, b) in enumerate(zip(ref["dispatch"] or [], full)) if a != b), 0)
            ctx.diverge(Divergence("C16", "state-mismatch", "canonical", "dispatch" if ref["outcome"] == "built" else "outcome",
                                   "the canonical layout of program %s is not read as written: %s %s command %d read as %r" % (
                                       name, ref["etype"] or ref["outcome"], " ".join(ref["msg"].split())[:120], k + 1,
                                       (ref["dispatch"] or [None] * (k + 1))[k] if k < len(ref["dispatch"] or []) else None),
                                   steps=[{"script": ref["text"]}], expected=full, actual=ref["dispatch"]))
            continue
        if "Rec" not in eval_layout(ref["text"], full=True)["events"]:
            raise tlc.TlcError("C16 vacuous: the run of program %s records nothing" % name)
        results = pmap(texts, True, nproc, full)
        for l, t, r in zip(uniq, texts, results):
            compare(ctx, name, full, l["lines"] + l["sub"], ref, r, t)
        for l, r in list(zip(uniq, results))[len(layouts):]:
            cases.append({"lines": l["lines"], "cmds": cmds, "sub": l["sub"], "subcmds": subcmds,
                          "dispatched": full if r["dispatch"] is True else (r["dispatch"] or [])})
        total += len(uniq)
        mid = uniq[len(uniq) // 2]
        ctx.add_validated(len(uniq), {"program": name, "layout": describe(mid["lines"] + mid["sub"], full), "text": str(texts[len(uniq) // 2])[:400]})
    # ---------------- B
    per_plan = ctx.pick(12, 150)
    nplans = 0
    for fname, text in plans():
        orig = eval_layout(text, run=False)
        if orig["outcome"] != "built":
            continue
        nplans += 1
        cmds = orig["dispatch"]
        ref = eval_layout(render(canonical(cmds)), run=False)
        ref["text"] = render(canonical(cmds))
        orig["text"] = text
        # the plan as its authors laid it out against its canonical layout
        compare(ctx, fname + ":as-written", cmds, canonical(cmds), orig, ref, render(canonical(cmds)))
        lays = [random_layout(rng, cmds, rng.randint(3, 4 + len(cmds) // 2)) for _ in range(per_plan)]
        texts = [render(l) for l in lays]
        results = pmap(texts, False, nproc)
        for l, t, r in zip(lays, texts, results):
            compare(ctx, fname, cmds, l, ref, r, t)
            cases.append({"lines": l, "cmds": cmds, "sub": [], "subcmds": [], "dispatched": r["dispatch"] or []})
        total += len(lays)
    if nplans < 20 and not ctx.divs:
        raise tlc.TlcError("C16 vacuous: only %d example plans build stand-alone" % nplans)
    # TLC decides whether every random layout is a layout of its script and was read as documented
    bad = validate_cases(ctx, cases, work)
    for (i, name) in bad[:10]:
        c = cases[i]
        ctx.diverge(Divergence("C16", "rejected", name, "LayoutCases", "layout %d: %s" % (
            i, "the harness layout is not a layout of the script (harness error)" if name == "CaseLayoutOK" else
            "the words dispatched by the Builder are not the documented reading of the lines"),
            steps=[{"script": render(c["lines"]), "loaded_file": render(c["sub"]) if c["sub"] else ""}],
            expected=splice(c["cmds"], c["subcmds"]), actual=c["dispatched"]))
    ctx.add_validated(len(cases) - len(bad), {"plan_layout": render(cases[len(cases) // 2]["lines"])[:400]})
    ctx.exhaustive = False
    ctx.extra.update({"layouts_built": total, "exhaustive_layouts": nexh, "plans": nplans, "plan_layouts": len(cases),
                      "evaluations": total, "distinct_nontrivial": total})
    ctx.assume("the two-file program names its loaded file relative to its own directory; both files are laid out independently")
    ctx.assume("a comment is never put before a backslash continuation and no line is inserted directly after a backslash line "
               "(by the documented reading those change the script); load commands are not continued")


def validate_cases(ctx, cases, work):
    """TLC judges every case; returns [(case index, violated condition)]"""
    bad = []
    batch = 500
    for b0 in range(0, len(cases), batch):
        part = cases[b0:b0 + batch]
        inp = os.path.join(work, "cases%d.json" % b0)
        with open(inp, "w") as f:
            json.dump({"cmds": [["house", "x"]], "cases": part}, f)
        res = tlc.run("LayoutCases", SPEC_DIR + "/LayoutCases.cfg", spec_dir=SPEC_DIR, extra_env={"LAYOUT_INPUT": inp},
                      tag="c16cases", coverage=False, workers=1)
        ctx.add_model(res, "LayoutCases", {"cases": len(part)})
        if not res.ok:
            raise tlc.TlcError("LayoutCases failed: %s %s" % (res.error, res.error_name))
        verdicts = {v[1]: (v[2], v[3]) for v in tlc.printed_values(res.out) if len(v) == 4 and v[0] == "CASE"}
        if len(verdicts) != len(part):
            raise tlc.TlcError("LayoutCases: %d cases given, %d verdicts" % (len(part), len(verdicts)))
        for kk, (lay, dis) in sorted(verdicts.items()):
            if not lay:
                bad.append((b0 + kk - 1, "CaseLayoutOK"))
            elif not dis:
                bad.append((b0 + kk - 1, "CaseDispatchOK"))
    return bad


PROPERTIES = {"C16": run_c16}
