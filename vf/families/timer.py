"""C42 - timers (specs/aid/Timer.tla, TimerTrace.tla).

Shows both bindings on one specification:
  A. the complete state graph (clock readings are actions of the model) is replayed on real timers under a scripted clock;
  B. seeded random histories are executed on real timers, logged as events, and TLC decides whether each recorded
     execution is a behaviour of the specification (TimerTrace.tla).
"""
import random

from .. import env, graph, replay, tlc, trace
from ..replay import Divergence

SPEC_DIR = env.SPECS + "/aid"
FLAVORS = ("wall", "store", "mono", "strict")
NOARG = -1


class FakeTime:
    """stands in for the `time` module inside ioflo.aid.timing"""

    def __init__(self):
        self.now = 0.0

    def time(self):
        return self.now


class FakeStore:
    def __init__(self):
        self.stamp = 0.0


def cfg_text(flavor, maxclock, props=True):
    s = 'SPECIFICATION Spec\nCONSTANTS\n  Flavor = "%s"\n  MaxClock = %d\n  Durations = {0, 2}\nCONSTRAINT Bound\n' % (flavor, maxclock)
    if props:
        s += "INVARIANT StopIsStartPlusDuration\nINVARIANT NonNegative\nPROPERTY MonoProgress\nPROPERTY StrictRaises\n"
    return s


class TimerAdapter:
    def __init__(self, flavor, clock, duration):
        env.use_repo()
        from ioflo.aid import timing
        from ioflo.base import excepting
        self.timing = timing
        self.Retro = excepting.TimerRetroError
        self.flavor = flavor
        self.ft = FakeTime()
        self.ft.now = float(clock)
        self.real_time = timing.time
        timing.time = self.ft
        try:
            if flavor == "wall":
                self.t = timing.Timer(duration=float(duration))
            elif flavor == "store":
                self.store = FakeStore()
                self.store.stamp = float(clock)
                self.t = timing.StoreTimer(self.store, duration=float(duration))
            else:
                self.t = timing.MonoTimer(duration=float(duration), retro=(flavor == "mono"))
        finally:
            timing.time = self.real_time

    def project(self, res=None):
        t = self.t
        out = {"start": _i(t.start), "stop": _i(t.stop), "duration": _i(t.duration)}
        if self.flavor in ("mono", "strict"):
            out["latest"] = _i(t.latest)
        if res is not None:
            out["res"] = res
        return out

    def call(self, name, args):
        """perform one operation; returns the spec-shaped result"""
        t = self.t
        self.timing.time = self.ft
        try:
            try:
                if name == "Clock":
                    self.ft.now = float(args[0])
                    if self.flavor == "store":
                        self.store.stamp = float(args[0])
                    return None
                if name == "Elapsed":
                    return {"t": "num", "v": _i(t.elapsed)}
                if name == "Remaining":
                    return {"t": "num", "v": _i(t.remaining)}
                if name == "Expired":
                    return {"t": "bool", "v": t.expired}
                if name == "Repeat":
                    r = t.repeat()
                elif name == "Restart":
                    kw = {}
                    if args[0] != NOARG:
                        kw["start"] = float(args[0])
                    if args[1] != NOARG:
                        kw["duration"] = float(args[1])
                    r = t.restart(**kw)
                elif name == "Extend":
                    r = t.extend() if args[0] == NOARG else t.extend(float(args[0]))
                else:
                    raise NotImplementedError(name)
                return {"t": "pair", "v": (_i(r[0]), _i(r[1]))}
            except self.Retro:
                return {"t": "err", "e": "TimerRetroError"}
        finally:
            self.timing.time = self.real_time

    def step(self, name, args, expected):
        res = self.call(name, args)
        out = self.project(res)
        if name == "Clock":
            out.pop("res", None)
        return out


def _i(x):
    """timers compute in floats; the model in integers: integral floats map back exactly"""
    if isinstance(x, float) and x == int(x):
        return int(x)
    return x


def _random_trace(rng, flavor, n):
    clock = rng.randint(10, 12)
    dur = rng.choice([0, 2])
    ad = TimerAdapter(flavor, clock, dur)
    evs = [{"ev": "Init", "clock": clock, "duration": dur}]
    for _ in range(n):
        c = rng.random()
        if c < 0.35:
            # forward steps mostly, sometimes standstill or a backward jump
            d = rng.choice([1, 1, 2, 0, -1, -2, 3])
            clock = max(5, clock + d)
            ad.call("Clock", (clock,))
            evs.append({"ev": "Clock", "c": clock})
            continue
        if c < 0.5:
            name, args, extra = "Elapsed", (), {}
        elif c < 0.6:
            name, args, extra = "Remaining", (), {}
        elif c < 0.7:
            name, args, extra = "Expired", (), {}
        elif c < 0.8:
            name, args, extra = "Repeat", (), {}
        elif c < 0.9:
            s, d = rng.choice([NOARG, 11, 13, 16]), rng.choice([NOARG, 0, 2, 4])
            name, args = "Restart", (s, d)
            extra = {k: v for k, v in (("s", s), ("d", d)) if v != NOARG}
        else:
            x = rng.choice([NOARG, -1, 2, 1])
            name, args = "Extend", (x,)
            extra = {} if x == NOARG else {"x": x}
        res = ad.call(name, args)
        e = {"ev": name, "res": res}
        e.update(extra)
        p = ad.project()
        e.update({"start": p["start"], "stop": p["stop"], "duration": p["duration"]})
        evs.append(e)
    return evs


def _jsonable(evs):
    out = []
    for e in evs:
        e = dict(e)
        if "res" in e and isinstance(e["res"], dict) and isinstance(e["res"].get("v"), tuple):
            e["res"] = {"t": e["res"]["t"], "v": list(e["res"]["v"])}
        out.append(e)
    return out


def run_c42(ctx):
    ctx.rule = ("A: complete state graphs of Timer.tla per flavour (clock readings incl. backward jumps are model actions), every "
                "edge replayed on the real timer under a scripted clock; B: seeded random histories of the real timers validated "
                "by TLC against TimerTrace.tla; distinct = graph edges + accepted traces")
    total = cov = 0
    maxclock = ctx.pick(3, 5)
    for fl in FLAVORS:
        # model checking with the larger clock range
        res = tlc.run("Timer", cfg_text(fl, maxclock + 1), spec_dir=SPEC_DIR, tag="c42mc" + fl)
        ctx.add_model(res, "Timer/" + fl, {"MaxClock": maxclock + 1})
        if not res.ok:
            ctx.diverge(Divergence("C42", "model", res.error_name or res.error, "Timer/" + fl, "specification property violated in the model",
                                   steps=[{"action": a, "state": s} for a, s in res.trace]))
            continue
        tlc.require_coverage(res, ["Clock", "Elapsed", "Remaining", "Expired", "Restart", "Repeat", "Extend"], "Timer/" + fl)
        # binding A
        dot = env.subdir("c42") + "/%s.dot" % fl
        res = tlc.run("Timer", cfg_text(fl, maxclock, props=False), spec_dir=SPEC_DIR, dump_dot=dot, tag="c42g" + fl, coverage=False)
        ctx.add_model(res, "Timer-graph/" + fl, {"MaxClock": maxclock})
        g = graph.load_dot(dot)
        paths = graph.edge_cover(g, max_len=80)
        traces = replay.graph_paths_to_traces(g, paths)
        n, divs = replay.replay("C42", traces, lambda init, fl=fl: TimerAdapter(fl, init["clock"], init["duration"]))
        for d in divs:
            d.where = "%s:%s" % (fl, d.where)
        ctx.diverge(divs)
        total += g.nedges
        cov += graph.covered_edges(paths)
        ctx.add_validated(len(traces), {"flavor": fl, "path": [s[0] for s in traces[len(traces) // 2]][:30]})
    # binding B
    rng = random.Random(ctx.seed)
    ntr = ctx.pick(300, 4000)
    acc = 0
    for fl in FLAVORS:
        trs = [_jsonable(_random_trace(rng, fl, rng.randint(10, 40))) for _ in range(ntr)]
        cfg = ('SPECIFICATION TraceSpec\nCONSTANTS\n  Flavor = "%s"\n  MaxClock = 1000\n  Durations = {0}\n'
               'CONSTRAINT TraceOK\nINVARIANT StopIsStartPlusDuration\nINVARIANT NonNegative\nCHECK_DEADLOCK FALSE\n' % fl)
        out = trace.validate("TimerTrace", cfg, SPEC_DIR, trs, batch=500)
        ctx.states += out.states
        ctx.transitions += out.generated
        acc += len(out.accepted)
        ctx.add_validated(len(out.accepted), {"flavor": fl, "trace": trs[0][:8]})
        for i, pref in sorted(out.rejected.items())[:10]:
            ev = trs[i][pref] if 0 <= pref < len(trs[i]) else {}
            ctx.diverge(Divergence("C42", "rejected", ev.get("ev", "?"), "%s:trace" % fl,
                                   "recorded execution is not a behaviour of Timer.tla at event %d: %r" % (pref + 1, ev),
                                   steps=trs[i][:pref + 1]))
        for (i, err, name, tr) in out.model_errors[:5]:
            ctx.diverge(Divergence("C42", "rejected", name or err, "%s:trace-invariant" % fl, "invariant %s violated on a recorded execution" % name,
                                   steps=trs[i]))
    ctx.exhaustive = (cov == total)
    ctx.extra.update({"graph_edges": total, "edges_replayed": cov, "random_traces_accepted": acc,
                      "distinct_nontrivial": cov + acc, "evaluations": cov + 4 * ntr})


PROPERTIES = {"C42": run_c42}
