"""C34 - redirects are followed safely to the final response (specs/http/Redirect.tla).

TLC checks Redirect.tla (NeverDowngrade, ReconnectIffTargetDiffers, ChainInOrder, ChainDelivered,
ExactlyOneFinalResponse ...) over all chains of at most MaxHops redirects between the origins
{http, https} x {h1, h2} x {default port, other port} with Locations of the shapes absolute / scheme-relative /
path-absolute / path-relative, with and without query.  Binding A: behaviours of the specification (every edge of the
one-hop graph; TLC -simulate for the longer chains) are replayed on a real `Patron` and one real `Valet` per origin,
joined by in-memory connections (vf/families/_httppair.py; https origins are ServerTls / ClientTls over TLS doubles).
The WSGI applications hold every request until the behaviour says how it is answered.  Compared after every step:
which origin saw the request, its path, query and Host header, whether it travelled over a wrapped connection on both
sides, how many connections the client has opened and how many requests it sent, the redirect responses collected so
far, the final response and its chain.
"""
import random
import re

from .. import env, graph, replay, tlc
from ..replay import Divergence
from . import _httppair as P

SPEC_DIR = env.SPECS + "/http"
HOSTS = {"h1": "127.0.0.1", "h2": "127.0.0.2", "h3": "127.0.0.3"}
NAMES = {v: k for k, v in HOSTS.items()}
REASONS = {301: "Moved Permanently", 302: "Found", 303: "See Other", 307: "Temporary Redirect", 308: "Permanent Redirect"}
ACTIONS = ["Issue", "Redirect", "Final", "Idle", "Again"]
NCHAINS = [0]
QKINDS = ["plain", "amp", "plus", "hash", "pct"]
# the text of a query of each kind: values holding percent-encoded reserved characters must arrive meaning the same
QTEXT = {"none": "", "start": "s=0", "plain": "n=%d", "amp": "q=rock%%26roll&n=%d", "plus": "tag=c%%2B%%2B&n=%d",
         "hash": "ref=a%%23b&n=%d", "pct": "v=%%2541&n=%d"}


def query_text(q, offset=0):
    """offset tells the hops of the user's second request from those of the first"""
    t = QTEXT[q["kind"]]
    return t % (q["hop"] + offset) if "%d" in t else t.replace("%%", "%")


def query_back(raw):
    """the abstract query whose pairs the raw QUERY_STRING decodes to"""
    from urllib.parse import parse_qsl
    if raw == "":
        return {"kind": "none", "hop": 0}
    try:
        pairs = parse_qsl(raw, keep_blank_values=True, errors="strict")
    except ValueError:
        pairs = None
    for kind in QTEXT:
        for hop in range(0, 25):
            q = {"kind": kind, "hop": hop if "%d" in QTEXT[kind] else 0}
            if pairs == parse_qsl(query_text(q), keep_blank_values=True):
                return q
    hops = [int(v) for k, v in (pairs or []) if k == "n" and v.isdigit()]
    return {"kind": "?" + raw, "hop": hops[0] if hops else -1}


def port_num(s, p):
    if p == "std":
        return 443 if s == "https" else 80
    return 8443 if s == "https" else 8080


def cfg_text(schemes, hosts, pcs, statuses, maxhops, props=True, startkinds=("none", "start"), rounds=2, qkinds=QKINDS):
    q = lambda xs: "{%s}" % ", ".join('"%s"' % x for x in xs)
    s = ("SPECIFICATION Spec\nCONSTANTS\n  Schemes = %s\n  Hosts = %s\n  PortClasses = %s\n  Statuses = {%s}\n  MaxHops = %d\n"
         "  QKinds = %s\n  StartKinds = %s\n  Rounds = %d\nCHECK_DEADLOCK FALSE\n" % (q(schemes), q(hosts), q(pcs), ", ".join(str(x) for x in statuses),
                                                                                  maxhops, q(qkinds), q(startkinds), rounds))
    if props:
        s += ("INVARIANT WrappedIffHttps\nINVARIANT ChainDelivered\nINVARIANT ExactlyOneFinalResponse\nINVARIANT RequestsCountHops\n"
              "PROPERTY NeverDowngrade\nPROPERTY ReconnectIffTargetDiffers\nPROPERTY ChainInOrder\nPROPERTY NothingAfterTheEnd\n")
    return s


def path_text(segs):
    return "/" + "/".join(segs)


def loc_text(loc, base_scheme, offset=0):
    """the Location header a server sends for the abstract location"""
    q = ("?" + query_text(loc["q"], offset)) if loc["q"]["kind"] != "none" else ""
    if loc["shape"] in ("abs", "absroot", "schemerel"):
        s = loc["s"] if loc["shape"] != "schemerel" else base_scheme
        auth = HOSTS[loc["h"]]
        if loc["p"] != "std":
            auth += ":%d" % port_num(s, loc["p"])
        pre = (s + ":") if loc["shape"] != "schemerel" else ""
        if loc["shape"] == "absroot":
            return pre + "//" + auth                      # no path at all: means the root
        return pre + "//" + auth + path_text(loc["path"]) + q
    if loc["shape"] == "pathabs":
        return path_text(loc["path"]) + q
    return "/".join(loc["path"]) + q


class OriginApp:
    """WSGI application of one origin: logs the request, then waits (yielding nothing) until it is told the answer"""

    def __init__(self, farm, origin):
        self.farm = farm
        self.origin = origin

    def __call__(self, environ, start_response):
        rec = {"origin": self.origin, "path": environ.get("PATH_INFO"), "query": environ.get("QUERY_STRING"),
               "host": environ.get("HTTP_HOST"), "method": environ.get("REQUEST_METHOD"), "ca": environ.get("REMOTE_ADDR"),
               "tag": environ.get("HTTP_X_TAG"), "answer": None}
        self.farm.calls.append(rec)

        def gen():
            while rec["answer"] is None:
                yield b""
            status, headers, pieces = rec["answer"]
            start_response(status, headers)
            for p in pieces:
                yield p
        return gen()


class Farm:
    """the in-memory network with one Valet per origin; reused by the chains of one check run"""

    def __init__(self, schemes, hosts, pcs):
        env.use_repo()
        from ioflo.aio.http import serving
        from ioflo.base import storing
        P.silence_console()
        self.net = P.PairNet(auto=True)
        self.calls = []
        self.valets = {}
        with P.patched(self.net, tls=True):
            for s in schemes:
                for h in hosts:
                    for p in pcs:
                        o = (s, h, p)
                        kw = {"context": P.FakeTlsContext()} if s == "https" else {}
                        v = serving.Valet(scheme=s, host=HOSTS[h], port=port_num(s, p), store=storing.Store(stamp=0.0),
                                          app=OriginApp(self, o), **kw)
                        if not v.open():
                            raise RuntimeError("Valet %r did not open" % (o,))
                        if v.secured != (s == "https"):
                            raise RuntimeError("Valet %r: wrong kind of server" % (o,))
                        self.valets[o] = v

    def service(self):
        with P.quiet():
            for v in self.valets.values():
                v.serviceAll()


class Chain:
    """one behaviour: a fresh Patron against the farm"""

    def __init__(self, farm, init, rng):
        from ioflo.aio.http import clienting
        from ioflo.base import storing
        self.farm = farm
        self.rng = rng
        u = init["url"]
        o = u["o"]
        self.start = u
        self.base0 = len(farm.calls)
        self.conn0 = self.conn_first = len(farm.net.conns)
        self.resp0 = 0
        self.round = 1
        self.sent_locs = []
        self.refused = False
        self.downgrade = False
        self.final_body = None
        self.error = None
        kw = {"context": P.FakeTlsContext()} if o["s"] == "https" else {}
        NCHAINS[0] += 1
        if NCHAINS[0] % 2 == 0:      # the documented caller-supplied respondent
            kw["respondent"] = clienting.Respondent()
        with P.patched(farm.net, tls=True):
            self.patron = clienting.Patron(hostname=HOSTS[o["h"]], port=port_num(o["s"], o["p"]), scheme=o["s"],
                                           store=storing.Store(stamp=0.0), **kw)
            self.patron.open()

    # ---- driving
    def calls(self):
        return self.farm.calls[self.base0:]

    def pending(self):
        cs = [c for c in self.calls() if c["answer"] is None]
        return cs[-1] if cs else None

    def passes(self, until, n=40):
        with P.patched(self.farm.net, tls=True), P.quiet():
            for _ in range(n):
                self.patron.serviceAll()
                self.farm.service()
                if until():
                    return True
        return False

    def step(self, name, args, expected=None):
        ncalls = len(self.calls())
        nresp = len(self.patron.responses)
        try:
            if name == "Again":
                # a further request of the user on the same Patron; everything is counted per request from here
                from ioflo.aid.odicting import odict
                segs, q = args
                self.round += 1
                self.base0 = len(self.farm.calls)
                self.conn0 = len(self.farm.net.conns)
                self.resp0 = len(self.patron.responses)
                self.sent_locs = []
                self.final_body = None
                ncalls = 0
                sq = query_text(q)
                self.patron.request(method="GET", path=path_text(segs) + (("?" + sq) if sq else ""), qargs=odict(),
                                    headers={"X-Tag": "t"})
                self.passes(lambda: len(self.calls()) > ncalls)
            elif name == "Issue":
                sq = query_text(self.start["query"])
                path = path_text(self.start["path"]) + (("?" + sq) if sq else "")
                self.patron.request(method="GET", path=path, headers={"X-Tag": "t"})
                self.passes(lambda: len(self.calls()) > ncalls)
            elif name == "Redirect":
                st, loc = args
                rec = self.pending()
                if rec is None:
                    raise RuntimeError("no request is outstanding at any server")
                text = loc_text(loc, rec["origin"][0], 10 * (self.round - 1))
                hop = len(self.sent_locs) + 1
                self.sent_locs.append(text)
                self.downgrade = rec["origin"][0] == "https" and loc["shape"] in ("abs", "absroot") and loc["s"] == "http"
                headers = [("Location", text), ("X-Hop", str(hop))]
                if hop % 2:
                    headers.append(("Content-Length", "0"))
                    pieces = []
                else:
                    pieces = [b"moved to ", text.encode("ascii")]         # a redirect with a (chunked) body
                rec["answer"] = ("%d %s" % (st, REASONS[st]), headers, pieces)
                self.passes(lambda: len(self.calls()) > ncalls or len(self.patron.responses) > nresp)
            elif name == "Final":
                rec = self.pending()
                if rec is None:
                    raise RuntimeError("no request is outstanding at any server")
                self.final_body = b"final %d after %d" % (self.round, len(self.sent_locs))
                rec["answer"] = ("200 OK", [("Content-Type", "text/plain"), ("Content-Length", str(len(self.final_body)))],
                                 [self.final_body])
                self.passes(lambda: len(self.patron.responses) > nresp)
            elif name == "Idle":
                self.passes(lambda: False, n=4)
            else:
                raise NotImplementedError(name)
        except ValueError as ex:
            # the documented way to refuse a redirect to a non secure location
            self.refused = True
            self.error = str(ex)
        return self.project()

    # ---- projection
    def project(self):
        calls = self.calls()
        conns = self.farm.net.conns[self.conn0:]
        out = {"reqs": len(calls), "round": self.round}
        resp = list(self.patron.responses)[self.resp0:]
        pend = self.pending()
        if resp and 300 <= resp[0]["status"] < 400 and getattr(self, "downgrade", False):
            self.refused = True          # the other admissible way to refuse: hand the redirect itself to the user
        if self.refused:
            out["phase"] = "refused"
            return out
        out["phase"] = "final" if resp else ("sent" if pend is not None else "idle")
        out["conns"] = len(conns)
        out["delivered"] = len(resp)
        if calls:
            c = calls[-1]
            s, h, p = c["origin"]
            segs = tuple(c["path"][1:].split("/")) if (c["path"] or "").startswith("/") else ("?" + str(c["path"]),)
            out["url"] = {"o": {"s": s, "h": h, "p": p}, "path": segs, "query": query_back(c["query"]) if c["method"] == "GET" else {"kind": "?" + str(c["method"]), "hop": -1}}
            if out["url"]["query"]["kind"] not in ("none", "start") and len(calls) > 1:
                out["url"]["query"]["hop"] -= 10 * (self.round - 1)
            host, _, port = (c["host"] or "").rpartition(":")
            if not host:
                host, port = port, str(port_num(s, "std"))
            out["hosthdr"] = (NAMES.get(host, host), int(port) if port.isdigit() else -1)
            cx = [k for k in self.farm.net.conns[self.conn_first:] if k.client.local == c["ca"]]
            if len(cx) != 1:
                out["wrapped"] = "unknown-connection"
            elif cx[0].client.tls != cx[0].server.tls:
                out["wrapped"] = "one-sided"
            else:
                out["wrapped"] = bool(cx[0].client.tls)
            if c["tag"] != "t":
                out["url"]["query"] = {"kind": "?request header X-Tag lost", "hop": -1}
        if resp:
            r = resp[0]
            ok = bytes(r["body"]) == self.final_body and not r["errored"]
            out["res"] = {"status": r["status"] if ok else -1, "redirects": self._chain(r.get("redirects", []))}
            out["chain"] = out["res"]["redirects"]
        else:
            out["res"] = {"status": 0, "redirects": ()}
            out["chain"] = self._chain(self.patron.redirects)
        return out

    def _chain(self, reds):
        ch = []
        for i, r in enumerate(reds):
            good = (r["headers"].get("x-hop") == str(i + 1) and i < len(self.sent_locs)
                    and r["headers"].get("location") == self.sent_locs[i])
            ch.append(r["status"] if good else -1)
        return tuple(ch)

    def close(self):
        # let the servers finish what they hold before the client goes away
        for c in self.calls():
            if c["answer"] is None:
                c["answer"] = ("200 OK", [("Content-Length", "0")], [])
        with P.patched(self.farm.net, tls=True), P.quiet():
            try:
                for _ in range(3):
                    self.farm.service()
                self.patron.close()
                self.farm.service()
            except Exception:
                pass


def run_c34(ctx):
    ctx.rule = ("Redirect.tla model checked over all chains of <= MaxHops redirects between origins {http,https} x {h1,h2} x "
                "{default port, other port}, Locations absolute / scheme-relative / path-absolute / path-relative with and "
                "without query; every edge of the one-hop graph and simulated longer chains replayed on a real Patron against "
                "one real Valet per origin over in-memory connections (TLS legs as doubles); distinct = behaviours replayed")
    schemes, hosts, pcs = ["http", "https"], ["h1", "h2"], ["std", "alt"]
    statuses = ctx.pick([302, 307, 308], [301, 302, 303, 307, 308])
    hops = 3
    res = tlc.run("Redirect", cfg_text(schemes, hosts, pcs, ctx.pick([307], statuses[:3]), hops), spec_dir=SPEC_DIR, tag="c34mc", timeout=6 * 3600)
    ctx.add_model(res, "Redirect", {"Schemes": schemes, "Hosts": hosts, "PortClasses": pcs, "MaxHops": hops, "Rounds": 2})
    if not res.ok:
        ctx.diverge(Divergence("C34", "model", res.error_name or res.error, "Redirect", "specification property violated in the model",
                               steps=[{"action": a, "state": s} for a, s in res.trace]))
        return
    tlc.require_coverage(res, ACTIONS, "Redirect")
    farm = Farm(schemes, hosts, pcs)
    rng = random.Random(ctx.seed)
    work = env.subdir("c34")
    # (a) every edge of the one-hop graph
    dot = work + "/one.dot"
    res = tlc.run("Redirect", cfg_text(schemes, hosts, pcs, ctx.pick([307], statuses), 1, props=False,
                                       startkinds=ctx.pick(("start",), ("none", "start")), rounds=1), spec_dir=SPEC_DIR,
                  dump_dot=dot, tag="c34g", coverage=False, timeout=6 * 3600)
    ctx.add_model(res, "Redirect-graph-1hop", {"MaxHops": 1})
    g = graph.load_dot(dot)
    paths = graph.edge_cover(g, max_len=6)
    traces = replay.graph_paths_to_traces(g, paths)
    n1, divs = replay.replay("C34", traces, lambda init: Chain(farm, init, rng))
    ctx.diverge(divs)
    ctx.add_validated(len(traces), {"one-hop": [s[0] for s in traces[len(traces) // 2]]})
    # (a') two requests one after the other on the same Patron: plain / redirected first, plain / redirected second
    dot2 = work + "/two.dot"
    res = tlc.run("Redirect", cfg_text(["http"], ctx.pick(["h1"], ["h1", "h2"]), ctx.pick(["std"], ["std", "alt"]), [307], 1, props=False,
                                       startkinds=("start",), rounds=2, qkinds=["plain"]), spec_dir=SPEC_DIR,
                  dump_dot=dot2, tag="c34g2", coverage=False, timeout=6 * 3600)
    ctx.add_model(res, "Redirect-graph-2requests", {"MaxHops": 1, "Rounds": 2})
    g2 = graph.load_dot(dot2)
    paths2 = graph.edge_cover(g2, max_len=10)
    traces2 = replay.graph_paths_to_traces(g2, paths2)
    if not any(st[1][0] == "Again" for t in traces2 for st in t[1:]):
        raise tlc.TlcError("vacuous: no behaviour with a second request on the same client")
    n1b, divs = replay.replay("C34", traces2, lambda init: Chain(farm, init, rng))
    ctx.diverge(divs)
    ctx.add_validated(len(traces2), {"two-requests": [s[0] for s in traces2[len(traces2) // 2]]})
    n1 += n1b
    # (b) longer chains drawn by TLC
    nsim = ctx.pick(1200, 20000)
    prefix = work + "/sim/b"
    import os
    os.makedirs(work + "/sim")
    res = tlc.run("Redirect", cfg_text(schemes, hosts, pcs, statuses, hops), spec_dir=SPEC_DIR,
                  simulate={"num": max(1, nsim // env.NCPU), "depth": 11, "file": prefix}, seed=ctx.seed + 1, deadlock=False,
                  tag="c34sim", timeout=6 * 3600)
    ctx.add_model(res, "Redirect-simulate", {"behaviours": nsim, "depth": 11, "Statuses": statuses, "Rounds": 2})
    if not res.ok:
        ctx.diverge(Divergence("C34", "model", res.error_name or res.error, "Redirect", "specification property violated in simulation",
                               steps=[{"action": a, "state": s} for a, s in res.trace]))
        return
    sims = replay.load_sim_traces(prefix)
    seen = set()
    uniq = []
    for t in sims:
        key = (repr(t[0][2]["url"]), tuple(s[0] for s in t[1:]))
        if key not in seen:
            seen.add(key)
            uniq.append(t)
    n2, divs2 = replay.replay("C34", uniq, lambda init: Chain(farm, init, rng))
    ctx.diverge(divs2)
    if uniq:
        ctx.add_validated(len(uniq), {"chain": [s[0] for s in uniq[len(uniq) // 2]]})
    kinds = {}
    for t in uniq:
        for s in t[1:]:
            if s[1][0] == "Redirect":
                kinds[s[1][1][1]["shape"]] = kinds.get(s[1][1][1]["shape"], 0) + 1
    if len(kinds) < 4:
        raise tlc.TlcError("vacuous simulation: location shapes seen: %s" % sorted(kinds))
    ctx.exhaustive = False
    ctx.extra.update({"one_hop_graph_edges": g.nedges, "one_hop_edges_replayed": graph.covered_edges(paths),
                      "simulated_chains": len(sims), "distinct_chains_replayed": len(uniq), "location_shapes": kinds,
                      "requests_seen_by_servers": len(farm.calls), "connections_made": len(farm.net.conns),
                      "two_request_graph_edges": g2.nedges, "two_request_edges_replayed": graph.covered_edges(paths2),
                      "distinct_nontrivial": len(traces) + len(traces2) + len(uniq), "evaluations": n1 + n2})
    ctx.assume("TLS is a double below ClientTls/ServerTls (no certificates, no real handshake); hosts are the literals "
               "127.0.0.1 / 127.0.0.2; GET requests only")


PROPERTIES = {"C34": run_c34}
