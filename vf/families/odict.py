"""C39 - ordered dictionaries and ordered sets (specs/aid/ODict.tla, MODict.tla, OSet.tla).

Pattern of a family module (binding A on a complete state graph):
  1. run TLC on the spec (invariants / action properties) and dump the state graph with action labels;
  2. compute initial-state-rooted paths covering every edge of that graph;
  3. replay every path on fresh real objects through an adapter whose `step(name, args, expected)` performs the
     real call and returns the projection of the real object onto the spec's variables;
  4. every mismatch / unexpected exception is a Divergence handed to ctx.
"""
import copy
import pickle
import random

from .. import env, graph, replay, tlc
from ..replay import Divergence

SPEC_DIR = env.SPECS + "/aid"


def _res_call(fn, *a, **k):
    """run fn, encode result/exception like the spec's `res`"""
    try:
        return ("ok", fn(*a, **k))
    except (KeyError, IndexError, ValueError) as ex:
        return ("err", type(ex).__name__)


def _val(r):
    if r[0] == "err":
        return {"t": "err", "e": r[1]}
    return {"t": "val", "v": r[1]}


def _none(r):
    if r[0] == "err":
        return {"t": "err", "e": r[1]}
    if r[1] is not None:
        return {"t": "val", "v": repr(r[1])}
    return {"t": "none"}


def _items(r, f=lambda it: it):
    if r[0] == "err":
        return {"t": "err", "e": r[1]}
    return {"t": "items", "v": f(r[1])}


def _pairs(it):
    return tuple((k, tuple(v) if isinstance(v, list) else v) for k, v in it)


class ODictAdapter:
    def __init__(self, flavor):
        env.use_repo()
        from ioflo.aid import odicting
        self.cls = getattr(odicting, flavor)
        self.d = self.cls()

    def project(self, res=None):
        d = self.d
        out = {"keys": tuple(d.keys()), "val": {k: dict.__getitem__(d, k) for k in dict.keys(d)}}
        # the documented views must agree with each other
        assert list(d) == d.keys() == [k for k, _ in d.items()], "iteration views disagree"
        assert d.values() == [v for _, v in d.items()]
        assert len(d) == len(d.keys())
        if res is not None:
            out["res"] = res
        return out

    def step(self, name, args, expected):
        d = self.d
        if name == "Set":
            res = _none(_res_call(d.__setitem__, args[0], args[1]))
        elif name == "Del":
            res = _none(_res_call(d.__delitem__, args[0]))
        elif name == "Get":
            res = _val(_res_call(d.__getitem__, args[0]))
        elif name == "GetDefault":
            res = _val(_res_call(d.get, args[0], args[1]))
        elif name == "Contains":
            r = _res_call(d.__contains__, args[0])
            res = {"t": "bool", "v": r[1]}
        elif name == "Pop":
            res = _val(_res_call(d.pop, args[0]))
        elif name == "PopDefault":
            res = _val(_res_call(d.pop, args[0], args[1]))
        elif name == "PopItem":
            res = _items(_res_call(d.popitem), lambda it: (tuple(it),))
        elif name == "Insert":
            res = _none(_res_call(d.insert, args[0], args[1], args[2]))
        elif name == "AppendNew":
            res = _none(_res_call(d.append, args[0], args[1]))
        elif name == "Create":
            res = _none(_res_call(d.create, [(args[0], args[1])]))
        elif name == "Create2":
            # the three documented argument forms of create(): sequence of duples, keyword arguments, several sequences
            form = (2 * args[1] + args[3] + len(d)) % 3
            if form == 0 or args[0] == args[2]:
                res = _none(_res_call(d.create, [(args[0], args[1]), (args[2], args[3])]))
            elif form == 1:
                res = _none(_res_call(d.create, [(args[0], args[1])], [(args[2], args[3])]))
            else:
                res = _none(_res_call(d.create, [(args[0], args[1])], **{args[2]: args[3]}))
        elif name == "SetDefault":
            res = _val(_res_call(d.setdefault, args[0], args[1]))
        elif name == "Update2":
            res = _none(_res_call(d.update, [(args[0], args[1]), (args[2], args[3])]))
        elif name == "Reorder":
            res = _none(_res_call(d.reorder, self.cls([(args[0], args[1])])))
        elif name == "ReorderPlain":
            from ioflo.aid import odicting
            res = _none(_res_call(d.reorder, odicting.odict([(args[0], args[1])])))
        elif name == "ReorderSelf":
            res = _none(_res_call(d.reorder, d))
        elif name == "Sift2":
            r = _res_call(d.sift, [args[0], args[1]])
            if r[0] == "ok":
                assert type(r[1]) is self.cls and r[1] is not d
            res = _items(r, lambda c: _pairs(c.items()))
        elif name == "Copy":
            c = d.copy()
            assert type(c) is self.cls and c is not d and c == d
            res = {"t": "items", "v": _pairs(c.items())}
            c["zz"] = 1          # the copy is independent
            assert "zz" not in d
        elif name == "Pickle":
            c = pickle.loads(pickle.dumps(d, args[0]))
            assert type(c) is self.cls and c.keys() == d.keys() and len(c) == len(d)
            res = {"t": "items", "v": _pairs(c.items())}
            c["zz"] = 1
            assert c.keys()[-1] == "zz" and "zz" not in d
        elif name == "CopyModule":
            c = copy.deepcopy(d) if args[0] else copy.copy(d)
            assert type(c) is self.cls and c is not d and c.keys() == d.keys()
            res = {"t": "items", "v": _pairs(c.items())}
        elif name == "Clear":
            res = _none(_res_call(d.clear))
        else:
            raise NotImplementedError(name)
        return self.project(res)


class MODictAdapter:
    def __init__(self):
        env.use_repo()
        from ioflo.aid import odicting
        self.cls = odicting.modict
        self.d = self.cls()

    def project(self, res=None):
        d = self.d
        out = {"keys": tuple(d.keys()), "vals": {k: tuple(dict.__getitem__(d, k)) for k in dict.keys(d)}}
        if res is not None:
            out["res"] = res
        return out

    def step(self, name, args, expected):
        d = self.d
        if name == "Set":
            res = _none(_res_call(d.__setitem__, args[0], args[1]))
        elif name == "AppendVal":
            res = _none(_res_call(d.add if args[1] else d.append, args[0], args[1]))
        elif name == "Get":
            res = _val(_res_call(d.__getitem__, args[0]))
        elif name == "GetIndex":
            res = _val(_res_call(d.get, args[0], args[1], index=0 if args[2] else -1))
        elif name == "GetList":
            r = _res_call(d.getlist, args[0])
            res = {"t": "val", "v": tuple(r[1])} if r[0] == "ok" else _val(r)
        elif name == "Contains":
            res = {"t": "bool", "v": d.has_key(args[0]) and (args[0] in d)}
        elif name == "Replace":
            res = _none(_res_call(d.replace, args[0], args[1]))
        elif name == "SetDefault":
            res = _val(_res_call(d.setdefault, args[0], args[1]))
        elif name == "Del":
            res = _none(_res_call(d.__delitem__, args[0]))
        elif name == "Pop":
            res = _val(_res_call(d.pop, args[0]))
        elif name == "PopDefault":
            res = _val(_res_call(d.pop, args[0], args[1]))
        elif name == "PopList":
            r = _res_call(d.poplist, args[0])
            res = {"t": "val", "v": tuple(r[1])} if r[0] == "ok" else _val(r)
        elif name == "PopItem":
            res = _items(_res_call(d.popitem, last=args[0]), lambda it: (tuple(it),))
        elif name == "PopListItem":
            res = _items(_res_call(d.poplistitem, last=args[0]), lambda it: ((it[0], tuple(it[1])),))
        elif name == "UpdatePairs":
            res = _none(_res_call(d.update, [(args[0], args[1])]))
        elif name == "UpdateDict":
            res = _none(_res_call(d.update, {args[0]: args[1]}))
        elif name == "ItemsOp":
            assert d.values() == [v for _, v in d.items()]
            res = {"t": "items", "v": _pairs(d.items())}
        elif name == "ListItemsOp":
            assert d.listvalues() == [v for _, v in d.listitems()]
            res = {"t": "items", "v": _pairs(d.listitems())}
        elif name == "AllItemsOp":
            assert list(d.iterallitems()) == d.allitems() and d.allvalues() == [v for _, v in d.allitems()]
            res = {"t": "items", "v": _pairs(d.allitems())}
        elif name == "Copy":
            c = d.copy()
            assert type(c) is self.cls and c is not d
            res = {"t": "items", "v": _pairs(c.listitems())}
        elif name in ("Pickle", "CopyModule"):
            import copy as _copy
            import pickle as _pickle
            if name == "Pickle":
                c = _pickle.loads(_pickle.dumps(d, args[0]))
            else:
                c = _copy.deepcopy(d) if args[0] else _copy.copy(d)
            assert type(c) is self.cls and c is not d
            res = {"t": "items", "v": _pairs(c.listitems())}
        elif name == "Clear":
            res = _none(_res_call(d.clear))
        else:
            raise NotImplementedError(name)
        return self.project(res)


class OSetAdapter:
    def __init__(self):
        env.use_repo()
        from ioflo.aid import osetting
        self.cls = osetting.oset
        self.s = self.cls()

    def project(self, res=None):
        out = {"s": tuple(self.s)}
        assert len(self.s) == len(tuple(self.s))
        if res is not None:
            out["res"] = res
        return out

    def step(self, name, args, expected):
        s = self.s
        mk = lambda o: self.cls(list(o))
        if name == "Add":
            res = _none(_res_call(s.add, args[0]))
        elif name == "Discard":
            res = _none(_res_call(s.discard, args[0]))
        elif name == "RemoveOp":
            res = _none(_res_call(s.remove, args[0]))
        elif name == "Contains":
            res = {"t": "bool", "v": args[0] in s}
        elif name == "Pop":
            res = _val(_res_call(s.pop, last=args[0]))
        elif name == "LenOp":
            res = {"t": "val", "v": len(s)}
        elif name == "Reversed":
            res = {"t": "val", "v": tuple(reversed(s))}
        elif name == "Clear":
            res = _none(_res_call(s.clear))
        elif name in ("Or", "And", "Sub"):
            o = mk(args[0])
            r = {"Or": s.__or__, "And": s.__and__, "Sub": s.__sub__}[name](o)
            assert isinstance(r, self.cls) and tuple(o) == tuple(args[0])
            res = {"t": "val", "v": frozenset(r) if name == "And" else tuple(r)}
        elif name == "Xor":
            r = s ^ mk(args[0])
            assert isinstance(r, self.cls)
            res = {"t": "val", "v": frozenset(r)}
        elif name == "IOr":
            s |= mk(args[0])
            self.s = s
            res = {"t": "none"}
        elif name == "EqOSet":
            res = {"t": "bool", "v": s == mk(args[0])}
        elif name == "EqSet":
            res = {"t": "bool", "v": (s == set(args[0]))}
        else:
            raise NotImplementedError(name)
        return self.project(res)


MODELS = [
    ("odict", "ODict", "ODict_odict.cfg", lambda init: ODictAdapter("odict")),
    ("lodict", "ODict", "ODict_lodict.cfg", lambda init: ODictAdapter("lodict")),
    ("modict", "MODict", "MODict.cfg", lambda init: MODictAdapter()),
    ("oset", "OSet", "OSet.cfg", lambda init: OSetAdapter()),
]


def run_c39(ctx):
    ctx.rule = ("complete state graph of each dictionary/set model (keys {a,A,b}, values {0,1}, <=3 entries); every edge "
                "replayed on the real class, results and exception types compared; distinct = distinct graph edges")
    total_edges = covered = 0
    rng = random.Random(ctx.seed)
    for (label, module, cfg, mk) in MODELS:
        dot = env.subdir("c39") + "/%s.dot" % label
        res = tlc.run(module, SPEC_DIR + "/" + cfg, spec_dir=SPEC_DIR, dump_dot=dot, tag="c39" + label)
        ctx.add_model(res, label)
        if not res.ok:
            ctx.diverge(Divergence("C39", "model", res.error_name or res.error, module, "specification property violated in the model",
                                   steps=[{"action": a, "state": s} for a, s in res.trace]))
            continue
        g = graph.load_dot(dot)
        paths = graph.edge_cover(g, max_len=60)
        traces = replay.graph_paths_to_traces(g, paths)
        n, divs = replay.replay("C39", traces, mk)
        total_edges += g.nedges
        covered += graph.covered_edges(paths)
        ctx.add_validated(len(traces), {"model": label, "path": [s[0] for s in traces[len(traces) // 2]]})
        for d in divs:
            d.extra["model"] = label
            d.where = "%s:%s" % (label, d.where)
        ctx.diverge(divs)
    ctx.exhaustive = (covered == total_edges)
    ctx.extra.update({"graph_edges": total_edges, "edges_replayed": covered, "distinct_nontrivial": covered, "evaluations": covered})


PROPERTIES = {"C39": run_c39}
