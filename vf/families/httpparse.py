"""C29 - HTTP/1.x messages parse the same however their bytes arrive
(specs/http/HttpMsg.tla, HttpParse.tla, HttpParseMC.tla, HttpParseTrace.tla).

Binding A: TLC checks the incremental parser of the specification over a family of small well-formed messages
           (every split into <= 3 pieces) and dumps the state graph; every edge is replayed on the real
           Requestant / Respondent, which are fed through their shared `msg` bytearray exactly at the split points,
           `parse()` being called where the model has `Parse`.
Binding B: seeded random longer messages (several per connection, long bodies, many chunks, many pieces) are run
           through the real parsers, the executions recorded and validated by TLC against HttpParseTrace.tla.
"""
import json
import os
import random

from .. import env, graph, replay, tlc, trace
from ..replay import Divergence

SPEC_DIR = env.SPECS + "/http"
os.environ.setdefault("VF_LENIENT", "0")   # read by the trace specifications (diagnosis switch)

# symbolic bytes of the specifications <-> octets
SYM = {"CR": 13, "LF": 10, "SP": 32, "HT": 9, "HI": 0xE9}
INV = {v: k for k, v in SYM.items()}


def to_bytes(syms):
    out = bytearray()
    for s in syms:
        if s in SYM:
            out.append(SYM[s])
        elif len(s) == 3 and s[0] == "x":     # "xEF" = octet 0xEF
            out.append(int(s[1:], 16))
        else:
            out.append(ord(s))
    return bytes(out)


def to_syms(bs):
    return tuple(INV[b] if b in INV else (chr(b) if 0x20 <= b < 0x7f else "x%02X" % b) for b in bytes(bs))


def text_syms(s):
    return to_syms(s.encode("iso-8859-1"))


class _Incomer:
    """what a Requestant needs of its connection (it lifts the idle timeout of persistent connections)"""
    timeout = 1.0


def _fields(d):
    if not d:
        return frozenset()
    return frozenset((text_syms(k) if isinstance(k, str) else to_syms(k),
                      () if v is None else (text_syms(v) if isinstance(v, str) else to_syms(v))) for k, v in d.items())


class ParserAdapter:
    """a real Requestant or Respondent reading from a bytearray that the harness fills"""

    def __init__(self, kind, wire, heads=()):
        """heads[j]: the (j+1)th response answers a HEAD request (the client tells its parser the request method)"""
        env.use_repo()
        from ioflo.aio.http import clienting, serving
        self.kind = kind
        self.wire = to_bytes(wire)
        self.heads = list(heads)
        self.nth = 0
        self.sent = 0
        self.buf = bytearray()
        if kind == "req":
            self.parser = serving.Requestant(msg=self.buf, incomer=_Incomer())
        else:
            self.parser = clienting.Respondent(msg=self.buf, method=self._method())

    def _method(self):
        return "HEAD" if self.nth < len(self.heads) and self.heads[self.nth] else "GET"

    def obs(self):
        ps = self.parser
        done = bool(ps.parser is None and ps.ended)
        if not done:
            return {"done": False}
        if ps.errored:
            return {"done": True, "error": str(ps.error)}
        ver = "HTTP/%d.%d" % tuple(ps.version)
        if self.kind == "req":
            start = (text_syms(ps.method), text_syms(ps.url), text_syms(ver))
        else:
            start = (text_syms(ver), text_syms(str(ps.status)), text_syms(ps.reason))
        res = {"start": start, "headers": _fields(ps.headers), "body": to_syms(ps.body),
               "parms": _fields(ps.parms), "trails": _fields(ps.trails)}
        return {"done": True, "res": res, "left": to_syms(self.buf)}

    def call(self, name, args):
        ps = self.parser
        if name == "Deliver":
            k = args[0]
            self.buf.extend(self.wire[self.sent:self.sent + k])
            self.sent += k
        elif name in ("Parse", "ParseAgain"):
            # the documentation does not promise that one call goes as far as the bytes allow (the service loops
            # call parse() on every pass): asking a few times is harmless for a parser that does
            for _ in range(3):
                ps.parse()
        elif name == "Close":
            ps.close()
        elif name == "Again":
            self.nth += 1
            if self.kind == "resp":
                ps.reinit(method=self._method())     # as Patron.transmit does for the next request
            ps.makeParser()
        else:
            raise NotImplementedError(name)

    def project(self):
        return {"obs": self.obs()}

    def step(self, name, args, expected):
        self.call(name, args)
        return self.project()


MC_CFG = """SPECIFICATION Spec
CONSTANTS
  Level = %d
  MaxPieces = %d
  NSc <- FamN
  MaxK <- FamMaxLen
  ScWire <- FamWire
  ScKind <- FamKind
  ScMsgs <- FamMsgs
  ScHead <- FamHead
INVARIANT SplitIndependent
INVARIANT ObsIsFunctionOfParser
INVARIANT BufferIsSuffix
INVARIANT DoneRight
INVARIANT DoneIffComplete
"""

TRACE_CFG = """SPECIFICATION TraceSpec
CONSTANTS
  MaxPieces = 100000
  MaxK = 1
  NSc <- NTraces
  ScWire <- TrWire
  ScKind <- TrKind
  ScMsgs <- TrMsgs
  ScHead <- TrHead
CONSTRAINT TraceOK
INVARIANT ObsIsFunctionOfParser
INVARIANT BufferIsSuffix
CHECK_DEADLOCK FALSE
"""


# ---------------------------------------------------------------- binding B: random longer messages

def _rand_token(rng, lo=1, hi=6, alphabet="abcdefghijklmnopqrstuvwxyzABCDEFGHXYZ0123456789-"):
    return "".join(rng.choice(alphabet) for _ in range(rng.randint(lo, hi)))


def _rand_value(rng):
    words = [_rand_token(rng, 1, 5, "abcxyz0123456789/;=.,*") for _ in range(rng.randint(1, 3))]
    return " ".join(words)


def _rand_ows(rng):
    return rng.choice(["", "", " ", " ", " ", "  ", "\t"])


def _rand_data(rng, lo, hi):
    n = rng.randint(lo, hi)
    alphabet = [ord("x"), ord("y"), ord("0"), 13, 10, 32, ord(":"), ord(";"), 0xE9]
    return bytes(rng.choice(alphabet) for _ in range(n))


def _rand_headers(rng, names):
    out = []
    for _ in range(rng.randint(0, 3)):
        n = _rand_token(rng, 1, 8, "abcdefgXYZ-")
        if n.lower() in names or n.lower() in ("content-length", "transfer-encoding", "connection", "content-type"):
            continue
        names.add(n.lower())
        out.append((n, _rand_ows(rng), _rand_value(rng)))
    return out


def random_message(rng, kind, last, is_head=False):
    """-> bytes of one well-formed message; until-close bodies only as the last message of a response stream;
    is_head: the response answers a HEAD request (no body whatever its header fields say)"""
    names = set()
    lines = []
    if kind == "req":
        method = rng.choice(["GET", "POST", "PUT", "DELETE", "PATCH"])
        target = "/" + "/".join(_rand_token(rng, 1, 4, "abcxyz019_") for _ in range(rng.randint(0, 3)))
        if rng.random() < 0.3:
            target += "?" + _rand_token(rng, 1, 3, "abc") + "=" + _rand_token(rng, 1, 3, "xyz1")
        lines.append("%s %s %s" % (method, target, rng.choice(["HTTP/1.1", "HTTP/1.1", "HTTP/1.0"])))
        framing = rng.choice(["none", "fixed", "fixed", "chunked", "chunked"])
    else:
        status, reason = rng.choice([(200, "OK"), (201, "Created"), (404, "Not Found"), (500, "Internal Server Error"),
                                     (204, "No Content"), (304, "Not Modified"), (102, "Processing")])
        lines.append("%s %d %s" % (rng.choice(["HTTP/1.1", "HTTP/1.1", "HTTP/1.0"]), status, reason))
        if is_head or status in (204, 304, 102):
            framing = rng.choice(["none", "length-only", "length-only"])
        else:
            framing = rng.choice(["fixed", "fixed", "chunked", "chunked"] + (["close"] if last else []))
    head = [(n, o, v) for (n, o, v) in _rand_headers(rng, names)]
    body = b""
    if framing == "length-only":     # the size a body would have; no body follows
        head.insert(rng.randint(0, len(head)), (rng.choice(["Content-Length", "content-length"]), _rand_ows(rng), str(rng.choice([0, 1, 7, 120]))))
    elif framing == "fixed":
        data = _rand_data(rng, 0, rng.choice([3, 20, 300]))
        head.insert(rng.randint(0, len(head)), (rng.choice(["Content-Length", "content-length", "CONTENT-LENGTH"]), _rand_ows(rng), str(len(data))))
        body = data
    elif framing == "chunked":
        head.insert(rng.randint(0, len(head)), (rng.choice(["Transfer-Encoding", "transfer-encoding"]), _rand_ows(rng), rng.choice(["chunked", "Chunked"])))
        parts = []
        exts = set()

        def ext():
            s = ""
            for _ in range(rng.choice([0, 0, 1, 2])):
                n = _rand_token(rng, 1, 4, "abcdefgh")
                if n in exts:
                    continue
                exts.add(n)
                s += ";" + n + ("=" + _rand_token(rng, 1, 4, "xyz012") if rng.random() < 0.5 else "")
            return s
        for _ in range(rng.randint(1, 5)):
            data = _rand_data(rng, 1, rng.choice([2, 17, 40, 300]))
            size = "%x" % len(data)
            if rng.random() < 0.3:
                size = size.upper()
            parts.append(size.encode() + ext().encode() + b"\r\n" + data + b"\r\n")
        parts.append(b"0" + ext().encode() + b"\r\n")
        tnames = set()
        for (n, o, v) in _rand_headers(rng, tnames)[:2]:
            parts.append(("%s:%s%s\r\n" % (n, o, v)).encode())
        parts.append(b"\r\n")
        body = b"".join(parts)
    elif framing == "close":
        body = _rand_data(rng, 0, 60)
    out = lines[0].encode() + b"\r\n" + b"".join(("%s:%s%s\r\n" % h).encode("iso-8859-1") for h in head) + b"\r\n" + body
    return out, framing


def _jobs(o):
    """obs -> JSON (sets become arrays; the trace specification turns them back into sets)"""
    if not o["done"]:
        return {"done": False}
    if "error" in o:
        return {"done": True, "error": o["error"]}
    r = o["res"]
    return {"done": True, "left": list(o["left"]),
            "res": {"start": [list(x) for x in r["start"]], "body": list(r["body"]),
                    "headers": sorted([list(k), list(v)] for k, v in r["headers"]),
                    "parms": sorted([list(k), list(v)] for k, v in r["parms"]),
                    "trails": sorted([list(k), list(v)] for k, v in r["trails"])}}


def random_execution(rng):
    """run a random connection's worth of messages through the real parser; -> (events, exception or None)"""
    kind = rng.choice(["req", "resp"])
    nmsg = rng.randint(1, 3)
    msgs = []
    until_close = False
    heads = []
    for i in range(nmsg):
        hd = kind == "resp" and rng.random() < 0.2
        bs, framing = random_message(rng, kind, last=(i == nmsg - 1), is_head=hd)
        if kind == "resp" and rng.random() < 0.1:      # an interim response first
            bs = b"HTTP/1.1 100 Continue\r\n" + rng.choice([b"", b"A: b\r\n"]) + b"\r\n" + bs
        heads.append(hd)
        msgs.append(bs)
        until_close = framing == "close"
    extra = b"" if until_close else rng.choice([b"", b"", b"G", b"\r\n", b"HT"])
    wire = b"".join(msgs) + extra
    npieces = rng.choice([1, 2, 3, 5, 8, 13])
    cuts = sorted(set(rng.randint(1, len(wire)) for _ in range(npieces - 1)) | {len(wire)})
    return execute(kind, wire, nmsg, heads, until_close, cuts, rng)


def execute(kind, wire, nmsg, heads, until_close, cuts, rng=None):
    """feed `wire` to a real parser in the pieces ending at `cuts`, asking it to go on after each piece and starting
    on the next message whenever one is complete; -> (events, exception or None, wire)"""
    ad = ParserAdapter(kind, to_syms(wire), heads)
    evs = [{"ev": "Init", "kind": kind, "n": nmsg, "heads": heads, "wire": list(to_syms(wire))}]
    pos = 0
    nth = 1

    def do(name, *args):
        ad.call(name, args)
        e = {"ev": name}
        if name == "Deliver":
            e["k"] = args[0]
        e["obs"] = _jobs(ad.obs())
        evs.append(e)
        return e

    def settle():
        # parse; while a message is complete and another is expected, start on the next one
        nonlocal nth
        e = do("Parse")
        while e["obs"]["done"] and "error" not in e["obs"] and nth < nmsg:
            nth += 1
            do("Again")
            e = do("Parse")
        if rng is not None and rng.random() < 0.15:
            do("ParseAgain")

    try:
        for c in cuts:
            do("Deliver", c - pos)
            pos = c
            settle()
        if until_close:
            do("Close")
            settle()
    except Exception as ex:   # no exception is documented for well-formed input
        return evs, ex, wire
    return evs, None, wire


# ---------------------------------------------------------------- big messages: buffers beyond the line limit

LINE_LIMIT = 65536      # httping.MAX_LINE_SIZE: the documented bound of a LINE; bodies and buffers may be larger


def _filler(n, rng):
    """n body bytes, mostly 'x', with a few CR LF pairs and colons strewn in"""
    b = bytearray(b"x" * n)
    for _ in range(6):
        i = rng.randint(0, n - 2)
        b[i:i + 2] = rng.choice([b"\r\n", b": ", b"\n\n", b"0\r"])
    return bytes(b)


def big_executions(rng, thorough):
    """well-formed messages whose bodies / pipelined successors make the receive buffer exceed LINE_LIMIT while every
    line stays short, delivered whole, in segment sized pieces and cut at structural points"""
    def big():
        return LINE_LIMIT + 1 + rng.randint(0, 6000)
    small_rq = b"GET /s HTTP/1.1\r\nHost: h\r\n\r\n"
    small_rs = b"HTTP/1.1 200 OK\r\nContent-Length: 2\r\n\r\nok"
    b1, b2, b3, b4 = _filler(big(), rng), _filler(big(), rng), _filler(big(), rng), _filler(big(), rng)
    c1, c2 = _filler(40000 + rng.randint(0, 999), rng), _filler(30000 + rng.randint(0, 999), rng)
    scen = [
        ("req", [b"POST /b HTTP/1.1\r\nHost: h\r\nContent-Length: %d\r\n\r\n" % len(b1) + b1], b"G", False),
        ("resp", [b"HTTP/1.1 200 OK\r\nContent-Length:%d\r\n\r\n" % len(b2) + b2, small_rs], b"", False),
        ("resp", [small_rs, b"HTTP/1.1 200 OK\r\nA: b\r\nContent-Length: %d\r\n\r\n" % len(b3) + b3], b"HT", False),
        ("req", [small_rq, b"PUT /c HTTP/1.1\r\nTransfer-Encoding: chunked\r\n\r\n%x;e=v\r\n" % len(c1) + c1 + b"\r\n%X\r\n" % len(c2) + c2
                 + b"\r\n0\r\nT: v\r\n\r\n", small_rq], b"", False),
        ("resp", [b"HTTP/1.1 200 OK\r\nTransfer-Encoding: chunked\r\n\r\n%x\r\n" % len(c2) + c2 + b"\r\n%x;q\r\n" % len(c1) + c1 + b"\r\n0\r\n\r\n"],
         b"H", False),
        ("resp", [b"HTTP/1.0 200 OK\r\nA: b\r\n\r\n" + b4], b"", True),
    ]
    out = []
    for kind, msgs, extra, until_close in scen:
        wire = b"".join(msgs) + extra
        n = len(wire)
        ends = []
        acc = 0
        for m in msgs:
            ends.append(acc + m.index(b"\r\n") + 2)            # after the start line
            ends.append(acc + m.index(b"\r\n\r\n") + 4)       # after the head
            acc += len(m)
            ends.append(acc)                                     # after the message
        structural = sorted(set(e for e in ends if 0 < e < n) | {n})
        plans = [[n], structural]
        if thorough or len(out) in (0, 8):       # quick: segment sized pieces for two of the scenarios only
            plans.append(list(range(4096, n, 4096)) + [n])
        if thorough:
            plans.append(list(range(1460, n, 1460)) + [n])
            plans.append(sorted(set(min(n, e + 1) for e in structural) | {n}))
        for cuts in plans:
            out.append(execute(kind, wire, len(msgs), [False] * len(msgs), until_close, cuts))
    return out


def _brief(wire):
    wire = bytes(wire)
    return repr(wire) if len(wire) <= 600 else "%r ... (%d bytes) ... %r" % (wire[:200], len(wire), wire[-80:])


def run_c29(ctx):
    ctx.rule = ("A: every scenario of the message family of HttpParseMC.tla (requests/responses; no body, Content-Length, "
                "chunked with extensions and trailers, until close; none/SP/2SP/HT after the colon; trailing bytes; two "
                "messages back to back) x every split into <= 3 pieces = the complete state graph, every edge replayed on "
                "the real Requestant/Respondent; B: seeded random longer message sequences and splits validated by TLC "
                "against HttpParseTrace.tla, and so are a handful of messages with bodies / pipelined successors beyond the 64 KiB line "
                "limit delivered whole, in 4096/1460 byte pieces and cut at structural points; distinct = graph edges + accepted traces")
    level = ctx.pick(1, 2)
    work = env.subdir("c29")
    table_path = work + "/table.json"
    dot = work + "/g.dot"
    res = tlc.run("HttpParseMC", MC_CFG % (level, 3), spec_dir=SPEC_DIR, dump_dot=dot,
                  extra_env={"TABLE_OUT": table_path}, tag="c29mc", timeout=40000)
    ctx.add_model(res, "HttpParseMC", {"Level": level, "MaxPieces": 3})
    if not res.ok:
        ctx.diverge(Divergence("C29", "model", res.error_name or res.error, "HttpParseMC", "specification property violated in the model",
                               steps=[{"action": a, "state": s} for a, s in res.trace]))
        return
    tlc.require_coverage(res, ["Deliver", "Parse", "ParseAgain", "Close", "Again"], "HttpParseMC")
    table = json.load(open(table_path))
    g = graph.load_dot(dot)
    paths = graph.edge_cover(g, max_len=14)
    traces = replay.graph_paths_to_traces(g, paths)
    names = {st[1][0] for tr in traces for st in tr}
    if "Deliver" not in names:
        raise tlc.TlcError("vacuous graph: no Deliver edge")

    def mk(init):
        row = table[init["sc"] - 1]
        return ParserAdapter(row["kind"], row["wire"], row["heads"])

    n, divs = replay.replay("C29", traces, mk, keys={"obs"})
    for d in divs:
        sc = d.steps[0]["state"]["sc"] if d.steps else 0
        row = table[sc - 1] if sc else None
        if row:
            d.extra["wire"] = repr(to_bytes(row["wire"]))
            d.extra["pieces"] = [s["action"] for s in d.steps[1:]]
            d.where = "%s:%s" % (row["kind"], d.where)
    ctx.diverge(divs)
    total, cov = g.nedges, graph.covered_edges(paths)
    mid = traces[len(traces) // 2]
    ctx.add_validated(len(traces), {"wire": repr(to_bytes(table[mid[0][2]["sc"] - 1]["wire"])), "path": [s[0] for s in mid]})
    # binding B
    rng = random.Random(ctx.seed)
    ntr = ctx.pick(400, 6000)
    trs = []
    nexc = 0
    bigs = big_executions(random.Random(ctx.seed + 29), not ctx.quick)
    nerr = 0
    for i in range(ntr + len(bigs)):
        evs, ex, wire = bigs[i - ntr] if i >= ntr else random_execution(rng)
        bad = [e for e in evs[1:] if "error" in e.get("obs", {})]
        if ex is None and bad:          # the parser gave up on a well-formed message
            nerr += 1
            if nerr <= 10:
                ctx.diverge(Divergence("C29", "state-mismatch", bad[0]["ev"], "%s:errored" % evs[0]["kind"],
                                       "well-formed message reported as erroneous: %s" % bad[0]["obs"]["error"][:120],
                                       steps=_short(evs[:evs.index(bad[0]) + 1]),
                                       extra={"wire": _brief(wire), "pieces": [e["k"] for e in evs if e["ev"] == "Deliver"][:40]}))
            continue
        if ex is not None:
            nexc += 1
            if nexc <= 10:
                ctx.diverge(Divergence("C29", "exception", "Parse",
                                       "%s:%s" % (evs[0]["kind"], replay.innermost_ioflo_frame(ex.__traceback__)),
                                       "%s: %s" % (type(ex).__name__, str(ex)[:200]), steps=_short(evs), extra={"wire": _brief(wire)}))
            continue
        trs.append(evs)
    # the big ones last and in small batches of their own (their states are large)
    nbig = sum(1 for t in trs if len(t[0]["wire"]) > LINE_LIMIT)
    out = trace.validate("HttpParseTrace", TRACE_CFG, SPEC_DIR, trs[:len(trs) - nbig], batch=100, timeout=40000)
    if nbig:
        out2 = trace.validate("HttpParseTrace", TRACE_CFG, SPEC_DIR, trs[len(trs) - nbig:], batch=4, timeout=40000)
        base = len(trs) - nbig
        out.accepted |= {base + i for i in out2.accepted}
        out.rejected.update({base + i: v for i, v in out2.rejected.items()})
        out.model_errors += [(base + i, e, nm, tr) for (i, e, nm, tr) in out2.model_errors]
        out.states += out2.states
        out.generated += out2.generated
    ctx.states += out.states
    ctx.transitions += out.generated
    if trs:
        ctx.add_validated(len(out.accepted), {"wire": _brief(to_bytes(trs[0][0]["wire"])), "events": [e["ev"] + (str(e.get("k", ""))) for e in trs[0][1:12]]})
    for i, pref in sorted(out.rejected.items())[:10]:
        ev = trs[i][pref] if 0 <= pref < len(trs[i]) else {}
        ctx.diverge(Divergence("C29", "rejected", ev.get("ev", "?"), "%s:trace" % trs[i][0]["kind"],
                               "recorded execution is not a behaviour of HttpParse.tla at event %d: %s" % (pref + 1, json.dumps(ev)[:300]),
                               steps=_short(trs[i][:pref + 1]), extra={"wire": _brief(to_bytes(trs[i][0]["wire"]))}))
    for (i, err, name, tr) in out.model_errors[:5]:
        ctx.diverge(Divergence("C29", "rejected", name or err, "trace-invariant", "invariant %s violated on a recorded execution" % name,
                               steps=_short(trs[i])))
    ctx.exhaustive = (cov == total)
    ctx.extra.update({"scenarios": len(table), "graph_edges": total, "edges_replayed": cov, "replay_steps": n,
                      "random_executions": ntr, "big_message_executions": len(bigs), "random_traces_accepted": len(out.accepted),
                      "distinct_nontrivial": cov + len(out.accepted), "evaluations": n + sum(len(t) for t in trs)})


def _short(evs):
    """events for a report: wires as text, long byte lists abbreviated"""
    def cut(x):
        if isinstance(x, list) and len(x) > 400 and all(isinstance(v, str) for v in x):
            return x[:60] + ["... %d bytes ..." % len(x)] + x[-20:]
        if isinstance(x, list):
            return [cut(v) for v in x]
        if isinstance(x, dict):
            return {k: cut(v) for k, v in x.items()}
        return x
    out = []
    for e in evs:
        e = cut(dict(e))
        if "wire" in e:
            e["wire"] = "".join(chr(SYM[s]) if s in SYM else s for s in e["wire"])
        out.append(e)
    return out


PROPERTIES = {"C29": run_c29}
