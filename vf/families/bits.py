"""C40 - bit field, byte, hex and binary string codecs (specs/aid/Bits.tla).

Binding C.  Bits.tla defines the codecs of ioflo.aid.byting on bit strings from their docstrings (pack = concatenation
of the masked field bit strings, left aligned in size bytes; unpack = the inverse reading with the padding field;
packInto = pack framed in a buffer; bytify/unbytify = base 256 digits, two's complement for negative / strict;
hexify/unhexify; binize/unbinize; signExtend).  TLC checks the algebra (round trips, masking = mod 2^w, positional sum,
framing, mirror images, mutual inverses, two's complement) on every case and writes the (input -> output) table; the
harness replays every row against the real functions.

Cases: grids enumerated inside TLC (all formats up to a total width, all / boundary field values, all short byte
strings ...), sharded over several single-worker TLC processes, plus seeded random *wide* cases (fields up to 70 bits,
formats up to some hundred bits, numbers up to 2^100) which the harness hands to TLC as JSON with numbers written as
bit strings, so that the expected outputs are always computed by the specification.
"""
import json
import os
import random
from concurrent.futures import ThreadPoolExecutor, as_completed

from .. import env, tlc
from ..replay import Divergence

SPEC_DIR = env.SPECS + "/aid"
INVARIANTS = ["PackLaws", "MaskIsMod", "Positional", "IntoFrame", "UnpackLaws", "BooleanRender", "BytifyInverse",
              "UnbytifyInverse", "HexInverse", "BinInverse", "SignIsTwosComplement", "WideBytify"]
CONSTS = {
    "quick":    dict(TMax=10, EMax=7, OMax=5, UAll=5, PMax=3, VMax=8, IMax=5, NMax=150, LMax=1, HMax=3, BMax=8, SMax=8),
    "thorough": dict(TMax=16, EMax=9, OMax=7, UAll=8, PMax=3, VMax=10, IMax=8, NMax=1000, LMax=1, HMax=4, BMax=12, SMax=12),
}
NWIDE = {"quick": 150, "thorough": 2500}        # random wide cases per kind
MAX_REPORTED = 3                                 # divergences reported per function
JVM_OPTS = "-Xmx4g -XX:ParallelGCThreads=2 -XX:TieredStopAtLevel=1"    # many short single-worker TLC processes side by side
NONE = -1
GAP = -1


def _cfg(consts, shard, nshards):
    s = "SPECIFICATION Spec\nCONSTANTS\n" + "".join("  %s = %d\n" % kv for kv in consts.items())
    s += "  Shard = %d\n  NShards = %d\n" % (shard, nshards)
    s += "".join("INVARIANT %s\n" % i for i in INVARIANTS)
    return s + "CHECK_DEADLOCK FALSE\n"


# ---------------------------------------------------------------- numbers <-> bit strings (transport encoding only)
def to_bits(n, width=None):
    """big endian binary digits of n >= 0 (minimal, or left padded / truncated to width)"""
    s = bin(n)[2:] if n else ""
    if width is not None:
        s = s.rjust(width, "0")[-width:] if width else ""
    return [int(ch) for ch in s]


def from_bits(bits):
    n = 0
    for b in bits:
        n = (n << 1) | b
    return n


# ---------------------------------------------------------------- random wide cases
def wide_cases(rng, n):
    cases = []

    def rfmt():
        k = rng.choice([1, 1, 2, 3, 4, 6, 9, 12])
        return [rng.choice([1, 1, 2, 3, 7, 8, 9, 15, 16, 17, 31, 32, 33, 48, 63, 64, 65, 70, rng.randint(1, 70)]) for _ in range(k)]

    def rval(w):
        c = rng.random()
        if c < 0.45:
            v = rng.getrandbits(w)
        elif c < 0.55:
            v = (1 << w) - 1
        elif c < 0.62:
            v = 0
        elif c < 0.70:
            v = 1 << (w - 1)
        else:                                   # out of range: must be masked (one bit: truth value)
            v = rng.getrandbits(w + rng.randint(1, 9)) | (1 << (w + rng.randint(0, 3)))
        pad = rng.choice([0, 0, 3])             # some leading zeros in the transport encoding
        return [0] * pad + to_bits(v)

    for _ in range(n):
        fmt = rfmt()
        need = (sum(fmt) + 7) // 8
        size = NONE if rng.random() < 0.6 else need + rng.choice([0, 0, 1, 2])
        nb = need if size == NONE else size
        buf = [rng.randrange(256) for _ in range(rng.choice([0, 1, nb, nb + 3, rng.randint(0, 40)]))]
        off = rng.choice([0, 0, 1, len(buf), len(buf) + 2, rng.randint(0, max(0, len(buf) - nb) + 1)])
        c = rng.random()                        # output extremes: every field all ones / zero -> bytes ff.. / 00..
        vals = [to_bits((1 << w) - 1) for w in fmt] if c < 0.08 else ([[] for w in fmt] if c < 0.12 else [rval(w) for w in fmt])
        cases.append({"k": "wpack", "fmt": fmt, "vals": vals, "size": size, "rev": rng.random() < 0.5,
                      "buf": buf, "off": off})
    for _ in range(n):
        fmt = rfmt()
        need = (sum(fmt) + 7) // 8
        size = NONE if rng.random() < 0.6 else need + rng.choice([0, 1, 3])
        nb = need if size == NONE else size
        b = [rng.choice([0, 255, rng.randrange(256), rng.randrange(256)]) for _ in range(nb + rng.choice([0, 0, 1, 5]))]
        c = rng.random()                        # output extremes: every field all ones / zero
        b = [255] * len(b) if c < 0.12 else ([0] * len(b) if c < 0.18 else b)
        cases.append({"k": "wunpack", "fmt": fmt, "b": b, "size": size, "rev": rng.random() < 0.5})
    for _ in range(n):
        nbits = rng.choice([0, 1, 7, 8, 9, 31, 32, 33, 63, 64, 65, rng.randint(0, 100)])
        mag = rng.getrandbits(nbits) if nbits else 0
        if rng.random() < 0.3 and nbits:
            mag = rng.choice([(1 << nbits) - 1, 1 << (nbits - 1), (1 << nbits)])
        cases.append({"k": "wbytify", "mag": to_bits(mag), "neg": mag > 0 and rng.random() < 0.5,
                      "size": rng.choice([0, 1, 2, 4, 8, 9, rng.randint(0, 16)]), "rev": rng.random() < 0.5, "strict": rng.random() < 0.5})
    for j in range(n):
        b = [rng.choice([0, 255, rng.randrange(256)]) for _ in range(rng.randint(0, 20))]
        if j < 42:                              # output extremes: 2^(8k) - 1, 0, and values around 2^53 and 2^64
            b = [255 if j % 2 else 0] * (j // 2)
        elif j < 60:
            b = [[0x20, 0, 0, 0, 0, 0, 0], [0x1f] + [255] * 6, [0x20] + [0] * 5 + [1], [255] * 7 + [252, 0], [255] * 8 + [254],
                 [1] + [0] * 8][j % 6]
        cases.append({"k": "wunbytify", "b": b, "rev": rng.random() < 0.5})
    for _ in range(n):
        nb = rng.choice([1, 2, 8, 16, 31, 32, 33, 64, rng.randint(1, 80)])
        x = rng.choice([rng.getrandbits(nb), (1 << nb) - 1, 1 << (nb - 1), (1 << (nb - 1)) - 1, 0])
        cases.append({"k": "wsign", "x": to_bits(x, nb)})
    for _ in range(n):
        c = rng.random()
        ln = rng.randint(3, 40)
        cases.append({"k": "whexify", "b": [255] * ln if c < 0.06 else ([0] * ln if c < 0.12 else [rng.randrange(256) for _ in range(ln)])})
    for _ in range(n):
        cases.append({"k": "wunhexify", "h": [rng.choice("0123456789abcdefABCDEF") for _ in range(rng.randint(5, 81))]})
    for _ in range(n):
        nb = rng.randint(0, 80)
        v = (1 << nb) - 1 if rng.random() < 0.15 else (rng.getrandbits(nb) if nb else 0)
        cases.append({"k": "wbinize", "bits": to_bits(v), "size": nb + rng.choice([0, 0, 1, 8])})
    for _ in range(n):
        c = rng.random()
        cases.append({"k": "wunbinize", "u": [("1" if c < 0.1 else "0" if c < 0.15 else rng.choice("01")) for _ in range(rng.randint(13, 80))]})
    return cases


# ---------------------------------------------------------------- replay of the table rows on the real functions
class Replayer:
    def __init__(self, ctx, byting):
        self.ctx = ctx
        self.by = byting
        self.reported = {}
        self.nbad = {}
        self.calls = 0
        self.rows = 0
        self.stats = {}

    def stat(self, name, cond=True):
        if cond:
            self.stats[name] = self.stats.get(name, 0) + 1

    def bad(self, fn, row, got, exp, kind="table-mismatch", what=""):
        self.nbad[fn] = self.nbad.get(fn, 0) + 1
        if self.reported.get(fn, 0) < MAX_REPORTED:
            self.reported[fn] = self.reported.get(fn, 0) + 1
            inp = {k: v for k, v in row.items() if k not in ("p", "pr", "ps", "u", "ub", "out", "ret")}
            self.ctx.diverge(Divergence("C40", kind, fn, "byting." + fn,
                                        "%s%s got %r expected %r" % (what + " " if what else "", json.dumps(inp, sort_keys=True)[:400], got, exp),
                                        expected=exp, actual=repr(got), extra={"row": row}))

    def call(self, fn, row, *a, **k):
        self.calls += 1
        try:
            return True, getattr(self.by, fn)(*a, **k)
        except Exception as ex:                 # no exception is documented for the inputs used here
            self.bad(fn, row, "%s: %s" % (type(ex).__name__, ex), "a result", kind="exception", what="args=%r %r" % (a, k))
            return False, None

    def expect_bytes(self, fn, row, exp, *a, **k):
        ok, r = self.call(fn, row, *a, **k)
        if ok and not (isinstance(r, (bytes, bytearray)) and bytes(r) == bytes(exp)):
            self.bad(fn, row, r, bytearray(exp), what="args=%r %r" % (a[1:], k))

    def expect_fields(self, row, fmt, exp, boolean, *a, **k):
        ok, r = self.call("unpackify", row, *a, boolean=boolean, **k)
        if not ok:
            return
        good = isinstance(r, (tuple, list)) and len(r) == len(exp)
        if good:
            for i, (g, e) in enumerate(zip(r, exp)):
                if isinstance(e, bool):         # a one bit field of the format with boolean requested: a real boolean
                    good = good and isinstance(g, bool) and g == e
                elif i < len(fmt):              # a field of the format: an unsigned integer, not a boolean
                    good = good and isinstance(g, int) and not isinstance(g, bool) and g == e
                else:                           # the padding field (a one bit padding field may be rendered either way)
                    good = good and isinstance(g, int) and g == e
        if not good:
            self.bad("unpackify", row, r, tuple(exp), what="boolean=%r %r" % (boolean, k))

    @staticmethod
    def fmt_str(fmt, i):
        sep = "  " if i % 7 == 3 else ("\t" if i % 11 == 5 else " ")
        return sep.join(str(w) for w in fmt)

    def row(self, i, r):
        self.rows += 1
        k = r["k"]
        getattr(self, "r_" + k)(i, r)

    # --- enumerated kinds
    def r_pack(self, i, r):
        fmt, vals, p = r["fmt"], r["vals"], r["p"]
        fs = self.fmt_str(fmt, i)
        seq = tuple(vals) if i % 2 else list(vals)
        self.expect_bytes("packify", r, p, fs, seq)
        self.expect_bytes("packify", r, r["pr"], fs, seq, reverse=True)
        self.expect_bytes("packify", r, r["ps"], fs, seq, size=len(p) + 1)
        if any(w == 1 for w in fmt) and all(v in (0, 1) for w, v in zip(fmt, vals) if w == 1):
            self.expect_bytes("packify", r, p, fs, [bool(v) if w == 1 else v for w, v in zip(fmt, vals)])
        self.expect_fields(r, fmt, r["u"], False, fs, bytearray(p))
        self.expect_fields(r, fmt, r["ub"], True, fs, bytearray(p))
        self.expect_fields(r, fmt, r["u"], False, fs, bytes(r["pr"]), reverse=True)
        self.stat("pack rows")
        self.stat("pack: some value masked", any(w > 1 and v >= (1 << w) for w, v in zip(fmt, vals)))
        self.stat("pack: one bit field truthy > 1", any(w == 1 and v > 1 for w, v in zip(fmt, vals)))
        self.stat("pack: padding bits", sum(fmt) % 8 != 0)
        self.stat("pack: two bytes", len(p) == 2)
        self.stat("pack: boolean fields", any(isinstance(x, bool) for x in r["ub"]))

    def r_unpack(self, i, r):
        fmt, b = r["fmt"], r["b"]
        fs = self.fmt_str(fmt, i)
        kw = {"reverse": r["rev"]}
        if r["size"] != NONE:
            kw["size"] = r["size"]
        arg = (bytearray(b), bytes(b), list(b))[i % 3]
        self.expect_fields(r, fmt, r["u"], False, fs, arg, **kw)
        self.expect_fields(r, fmt, r["ub"], True, fs, arg, **kw)
        if isinstance(arg, bytearray) and arg != bytearray(b):
            self.bad("unpackify", r, list(arg), b, what="input buffer modified")
        self.stat("unpack rows")
        self.stat("unpack: nonzero padding field", len(r["u"]) > len(fmt) and r["u"][-1] != 0)
        self.stat("unpack: reversed", r["rev"])
        self.stat("unpack: explicit size", r["size"] != NONE)
        self.stat("unpack: buffer longer than size", len(b) > (r["size"] if r["size"] != NONE else (sum(fmt) + 7) // 8))

    def into(self, r, fs, vals):
        b = bytearray(r["buf"])
        kw = {"offset": r["off"], "reverse": r["rev"]}
        if r["size"] != NONE:
            kw["size"] = r["size"]
        ok, ret = self.call("packifyInto", r, b, fs, vals, **kw)
        if not ok:
            return
        exp = r["out"]
        if ret != r["ret"] or isinstance(ret, bool):
            self.bad("packifyInto", r, ret, r["ret"], what="returned size")
        if len(b) != len(exp) or any(e != GAP and g != e for g, e in zip(b, exp)):
            self.bad("packifyInto", r, list(b), exp, what="buffer after the call (-1 = unspecified)")

    def r_into(self, i, r):
        self.into(r, self.fmt_str(r["fmt"], i), r["vals"])
        self.stat("into rows")
        self.stat("into: buffer grows", len(r["out"]) > len(r["buf"]))
        self.stat("into: gap before offset", GAP in r["out"])
        self.stat("into: inside buffer", len(r["out"]) == len(r["buf"]) and r["ret"] > 0)
        self.stat("into: reversed", r["rev"])

    def r_err(self, i, r):
        fmt, size = r["fmt"], r["size"]
        fs = self.fmt_str(fmt, i)
        zeros = [0] * len(fmt)
        kw = {} if size == NONE else {"size": size}
        for fn, args, expect in (("packify", (fs, zeros), r["raises"]),
                                 ("packifyInto", (bytearray(4), fs, zeros), r["raises"]),
                                 ("unpackify", (fs, bytearray([0x5a] * r["blen"])), r["raises"] or r["short"])):
            self.calls += 1
            try:
                res = getattr(self.by, fn)(*args, **kw)
            except Exception:                    # "returns exception": the documentation names no type
                raised = True
            else:
                raised = False
            if raised != expect:
                why = "format wider than size bytes" if r["raises"] else "format has more bits than the buffer"
                self.bad(fn, r, "no exception: %r" % (res,) if not raised else "exception",
                         "an exception (%s)" % why if expect else "a result", what="error contract")
        self.stat("err rows")
        self.stat("err: size too small", r["raises"])
        self.stat("err: buffer too short", r["short"] and not r["raises"])
        self.stat("err: no error", not r["short"] and not r["raises"])

    def r_bytify(self, i, r):
        self.expect_bytes("bytify", r, r["b"], r["n"], r["size"], reverse=r["rev"], strict=r["strict"])
        if not r["rev"] and not r["strict"]:
            if r["size"] == 1:
                self.expect_bytes("bytify", r, r["b"], r["n"])          # documented defaults
            else:
                self.expect_bytes("bytify", r, r["b"], n=r["n"], size=r["size"])
        self.stat("bytify rows")
        self.stat("bytify: negative", r["n"] < 0)
        self.stat("bytify: strict truncates", r["strict"] and r["n"] >= 256 ** r["size"])
        self.stat("bytify: extended beyond size", len(r["b"]) > r["size"])
        self.stat("bytify: zero padded", r["n"] >= 0 and len(r["b"]) == r["size"] and r["size"] > 0 and r["n"] < 256 ** (r["size"] - 1))

    def r_unbytify(self, i, r):
        b = r["b"]
        for arg in (bytearray(b), bytes(b), list(b)):
            ok, n = self.call("unbytify", r, arg, reverse=r["rev"])
            if ok and (n != r["n"] or isinstance(n, bool) or not isinstance(n, int)):
                self.bad("unbytify", r, n, r["n"])
        if not r["rev"]:
            ok, n = self.call("unbytify", r, bytearray(b))
            if ok and n != r["n"]:
                self.bad("unbytify", r, n, r["n"], what="default order")
        self.stat("unbytify rows")

    def hexify(self, r):
        exp = "".join(r["h"])
        for fn, arg in (("hexify", bytearray(r["b"])), ("hexify", bytes(r["b"])), ("hexize", bytes(r["b"]))):
            ok, h = self.call(fn, r, arg)
            # the documentation does not fix the letter case of the digits
            if ok and not (isinstance(h, str) and h.lower() == exp):
                self.bad(fn, r, h, exp)

    def unhexify(self, r):
        h = "".join(r["h"])
        for fn in ("unhexify", "unhexize"):
            ok, b = self.call(fn, r, h)
            if ok and not (isinstance(b, (bytes, bytearray)) and bytes(b) == bytes(r["b"])):
                self.bad(fn, r, b, bytes(r["b"]))

    def r_hexify(self, i, r):
        self.hexify(r)
        self.stat("hexify rows")

    def r_unhexify(self, i, r):
        self.unhexify(r)
        self.stat("unhexify rows")
        self.stat("unhexify: odd number of digits", len(r["h"]) % 2 == 1)
        self.stat("unhexify: upper case digits", any(ch in "ABCDEF" for ch in r["h"]))

    def r_binize(self, i, r):
        ok, u = self.call("binize", r, r["n"], r["size"])
        if ok and not (isinstance(u, str) and u == "".join(r["u"])):
            self.bad("binize", r, u, "".join(r["u"]))
        if r["size"] == 8:
            ok, u = self.call("binize", r, r["n"])
            if ok and u != "".join(r["u"]):
                self.bad("binize", r, u, "".join(r["u"]), what="default size")
        self.stat("binize rows")

    def r_unbinize(self, i, r):
        ok, n = self.call("unbinize", r, "".join(r["u"]))
        if ok and (n != r["n"] or isinstance(n, bool)):
            self.bad("unbinize", r, n, r["n"])
        self.stat("unbinize rows")

    def r_sign(self, i, r):
        ok, v = self.call("signExtend", r, r["x"], r["n"])
        if ok and (v != r["r"] or isinstance(v, bool)):
            self.bad("signExtend", r, v, r["r"])
        if r["n"] == 8:
            ok, v = self.call("signExtend", r, r["x"])
            if ok and v != r["r"]:
                self.bad("signExtend", r, v, r["r"], what="default n")
        self.stat("sign rows")
        self.stat("sign: negative", r["r"] < 0)

    # --- wide kinds (numbers travel as bit strings)
    def r_wpack(self, i, r):
        fmt = r["fmt"]
        fs = self.fmt_str(fmt, i)
        vals = [from_bits(v) for v in r["vals"]]
        kw = {"reverse": r["rev"]}
        if r["size"] != NONE:
            kw["size"] = r["size"]
        self.expect_bytes("packify", r, r["p"], fs, vals, **kw)
        u = [from_bits(x) for x in r["u"]]
        self.expect_fields(r, fmt, u, False, fs, bytearray(r["p"]), **kw)
        ub = [bool(x) if j < len(fmt) and fmt[j] == 1 else x for j, x in enumerate(u)]
        # (which fields are booleans is fixed by Render in the spec and checked there on the enumerated cases)
        self.expect_fields(r, fmt, ub, True, fs, bytes(r["p"]), **kw)
        self.into(r, fs, vals)
        self.stat("wide pack rows")
        self.stat("wide pack: field wider than 32 bits", any(w > 32 for w in fmt))
        self.stat("wide pack: value masked", any(w > 1 and v >= (1 << w) for w, v in zip(fmt, vals)))

    def r_wunpack(self, i, r):
        fmt = r["fmt"]
        kw = {"reverse": r["rev"]}
        if r["size"] != NONE:
            kw["size"] = r["size"]
        self.expect_fields(r, fmt, [from_bits(x) for x in r["u"]], False, self.fmt_str(fmt, i), bytearray(r["b"]), **kw)
        self.stat("wide unpack rows")

    def r_wbytify(self, i, r):
        n = from_bits(r["mag"])
        n = -n if r["neg"] else n
        self.expect_bytes("bytify", r, r["b"], n, r["size"], reverse=r["rev"], strict=r["strict"])
        self.stat("wide bytify rows")
        self.stat("wide bytify: negative", r["neg"])

    def r_wunbytify(self, i, r):
        ok, n = self.call("unbytify", r, bytearray(r["b"]), reverse=r["rev"])
        if ok and n != from_bits(r["bits"]):
            self.bad("unbytify", r, n, from_bits(r["bits"]))
        self.stat("wide unbytify rows")

    def r_wsign(self, i, r):
        exp = from_bits(r["mag"])
        exp = -exp if r["neg"] else exp
        ok, v = self.call("signExtend", r, from_bits(r["x"]), len(r["x"]))
        if ok and v != exp:
            self.bad("signExtend", r, v, exp)
        self.stat("wide sign rows")
        self.stat("wide sign: negative", r["neg"])

    def r_whexify(self, i, r):
        self.hexify(r)
        self.stat("wide hexify rows")

    def r_wunhexify(self, i, r):
        self.unhexify(r)
        self.stat("wide unhexify rows")

    def r_wbinize(self, i, r):
        ok, u = self.call("binize", r, from_bits(r["bits"]), r["size"])
        if ok and u != "".join(r["u"]):
            self.bad("binize", r, u, "".join(r["u"]))
        self.stat("wide binize rows")

    def r_wunbinize(self, i, r):
        ok, n = self.call("unbinize", r, "".join(r["u"]))
        if ok and n != from_bits(r["bits"]):
            self.bad("unbinize", r, n, from_bits(r["bits"]))
        self.stat("wide unbinize rows")


REQUIRED_STATS = [
    "pack rows", "pack: some value masked", "pack: one bit field truthy > 1", "pack: padding bits", "pack: two bytes",
    "pack: boolean fields", "unpack rows", "unpack: nonzero padding field", "unpack: reversed", "unpack: explicit size",
    "unpack: buffer longer than size", "into rows", "into: buffer grows", "into: gap before offset", "into: inside buffer",
    "into: reversed", "err rows", "err: size too small", "err: buffer too short", "err: no error", "bytify rows", "bytify: negative", "bytify: strict truncates", "bytify: extended beyond size",
    "bytify: zero padded", "unbytify rows", "hexify rows", "unhexify rows", "unhexify: odd number of digits",
    "unhexify: upper case digits", "binize rows", "unbinize rows", "sign rows", "sign: negative",
    "wide pack rows", "wide pack: field wider than 32 bits", "wide pack: value masked", "wide unpack rows", "wide bytify rows",
    "wide bytify: negative", "wide unbytify rows", "wide sign rows", "wide sign: negative", "wide hexify rows",
    "wide unhexify rows", "wide binize rows", "wide unbinize rows"]


def run_c40(ctx):
    env.use_repo()
    from ioflo.aid import byting
    consts = CONSTS[ctx.tier]
    rng = random.Random(ctx.seed * 7919 + 40)
    wide = wide_cases(rng, NWIDE[ctx.tier])
    rng.shuffle(wide)
    nshards = max(1, env.NCPU)
    work = env.subdir("c40")

    def shard(k):
        cases = os.path.join(work, "cases%d.json" % k)
        out = os.path.join(work, "table%d.json" % k)
        mine = wide[k::nshards]
        with open(cases, "w") as f:
            json.dump(mine, f)
        res = tlc.run("Bits", _cfg(consts, k, nshards), spec_dir=SPEC_DIR, workers=1, coverage=False,
                      extra_env={"TABLE_OUT": out, "CASES_FILE": cases, "JAVA_TOOL_OPTIONS": JVM_OPTS}, tag="c40-%d" % k)
        return k, res, out, len(mine)

    rp = Replayer(ctx, byting)
    nrows = nfile = 0
    sample = None
    with ThreadPoolExecutor(max_workers=nshards) as ex:
        futs = [ex.submit(shard, k) for k in range(nshards)]
        for fut in as_completed(futs):
            k, res, out, nmine = fut.result()
            ctx.add_model(res, "Bits shard %d/%d" % (k, nshards), dict(consts, Shard=k, NShards=nshards))
            if not res.ok:
                ctx.diverge(Divergence("C40", "model", res.error_name or res.error, "Bits",
                                       "a law of the codec specification is violated in the model",
                                       steps=[{"action": a, "state": s} for a, s in res.trace]))
                continue
            counted = [v for v in tlc.printed_values(res.out) if len(v) == 3 and v[0] == "CASES"]
            with open(out) as f:
                table = json.load(f)
            os.unlink(out)
            if not counted or counted[0][1] != len(table) or counted[0][2] != nmine or not 0 < res.distinct <= len(table):
                raise tlc.TlcError("Bits shard %d: table has %d rows, TLC reports %r cases, %d states" % (k, len(table), counted, res.distinct))
            nrows += len(table)
            nfile += nmine
            for i, row in enumerate(table):
                rp.row(i, row)
            if sample is None and table:
                sample = [r for r in table if r["k"] == "pack" and len(r["fmt"]) >= 3][:1] + [r for r in table if r["k"] == "wpack"][:1]
            del table
    if ctx.divs and any(d.kind == "model" for d in ctx.divs):
        return
    missing = [s for s in REQUIRED_STATS if not rp.stats.get(s)]
    if missing or nfile != len(wide):
        raise tlc.TlcError("vacuous C40 run: no case of: %s (wide cases through TLC: %d of %d)" % (", ".join(missing), nfile, len(wide)))
    for fn, n in sorted(rp.nbad.items()):
        ctx.note("%s disagreed with the specification on %d calls" % (fn, n))
    for s in sample or []:
        ctx.sample(s)
    ctx.add_validated(nrows)
    ctx.exhaustive = True
    ctx.rule = ("cases enumerated by TLC from the constants (every format = composition of every total width 0..TMax with pattern "
                "values; every in-range value tuple for total width <= EMax; out-of-range variants <= OMax; every byte for "
                "unpack formats <= UAll; buffers x offsets x sizes x orders for packInto; -NMax..NMax x sizes x orders x strict "
                "for bytify; all byte strings <= LMax; hex strings <= HMax; bit strings <= BMax; n <= SMax for signExtend) plus "
                "%d seeded random wide cases computed by TLC from JSON; every table row replayed on the real functions" % len(wide))
    ctx.extra.update({"evaluations": rp.calls, "distinct_nontrivial": nrows, "grid_rows": nrows - nfile, "random_wide_cases": nfile,
                      "tlc_shards": nshards, "case_classes": dict(sorted(rp.stats.items()))})
    ctx.assume("exhaustive within the constants only; wide formats / large numbers are seeded random samples")
    ctx.assume("hexify / hexize output is compared case-insensitively (the documentation does not fix the letter case); "
               "unhexify is exercised on hexadecimal digit strings only (its documented domain)")
    ctx.assume("bytes a grown buffer gets between its old end and the offset are not compared (undocumented)")
    ctx.assume("TLC, its Json/SequencesExt Java overrides and the row comparison in vf/families/bits.py are trusted")


PROPERTIES = {"C40": run_c40}
