"""Helpers shared by the families reconnect (C27), idle (C28), gram (C35), streamstack (C36); not a family itself.

  conform()        binding A for specifications that leave the implementation a choice: the state graph dumped by TLC is
                   walked *with* the real object.  The harness controls the environment part of every step (its "key");
                   among the specification's successors for that key the one(s) agreeing with the projection of the real
                   object are followed; no agreeing successor = divergence.  Every key enabled at every visited node is
                   executed (breadth first, nodes are sets of candidate specification states).
  DestSocket       datagram socket double whose answer to sendto depends on the destination (built on ScriptedSocket)
  GramHandler      scripted datagram handler for a bare GramStack
  Wire / PairSock  an in-memory pair of stream socket doubles (what one side sends the other side receives), with the
                   amount accepted per send and delivered per recv scripted by the model
  LenPacket        length-prefixed test packet class (one length byte + payload), parse raises ValueError when incomplete
"""
import errno
import socket as _socket
from collections import deque

from .. import doubles_net as dn
from .. import replay
from ..replay import Divergence

TRANSIENT = (errno.ECONNREFUSED, errno.ECONNRESET, errno.ENETRESET, errno.ENETUNREACH, errno.EHOSTUNREACH,
             errno.ENETDOWN, errno.EHOSTDOWN, errno.ETIMEDOUT, errno.ETIME)
LOSS = (errno.ECONNRESET, errno.ENETRESET, errno.ENETUNREACH, errno.EHOSTUNREACH, errno.ENETDOWN, errno.EHOSTDOWN,
        errno.ETIMEDOUT, errno.ECONNREFUSED)


# ------------------------------------------------------------------ conformance walk
class Walk(object):
    def __init__(self):
        self.nodes = 0          # distinct nodes (sets of candidate specification states) visited
        self.execs = 0          # (node, key) pairs executed on the real object
        self.steps = 0          # calls of adapter.step (including re-execution of prefixes)
        self.edges = set()      # specification edges (src, label, dst) followed
        self.states = set()     # specification states visited
        self.complete = True    # False when a depth / budget limit cut the exploration
        self.divergences = []
        self.ambiguous = 0      # steps after which more than one candidate state remained
        self.samples = []


def default_match(spec_state, actual):
    return replay._compare(spec_state, actual, None) is None


def conform(prop, g, make_adapter, *, env_key=None, match=default_match, max_depth=60, max_execs=None, stop_after=5,
            roots=None, where=""):
    """Walk graph g together with the implementation (see module docstring).

    make_adapter(init_state) -> object with step(name, key, candidates) -> projection dict, optional close().
      `key` is env_key(name, args) of the edges tried (default: the full argument tuple); `candidates` the list of
      (name, args, state) of the specification's alternatives for that key (for adapters that want to look).
      Optional fingerprint() -> hashable: implementation state the projection does not show (a timer's remaining time,
      a buffer).  It never enters the verdict; it only keeps the walk from treating two situations as explored once when
      the specification state is the same but the implementation may behave differently from there (a node of the walk
      is the pair: candidate specification states, fingerprint).
    Returns a Walk.
    """
    env_key = env_key or (lambda name, args: (name, args))
    w = Walk()
    parent = {}
    todo = deque()
    for i in (roots if roots is not None else g.inits):
        node = (frozenset([i]), None)
        if node not in parent:
            parent[node] = None
            todo.append((node, i, ()))
    keyed = {}

    def keys_of(u):
        if u not in keyed:
            d = {}
            for (lab, (name, args), v) in g.out[u]:
                d.setdefault(env_key(name, args), []).append((lab, name, args, v))
            keyed[u] = d
        return keyed[u]

    def steps_of(node, upto=None):
        chain = []
        n = node
        while parent.get(n) is not None:
            p, key = parent[n]
            chain.append({"action": repr(key), "state": g.states[min(n[0])]})
            n = p
        chain.append({"action": "Init", "state": g.states[min(n[0])]})
        chain.reverse()
        return chain

    def run(init, path):
        ad = make_adapter(g.states[init])
        for (name, key, cands) in path:
            w.steps += 1
            ad.step(name, key, cands)
        return ad

    while todo:
        node, init, path = todo.popleft()
        w.nodes += 1
        w.states |= node[0]
        if len(path) >= max_depth:
            w.complete = False
            continue
        common = None
        for u in node[0]:
            ks = set(keys_of(u))
            common = ks if common is None else (common & ks)
        for key in sorted(common or (), key=repr):
            if max_execs is not None and w.execs >= max_execs:
                w.complete = False
                break
            alts = [(u,) + e for u in node[0] for e in keys_of(u)[key]]
            name = alts[0][2]
            cands = [(nm, args, g.states[v]) for (u, lab, nm, args, v) in alts]
            w.execs += 1
            ad = None
            fp = None
            try:
                with deadline(30):
                    ad = run(init, path)
                    w.steps += 1
                    actual = ad.step(name, key, cands)
                if actual is not None and hasattr(ad, "fingerprint"):
                    try:
                        fp = ad.fingerprint()
                    except Exception:
                        fp = None
            except Exception as ex:
                import traceback
                st = steps_of(node) + [{"action": repr(key), "state": "(exception)"}]
                w.divergences.append(Divergence(prop, "exception", name, where + replay.innermost_ioflo_frame(ex.__traceback__),
                                                "%s: %s" % (type(ex).__name__, str(ex)[:200]), steps=st,
                                                extra={"traceback": traceback.format_exc()[-2000:]}))
                actual = None
                if isinstance(ex, StepTimeout):
                    w.divergences[-1].kind = "nontermination"
                    w.complete = False
                    return w
            finally:
                if ad is not None and hasattr(ad, "close"):
                    try:
                        ad.close()
                    except Exception:
                        pass
            if actual is None:
                if len(w.divergences) >= stop_after:
                    return w
                continue
            succ = [(u, lab, v) for (u, lab, nm, args, v) in alts if match(g.states[v], actual)]
            if not succ:
                # describe the nearest alternative
                best = None
                for (u, lab, nm, args, v) in alts:
                    bad = replay._compare(g.states[v], actual, None)
                    if bad and (best is None):
                        best = (lab, bad)
                lab, bad = best if best else (repr(key), ("?", "?", "?"))
                st = steps_of(node) + [{"action": lab, "state": g.states[alts[0][4]]}]
                w.divergences.append(Divergence(prop, "state-mismatch", name, where + str(bad[0]),
                                                "expected %r got %r" % (bad[1], bad[2]) +
                                                (" (none of %d alternatives of the specification agrees)" % len(alts) if len(alts) > 1 else ""),
                                                steps=st, expected=g.states[alts[0][4]], actual=actual))
                if len(w.divergences) >= stop_after:
                    return w
                continue
            for (u, lab, v) in succ:
                w.edges.add((u, lab, v))
            nn = (frozenset(v for (u, lab, v) in succ), fp)
            if len(nn[0]) > 1:
                w.ambiguous += 1
            if nn not in parent:
                parent[nn] = (node, key)
                todo.append((nn, init, path + ((name, key, cands),)))
    return w


def add_walk(ctx, w, g, name):
    """book a Walk into the evidence context; returns (edges followed, total edges)"""
    ctx.diverge(w.divergences)
    ctx.add_validated(w.execs)
    return len(w.edges), g.nedges


# ------------------------------------------------------------------ datagram doubles
class DestSocket(dn.ScriptedSocket):
    """Datagram socket double whose answer to sendto depends on the destination.

    allow[addr] = number of datagrams to addr accepted before ONE send to addr fails with a transient error (after that
    failure the destination answers again, as a destination does that was busy for a moment); addr absent: never fails.
    `attempts` lists every (payload, addr, outcome) offered."""

    def __init__(self, **kw):
        kw.setdefault("type", _socket.SOCK_DGRAM)
        super(DestSocket, self).__init__(**kw)
        self.allow = {}
        self.attempts = []
        self.nfail = 0

    def arm(self, allow):
        self.allow = dict(allow)

    def sendto(self, data, *args):
        addr = args[-1]
        left = self.allow.get(addr)
        if left is None or left > 0:
            if left is not None:
                self.allow[addr] = left - 1
            self.attempts.append((bytes(data), addr, "ok"))
            self.push_front("sendto", dn.FULL)
        else:
            del self.allow[addr]
            self.nfail += 1
            self.attempts.append((bytes(data), addr, "fail"))
            self.push_front("sendto", dn.err(TRANSIENT[self.nfail % len(TRANSIENT)]))
        return super(DestSocket, self).sendto(data, addr)


class GramHandler(object):
    """What a GramStack reaches through .handler (the interface of udp.SocketUdpNb), over a DestSocket."""

    def __init__(self, ha):
        self.ha = ha
        self.opened = False
        self.sock = DestSocket(name="gram", sockname=ha)

    def reopen(self):
        self.opened = True
        return True

    open = reopen

    def close(self):
        self.opened = False

    def send(self, data, da):
        return self.sock.sendto(data, da)

    def receive(self):
        try:
            return self.sock.recvfrom(65535)
        except BlockingIOError:
            return (b"", None)


# ------------------------------------------------------------------ stream pair doubles
class PairSock(dn.ScriptedSocket):
    """One end of an in-memory connection: what this end's send() accepts appears in the other end's inbox.

    The environment (the model) releases per service call  tx_budget  bytes that send() may accept in total (beyond that
    send() answers with a partial count and then would-block),  rx_budget  bytes of the inbox that have "arrived" and
    chunk  = the most bytes one recv() hands over.  Everything else is ScriptedSocket (records .sent, .delivered, ...)."""

    def __init__(self, **kw):
        super(PairSock, self).__init__(**kw)
        self.other = None
        self.inbox = bytearray()
        self.tx_budget = 0
        self.rx_budget = 0
        self.chunk = 1 << 30

    def link(self, other):
        self.other = other
        other.other = self

    def _block(self, op, reading):
        return self._fail(op, dn.BLOCK, reading)

    def send(self, data, flags=0):
        self._alive("send")
        if self.script.get("send"):
            return super(PairSock, self).send(data, flags)
        k = min(len(data), self.tx_budget)
        if k <= 0:
            self._block("send", False)
        self.tx_budget -= k
        piece = bytes(data[:k])
        self.sent.extend(piece)
        self.sent_chunks.append(piece)
        if self.other is not None:
            self.other.inbox.extend(piece)
        self._log("send", "full" if k == len(data) else "part", k)
        return k

    def recv(self, bufsize, flags=0):
        self._alive("recv")
        if self.script.get("recv"):
            return super(PairSock, self).recv(bufsize, flags)
        k = min(bufsize, self.chunk, self.rx_budget, len(self.inbox))
        if k <= 0:
            self._block("recv", True)
        self.rx_budget -= k
        b = bytes(self.inbox[:k])
        del self.inbox[:k]
        self.delivered.extend(b)
        self.delivered_chunks.append(b)
        self._log("recv", "data", len(b))
        return b

    def quiet(self):
        self.tx_budget = 0
        self.rx_budget = 0


class RecDeque(deque):
    """a deque that remembers everything ever appended (handed to a stack as its .rxPkts)"""

    def __init__(self, *a):
        super(RecDeque, self).__init__(*a)
        self.log = []

    def append(self, x):
        self.log.append(x)
        super(RecDeque, self).append(x)


def make_len_packet(packeting):
    """Length-prefixed test packet class: .packed = one byte n followed by n payload bytes.  parse() takes exactly one
    packet from the front of raw and raises ValueError when raw does not hold a complete packet (as the part classes of
    ioflo.aio.proto.packeting do: "Not enough raw data")."""

    class LenPacket(packeting.Packet):
        def __init__(self, stack=None, payload=None, **kwa):
            super(LenPacket, self).__init__(stack=stack, **kwa)
            self.payload = bytes(payload) if payload is not None else None

        def pack(self):
            if self.payload is not None and not getattr(self, "_built", False):   # built once, like a packet whose parts are
                self._built = True                                                # packed when it is made; pack() again
                if len(self.payload) > 255:                                       # returns .packed as it is
                    raise ValueError("Build Packet: payload too long")
                self.packed = bytearray([len(self.payload)]) + bytearray(self.payload)
            return self.packed

        def parse(self, raw):
            if raw is None or len(raw) < 1 or len(raw) < 1 + raw[0]:
                raise ValueError("Parse Packet: Not enough raw data for packet. Got {0} bytes.".format(len(raw or b"")))
            n = raw[0]
            self.payload = bytes(raw[1:1 + n])
            self.packed = bytearray(raw[:1 + n])
            return self.size

    return LenPacket


def quiet_console():
    """the library prints parse errors etc. on its console at level terse: mute it for the harness process"""
    from ioflo.aid.consoling import getConsole
    getConsole().reinit(verbosity=0)


class StepTimeout(Exception):
    """the code under test did not return from one step within the deadline (nontermination)"""


class _Alarm(BaseException):
    """raised by the SIGALRM handler inside the code under test; a BaseException so that an `except Exception` there
    cannot swallow it (deadline.__exit__ turns it into StepTimeout once control is back in the harness)"""


class deadline(object):
    """with deadline(10): ... raises StepTimeout when the block runs longer (SIGALRM on wall-clock time, main thread only;
    the alarm repeats every second in case the first one is caught and dropped inside the block).  A step of the code
    under test takes microseconds, so the limit only ever fires on an endless loop."""

    def __init__(self, seconds=20):
        self.seconds = seconds
        self.armed = False

    def _fire(self, signum, frame):
        if frame is not None and not getattr(self, "at", None):
            self.at = "%s:%s line %d" % (frame.f_code.co_filename.split("/ioflo/")[-1], frame.f_code.co_name, frame.f_lineno)
        raise _Alarm()

    def __enter__(self):
        import signal
        import threading
        if threading.current_thread() is threading.main_thread():
            # CPU time of this process, not wall-clock time: an endless loop burns CPU, while a starved process on a
            # loaded machine does not (a wall-clock deadline fired spuriously at load > 100)
            self.old = signal.signal(signal.SIGPROF, self._fire)
            signal.setitimer(signal.ITIMER_PROF, self.seconds, 1.0)
            self.armed = True
        return self

    def __exit__(self, etype, evalue, tb):
        if self.armed:
            import signal
            signal.setitimer(signal.ITIMER_PROF, 0)
            signal.signal(signal.SIGPROF, self.old)
        if etype is not None and issubclass(etype, _Alarm):
            raise StepTimeout("no return within %ss of CPU time (interrupted in %s)" % (self.seconds, getattr(self, "at", "?")))
        return False


def guarded(adapter_cls, seconds=10):
    """wrap an adapter class so that construction and every step run under a deadline; after the first timeout every
    further use fails at once (an endless loop in the code under test would otherwise cost the deadline per trace)"""
    state = {"dead": None}

    class Guarded(adapter_cls):
        def __init__(self, *a, **k):
            if state["dead"]:
                raise StepTimeout(state["dead"])
            try:
                with deadline(seconds):
                    adapter_cls.__init__(self, *a, **k)
            except StepTimeout as ex:
                state["dead"] = str(ex)
                raise

        def step(self, *a, **k):
            if state["dead"]:
                raise StepTimeout(state["dead"])
            try:
                with deadline(seconds):
                    return adapter_cls.step(self, *a, **k)
            except StepTimeout as ex:
                state["dead"] = str(ex)
                raise

    Guarded.__name__ = adapter_cls.__name__
    return Guarded
