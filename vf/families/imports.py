"""C01 - every ioflo module imports in a fresh interpreter, in any order (specs/imports/Imports.tla, ImportsTrace.tla).

The constants of the model are derived from the tree under test AT CHECK TIME:
  * `ast` gives, per ioflo module, the ordered list of the statements that matter when its body executes
    (imports incl. importlib.import_module loops in __init__ files, `from P import name`, module-level dotted uses
    `pkg.sub.X` where pkg.sub is a submodule);
  * bare children (`python -I`) measure the environment: Boot = sys.modules of a bare interpreter, which attributes are
    bound there, and for each non-ioflo import target whether it exists, what it loads and binds (its closure), which
    of the names asked from it are attributes / submodules / missing.
TLC then explores Imports.tla; binding A replays every Boot --Import(m)--> edge in a bare child and compares outcome,
loaded and bound sets; ordered pairs are covered systematically (for every module m1 one bare child imports m1 and then
every other module in turn: each import must end as it does alone and add exactly its cold closure; the chains are validated
by TLC as well); seeded orders of 2-4 modules are executed in bare children, the children log the module load
starts (sys.meta_path observer) and the sys.modules / bound deltas, and binding B lets TLC decide whether each recorded
execution is a behaviour of the specification (this keeps the ast-derived constants honest).
"""
import ast
import json
import os
import random
import re
import subprocess
import sys
from concurrent.futures import ThreadPoolExecutor

from .. import env, tlc, trace
from ..replay import Divergence
from ..tlc import TlcError

SPEC_DIR = env.SPECS + "/imports"
PKG = "ioflo"
ROOT = [env.REPO]      # the tree the children import from: a snapshot of the package taken when the check starts, so that
                       # a commit landing in the repository while the check runs cannot make model and children disagree


# ----------------------------------------------------------------------------------------------------------------
# bare children
# ----------------------------------------------------------------------------------------------------------------

_PRELUDE = r'''
import sys
_repo = sys.argv[1]
sys.path.insert(0, _repo)
def _bnd():
    out = set()
    for x, m in list(sys.modules.items()):
        p, _, last = x.rpartition('.')
        if p and m is not None:
            pm = sys.modules.get(p)
            if pm is not None and getattr(pm, '__dict__', {}).get(last) is m:
                out.add(x)
    return out
_boot = set(sys.modules)
_bootb = _bnd()
'''

# measures one non-ioflo import target: argv = repo, target, names(,) segs(,) star(0/1)
_PROBE = _PRELUDE + r'''
_t = sys.argv[2]
_names = [n for n in sys.argv[3].split(',') if n]
_segs = [n for n in sys.argv[4].split(',') if n]
_out = {'target': _t, 'avail': True, 'err': '', 'names': {}, 'segs': {}, 'star': []}
try:
    __import__(_t)
except ImportError as ex:
    _out['avail'] = False
    _out['err'] = type(ex).__name__ + ': ' + str(ex)
_out['clo'] = sorted(set(sys.modules) - _boot)
_out['clobound'] = sorted(_bnd() - _bootb)
_m = sys.modules.get(_t)
if _m is not None:
    if sys.argv[5] == '1':
        _all = getattr(_m, '__all__', None)
        _out['star'] = sorted(_all) if _all is not None else sorted(k for k in vars(_m) if not k.startswith('_'))
    for n in _names:
        if hasattr(_m, n):
            _out['names'][n] = 'attr'
        else:
            try:
                __import__(_t + '.' + n)
                _out['names'][n] = 'sub'
            except ImportError:
                _out['names'][n] = 'missing'
    import importlib.util
    for s in _segs:
        try:
            _out['segs'][s] = importlib.util.find_spec(_t + '.' + s) is not None
        except (ImportError, AttributeError, ValueError):
            _out['segs'][s] = False
print('VFOUT ' + repr(_out))
'''

# imports a sequence of modules: argv = repo, m1,m2,...
_CHILD = _PRELUDE + r'''
_log = []
class _Obs:
    @staticmethod
    def find_spec(name, path=None, target=None):
        _log.append(name)
        return None
sys.meta_path.insert(0, _Obs)
_res = {'boot': sorted(_boot), 'bootbound': sorted(_bootb), 'steps': []}
_chain = len(sys.argv) > 3 and sys.argv[3] == 'chain'
_pl = set(_boot)
_pb = set(_bootb)
for _m in sys.argv[2].split(','):
    _st = {'m': _m, 'ok': True}
    _n0 = len(_log)
    try:
        __import__(_m)
    except BaseException as ex:
        _st['ok'] = False
        _st['etype'] = type(ex).__name__
        _st['emsg'] = str(ex)
        _st['ename'] = getattr(ex, 'name', None) or ''
        _tb = ex.__traceback__
        _w = ''
        _ln = 0
        while _tb is not None:
            _f = _tb.tb_frame.f_code.co_filename
            if _f.startswith(_repo):
                _w = _f[len(_repo):].lstrip('/')
                _ln = _tb.tb_lineno
            _tb = _tb.tb_next
        _st['where'] = _w
        _st['line'] = _ln
        _st['stdlib'] = _st['ename'].split('.')[0] in getattr(sys, 'stdlib_module_names', ())
    _st['starts'] = _log[_n0:]
    if _chain:      # a long chain of imports: only what this import added, and go on after a failure
        _nl = set(sys.modules)
        _nb = _bnd()
        _st['dl'] = sorted(_nl - _pl)
        _st['db'] = sorted(_nb - _pb)
        _st['gone'] = sorted((_pl - _nl) | (_pb - _nb))
        _pl = _nl
        _pb = _nb
        _res['steps'].append(_st)
        continue
    _st['loaded'] = sorted(set(sys.modules) - _boot)
    _st['bound'] = sorted(_bnd() - _bootb)
    _res['steps'].append(_st)
    if not _st['ok']:
        break
_i = sys.modules.get('ioflo')
_res['file'] = getattr(_i, '__file__', '') or ''
print('VFOUT ' + repr(_res))
'''


def _bare(prog, args, timeout=300):
    """run a program in a BARE interpreter: isolated mode, no pre-imports; the tree under test is put first on sys.path by the
    program itself (isolated mode ignores PYTHONPATH)"""
    p = subprocess.run([env.PYTHON, "-I", "-B", "-c", prog, ROOT[0]] + list(args), env=env.child_env(), cwd=env.subdir("c01cwd"),
                       stdout=subprocess.PIPE, stderr=subprocess.PIPE, text=True, errors="replace", timeout=timeout)
    for ln in reversed(p.stdout.splitlines()):
        if ln.startswith("VFOUT "):
            return ast.literal_eval(ln[6:])
    raise TlcError("bare child produced no result (rc=%s) for %r:\n%s" % (p.returncode, args, (p.stderr or p.stdout)[-1500:]))


def _pmap(fn, items):
    with ThreadPoolExecutor(max_workers=env.NCPU) as ex:
        return list(ex.map(fn, items))


# ----------------------------------------------------------------------------------------------------------------
# the tree and the environment oracle
# ----------------------------------------------------------------------------------------------------------------

class Tree:
    """the ioflo modules of the tree under test (regular packages only)"""

    def __init__(self, repo):
        self.files = {}
        self.pkgs = set()
        self.skipped = []
        root = os.path.join(repo, PKG)
        for d, ds, fs in os.walk(root):
            ds[:] = sorted(x for x in ds if x != "__pycache__")
            rel = os.path.relpath(d, repo)
            name = rel.replace(os.sep, ".")
            if "__init__.py" not in fs:
                self.skipped.extend(os.path.join(rel, f) for f in fs if f.endswith(".py"))
                ds[:] = []
                continue
            self.pkgs.add(name)
            self.files[name] = os.path.join(d, "__init__.py")
            for f in sorted(fs):
                if f.endswith(".py") and f != "__init__.py" and f[:-3].isidentifier():
                    self.files[name + "." + f[:-3]] = os.path.join(d, f)
        self.mods = sorted(self.files)

    def is_mod(self, name):
        return name in self.files

    def internal(self, name):
        return name == PKG or name.startswith(PKG + ".")


def chain_of(name):
    parts = name.split(".")
    return [".".join(parts[:i]) for i in range(1, len(parts) + 1)]


def is_test_module(name):
    return "test" in name.split(".")[1:]


class Oracle:
    """facts about non-ioflo modules, measured in bare children; unknown facts are queued and answered optimistically
    until the next round of probes"""

    def __init__(self):
        self.facts = {}        # target -> probe result
        self.want = {}         # target -> {"names": set, "segs": set, "star": bool}

    def _ask(self, t, kind=None, item=None):
        f = self.facts.get(t)
        if f is not None:
            if kind is None:
                return f
            if kind == "star":
                if f.get("_star"):
                    return f
            elif item in f[kind]:
                return f
        w = self.want.setdefault(t, {"names": set(), "segs": set(), "star": False})
        if kind == "star":
            w["star"] = True
        elif kind:
            w[kind].add(item)
        return None

    def avail(self, t):
        f = self._ask(t)
        return True if f is None else f["avail"]

    def name_kind(self, t, n):
        f = self._ask(t, "names", n)
        return "attr" if f is None else f["names"][n]

    def is_sub(self, t, seg):
        f = self._ask(t, "segs", seg)
        return False if f is None else f["segs"][seg]

    def star(self, t):
        f = self._ask(t, "star")
        return [] if f is None else f["star"]

    def pending(self):
        return bool(self.want)

    def probe(self):
        def one(item):
            t, w = item
            old = self.facts.get(t)
            names = set(w["names"]) | (set(old["names"]) if old else set())
            segs = set(w["segs"]) | (set(old["segs"]) if old else set())
            star = w["star"] or bool(old and old.get("_star"))
            r = _bare(_PROBE, [t, ",".join(sorted(names)), ",".join(sorted(segs)), "1" if star else "0"])
            r["_star"] = star
            return t, r
        todo = sorted(self.want.items())
        self.want = {}
        for t, r in _pmap(one, todo):
            self.facts[t] = r
        return len(todo)


# ----------------------------------------------------------------------------------------------------------------
# ast extraction
# ----------------------------------------------------------------------------------------------------------------

class _StaticImportError(Exception):
    def __init__(self, why):
        Exception.__init__(self, why)
        self.why = why


_CATCHES_IMPORT = {"ImportError", "ModuleNotFoundError", "Exception", "BaseException"}


class ModuleScan:
    """one pass over a module body in execution order; produces the statement list of the model"""

    def __init__(self, tree, oracle, name, src):
        self.tree = tree
        self.oracle = oracle
        self.name = name
        self.is_pkg = name in tree.pkgs
        self.package = name if self.is_pkg else name.rpartition(".")[0]
        self.body = []          # statements
        self.defs = {}          # name -> position (number of statements completed before it exists)
        self.stars = []         # (position, ioflo module) star imports from ioflo modules
        self.alias = {}         # local name -> module it denotes
        self.consts = {}        # local name -> python constant (literal assignments)
        self.opaque = False     # namespace manipulated in ways ast cannot follow
        self.notes = []
        self.depth_class = 0
        self.ast = ast.parse(src)

    # --- emit -----------------------------------------------------------------------------------------------
    def stmt(self, k, chain=(), mod="", name="", why=""):
        self.body.append({"k": k, "chain": list(chain), "mod": mod, "name": name, "at": 0, "why": why,
                          "tp": why.startswith("thirdparty:")})

    def define(self, n):
        if self.depth_class == 0 and n not in self.defs:
            self.defs[n] = len(self.body)

    def load(self, target):
        """`import target`: parents first; raises _StaticImportError when it cannot exist"""
        if self.tree.internal(target):
            ch = chain_of(target)
            for i, c in enumerate(ch):
                if not self.tree.is_mod(c):
                    if i:
                        self.stmt("load", ch[:i])
                    raise _StaticImportError("name:No module named %s" % c)
            self.stmt("load", ch)
            return
        ch = chain_of(target)
        for i, c in enumerate(ch):
            if not self.oracle.avail(c):
                if i:
                    self.stmt("load", ch[:i])
                top = ch[0]
                kind = "name" if (i or top in getattr(sys, "stdlib_module_names", ())) else "thirdparty"
                raise _StaticImportError("%s:No module named %s" % (kind, c))
        self.stmt("load", ch)

    def from_name(self, base, n, asname):
        """one name of `from base import n`"""
        local = asname or n
        if self.tree.internal(base):
            sub = base + "." + n
            if base in self.tree.pkgs and self.tree.is_mod(sub):
                self.stmt("load", [sub])          # only imported when the attribute is not there yet = when not loaded
                self.alias[local] = sub
            else:
                self.stmt("from", mod=base, name=n)
                self.alias.pop(local, None)
            self.define(local)
            return
        kind = self.oracle.name_kind(base, n)
        if kind == "sub":
            self.load(base + "." + n)
            self.alias[local] = base + "." + n
        elif kind == "missing":
            raise _StaticImportError("name:cannot import name %s from %s" % (n, base))
        else:
            self.alias.pop(local, None)
            if self.oracle.is_sub(base, n):
                self.alias[local] = base + "." + n
        self.define(local)

    # --- statements -----------------------------------------------------------------------------------------
    def run(self):
        try:
            self.block(self.ast.body)
        except _StaticImportError as ex:
            self.stmt("fail", why=ex.why)
        return self

    def block(self, stmts):
        for s in stmts:
            self.statement(s)

    def statement(self, s):
        if isinstance(s, ast.Import):
            for a in s.names:
                self.load(a.name)
                if a.asname:
                    self.alias[a.asname] = a.name
                    self.define(a.asname)
                else:
                    top = a.name.split(".")[0]
                    self.alias[top] = top
                    self.define(top)
        elif isinstance(s, ast.ImportFrom):
            if s.level == 0 and s.module == "__future__":
                return
            if s.level:
                parts = self.package.split(".")
                if s.level - 1 > 0:
                    parts = parts[:-(s.level - 1)]
                base = ".".join(parts + ([s.module] if s.module else []))
            else:
                base = s.module
            self.load(base)
            for a in s.names:
                if a.name == "*":
                    if self.tree.internal(base):
                        self.stars.append((len(self.body), base))
                    else:
                        for n in self.oracle.star(base):
                            self.alias.pop(n, None)
                            self.define(n)
                else:
                    self.from_name(base, a.name, a.asname)
        elif isinstance(s, ast.Try) or (hasattr(ast, "TryStar") and isinstance(s, ast.TryStar)):
            catches = False
            for h in s.handlers:
                names = []
                if h.type is None:
                    catches = True
                elif isinstance(h.type, ast.Tuple):
                    names = [ast.unparse(e) for e in h.type.elts]
                else:
                    names = [ast.unparse(h.type)]
                if any(n in _CATCHES_IMPORT for n in names):
                    catches = True
            try:
                try:
                    self.block(s.body)
                except _StaticImportError:
                    if not catches:
                        raise
                    for h in s.handlers:
                        tn = ast.unparse(h.type) if h.type is not None else ""
                        if h.type is None or any(n in tn for n in _CATCHES_IMPORT):
                            if h.name:
                                self.define(h.name)
                            self.block(h.body)
                            break
                else:
                    self.block(s.orelse)
            finally:
                self.block(s.finalbody)
        elif isinstance(s, ast.If):
            self.expr(s.test)
            v = self.truth(s.test)
            if v is True:
                self.block(s.body)
            elif v is False:
                self.block(s.orelse)
            else:
                # undecidable at extraction time: both branches contribute (recorded validation keeps this honest)
                self.block(s.body)
                self.block(s.orelse)
        elif isinstance(s, (ast.For, ast.AsyncFor)):
            self.expr(s.iter)
            seq = self.const(s.iter)
            if isinstance(seq, (list, tuple)) and isinstance(s.target, ast.Name):
                for v in seq:
                    self.consts[s.target.id] = v
                    self.define(s.target.id)
                    self.block(s.body)
                self.block(s.orelse)
            else:
                self.targets(s.target)
                self.block(s.body)
                self.block(s.orelse)
        elif isinstance(s, ast.While):
            self.expr(s.test)
            self.block(s.body)
            self.block(s.orelse)
        elif isinstance(s, (ast.With, ast.AsyncWith)):
            for it in s.items:
                self.expr(it.context_expr)
                if it.optional_vars is not None:
                    self.targets(it.optional_vars)
            self.block(s.body)
        elif isinstance(s, (ast.FunctionDef, ast.AsyncFunctionDef)):
            for d in s.decorator_list:
                self.expr(d)
            for d in list(s.args.defaults) + [d for d in s.args.kw_defaults if d is not None]:
                self.expr(d)
            if s.name == "__getattr__" and self.depth_class == 0:
                self.opaque = True
            self.define(s.name)
        elif isinstance(s, ast.ClassDef):
            for d in s.decorator_list + s.bases + [k.value for k in s.keywords]:
                self.expr(d)
            self.depth_class += 1
            try:
                self.block(s.body)
            finally:
                self.depth_class -= 1
            self.define(s.name)
        elif isinstance(s, ast.Assign):
            self.expr(s.value)
            for t in s.targets:
                self.targets(t)
            if len(s.targets) == 1 and isinstance(s.targets[0], ast.Name) and self.depth_class == 0:
                n = s.targets[0].id
                self.alias.pop(n, None)
                try:
                    self.consts[n] = ast.literal_eval(s.value)
                except Exception:
                    self.consts.pop(n, None)
        elif isinstance(s, ast.AnnAssign):
            if s.value is not None:
                self.expr(s.value)
                self.targets(s.target)
        elif isinstance(s, ast.AugAssign):
            self.expr(s.value)
            self.targets(s.target)
        elif isinstance(s, (ast.Global, ast.Nonlocal, ast.Pass, ast.Break, ast.Continue)):
            pass
        elif hasattr(ast, "Match") and isinstance(s, ast.Match):
            self.expr(s.subject)
            for c in s.cases:
                self.block(c.body)
        else:
            for ch in ast.iter_child_nodes(s):
                if isinstance(ch, ast.expr):
                    self.expr(ch)

    def targets(self, t):
        if isinstance(t, ast.Name):
            self.alias.pop(t.id, None)
            self.consts.pop(t.id, None)
            self.define(t.id)
        elif isinstance(t, (ast.Tuple, ast.List)):
            for e in t.elts:
                self.targets(e)
        elif isinstance(t, ast.Starred):
            self.targets(t.value)
        else:
            self.expr(t)

    # --- expressions ----------------------------------------------------------------------------------------
    def expr(self, e):
        """module-execution-level expression: dotted uses of submodules, dynamic imports"""
        if e is None:
            return
        if isinstance(e, ast.Lambda):
            for d in list(e.args.defaults) + [d for d in e.args.kw_defaults if d is not None]:
                self.expr(d)
            return
        if isinstance(e, ast.Attribute):
            segs = []
            x = e
            while isinstance(x, ast.Attribute):
                segs.append(x.attr)
                x = x.value
            if isinstance(x, ast.Name) and x.id in self.alias:
                self.use(self.alias[x.id], list(reversed(segs)))
                return
            self.expr(x)
            return
        if isinstance(e, ast.Call):
            fn = ast.unparse(e.func)
            if fn in ("importlib.import_module", "import_module", "__import__"):
                args = [self.const(a) for a in e.args]
                kw = {k.arg: self.const(k.value) for k in e.keywords if k.arg}
                name = args[0] if args else kw.get("name")
                package = (args[1] if len(args) > 1 else kw.get("package")) if fn != "__import__" else None
                if isinstance(name, str) and (package is None or isinstance(package, str)):
                    level = len(name) - len(name.lstrip("."))
                    if level:
                        if not isinstance(package, str):
                            self.notes.append("%s: relative dynamic import without package" % self.name)
                            self.opaque = True
                        else:
                            parts = package.split(".")
                            if level > 1:
                                parts = parts[:-(level - 1)]
                            name = ".".join(parts + ([name.lstrip(".")] if name.lstrip(".") else []))
                    if isinstance(name, str) and not name.startswith("."):
                        self.load(name)
                else:
                    self.notes.append("%s: dynamic import with an argument ast cannot evaluate: %s" % (self.name, ast.unparse(e)[:80]))
            elif fn.startswith("globals") or fn in ("exec", "eval", "setattr"):
                self.opaque = True
        if isinstance(e, ast.Subscript) and ast.unparse(e.value) in ("globals()", "sys.modules"):
            self.opaque = True
        if isinstance(e, ast.NamedExpr):
            self.targets(e.target)
        for ch in ast.iter_child_nodes(e):
            if isinstance(ch, ast.expr):
                self.expr(ch)
            elif isinstance(ch, ast.comprehension):
                self.expr(ch.iter)
                for c in ch.ifs:
                    self.expr(c)
            elif isinstance(ch, ast.keyword):
                self.expr(ch.value)

    def use(self, mod, segs):
        """alias.seg1.seg2...: every prefix that is a submodule must already be bound on its parent"""
        need = []
        cur = mod
        for sg in segs:
            nxt = cur + "." + sg
            if self.tree.internal(cur):
                sub = cur in self.tree.pkgs and self.tree.is_mod(nxt)
            else:
                sub = self.oracle.is_sub(cur, sg)
            if not sub:
                break
            need.append(nxt)
            cur = nxt
        if need:
            self.stmt("use", need)

    # --- constant folding -------------------------------------------------------------------------------------
    def const(self, e):
        """value of a constant expression, else None"""
        try:
            return ast.literal_eval(e)
        except Exception:
            pass
        if isinstance(e, ast.Name):
            return self.consts.get(e.id)
        if isinstance(e, ast.Call) and isinstance(e.func, ast.Attribute) and e.func.attr == "format":
            f = self.const(e.func.value)
            args = [self.const(a) for a in e.args]
            kw = {k.arg: self.const(k.value) for k in e.keywords if k.arg}
            if isinstance(f, str) and all(a is not None for a in args) and all(v is not None for v in kw.values()):
                try:
                    return f.format(*args, **kw)
                except Exception:
                    return None
        if isinstance(e, ast.BinOp) and isinstance(e.op, (ast.Add, ast.Mod)):
            a, b = self.const(e.left), self.const(e.right)
            if a is not None and b is not None:
                try:
                    return a + b if isinstance(e.op, ast.Add) else a % b
                except Exception:
                    return None
        if isinstance(e, ast.JoinedStr):
            out = []
            for v in e.values:
                if isinstance(v, ast.Constant):
                    out.append(str(v.value))
                elif isinstance(v, ast.FormattedValue) and v.format_spec is None and v.conversion == -1:
                    c = self.const(v.value)
                    if c is None:
                        return None
                    out.append(str(c))
                else:
                    return None
            return "".join(out)
        return None

    def value(self, e):
        """interpreter facts usable in a module-level test; raises KeyError when unknown"""
        src = ast.unparse(e)
        if src == "__name__":
            return self.name
        if src == "__package__":
            return self.package
        known = {"sys.version": sys.version, "sys.version_info": tuple(sys.version_info), "sys.platform": sys.platform,
                 "os.name": os.name, "sys.maxsize": sys.maxsize, "sys.byteorder": sys.byteorder}
        if src in known:
            return known[src]
        if isinstance(e, ast.Subscript) and ast.unparse(e.value) == "sys.version_info":
            return tuple(sys.version_info)[ast.literal_eval(e.slice)]
        if isinstance(e, ast.Attribute) and ast.unparse(e.value) == "sys.version_info":
            return getattr(sys.version_info, e.attr)
        c = self.const(e)
        if c is None and not (isinstance(e, ast.Constant) and e.value is None):
            raise KeyError(src)
        return c

    def truth(self, e):
        """True / False / None (unknown) for a module-level test"""
        try:
            if isinstance(e, ast.BoolOp):
                vals = [self.truth(v) for v in e.values]
                if isinstance(e.op, ast.And):
                    if any(v is False for v in vals):
                        return False
                    return True if all(v is True for v in vals) else None
                if any(v is True for v in vals):
                    return True
                return False if all(v is False for v in vals) else None
            if isinstance(e, ast.UnaryOp) and isinstance(e.op, ast.Not):
                v = self.truth(e.operand)
                return None if v is None else (not v)
            if isinstance(e, ast.Compare) and len(e.ops) == 1:
                a, b = self.value(e.left), self.value(e.comparators[0])
                op = e.ops[0]
                table = {ast.Eq: lambda: a == b, ast.NotEq: lambda: a != b, ast.Lt: lambda: a < b, ast.LtE: lambda: a <= b,
                         ast.Gt: lambda: a > b, ast.GtE: lambda: a >= b, ast.Is: lambda: a is b, ast.IsNot: lambda: a is not b,
                         ast.In: lambda: a in b, ast.NotIn: lambda: a not in b}
                return bool(table[type(op)]())
            return bool(self.value(e))
        except Exception:
            return None


def extract(tree, oracle):
    """scan every module (repeating while the oracle still has unanswered questions), then resolve `from P import name`
    against P's table of definitions"""
    for rnd in range(6):
        scans = {}
        for m in tree.mods:
            with open(tree.files[m], encoding="utf-8", errors="replace") as f:
                src = f.read()
            import warnings
            with warnings.catch_warnings():
                warnings.simplefilter("ignore")
                scans[m] = ModuleScan(tree, oracle, m, src).run()
        if not oracle.pending():
            break
        oracle.probe()
    else:
        raise TlcError("import extraction did not reach a fixed point of environment questions")
    # definitions incl. star imports from ioflo modules
    public = {}

    def pub(m, busy=()):
        if m in public:
            return public[m]
        sc = scans[m]
        allv = sc.consts.get("__all__")
        names = dict(sc.defs)
        for (pos, q) in sc.stars:
            if q in busy or q not in scans:
                sc.opaque = True
                continue
            for n in pub(q, busy + (m,)):
                if n not in names or names[n] > pos:
                    names[n] = pos
            if scans[q].opaque:
                sc.opaque = True
        sc.alldefs = names
        if isinstance(allv, (list, tuple)):
            out = [n for n in allv if isinstance(n, str)]
        else:
            out = [n for n in names if not n.startswith("_")]
        public[m] = out
        return out

    for m in tree.mods:
        pub(m)
    for m in tree.mods:
        for st in scans[m].body:
            if st["k"] == "from":
                p = scans[st["mod"]]
                if st["name"] in p.alldefs:
                    st["at"] = p.alldefs[st["name"]]
                elif p.opaque:
                    st["at"] = 0
                else:
                    st["at"] = -1
                    st["why"] = "name:cannot import name %s from %s" % (st["name"], st["mod"])
    return scans


def model_constants(tree, oracle, scans, boot):
    ext = set()
    for m in tree.mods:
        for st in scans[m].body:
            if st["k"] == "load":
                ext.update(c for c in st["chain"] if not tree.internal(c))
    for t in sorted(ext):
        if t not in oracle.facts:
            oracle._ask(t)
    if oracle.pending():
        oracle.probe()
    bootset = set(boot["boot"])
    clo, clob = {}, {}
    for t in sorted(ext):
        f = oracle.facts[t]
        clo[t] = [x for x in f["clo"] if x not in bootset]
        clob[t] = list(f["clobound"])
    return {
        "mods": tree.mods,
        "toplevel": [m for m in tree.mods if "." not in m],
        "tests": [m for m in tree.mods if is_test_module(m)],
        "chain": {m: chain_of(m) for m in tree.mods},
        "body": {m: scans[m].body for m in tree.mods},
        "ext": sorted(ext),
        "clo": clo,
        "clobound": clob,
        "boot": sorted(bootset),
        "bootbound": sorted(boot["bootbound"]),
    }


# ----------------------------------------------------------------------------------------------------------------
# the check
# ----------------------------------------------------------------------------------------------------------------

def _cfg(maximports, atomic, invariants=(), constraint=None, trace_spec=False):
    s = "SPECIFICATION %s\nCONSTANTS\n  MaxImports = %d\n  Atomic = %s\n" % (
        "TraceSpec" if trace_spec else "Spec", maximports, "TRUE" if atomic else "FALSE")
    for i in invariants:
        s += "INVARIANT %s\n" % i
    if constraint:
        s += "CONSTRAINT %s\n" % constraint
    return s + "CHECK_DEADLOCK FALSE\n"


def _run_order(order):
    r = _bare(_CHILD, [",".join(order)])
    r["order"] = list(order)
    return r


def _run_chain(order):
    r = _bare(_CHILD, [",".join(order), "chain"], timeout=900)
    r["order"] = list(order)
    return r


def _chain_events(run):
    evs = [{"ev": "Boot"}]
    for st in run["steps"]:
        evs.append({"ev": "ImportMore", "m": st["m"], "order": _starts(st), "dl": st["dl"], "db": st["db"]})
    return evs


def _fail_signature(st):
    msg = re.sub(r" \(/[^)]*\)", "", st["emsg"]).replace(ROOT[0], "<repo>").replace(env.REPO, "<repo>")
    return "%s: %s" % (st["etype"], msg)


def _skippable(m, st):
    """a test module that needs an optional third-party package which is not installed"""
    return bool(is_test_module(m) and st["etype"] in ("ImportError", "ModuleNotFoundError") and st["ename"]
                and not st["ename"].startswith(PKG) and not st["stdlib"])


def _starts(st):
    return [x for x in st["starts"] if x == PKG or x.startswith(PKG + ".")]


def _events(run, atomic):
    evs = [{"ev": "Boot"}]
    for st in run["steps"]:
        if atomic:
            evs.append({"ev": "ImportAll", "m": st["m"], "order": _starts(st), "loaded": st["loaded"], "bound": st["bound"]})
            continue
        evs.append({"ev": "Import", "m": st["m"]})
        for x in _starts(st):
            evs.append({"ev": "Start", "x": x})
        evs.append({"ev": "Done", "loaded": st["loaded"], "bound": st["bound"]})
    return evs


class _Env:
    """environment variables read by Imports.tla through IOEnv, also for the TLC runs started by trace.validate"""

    def __init__(self, **kw):
        self.kw = {k: str(v) for k, v in kw.items()}

    def __enter__(self):
        self.old = {k: os.environ.get(k) for k in self.kw}
        os.environ.update(self.kw)

    def __exit__(self, *a):
        for k, v in self.old.items():
            if v is None:
                os.environ.pop(k, None)
            else:
                os.environ[k] = v


_T0 = [0.0]


def _lap(what):
    import time
    now = time.time()
    if os.environ.get("VF_TIMING"):
        print("  [c01 %6.1fs] %s" % (now - _T0[0], what))


def run_c01(ctx):
    import time
    _T0[0] = time.time()
    import shutil
    snap = env.subdir("c01snap")
    shutil.rmtree(os.path.join(snap, PKG), ignore_errors=True)
    shutil.copytree(os.path.join(env.REPO, PKG), os.path.join(snap, PKG), ignore=shutil.ignore_patterns("__pycache__", "*.pyc"))
    ROOT[0] = snap
    tree = Tree(ROOT[0])
    if not tree.mods:
        raise TlcError("no ioflo modules found under %s" % env.REPO)
    oracle = Oracle()
    boot = _bare(_PRELUDE + "print('VFOUT ' + repr({'boot': sorted(_boot), 'bootbound': sorted(_bootb)}))", [])
    scans = extract(tree, oracle)
    _lap("extracted")
    consts = model_constants(tree, oracle, scans, boot)
    _lap("constants")
    for sc in scans.values():
        for n in sc.notes:
            ctx.note(n)
    if tree.skipped:
        ctx.note("python files outside regular packages are not importable as ioflo modules and are left out: %s" % ", ".join(tree.skipped[:8]))
    work = env.subdir("c01")
    nstm = sum(len(b) for b in consts["body"].values())
    ctx.extra.update({"ioflo_modules": len(tree.mods), "model_statements": nstm, "external_targets": len(consts["ext"]),
                      "boot_modules": len(consts["boot"])})
    rng = random.Random(ctx.seed)

    def write_consts(label, cand, extra=None):
        c = dict(consts)
        c["candidates"] = list(cand)
        if extra:
            c.update(extra)
        pth = os.path.join(work, "imports-%s.json" % label)
        with open(pth, "w") as f:
            json.dump(c, f)
        return pth

    # ---- phase 1: every Boot --Import(m)--> edge: model table and real replay ---------------------------------------
    edges = os.path.join(work, "edges")
    os.makedirs(edges, exist_ok=True)
    cj = write_consts("edges", tree.mods)
    res = tlc.run("Imports", _cfg(1, True, ["NoFailure"], "Emit"), spec_dir=SPEC_DIR,
                  extra_env={"IMPORTS_JSON": cj, "EDGE_DIR": edges, "CLOSURE_JSON": cj}, extra_args=["-continue"], tag="c01edges")
    ctx.add_model(res, "Imports/boot-edges", {"MaxImports": 1, "Atomic": True, "modules": len(tree.mods)})
    tlc.require_coverage(res, ["ImportAll"], "Imports/boot-edges")
    _lap("tlc boot edges")
    model = {}
    for m in tree.mods:
        p = os.path.join(edges, m + ".json")
        if not os.path.exists(p):
            raise TlcError("the model produced no Boot --Import(%s)--> edge" % m)
        with open(p) as f:
            model[m] = json.load(f)
    runs = dict(zip(tree.mods, _pmap(lambda m: _run_order([m]), tree.mods)))
    _lap("real boot edges")
    for m, r in runs.items():
        if r["file"] and not r["file"].startswith(ROOT[0]):
            raise TlcError("bare child imported ioflo from %s instead of the snapshot of %s" % (r["file"], env.REPO))
    good, skipped, causes = [], [], {}
    for m in tree.mods:
        st = runs[m]["steps"][0]
        mo = model[m]
        if st["ok"]:
            if mo["res"] != "ok":
                raise TlcError("the ast-derived model predicts that `import %s` fails (%s) but it succeeds in a bare interpreter: "
                               "the extractor in vf/families/imports.py over-approximates" % (m, mo["why"]))
            if set(mo["loaded"]) != set(st["loaded"]) or set(mo["bound"]) != set(st["bound"]) or list(mo["order"]) != _starts(st):
                dl = sorted(set(mo["loaded"]) ^ set(st["loaded"]))[:8]
                db = sorted(set(mo["bound"]) ^ set(st["bound"]))[:8]
                do = [(a, b) for a, b in zip(list(mo["order"]) + [""] * 400, _starts(st) + [""]) if a != b][:2]
                raise TlcError("model and bare interpreter disagree on what `import %s` loads/binds (loaded differs on %s, bound on %s, "
                               "load order at %s): the ast-derived constants are incomplete" % (m, dl, db, do))
            good.append(m)
            continue
        if _skippable(m, st):
            skipped.append((m, st["ename"]))
            continue
        key = (st["where"], _fail_signature(st))
        causes.setdefault(key, []).append(m)
    for (where, sig), ms in sorted(causes.items()):
        st = runs[ms[0]]["steps"][0]
        ctx.diverge(Divergence("C01", "exception", "Import", where or ms[0], sig,
                               steps=[{"action": "Import(%s)" % ms[0], "state": {"python": "%s -I -c 'import %s'" % (env.PYTHON, ms[0])}}],
                               expected="import succeeds in a bare interpreter",
                               actual="%s at %s:%s" % (sig, st["where"], st["line"]),
                               extra={"modules_failing": ms, "model_prediction": model[ms[0]]["res"], "model_why": model[ms[0]].get("why", "")}))
    for m, pkg in skipped:
        ctx.note("skipped %s: test module needs the optional third-party package %r which is not installed (ImportError of a non-ioflo module)" % (m, pkg))
    mid = good[len(good) // 2] if good else None
    ctx.add_validated(len(tree.mods), {"edge": "Boot --Import(%s)-->" % mid, "ioflo_modules_started": model[mid]["order"][:6] if mid else [],
                                       "loaded_delta": len(model[mid]["loaded"]) if mid else 0})

    # ---- phase 2: orders -------------------------------------------------------------------------------------------------
    nacc = nord = 0
    if len(good) >= 2:
        closure = {m: {"loaded": model[m]["loaded"], "bound": model[m]["bound"]} for m in good}
        clj = os.path.join(work, "closure.json")
        with open(clj, "w") as f:
            json.dump({"closure": closure}, f)

        def model_run(label, cand, depth, atomic, invs, need):
            cj2 = write_consts(label, cand)
            r2 = tlc.run("Imports", _cfg(depth, atomic, invs), spec_dir=SPEC_DIR, coverage=bool(need),
                         extra_env={"IMPORTS_JSON": cj2, "EDGE_DIR": edges, "CLOSURE_JSON": clj}, tag="c01" + label)
            ctx.add_model(r2, "Imports/" + label, {"MaxImports": depth, "Atomic": atomic, "candidates": len(cand)})
            _lap("tlc " + label)
            if r2.ok:
                if need:
                    tlc.require_coverage(r2, need, "Imports/" + label)
                elif r2.distinct < 1 + len(cand) * (len(cand) - 1):
                    raise TlcError("vacuous model run (Imports/%s): %d states for %d candidates" % (label, r2.distinct, len(cand)))
                return True
            req = list(r2.trace[-1][1].get("req", ())) if r2.trace else []
            real = _run_order(req) if req else None
            last = real["steps"][-1] if real else None
            if r2.error_name == "NoFailure" and last is not None and last["ok"]:
                raise TlcError("the model predicts a failure for the order %s which succeeds in a bare interpreter" % (req,))
            ctx.diverge(Divergence("C01", "model", r2.error_name or r2.error, "Imports/" + label,
                                   "order %s: %s" % (",".join(req), _fail_signature(last) if last and not last["ok"] else "what is loaded/bound depends on the order"),
                                   steps=[{"action": a, "state": {"req": s.get("req"), "res": s.get("res"), "why": s.get("why")}} for a, s in r2.trace][-12:]))
            return False

        # (a) small-step model: every observable step is an action (vacuity guard over the small-step actions)
        nsmall, dsmall = ctx.pick((5, 1), (10, 2))
        ok = model_run("small-step", sorted(rng.sample(good, min(nsmall, len(good)))), dsmall, False,
                       ["NoFailure", "OrderIndependent", "WellFormed"], ["Import", "Start", "LoadExt", "Finish", "Done"])
        # (b) atomic imports: every order of up to 4 imports over a seeded subset; thorough: all ordered pairs of all modules
        #     and all triples over a larger subset
        plans = [("orders-upto-4", ctx.pick(8, 13), 4)]
        if not ctx.quick:
            plans += [("all-pairs", len(good), 2), ("triples", 32, 3)]
        for (label, n, depth) in plans:
            if not ok:
                break
            cand = list(good) if n >= len(good) else sorted(rng.sample(good, n))
            ok = model_run(label, cand, depth, True, ["NoFailure", "OrderIndependent"], None)
        # (c) ordered pairs, systematically: for every module m1 one bare child imports m1 first and then every other module
        #     in turn; each import must end as it does alone (Import(m) does not depend on what is loaded) and add exactly
        #     what the cold closures say; thorough adds, per m1, a chain with the rest in seeded random order
        chains = [[m1] + [m for m in good if m != m1] for m1 in good]
        if not ctx.quick:
            for m1 in good:
                rest = [m for m in good if m != m1]
                rng.shuffle(rest)
                chains.append([m1] + rest)
        chruns = _pmap(_run_chain, chains)
        _lap("real chains")
        clean = []
        reported = set()
        for r in chruns:
            have_l, have_b = set(), set()
            okchain = True
            for k, st in enumerate(r["steps"]):
                if not st["ok"]:
                    okchain = False
                    sig = (st["where"], _fail_signature(st))
                    if sig in reported:
                        break
                    reported.add(sig)
                    # which earlier import is to blame: the first predecessor after which the import alone fails as well
                    culprit, pair = None, None
                    for pr in _pmap(lambda p: _run_order([p, st["m"]]), r["order"][:k]):
                        if len(pr["steps"]) == 2 and not pr["steps"][1]["ok"]:
                            culprit, pair = pr["order"][0], pr["steps"][1]
                            break
                    after = culprit if culprit else ",".join(r["order"][:k][:3]) + (",..." if k > 3 else "")
                    ctx.diverge(Divergence("C01", "exception", "Import", st["where"] or st["m"], "after %s: %s" % (after, _fail_signature(st)),
                                           steps=[{"action": "Import(%s)" % (culprit or r["order"][0]), "state": {"ok": True}},
                                                  {"action": "Import(%s)" % st["m"], "state": {"ok": False}}],
                                           expected="`import %s` ends as it does in a fresh interpreter (it succeeds) whatever was imported before" % st["m"],
                                           actual="%s at %s:%s" % (_fail_signature(st), st["where"], st["line"]),
                                           extra={"chain_head": r["order"][0], "position": k, "culprit": culprit}))
                    break
                want_l = set(model[st["m"]]["loaded"]) - have_l
                want_b = set(model[st["m"]]["bound"]) - have_b
                if set(st["dl"]) != want_l or set(st["db"]) != want_b or st["gone"] or (k == 0 and _starts(st) != list(model[st["m"]]["order"])):
                    okchain = False
                    if ("sets", st["m"]) not in reported:
                        reported.add(("sets", st["m"]))
                        ctx.diverge(Divergence("C01", "state-mismatch", "Import", "loaded" if set(st["dl"]) != want_l else "bound",
                                               "chain starting with %s: `import %s` (position %d) adds / removes other modules than its cold closure says: %s"
                                               % (r["order"][0], st["m"], k, sorted((set(st["dl"]) ^ want_l) | (set(st["db"]) ^ want_b) | set(st["gone"]))[:6]),
                                               extra={"chain_head": r["order"][0]}))
                    break
                have_l |= set(model[st["m"]]["loaded"])
                have_b |= set(model[st["m"]]["bound"])
            if okchain:
                clean.append(r)
        # the chains are recorded executions as well: TLC validates them (quick: a seeded sample) against ImportsTrace.tla
        nval = ctx.pick(6, len(clean))
        valchains = clean if nval >= len(clean) else rng.sample(clean, nval)
        if valchains:
            cjc = write_consts("chains", tree.mods)
            traces = [_chain_events(r) for r in valchains]
            with _Env(IMPORTS_JSON=cjc, EDGE_DIR=edges, CLOSURE_JSON=clj):
                out = trace.validate("ImportsTrace", _cfg(1000, True, [], "TraceOK", trace_spec=True), SPEC_DIR, traces,
                                     batch=max(1, -(-len(traces) // (2 * env.NCPU))))
            ctx.states += out.states
            ctx.transitions += out.generated
            _lap("validated chains")
            if out.rejected or out.model_errors:
                i, pref = sorted(out.rejected.items())[0] if out.rejected else (out.model_errors[0][0], 0)
                ev = traces[i][pref] if 0 <= pref < len(traces[i]) else {}
                ev = {k: (v if not isinstance(v, list) else v[:6]) for k, v in ev.items()}
                raise TlcError("a recorded chain of imports is not a behaviour of Imports.tla with the ast-derived constants "
                               "(chain %s..., event %d: %r)" % (valchains[i]["order"][:2], pref + 1, ev))
            nacc += len(out.accepted)
            ctx.add_validated(len(out.accepted), {"validated": "chain", "head": valchains[0]["order"][0], "imports": len(valchains[0]["order"]),
                                                  "events": [{k: (v if not isinstance(v, list) else len(v)) for k, v in e.items()} for e in traces[0][:4]]})
        ctx.extra.update({"chains_executed": len(chains), "chains_validated_by_tlc": len(valchains),
                          "ordered_pairs_covered": len(good) * (len(good) - 1)})
        # (d) seeded orders executed for real, validated by TLC against ImportsTrace.tla
        norders = ctx.pick(0, 300)      # quick: the chains above are the executed orders
        orders = [rng.sample(good, min(2 + (i % 3), len(good))) for i in range(norders)]
        real = _pmap(_run_order, orders)
        _lap("real orders")
        okruns = []
        for i, r in enumerate(real):
            bad = [st for st in r["steps"] if not st["ok"]]
            if bad:
                st = bad[0]
                ctx.diverge(Divergence("C01", "exception", "Import", st["where"] or st["m"],
                                       "after %s: %s" % (",".join(r["order"][:len(r["steps"]) - 1]), _fail_signature(st)),
                                       steps=[{"action": "Import(%s)" % s["m"], "state": {"ok": s["ok"]}} for s in r["steps"]],
                                       expected="every import succeeds whatever was imported before",
                                       actual="%s at %s:%s" % (_fail_signature(st), st["where"], st["line"]),
                                       extra={"order": r["order"]}))
                continue
            okruns.append(r)
        nord = len(orders)
        # (the single imports were compared with the model edge by edge above; some are also validated step by step)
        nmicro = ctx.pick(0, 60)
        micro = okruns[:nmicro] + [runs[m] for m in rng.sample(good, min(ctx.pick(6, 30), len(good)))]
        cj3 = write_consts("trace", tree.mods)
        for (label, rs, atomic, batch) in (("atomic", okruns, True, max(4, -(-len(okruns) // env.NCPU))),
                                           ("small-step", micro, False, max(2, -(-len(micro) // env.NCPU)))):
            if not rs:
                continue
            traces = [_events(r, atomic) for r in rs]
            with _Env(IMPORTS_JSON=cj3, EDGE_DIR=edges, CLOSURE_JSON=clj):
                out = trace.validate("ImportsTrace", _cfg(1000, atomic, [], "TraceOK", trace_spec=True), SPEC_DIR, traces, batch=batch)
            ctx.states += out.states
            ctx.transitions += out.generated
            _lap("validated " + label)
            if out.rejected or out.model_errors:
                i, pref = sorted(out.rejected.items())[0] if out.rejected else (out.model_errors[0][0], 0)
                ev = traces[i][pref] if 0 <= pref < len(traces[i]) else {}
                ev = {k: (v if not isinstance(v, list) else v[:6]) for k, v in ev.items()}
                raise TlcError("a recorded import execution is not a behaviour of Imports.tla (%s) with the ast-derived constants "
                               "(trace %d, event %d: %r; imports %s): the extractor in vf/families/imports.py misses or invents a dependency"
                               % (label, i, pref + 1, ev, rs[i]["order"]))
            nacc += len(out.accepted)
            ctx.add_validated(len(out.accepted), {"validated": label, "order": rs[0]["order"],
                                                  "events": [{k: (v if not isinstance(v, list) else len(v)) for k, v in e.items()} for e in traces[0][:10]]})
    else:
        ctx.note("fewer than two modules import cold: orders are not explored")
    ctx.exhaustive = False
    ctx.rule = ("every Boot --Import(m)--> edge of Imports.tla for all %d ioflo modules replayed as `python -I -c 'import m'` in a bare "
                "child (outcome, ioflo load order, loaded and bound deltas compared); TLC explores all ordered pairs of all modules and all "
                "triples / quadruples over seeded subsets (NoFailure, OrderIndependent), and the small-step model over a seeded subset; "
                "every ordered pair m1-before-m2 executed inside per-module chains (m1, then every other module) in bare children, each import "
                "compared with its cold result and closure, chains validated by TLC; "
                "seeded orders of 2-4 modules executed in bare children and their recorded load-start / sys.modules traces validated "
                "by TLC against ImportsTrace.tla; distinct = modules + orders" % len(tree.mods))
    ctx.extra.update({"evaluations": len(tree.mods) + nord + sum(len(c) for c in chains) if len(good) >= 2 else len(tree.mods),
                      "distinct_nontrivial": len(good) + nord + (len(good) * (len(good) - 1) if len(good) >= 2 else 0), "modules_ok": len(good),
                      "modules_skipped_third_party": [m for m, _ in skipped], "orders_executed": nord, "traces_accepted": nacc})
    ctx.assume("constants of the model come from ast (ioflo) and from bare-child measurements (non-ioflo closures, Boot); recorded "
               "executions validated against the model keep them honest; TLC and the child observer are trusted")


PROPERTIES = {"C01": run_c01}
