"""C02-C12 (scheduler / framer semantics): specs/flo/Flo.tla, FloTrace.tla, FloMC.tla.

Binding B is primary: generated FloScript programs (vf/flo/gen.py -> vf/flo/emit.py) are built by the real Builder and
run by the real Skedder.run() under a scripted environment (vf/flo/run.py); every recorded execution must be a behaviour
of the small-step specification, event by event (recorder actions in every context, every runner yield with the framer's
public state), and the property invariants are evaluated on every state of every accepted execution.
The same programs are model checked with a fully nondeterministic environment (FloMC.tla).
"""
import json
import os
import random

from .. import env, tlc, trace
from ..replay import Divergence
from ..flo import emit, gen, run

SPEC_DIR = env.SPECS + "/flo"
INVARIANTS = ("ActivesAreOutline", "Alternate", "Bracket", "AuxOwnership", "EndClean", "ScheduledOnce", "AbortedNotScheduled")

# property -> (profile, sizes, what the programs concentrate on)
PROFILES = {
    "C02": (("periods", "bids", "clocks", "inputs"), {"framers": 3}, "several framers with zero / multiple / non-multiple periods and period-changing bids"),
    "C03": (("bids", "forest", "aux", "condaux", "clocks", "inputs", "raises", "periods"), {}, "stop/abort bids, keyboard interrupts at every tick boundary, actions raising at random points"),
    "C04": (("bids", "periods", "clocks", "inputs", "guards", "slaves"), {"framers": 2}, "bids of every kind between active and inactive framers in all declaration orders; slave framers driven by fiats, failing starts"),
    "C05": (("forest", "condaux", "clocks", "inputs", "bids"), {}, "frame forests with primary-under overrides, transitions, conditional auxiliaries, stop/abort"),
    "C06": (("forest", "aux", "condaux", "clocks", "inputs", "bids", "done"), {}, "recorders in every context of every frame; transitions to self/ancestor/descendant/other subtree"),
    "C07": (gen.ALL, {}, "every modelled verb"),
    "C08": (("guards", "forest", "aux", "inputs", "clocks", "done", "marks"), {}, "benter guards and auxiliaries' first-frame guards over inputs flipping at arbitrary ticks"),
    "C09": (("aux", "done", "forest", "clocks", "inputs"), {}, "plain auxiliaries at several levels, shared originals, done verbs and done conditions"),
    "C10": (("condaux", "done", "forest", "clocks", "inputs", "bids"), {}, "conditional auxiliaries completing at once / later / never, transitions leaving the main frame"),
    "C11": (("clocks", "forest", "periods"), {"framers": 1}, "timeout / repeat style conditions on elapsed and recurred for several tick periods"),
}


def _trace_cfg(extra_inv=()):
    return ("SPECIFICATION TraceSpec\nCONSTRAINT TraceOK\nCHECK_DEADLOCK FALSE\n" +
            "".join("INVARIANT %s\n" % i for i in tuple(INVARIANTS) + tuple(extra_inv)))


def add_raises(rng, prog):
    """crash injection for C03: one action raising an exception or a keyboard interrupt"""
    keys = [k for k in prog["frames"] if prog["framers"][prog["frames"][k]["framer"]]["sched"] in ("active", "inactive")]
    k = rng.choice(keys)
    ctx = rng.choice(("enter", "recur", "recur", "precur"))
    act = {"k": "raise", "what": rng.choice(("error", "interrupt"))}
    lst = prog["frames"][k][ctx]
    lst.insert(rng.randint(0, len(lst)), act)


def make_cases(prop, seed, n):
    profile, size, _ = PROFILES[prop]
    rng = random.Random((seed, prop).__repr__())
    cases = gen.generate(rng.randint(0, 2**31), n, tuple(p for p in profile if p != "raises"), size)
    # about half of the programs are reshaped towards the corner cases of the property (vf/flo/shape.py):
    # branchy conditional auxiliaries completing later, shared originals, deep forests, exit-context bids ...
    from ..flo import shape
    shaped = []
    for (prog, envs, ticks) in cases:
        used = shape.apply(rng, prop, prog, 0.5)
        shaped.append((prog, envs, ticks + (3 if used else 0)))
    cases = shaped
    if prop in ("C02", "C03", "C11"):
        # the run does not have to start at stamp 0: half of the programs start at another stamp (in ticks); the
        # spec's clock is relative to the start, so the expected behaviour is the same run shifted by t0
        for (prog, envs, ticks) in cases:
            if rng.random() < 0.5:
                prog["t0"] = rng.choice((1, 3, 7, 40, 41, 160))
    if prop in ("C04", "C09", "C07"):
        # an order clause on a framer the scheduler does not run (slave, auxiliary) is legal and changes nothing
        for (prog, envs, ticks) in cases:
            for f, fr in prog["framers"].items():
                if fr["sched"] in ("slave", "aux") and f not in prog["order"] and rng.random() < 0.5:
                    fr["order"] = rng.choice(("front", "mid", "back"))
    if "raises" in profile:
        for (prog, envs, ticks) in cases:
            if rng.random() < 0.6:
                add_raises(rng, prog)
    return cases


def execute(cases, quantum=None):
    traces, meta = [], []
    for i, (prog, envs, ticks) in enumerate(cases):
        r = run.run(prog, envs=envs, max_ticks=ticks, quantum=quantum)
        meta.append(r)
        traces.append([{"ev": "Header", "prog": prog}] + r["events"])
    return traces, meta


def check_traces(ctx, prop, cases, traces, meta, label="", extra_inv=()):
    divs = []
    for i, r in enumerate(meta):
        if r["error"]:
            divs.append(Divergence(prop, "exception", "Build/Run", r["error"].split(":")[0] + ":" + r["error"].split(":")[1] if ":" in r["error"] else r["error"],
                                   r["error"][:200], extra={"case": _case(cases[i], r)}))
    ok = [i for i, r in enumerate(meta) if not r["error"]]
    out = trace.validate("FloTrace", _trace_cfg(extra_inv), SPEC_DIR, [traces[i] for i in ok], batch=ctx.pick(40, 100))
    ctx.states += out.states
    ctx.transitions += out.generated
    ctx.add_validated(len(out.accepted))
    for j, pref in sorted(out.rejected.items()):
        i = ok[j]
        tr = traces[i]
        ev = tr[pref] if 0 <= pref < len(tr) else {}
        inv = [m for m in out.model_errors if m[0] == j]
        if inv:
            divs.append(Divergence(prop, "rejected", inv[0][2] or inv[0][1], "invariant on recorded execution",
                                   "invariant %s does not hold on a recorded execution of the real code%s" % (inv[0][2], label),
                                   steps=tr[max(1, pref - 6):pref + 2], extra={"case": _case(cases[i], meta[i]), "prefix": pref}))
        else:
            divs.append(Divergence(prop, "rejected", ev.get("ev", "?"), "%s:%s" % (ev.get("framer", ev.get("t", "")), ev.get("ctx", ev.get("ctl", ""))),
                                   "recorded execution is not a behaviour of Flo.tla at event %d%s: %s" % (pref, label, json.dumps(ev)[:160]),
                                   steps=tr[max(1, pref - 6):pref + 2], extra={"case": _case(cases[i], meta[i]), "prefix": pref}))
    ctx.diverge(divs)
    return out


def _case(case, r):
    prog, envs, ticks = case
    return {"prog": prog, "envs": {str(k): v for k, v in envs.items()}, "ticks": ticks, "script": r.get("script", "")}


def model_check(ctx, prop, cases, maxticks, nprogs, liveness=False, extra_inv=(), require=()):
    # a seeded sample of the generated programs, biased to the smaller half (environment choices multiply states)
    byszie = sorted((c[0] for c in cases), key=lambda p: len(json.dumps(p)))
    progs = random.Random(ctx.seed).sample(byszie[: max(nprogs, len(byszie) // 2)], nprogs)
    path = os.path.join(env.subdir("flomc"), "%s-progs.json" % prop)
    with open(path, "w") as f:
        json.dump(progs, f)
    cfg = ("SPECIFICATION %s\nCONSTANTS\n  MaxTicks = %d\nVIEW View\nCHECK_DEADLOCK FALSE\n" % ("FairSpec" if liveness else "MCSpec", maxticks) +
           "".join("INVARIANT %s\n" % i for i in tuple(INVARIANTS) + tuple(extra_inv)) + ("PROPERTY Terminates\n" if liveness else ""))
    res = tlc.run("FloMC", cfg, spec_dir=SPEC_DIR, extra_env={"PROGS_FILE": path}, tag="flomc" + prop, timeout=ctx.pick(600, 3000))
    ctx.add_model(res, "FloMC/%s%s" % (prop, "/live" if liveness else ""), {"MaxTicks": maxticks, "programs": len(progs)})
    if not res.ok:
        ctx.diverge(Divergence(prop, "model", res.error_name or res.error, "FloMC",
                               "property violated in the specification itself (machinery: the documented design, not the code)",
                               steps=[{"action": a} for a, s in res.trace][-30:]))
    else:
        tlc.require_coverage(res, ["StartRun", "Dispatch", "EndTick", "MCNext", "Sweep", "EndRun", "RunOp", "Yield", "EnterFrame",
                                   "ExitFrame", "Segue", "PrecurWalk", "DoAct", "Interrupt"] + list(require), "FloMC/" + prop)
    return res


def generic(prop):
    def runner(ctx):
        if ctx.replay:
            return replay_case(ctx, prop)
        n = ctx.pick(120, 4000)
        cases = make_cases(prop, ctx.seed, n)
        traces, meta = execute(cases)
        out = check_traces(ctx, prop, cases, traces, meta)
        nontrivial = sum(1 for i in out.accepted)
        ctx.sample({"script": meta[0]["script"][:1500], "events": traces[0][1:12]})
        if prop in ("C02", "C11"):
            # the decimal-period clause: the same semantics with the quantum mapped to 0.1 s and 0.05 s
            from fractions import Fraction
            for q in (Fraction(1, 10), Fraction(1, 20)):
                dcases = [(p, e, t + 6) for (p, e, t) in make_cases(prop, ctx.seed + q.denominator, ctx.pick(60, 1200))]
                dtraces, dmeta = execute(dcases, quantum=q)
                dout = check_traces(ctx, prop, dcases, dtraces, dmeta, " (decimal quantum %s s)" % float(q))
                nontrivial += len(dout.accepted)
                n += len(dcases)
        # (C07's programs carry every feature incl. four typed input shares: one tick less keeps the run in budget)
        model_check(ctx, prop, cases, ctx.pick(2, 3) if prop == "C07" else ctx.pick(3, 4), ctx.pick(6, 48))
        if prop == "C03":
            model_check(ctx, prop, cases, 2, ctx.pick(3, 8), liveness=True)
        ctx.rule = ("seeded generated FloScript programs (%s) built and run by the real Builder/Skedder; a case counts when its whole "
                    "recorded execution was accepted by TLC against FloTrace.tla with all invariants; plus FloMC.tla model checking of "
                    "the smallest generated programs with a fully nondeterministic environment" % PROFILES[prop][2])
        ctx.extra.update({"evaluations": n, "distinct_nontrivial": nontrivial, "programs": n, "invariants": list(INVARIANTS)})
        ctx.assume("time in binary-exact quanta of 1/16 s unless a decimal mapping is stated; recorder Doers and runner proxies are installed from outside")
    return runner


def replay_case(ctx, prop):
    case = ctx.replay.get("extra", {}).get("case")
    if not case:
        print(json.dumps(ctx.replay, indent=1)[:4000])
        return
    c = (gen.normalize(case["prog"]), {int(k): [tuple(x) for x in v] for k, v in case["envs"].items()}, case["ticks"])
    traces, meta = execute([c])
    print(meta[0]["script"])
    for e in traces[0][1:]:
        print(json.dumps(e)[:220])
    check_traces(ctx, prop, [c], traces, meta)


PROPERTIES = {p: generic(p) for p in PROFILES}
