"""C13 - relative store addressing is invariant under consistent renaming (specs/build/Paths.tla).

Binding C + A: TLC enumerates program shapes (framer / frame / clone / act inodes) x reference forms, checks that the
documented resolution function is equivariant under every renaming of one name to a fresh name and that absolute references
do not depend on their user, and writes the table (context, act, resolved path as tagged segments).  Each context is printed
as a FloScript program holding all its acts, built with the real Builder, and the names of the shares / nodes the acts
resolved to are compared with the table; then, for every renaming, the renamed program is built and compared with the
renamed table row.
"""
import json
import os
import random
import multiprocessing

from .. import env, tlc
from ..replay import Divergence
from ..tlc import TlcError

SPEC_DIR = env.SPECS + "/build"
# the fresh names used by the harness: framers, frames and tags get a name with capitals and digits; actor names are
# written in lower case in FloScript (the builder camel-cases them, nameToPath lower-cases them again)
FRESHES = {"framer": "Zq7", "frame": "Zq7", "tag": "Zq7", "actor": "zz"}


# ------------------------------------------------------------------------------------------------------------------
# printing a context as FloScript
# ------------------------------------------------------------------------------------------------------------------

def via(i):
    k, s = i["k"], i["s"]
    return {"none": "", "absent": "", "rel": " via %s" % s, "me": " via me.%s" % s, "abs": " via .%s" % s,
            "framer": " via %s of framer" % s, "frame": " via %s of frame" % s}[k]


def ref_text(r, alt):
    """FloScript text of an indirect address; alt selects between equivalent spellings"""
    u = ".".join(r["segs"])
    f, n1, n2, n3 = r["form"], r["n1"], r["n2"], r["n3"]
    if f == "abs":
        return "." + u
    if f == "root":
        return u + (" of root" if alt else "")
    if f == "me":
        return ("me." + u) if alt else (u + " of me")
    if f == "framer":
        if n1 and alt:
            return "framer.%s.%s" % (n1, u)
        return "%s of framer%s" % (u, (" " + n1) if n1 else "")
    if f == "frame":
        if n1 and n2 == "-" and alt:
            return "frame.%s.%s" % (n1, u)
        s = "%s of frame%s" % (u, (" " + n1) if n1 else "")
        if n2 != "-":
            s += " of framer%s" % ((" " + n2) if n2 else "")
        return s
    if f == "actor":
        if n1 and n2 == "-" and alt:
            return "actor.%s.%s" % (n1, u)
        s = "%s of actor%s" % (u, (" " + n1) if n1 else "")
        if n2 != "-":
            s += " of frame%s" % ((" " + n2) if n2 else "")
            if n3 != "-":
                s += " of framer%s" % ((" " + n3) if n3 else "")
        return s
    raise ValueError(f)


def data_path(r):
    """a deed's per-clause value is direct data: the path text itself"""
    u = ".".join(r["segs"])
    f = r["form"]
    if f == "abs":
        return "." + u
    if f == "root":
        return u
    if f == "me":
        return "me." + u
    if f == "framer":
        return "framer.%s.%s" % (r["n1"], u)
    if f == "actor" and (r["n1"], r["n2"], r["n3"]) == ("me", "me", "me"):
        return "framer.me.frame.me.actor.me." + u
    raise ValueError(f)


def act_line(a, idx, last):
    """(context list, observed parm key, FloScript line)"""
    v, r = a["verb"], a["ref"]
    alt = bool(idx % 2)
    if v == "put":
        return "enacts", "destination", "put %d into %s" % (idx, ref_text(r, alt))
    if v == "inc":
        return "enacts", "destination", "inc %s with 1" % ref_text(r, alt)
    if v == "copy":
        return "enacts", "source", "copy %s into vfsink%d" % (ref_text(r, alt), idx)
    if v == "need":
        return "preacts", "state", "go %s if %s == %d" % (last, ref_text(r, alt), idx)
    if v == "let":
        return "beacts", "state", "let me if %s == %d" % (ref_text(r, alt), idx)
    if v == "do":
        an = list(a["an"])
        an[-1] = "%s%d" % (an[-1], idx)     # deed instances are numbered (on the last token) to keep their names unique
        if r["form"] == "inode":
            return "enacts", "inode", "do doer param as %s at enter%s per color vfq" % (" ".join(an), via(a["ai"]))
        return "enacts", "color", "do doer param as %s at enter%s per color %s" % (" ".join(an), via(a["ai"]), data_path(r))
    raise ValueError(v)


def seg_text(seg, a, idx):
    t, n, g = seg
    if t == "clone":
        return "%s_%s" % (n, g)
    if t in ("actor", "apart") and a["verb"] == "do" and g == "last":
        return "%s%d" % (n, idx)          # the number the printer put on the last token of the deed's name
    return n


def script(c, acts):
    """program for context c with all acts; returns (text, framer name, frame name, [(list, key)] per act)"""
    out = ["house vfh", ""]
    body, obs = [], []
    last = "sz" if c["aux"] else "fz"
    for idx, a in enumerate(acts):
        lst, key, line = act_line(a, idx, last)
        body.append(line)
        obs.append((lst, key))
    out.append("framer %s be active first %s%s" % (c["F"], c["f0"], via(c["fi"])))
    out.append("  frame %s%s" % (c["f0"], via(c["oi"])))
    out.append("    frame %s in %s%s" % (c["f1"], c["f0"], via(c["ni"])))
    if c["aux"]:
        out.append("      aux %s as %s%s" % (c["S"], c["tag"], via(c["ci"])))
        out.append("      aux %s as %s%s" % (c["S"], c["tag2"], via(c["ci"])))      # the same moot framer cloned twice
        out.append("      go fz if aux %s is done" % c["tag"])
    else:
        out.extend("      " + b for b in body)
    out.append("  frame fz")
    out.append("    bid stop all")
    out.append("")
    out.append("framer %s be active first %s" % (c["G"], c["g1"]))
    out.append("  frame %s" % c["g1"])
    out.append("    put 1 into vfy")
    out.append("")
    out.append("framer %s be moot first %s" % (c["S"], c["s0"]))
    out.append("  frame %s%s" % (c["s0"], via(c["so"])))
    out.append("    frame %s in %s%s" % (c["s1"], c["s0"], via(c["si"])))
    if c["aux"]:
        out.extend("      " + b for b in body)
    else:
        out.append("      put 1 into vfm")
    out.append("  frame sz")
    out.append("    done me")
    out.append("")
    framer = "%s_%s" % (c["F"], c["tag"]) if c["aux"] else c["F"]
    frame = c["s1"] if c["aux"] else c["f1"]
    second = "%s_%s" % (c["F"], c["tag2"]) if c["aux"] else None      # the acts live in both clones
    return "\n".join(out) + "\n", (framer, second), frame, obs


# ------------------------------------------------------------------------------------------------------------------
# renaming (mirrors RenCtx / RenAct / RenPath of Paths.tla)
# ------------------------------------------------------------------------------------------------------------------

def renamings(c):
    return ([("framer", c[k]) for k in ("F", "G", "S")] + [("frame", c[k]) for k in ("f0", "f1", "g1", "s0", "s1")]
            + [("tag", c["tag"]), ("tag", c["tag2"]), ("actor", c["A"]), ("actor", "work"), ("actor", "n"), ("actor", "s")])


def _ren(rho, kind, n):
    return FRESHES[kind] if (rho[0] == kind and n == rho[1]) else n


def ren_ctx(rho, c):
    c = dict(c)
    for k in ("F", "G", "S"):
        c[k] = _ren(rho, "framer", c[k])
    for k in ("f0", "f1", "g1", "s0", "s1"):
        c[k] = _ren(rho, "frame", c[k])
    c["tag"] = _ren(rho, "tag", c["tag"])
    c["tag2"] = _ren(rho, "tag", c["tag2"])
    c["A"] = _ren(rho, "actor", c["A"])
    return c


def ren_act(rho, a):
    a = dict(a)
    r = dict(a["ref"])
    if r["form"] == "framer":
        r["n1"] = _ren(rho, "framer", r["n1"])
    elif r["form"] == "frame":
        r["n1"] = _ren(rho, "frame", r["n1"])
        r["n2"] = _ren(rho, "framer", r["n2"])
    elif r["form"] == "actor":
        r["n1"] = _ren(rho, "actor", r["n1"])
        r["n2"] = _ren(rho, "frame", r["n2"])
        r["n3"] = _ren(rho, "framer", r["n3"])
    a["ref"] = r
    if a["an"]:
        a["an"] = [_ren(rho, "actor", a["an"][0])] + list(a["an"][1:])
    return a


def ren_path(rho, p):
    out = []
    for (t, n, g) in p:
        if t == "clone":
            out.append((t, _ren(rho, "framer", n), _ren(rho, "tag", g)))
        elif t == "lit":
            out.append((t, n, g))
        else:
            out.append((t, _ren(rho, t, n), g))
    return out


# ------------------------------------------------------------------------------------------------------------------
# building with the real Builder
# ------------------------------------------------------------------------------------------------------------------

_ready = False


def _setup():
    global _ready
    if _ready:
        return
    _ready = True
    env.use_repo()
    import collections.abc  # noqa: F401
    from ioflo.aid import consoling
    consoling.getConsole().reinit(verbosity=0)


def build(text, workdir):
    """-> (house, None) or (None, error text)"""
    _setup()
    from ioflo.base import skedding
    path = os.path.join(workdir, "p%d.flo" % os.getpid())
    with open(path, "w") as f:
        f.write(text)
    sk = skedding.Skedder(name="vf", period=0.125, real=False, filepath=path)
    try:
        ok = sk.build()
    except Exception as ex:
        from ..replay import innermost_ioflo_frame
        return None, "%s: %s @%s" % (type(ex).__name__, str(ex)[:200], innermost_ioflo_frame(ex.__traceback__))
    if not ok:
        return None, "build returned False (ResolveError reported by the builder)"
    return sk.houses[0], None


def observe(house, framer, frame, obs):
    """names of the shares / nodes each act resolved to, in the order the acts were written"""
    from ioflo.base import storing
    fr = next((f for f in house.framers if f.name == framer), None)
    if fr is None:
        return None, "no framer named %s (framers: %s)" % (framer, [f.name for f in house.framers])
    fm = fr.frameNames.get(frame)
    if fm is None:
        return None, "no frame %s in framer %s" % (frame, framer)
    its = {"enacts": iter(fm.enacts), "preacts": iter(fm.preacts), "beacts": iter(fm.beacts)}
    out = []
    for (lst, key) in obs:
        try:
            act = next(its[lst])
        except StopIteration:
            return None, "fewer %s than written in frame %s" % (lst, frame)
        parms = act.parms
        if lst == "preacts":
            needs = parms.get("needs") or []
            if not needs:
                return None, "transition without need"
            parms = needs[0].parms
        v = parms.get(key)
        if not isinstance(v, (storing.Share, storing.Node)):
            out.append("<%s not resolved: %r>" % (key, type(v).__name__))
        else:
            out.append(v.name)
    return out, None


def check_row(job):
    """build one context (row) and its renamings; returns (evaluations, [divergence dicts])"""
    row, rhos, workdir = job
    c = row["ctx"]
    acts = [e["act"] for e in row["acts"]]
    paths = [[tuple(s) for s in e["path"]] for e in row["acts"]]
    pathsb = [[tuple(s) for s in e.get("path2", ())] for e in row["acts"]]      # the same acts in the second clone
    divs = []
    nev = 0
    bad = set()       # acts that already disagree with the specification before any renaming
    for rho in [None] + list(rhos):
        if rho is None:
            c2, acts2, paths2, pathsb2 = c, acts, paths, pathsb
        else:
            c2 = ren_ctx(rho, c)
            acts2 = [ren_act(rho, a) for a in acts]
            paths2 = [ren_path(rho, p) for p in paths]
            pathsb2 = [ren_path(rho, p) for p in pathsb]
        text, framers, frame, obs = script(c2, acts2)
        label = "original" if rho is None else "renamed %s %s->%s" % (rho[0], rho[1], FRESHES[rho[0]])
        house, err = build(text, workdir)
        if house is None:
            divs.append({"kind": "exception", "action": "Build", "where": err.split("@")[-1] if "@" in err else "Builder.build",
                         "detail": "%s: %s" % (label if rho else "original", err.split(" @")[0]), "script": text, "ctx": c2})
            continue
        for which, (framer, exp) in enumerate(((framers[0], paths2), (framers[1], pathsb2))):
            if framer is None:
                continue
            got, err = observe(house, framer, frame, obs)
            if got is None:
                divs.append({"kind": "state-mismatch", "action": "Build", "where": "structure", "detail": "%s: %s" % (label, err), "script": text, "ctx": c2})
                continue
            for idx, (a, p, g) in enumerate(zip(acts2, exp, got)):
                nev += 1
                want = ".".join(seg_text(s, a, idx) for s in p)
                if g != want and (which, idx) not in bad:
                    if rho is None:
                        bad.add((which, idx))
                    _, key, line = act_line(a, idx, "sz" if c2["aux"] else "fz")
                    what = "Resolve" if rho is None else "Rename(%s)" % rho[0]
                    kindtxt = ("%s %s%s%s" % (a["verb"], a["ref"]["form"], "" if a["verb"] != "do" else " via-" + a["ai"]["k"],
                                             " in second clone" if which else ""))
                    divs.append({"kind": "table-mismatch", "action": what, "where": kindtxt,
                                 "detail": "%s: `%s` in framer %s resolved to %s, specification says %s" % (label, line, framer, g, want),
                                 "script": text, "ctx": c2, "expected": want, "actual": g})
    return nev, divs


def cfg_text(sets):
    def s(xs):
        return "{" + ", ".join('"%s"' % x if isinstance(x, str) else ("TRUE" if x else "FALSE") for x in xs) + "}"
    lines = ["SPECIFICATION Spec", "CONSTANTS"]
    for k in ("FIs", "OIs", "NIs", "CIs", "SOs", "SIs", "AIs", "AuxModes"):
        lines.append("  %s = %s" % (k, s(sets[k])))
    lines.append('  Fresh = "zz"')
    for inv in ("Equivariant", "BothClones", "AbsoluteIndependent", "FreshUnused", "WellFormed", "ThroughNames"):
        lines.append("INVARIANT " + inv)
    lines.append("CHECK_DEADLOCK FALSE")
    return "\n".join(lines) + "\n"


QUICK = {"FIs": ["none", "rel"], "OIs": ["none", "rel"], "NIs": ["none", "rel", "me"],
         "CIs": ["none", "rel", "me", "abs"], "SOs": ["none", "rel"], "SIs": ["none", "rel", "me"],
         "AIs": ["none", "rel", "me", "abs", "framer", "frame"], "AuxModes": [False, True]}
THOROUGH = {"FIs": ["none", "rel", "abs"], "OIs": ["none", "rel", "me", "abs"], "NIs": ["none", "rel", "me", "abs"],
            "CIs": ["none", "rel", "me", "abs"], "SOs": ["none", "rel"], "SIs": ["none", "rel", "me", "abs"],
            "AIs": ["none", "rel", "me", "abs", "framer", "frame"], "AuxModes": [False, True]}


def _lap(t0, what):
    if os.environ.get("VF_TIMING"):
        import time
        print("  [c13 %6.1fs] %s" % (time.time() - t0, what))


def run_c13(ctx):
    import time
    t0 = time.time()
    sets = ctx.pick(QUICK, THOROUGH)
    work = env.subdir("c13")
    # thorough: one TLC run (and one table) per framer inode kind, to bound memory
    shards = [sets] if ctx.quick else [dict(sets, FIs=[k]) for k in sets["FIs"]]
    rng = random.Random(ctx.seed)
    _setup()
    mp = multiprocessing.get_context("fork")
    nev = nbuild = ncases = ncontexts = nbuilt = 0
    seen = set()
    sample = None
    for si, sh in enumerate(shards):
        out = os.path.join(work, "table%d.json" % si)
        res = tlc.run("Paths", cfg_text(sh), spec_dir=SPEC_DIR, extra_env={"TABLE_OUT": out}, coverage=False, tag="c13")
        ctx.add_model(res, "Paths/%d" % si, sh)
        _lap(t0, "tlc %d" % si)
        if not res.ok:
            ctx.diverge(Divergence("C13", "model", res.error_name or res.error, "Paths", "the documented resolution rule violates the property in the model",
                                   steps=[{"action": a, "state": s} for a, s in res.trace]))
            return
        with open(out) as f:
            table = json.load(f)
        os.unlink(out)
        n = sum(len(r["acts"]) for r in table)
        if res.distinct < n or n == 0:
            raise TlcError("vacuous model run (Paths): %d states for %d table cases" % (res.distinct, n))
        forms = {(e["act"]["verb"], e["act"]["ref"]["form"]) for r in table for e in r["acts"]}
        need = {("put", f) for f in ("abs", "root", "me", "framer", "frame", "actor")} | {("do", "inode"), ("do", "root"), ("need", "frame"), ("copy", "framer")}
        if not need <= forms:
            raise TlcError("vacuous table (Paths): reference forms never enumerated: %s" % sorted(need - forms))
        if not any(r["ctx"]["aux"] for r in table) or all(r["ctx"]["aux"] for r in table):
            raise TlcError("vacuous table (Paths): auxiliary and plain contexts must both occur")
        ncases += n
        ncontexts += len(table)
        rows = list(table)
        rng.shuffle(rows)
        # quick: every act form appears in every context; the contexts built are chosen so that every pair of inode kinds at
        # two levels occurs (greedy pairwise cover in seeded order) and filled up to the budget; three renamings each, rotating
        # through all kinds; thorough: all contexts x all renamings
        nrows = ctx.pick(64, len(rows))
        if nrows < len(rows):
            def feats(c):
                vals = [("aux", c["aux"])] + [(k, c[k]["k"]) for k in ("fi", "oi", "ni", "ci", "so", "si")]
                return {(a, b) for i, a in enumerate(vals) for b in vals[i + 1:]}
            covered, chosen, rest = set(), [], []
            for row in rows:
                f = feats(row["ctx"])
                if row["ctx"]["F"] != "fa" or not f <= covered:     # the key-word-like name profiles are always built
                    covered |= f
                    chosen.append(row)
                else:
                    rest.append(row)
            rows = (chosen + rest)[:max(nrows, len(chosen))]
        jobs = []
        for i, row in enumerate(rows):
            rh = renamings(row["ctx"])
            pick = [rh[(i + j * 4) % len(rh)] for j in range(3)] if (ctx.quick and row["ctx"]["F"] == "fa") else rh
            jobs.append((row, pick, work))
        with mp.Pool(env.NCPU) as pool:
            results = pool.map(check_row, jobs, chunksize=1)
        _lap(t0, "built %d" % si)
        nbuilt += len(jobs)
        for (row, pick, _), (n2, divs) in zip(jobs, results):
            nev += n2
            nbuild += 1 + len(pick)
            for d in divs:
                sig = (d["kind"], d["action"], d["where"], d.get("expected"))
                if sig in seen or len(seen) >= 25:
                    continue
                seen.add(sig)
                ctx.diverge(Divergence("C13", d["kind"], d["action"], d["where"], d["detail"],
                                       steps=[{"action": "Build", "state": {"script": d["script"]}}],
                                       expected=d.get("expected"), actual=d.get("actual"), extra={"ctx": d["ctx"]}))
        if sample is None:
            sample = jobs[0][0]
        del table, rows, jobs, results
    text, framer, frame, _ = script(sample["ctx"], [e["act"] for e in sample["acts"]][:6])
    ctx.add_validated(nbuild, {"script": text.splitlines()[:14], "resolved": [".".join(s[1] for s in e["path"]) for e in sample["acts"][:6]]})
    ctx.exhaustive = (not ctx.quick)
    ctx.rule = ("contexts = inode kinds at framer / over frame / frame / clone / clone frames x auxiliary or not; acts = verb x reference "
                "form x user path (x deed inode kind); every (context, act) is a TLC state; each context is one FloScript program holding "
                "all its acts, built with the real Builder, resolved share names compared with Resolve; then rebuilt under renamings of "
                "one framer / frame / tag / actor name to a fresh name and compared with the renamed row; distinct = (context, act, renaming)")
    ctx.extra.update({"evaluations": nev, "distinct_nontrivial": nev, "contexts_in_table": ncontexts, "contexts_built": nbuilt,
                      "programs_built": nbuild, "table_cases": ncases})
    ctx.assume("the FloScript printer and the projection (act parameters -> share names) in vf/families/paths.py are trusted")


PROPERTIES = {"C13": run_c13}
