"""Check context: collects model-checking statistics, validated traces, divergences; writes evidence; verdict."""
import hashlib
import importlib
import json
import os
import pkgutil
import sys
import time
import traceback

from . import env, findings
from .replay import Divergence
from .tlaval import to_py
from .tlc import TlcError


class Ctx:
    def __init__(self, prop, tier, seed, replay=None):
        self.prop = prop
        self.tier = tier
        self.seed = seed
        self.replay = replay
        self.t0 = time.time()
        self.states = 0
        self.transitions = 0
        self.validated = 0
        self.samples = []
        self.actions = {}
        self.models = []
        self.divs = []
        self.notes = []
        self.assumptions = []
        self.extra = {}
        self.exhaustive = None
        self.rule = ""

    @property
    def quick(self):
        return self.tier == "quick"

    def pick(self, quick, thorough):
        return quick if self.tier == "quick" else thorough

    def add_model(self, res, name, constants=None):
        """account for one TLC run (TlcResult)"""
        self.states += res.distinct
        self.transitions += res.generated
        for a, (d, t) in res.coverage.items():
            c = self.actions.setdefault(a, [0, 0])
            c[0] += d
            c[1] += t
        m = {"model": name}
        m.update(res.summary())
        if constants:
            m["constants"] = constants
        self.models.append(m)

    def add_validated(self, n, sample=None):
        self.validated += n
        if sample is not None and len(self.samples) < 6:
            self.samples.append(_j(sample))

    def sample(self, s):
        if len(self.samples) < 6:
            self.samples.append(_j(s))

    def diverge(self, d):
        if isinstance(d, (list, tuple)):
            self.divs.extend(d)
        else:
            self.divs.append(d)

    def note(self, s):
        self.notes.append(s)
        print("note: " + s)

    def assume(self, s):
        if s not in self.assumptions:
            self.assumptions.append(s)


def _j(x):
    try:
        return json.loads(json.dumps(to_py(x), default=repr))
    except Exception:
        return repr(x)


IMPORT_ERRORS = {}


def registry():
    """property id -> callable(ctx); discovered from vf/families/*.py modules defining PROPERTIES"""
    reg = {}
    import vf.families as fam
    for m in pkgutil.iter_modules(fam.__path__):
        if m.name.startswith("_"):
            continue
        try:
            mod = importlib.import_module("vf.families." + m.name)
        except Exception:
            # one broken family module must not take the other properties' checks down with it
            IMPORT_ERRORS[m.name] = traceback.format_exc()
            continue
        for pid, fn in getattr(mod, "PROPERTIES", {}).items():
            reg[pid] = fn
        # coverage beyond the listed properties: EXTRAS = {"name": fn}, run with `./check X-name`
        for name, fn in getattr(mod, "EXTRAS", {}).items():
            reg["X-" + name] = fn
    return reg


def write_evidence(ctx, violations, known):
    if env.REPO != "/repo":
        return   # a run against a scratch copy (mutant / selftest) is not evidence about /repo
    evdir = env.EVIDENCE if not ctx.prop.startswith("X-") else os.path.join(env.VERIF, "evidence-extra")
    os.makedirs(evdir, exist_ok=True)
    cov = {
        "states": ctx.states,
        "transitions": ctx.transitions,
        "traces_validated_against_impl": ctx.validated,
        "samples": ctx.samples or ["(no sample recorded)"],
        "exhaustive": bool(ctx.exhaustive),
        "rule": ctx.rule,
        "models": ctx.models,
        "actions_taken": {a: c[1] for a, c in sorted(ctx.actions.items())},
        "known_findings_reported": known,
        "notes": ctx.notes,
    }
    cov.update(ctx.extra)
    ev = {
        "property_id": ctx.prop,
        "tier": ctx.tier,
        "seed": ctx.seed,
        "level": "model_checking",
        "coverage": cov,
        "assumptions": ctx.assumptions or ["TLC, the projection functions and test doubles of the harness are trusted"],
        "wall_s": round(time.time() - ctx.t0, 2),
        "violations": violations,
    }
    tmp = os.path.join(evdir, ".%s.%d.tmp" % (ctx.prop, os.getpid()))
    with open(tmp, "w") as f:
        json.dump(ev, f, indent=1, sort_keys=True)
    os.replace(tmp, os.path.join(evdir, ctx.prop + ".json"))


def run_check(prop, tier, seed, replay=None):
    reg = registry()
    if prop not in reg:
        print("no check registered for %s" % prop)
        for name, tb in IMPORT_ERRORS.items():
            print("family module %s failed to import:\n%s" % (name, tb))
        return 2
    ctx = Ctx(prop, tier, seed, replay)
    try:
        reg[prop](ctx)
    except TlcError as ex:
        print("MACHINERY-FAILURE property=%s %s" % (prop, ex))
        return 2
    except Exception:
        print("MACHINERY-FAILURE property=%s\n%s" % (prop, traceback.format_exc()))
        return 2
    known = findings.load()
    nviol = 0
    nknown = []
    seen_known = set()
    seen_sig = set()
    os.makedirs(env.OUT, exist_ok=True)
    for d in ctx.divs:
        f = findings.match(d, known)
        if f:
            if f["id"] not in seen_known:
                seen_known.add(f["id"])
                nknown.append(f["id"])
                print("KNOWN-FINDING: property=%s %s [%s]" % (prop, f.get("what", ""), f["id"]))
            continue
        sig = json.dumps(d.signature(), sort_keys=True)
        if sig in seen_sig:
            continue
        seen_sig.add(sig)
        nviol += 1
        h = hashlib.sha1(sig.encode()).hexdigest()[:10]
        path = os.path.join(env.OUT, "%s-%s.json" % (prop, h))
        with open(path, "w") as fo:
            json.dump(d.to_json(), fo, indent=1, default=repr)
        print("DIVERGENCE %s" % d)
        print("VIOLATION property=%s replay=%s" % (prop, path))
    write_evidence(ctx, nviol, nknown)
    print("%s %s: states=%d transitions=%d validated=%d violations=%d known=%d wall=%.1fs" % (
        prop, tier, ctx.states, ctx.transitions, ctx.validated, nviol, len(nknown), time.time() - ctx.t0))
    return 1 if nviol else 0
