"""Binding B: validate executions recorded from the real code against a *Trace.tla specification."""
import json
import os
import uuid
from concurrent.futures import ThreadPoolExecutor

from . import env, tlc


class TraceOutcome:
    def __init__(self):
        self.accepted = set()
        self.rejected = {}      # trace index -> length of longest matched prefix (events consumed)
        self.states = 0
        self.generated = 0
        self.wall = 0.0
        self.undiagnosed = []
        self.model_errors = []  # (batch, error, name, trace) invariant violations met while validating


def _run_batch(module, cfg, spec_dir, traces, idxs, progress, tag, workers, depth_first, timeout):
    d = env.subdir("traces")
    path = os.path.join(d, "%s-%s-%s.json" % (tag, idxs[0], uuid.uuid4().hex[:8]))
    with open(path, "w") as f:
        json.dump([traces[i] for i in idxs], f)
    res = tlc.run(module, cfg, spec_dir=spec_dir, workers=workers, deadlock=False, coverage=False,
                  extra_env={"TRACE_FILE": path, "VF_PROGRESS": "1" if progress else "0"},
                  depth_first=depth_first, timeout=timeout, tag=tag)
    os.unlink(path)
    return res


def validate(module, cfg, spec_dir, traces, *, batch=400, procs=None, depth_first=False, timeout=1800):
    """traces: list of traces (each a list of JSON-able event dicts). Returns TraceOutcome.

    A trace is accepted iff TLC can consume every event (the trace spec prints <<"ACCEPT", tid>>).
    An invariant / action-property violation found while consuming is reported in model_errors
    (and the traces of that batch are then re-run one by one).
    """
    out = TraceOutcome()
    if not traces:
        return out
    procs = procs or env.NCPU
    batches = [list(range(i, min(i + batch, len(traces)))) for i in range(0, len(traces), batch)]

    def work(b):
        return b, _run_batch(module, cfg, spec_dir, traces, b, False, module, 1, depth_first, timeout)

    with ThreadPoolExecutor(max_workers=procs) as ex:
        results = list(ex.map(work, batches))
    suspects = []
    for b, res in results:
        out.states += res.distinct
        out.generated += res.generated
        out.wall += res.wall
        if res.error:
            # a violated invariant stops TLC early: re-run this batch's traces one by one
            suspects.extend(b)
            continue
        acc = {v[1] for v in tlc.printed_values(res.out) if len(v) == 2 and v[0] == "ACCEPT"}
        for k, i in enumerate(b):
            if (k + 1) in acc:
                out.accepted.add(i)
            else:
                suspects.append(i)

    # a batch that hit an error makes all its traces suspect: narrow them down with small batches first, so that
    # only traces that are really not accepted are diagnosed one by one (never report an undiagnosed trace)
    if len(suspects) > 24:
        small = [suspects[i:i + 8] for i in range(0, len(suspects), 8)]
        with ThreadPoolExecutor(max_workers=procs) as ex:
            res2 = list(ex.map(work, small))
        suspects = []
        for b, res in res2:
            if res.error:
                suspects.extend(b)
                continue
            acc = {v[1] for v in tlc.printed_values(res.out) if len(v) == 2 and v[0] == "ACCEPT"}
            for k, i in enumerate(b):
                if (k + 1) in acc:
                    out.accepted.add(i)
                else:
                    suspects.append(i)

    def single(i):
        return i, _run_batch(module, cfg, spec_dir, traces, [i], True, module + "-diag", 1, depth_first, timeout)

    with ThreadPoolExecutor(max_workers=procs) as ex:
        for i, res in ex.map(single, suspects[:48]):
            vals = tlc.printed_values(res.out)
            if res.error:
                out.model_errors.append((i, res.error, res.error_name, res.trace))
            if not res.error and any(len(v) == 2 and v[0] == "ACCEPT" for v in vals):
                out.accepted.add(i)
                continue
            at = [v[2] for v in vals if len(v) == 3 and v[0] == "AT"]
            out.rejected[i] = (max(at) - 1) if at else 0
    out.undiagnosed = list(suspects[48:])   # not accepted in a small batch and beyond the diagnosis budget
    for i in out.undiagnosed:
        out.rejected[i] = -1
    return out
