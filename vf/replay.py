"""Binding A: replay behaviours produced by TLC into the real code and compare projected state."""
import glob
import os
import re
import traceback

from . import env
from .graph import parse_action
from .tlaval import FrozenDict, MV, parse_state, to_py


def norm(v):
    """canonical comparable form shared by parsed TLA+ values and adapter projections."""
    if isinstance(v, bool) or v is None:
        return v
    if isinstance(v, MV):
        return str(v)
    if isinstance(v, (int, str)):
        return v
    if isinstance(v, (list, tuple)):
        return tuple(norm(x) for x in v)
    if isinstance(v, (set, frozenset)):
        return frozenset(norm(x) for x in v)
    if isinstance(v, dict):
        if not v:
            return ()
        d = {norm(k): norm(x) for k, x in v.items()}
        ks = list(d)
        if all(isinstance(k, int) and not isinstance(k, bool) for k in ks) and sorted(ks) == list(range(1, len(ks) + 1)):
            return tuple(d[i] for i in range(1, len(ks) + 1))
        return FrozenDict(d)
    if isinstance(v, (bytes, bytearray)):
        return tuple(v)
    raise TypeError("cannot normalise %r" % (v,))


def diff(expected, actual, path=""):
    """first difference between two normalised values as (path, expected, actual) or None"""
    if expected == actual and type(expected) == type(actual):
        return None
    if isinstance(expected, dict) and isinstance(actual, dict):
        for k in sorted(set(expected) | set(actual), key=repr):
            if k not in expected or k not in actual:
                return ("%s.%s" % (path, k), expected.get(k, "<absent>"), actual.get(k, "<absent>"))
            d = diff(expected[k], actual[k], "%s.%s" % (path, k))
            if d:
                return d
        return None
    if isinstance(expected, tuple) and isinstance(actual, tuple) and len(expected) == len(actual):
        for i, (a, b) in enumerate(zip(expected, actual)):
            d = diff(a, b, "%s[%d]" % (path, i + 1))
            if d:
                return d
        return None
    if expected == actual:   # e.g. True vs 1
        if isinstance(expected, bool) != isinstance(actual, bool):
            return (path, expected, actual)
        return None
    return (path, expected, actual)


def innermost_ioflo_frame(tb):
    where = None
    for fs in traceback.extract_tb(tb):
        if "/ioflo/" in fs.filename:
            where = "%s:%s" % (fs.filename.split("/ioflo/", 1)[1], fs.name)
    return where or "harness"


class Divergence:
    """one observed disagreement between the code and the specification"""

    def __init__(self, prop, kind, action="", where="", detail="", steps=None, expected=None, actual=None, extra=None):
        self.prop = prop
        self.kind = kind          # state-mismatch | exception | rejected | nontermination | table-mismatch | model
        self.action = action
        self.where = where
        self.detail = detail
        self.steps = steps or []
        self.expected = expected
        self.actual = actual
        self.extra = extra or {}

    def signature(self):
        return {"property": self.prop, "kind": self.kind, "action": str(self.action), "where": str(self.where),
                "detail": str(self.detail)}

    def to_json(self):
        def j(x):
            try:
                return to_py(x)
            except Exception:
                return repr(x)
        return {"signature": self.signature(), "steps": [j(s) for s in self.steps],
                "expected": j(self.expected) if not isinstance(self.expected, str) else self.expected,
                "actual": j(self.actual) if not isinstance(self.actual, str) else self.actual,
                "extra": j(self.extra)}

    def __str__(self):
        return "%s %s at %s [%s] %s" % (self.prop, self.kind, self.action, self.where, self.detail)


def load_sim_traces(prefix):
    """behaviours written by `tlc -simulate file=<prefix>,num=N`: list of [(label, (name,args), state)]"""
    traces = []
    for fn in sorted(glob.glob(prefix + "*")):
        with open(fn) as f:
            txt = f.read()
        steps = []
        for m in re.finditer(r"\\\* <(.*?) line \d+, col \d+ to line \d+, col \d+ of module \w+>\nSTATE_\d+ ==\s*\n(.*?)\n\n", txt, re.S):
            lab = m.group(1).strip()
            steps.append((lab, parse_action(lab), parse_state(m.group(2))))
        if steps:
            traces.append(steps)
    return traces


def graph_paths_to_traces(g, paths):
    """edge-cover paths -> same shape as load_sim_traces (first element is the initial state)"""
    out = []
    for p in paths:
        if not p:
            continue
        steps = [("Init", ("Init", ()), g.states[p[0][0]])]
        for (s, lab, act, d) in p:
            steps.append((lab, act, g.states[d]))
        out.append(steps)
    return out


def replay(prop, traces, make_adapter, *, keys=None, stop_after=20, on_step=None):
    """Walk each trace: adapter = make_adapter(init_state); actual = adapter.step(name, args, expected_state)
    must return a dict of projected variables; each is compared with the specification's next state.

    Returns (steps_executed, [Divergence]).  A divergence ends its trace (state no longer corresponds).
    """
    divs = []
    nsteps = 0
    for tr in traces:
        init = tr[0][2]
        done = [{"action": "Init", "state": init}]
        try:
            ad = make_adapter(init)
            if hasattr(ad, "project"):
                actual = ad.project()
                bad = _compare(init, actual, keys)
                if bad:
                    divs.append(Divergence(prop, "state-mismatch", "Init", bad[0], "expected %r got %r" % (bad[1], bad[2]),
                                           steps=list(done), expected=init, actual=actual))
                    continue
        except Exception as ex:
            divs.append(Divergence(prop, "exception", "Init", innermost_ioflo_frame(ex.__traceback__),
                                   "%s: %s" % (type(ex).__name__, ex), steps=list(done)))
            continue
        for (lab, (name, args), st) in tr[1:]:
            done.append({"action": lab, "state": st})
            nsteps += 1
            try:
                actual = ad.step(name, args, st)
            except Exception as ex:
                divs.append(Divergence(prop, "exception", name, innermost_ioflo_frame(ex.__traceback__),
                                       "%s: %s" % (type(ex).__name__, str(ex)[:200]), steps=list(done), expected=st,
                                       extra={"traceback": traceback.format_exc()[-2000:]}))
                break
            if on_step:
                on_step(name, args, st, actual)
            bad = _compare(st, actual, keys)
            if bad:
                divs.append(Divergence(prop, "state-mismatch", name, bad[0], "expected %r got %r" % (bad[1], bad[2]),
                                       steps=list(done), expected=st, actual=actual))
                break
        if hasattr(ad, "close"):
            try:
                ad.close()
            except Exception:
                pass
        if len(divs) >= stop_after:
            break
    return nsteps, divs


def _compare(expected_state, actual, keys):
    if actual is None:
        return None
    for k, v in actual.items():
        if keys is not None and k not in keys:
            continue
        if k not in expected_state:
            continue
        d = diff(norm(expected_state[k]), norm(v), k)
        if d:
            return d
    return None
