"""Run TLC and parse what it reports."""
import os
import re
import shutil
import subprocess
import time

from . import env
from .tlaval import parse_state


class TlcError(RuntimeError):
    """the machinery failed (parse error in a spec, TLC crash, timeout) - never a property verdict"""


class TlcResult:
    def __init__(self):
        self.ok = False            # finished and found no error
        self.error = None          # None | invariant | action_property | temporal | deadlock | assumption | postcondition | eval
        self.error_name = None
        self.trace = []            # [(action label, {var: value})] counterexample
        self.generated = 0
        self.distinct = 0
        self.depth = 0
        self.coverage = {}         # action name -> [distinct, total]
        self.wall = 0.0
        self.out = ""
        self.printed = []          # lines printed by PrintT / Print (raw text)

    def summary(self):
        return {"ok": self.ok, "error": self.error, "error_name": self.error_name,
                "generated": self.generated, "distinct": self.distinct, "depth": self.depth,
                "wall_s": round(self.wall, 2)}


_COV = re.compile(r"^<(\w+) line \d+, col \d+ to line \d+, col \d+ of module (\w+)(?: \([\d ]+\))?>: (\d+):(\d+)")
_STATE_HDR = re.compile(r"^State (\d+): <?(.*?)>?$")


def _parse(out, res):
    m = None
    for m in re.finditer(r"(\d+) states generated, (\d+) distinct states found", out):
        pass
    if m:
        res.generated, res.distinct = int(m.group(1)), int(m.group(2))
    m = re.search(r"The number of states generated: (\d+)", out)
    if m and not res.generated:
        res.generated = int(m.group(1))
        res.distinct = res.distinct or res.generated
    m = re.search(r"The depth of the complete state graph search is (\d+)", out)
    if m:
        res.depth = int(m.group(1))
    # TLC prints the coverage statistics periodically on long runs: only the last block is the total
    cov_at = out.rfind("The coverage statistics at")
    for line in (out[cov_at:] if cov_at >= 0 else out).splitlines():
        c = _COV.match(line)
        if c:
            a = res.coverage.setdefault(c.group(1), [0, 0])
            a[0] += int(c.group(3))
            a[1] += int(c.group(4))
    finished = ("Model checking completed. No error has been found." in out) or \
               (("Progress:" in out or "The number of states generated" in out) and "Error:" not in out and "Finished in" in out)
    em = re.search(r"^Error: (.*)$", out, re.M)
    if em:
        msg = em.group(1)
        m1 = re.match(r"Invariant (\S+) is violated", msg)
        m2 = re.match(r"Action property (\S+) is violated", msg)
        if m1:
            res.error, res.error_name = "invariant", m1.group(1)
        elif m2:
            res.error, res.error_name = "action_property", m2.group(1)
        elif "Temporal propert" in msg and "violated" in msg:
            res.error = "temporal"
            mt = re.match(r"Temporal property (\S+) was violated", msg)
            res.error_name = mt.group(1) if mt else None
        elif "Deadlock reached" in msg:
            res.error = "deadlock"
        elif "Assumption" in msg:
            res.error = "assumption"
            res.error_name = msg
        elif "POSTCONDITION" in msg.upper() or "Postcondition" in msg:
            res.error = "postcondition"
            res.error_name = msg
        else:
            res.error = "eval"
            res.error_name = msg
        # behaviour
        if "The behavior up to this point is:" in out or "is violated by the initial state" in out:
            blocks = re.split(r"^(?=State \d+: )", out, flags=re.M)[1:]
            for b in blocks:
                lines = b.split("\n")
                h = _STATE_HDR.match(lines[0])
                body = []
                for ln in lines[1:]:
                    if ln.strip() == "" or ln.startswith(("Error:", "Finished", "The coverage", "<", "Back to state", "Progress", "State ")) \
                            or re.match(r"^\s+\|*line \d+, col \d+", ln) or re.match(r"^\d+ states generated", ln):
                        break
                    body.append(ln)
                try:
                    st = parse_state("\n".join(body))
                except Exception:
                    st = {"_raw": "\n".join(body)}
                res.trace.append((h.group(2) if h else "?", st))
    else:
        res.ok = finished
    return res


def run(module, cfg, *, spec_dir, workers=None, dump_dot=None, simulate=None, seed=None,
        extra_env=None, timeout=3600, coverage=True, deadlock=None, extra_args=(), depth_first=False,
        lib_dirs=(), tag=None, heap=None):
    """Run TLC on `module`.tla in spec_dir with configuration `cfg` (a path, or cfg text).

    simulate: dict(num=.., depth=.., file=<prefix or None>)
    Returns TlcResult; raises TlcError when TLC itself failed (parse error, timeout, Java crash).
    """
    work = env.subdir("tlc-%s-%d-%s" % (tag or module, os.getpid(), format(time.monotonic_ns() % 10**9, "x")))
    if "\n" in cfg or not os.path.exists(cfg):
        cfg_path = os.path.join(work, module + "_gen.cfg")
        with open(cfg_path, "w") as f:
            f.write(cfg)
    else:
        cfg_path = os.path.abspath(cfg)
    libs = [os.path.join(env.SPECS, "common")] + [os.path.abspath(d) for d in lib_dirs]
    jtmp = os.path.join(work, "jtmp")
    os.makedirs(jtmp, exist_ok=True)
    if workers is None:
        workers = env.NCPU
    # a modest heap and few GC threads: many TLC JVMs run side by side (trace batches, shards)
    jopts = ["-XX:+UseParallelGC", "-Xmx%s" % (heap or os.environ.get("VF_TLC_HEAP", "4g")),
             "-XX:ParallelGCThreads=%d" % max(1, min(4, int(workers))),
             "-DTLA-Library=" + os.pathsep.join(libs),
             "-Djava.io.tmpdir=" + jtmp]   # TLC unpacks its standard modules there: keep /tmp clean
    if depth_first:
        jopts.append("-Dtlc2.tool.queue.IStateQueue=StateDeque")
    cmd = ["java"] + jopts + ["-cp", env.JAVA_CP, "tlc2.TLC",
                              "-metadir", os.path.join(work, "meta"), "-noGenerateSpecTE",
                              "-config", cfg_path]
    cmd += ["-workers", str(workers)]
    if coverage and not simulate:
        cmd += ["-coverage", "1"]
    if deadlock is False:
        cmd += ["-deadlock"]       # -deadlock switches deadlock checking OFF
    if dump_dot:
        cmd += ["-dump", "dot,actionlabels", dump_dot]
    if simulate:
        spec = "num=%d" % simulate.get("num", 100)
        if simulate.get("file"):
            spec = "file=%s,%s" % (simulate["file"], spec)
        cmd += ["-simulate", spec, "-depth", str(simulate.get("depth", 20))]
    if seed is not None:
        cmd += ["-seed", str(seed)]
    cmd += list(extra_args)
    cmd.append(module + ".tla")
    e = dict(os.environ)
    if extra_env:
        e.update({k: str(v) for k, v in extra_env.items()})
    t0 = time.time()
    try:
        p = subprocess.run(cmd, cwd=spec_dir, env=e, stdout=subprocess.PIPE, stderr=subprocess.STDOUT,
                           timeout=timeout, text=True, errors="replace")
    except subprocess.TimeoutExpired as ex:
        raise TlcError("TLC timed out after %ss on %s" % (timeout, module)) from ex
    finally:
        shutil.rmtree(os.path.join(work, "meta"), ignore_errors=True)
        shutil.rmtree(jtmp, ignore_errors=True)
    res = TlcResult()
    res.wall = time.time() - t0
    res.out = p.stdout
    if "Parsing or semantic analysis failed" in p.stdout or "java.lang." in p.stdout and "Exception in thread" in p.stdout:
        raise TlcError("TLC failed on %s:\n%s" % (module, p.stdout[-3000:]))
    _parse(p.stdout, res)
    if not res.ok and res.error is None:
        raise TlcError("TLC produced no verdict on %s (rc=%s):\n%s" % (module, p.returncode, p.stdout[-3000:]))
    if res.error == "eval":
        raise TlcError("TLC evaluation error on %s: %s\n%s" % (module, res.error_name, p.stdout[-3000:]))
    return res


def printed_values(out):
    """values printed with PrintT, one per line, that parse as TLA+ values (e.g. <<"ACCEPT", 3>>)."""
    from .tlaval import parse_value
    vals = []
    for ln in out.splitlines():
        s = ln.strip()
        if s.startswith("<<") and s.endswith(">>"):
            try:
                vals.append(parse_value(s))
            except Exception:
                pass
    return vals


def require_coverage(res, actions, what):
    """vacuity guard: every named action must have been taken at least once."""
    missing = [a for a in actions if res.coverage.get(a, [0, 0])[1] == 0]
    if missing:
        raise TlcError("vacuous model run (%s): actions never taken: %s" % (what, ", ".join(missing)))
