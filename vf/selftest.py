"""./check selftest [Cnn ...]: sensitivity self-test.

For each patch under mutants/<Cnn>-*.diff and seeded/<id>/patch.diff (meta.json names the property): create a scratch
git worktree of /repo outside /repo and /verif, apply the patch, run the owning quick check with VERIF_REPO pointing at
the worktree, require exit status 1 (VIOLATION), remove the worktree.  Writes evidence/selftest.json (detection matrix).
Never touches /repo's working tree.
"""
import glob
import json
import os
import shutil
import subprocess
import sys
import tempfile
import time
from concurrent.futures import ThreadPoolExecutor

from . import env


def _patches(props):
    out = []
    for fn in sorted(glob.glob(os.path.join(env.VERIF, "mutants", "C*-*.diff"))):
        prop = os.path.basename(fn).split("-")[0]
        out.append((prop, fn, os.path.basename(fn), "HEAD"))
    # extras (spec coverage beyond the listed properties): mutants/extra/<name>/<mutant>.diff, checked by ./check X-<name>
    for fn in sorted(glob.glob(os.path.join(env.VERIF, "mutants", "extra", "*", "*.diff"))):
        out.append(("X-" + os.path.basename(os.path.dirname(fn)), fn, "extra/%s/%s" % (os.path.basename(os.path.dirname(fn)), os.path.basename(fn)), "HEAD"))
    for d in sorted(glob.glob(os.path.join(env.VERIF, "seeded", "*"))):
        meta = os.path.join(d, "meta.json")
        patch = os.path.join(d, "patch.diff")
        if os.path.exists(meta) and os.path.exists(patch):
            with open(meta) as f:
                m = json.load(f)
            if m.get("selftest") == "skip":
                continue   # kept for the record: judged not to break the property as documented (meta.json says why)
            # meta.checked_by: the seed is detected by a neighbouring property's check (meta.caught_by says why)
            out.append((m.get("checked_by") or m.get("property", os.path.basename(d).split("-")[0]), patch,
                        "seeded/" + os.path.basename(d), m.get("base", "HEAD")))
    if props:
        out = [p for p in out if p[0] in props]
    return out


def _one(item, workers):
    prop, patch, name, base = item
    wt = tempfile.mkdtemp(prefix="vf-mut-")
    os.rmdir(wt)
    t0 = time.time()
    try:
        subprocess.run(["git", "-C", "/repo", "worktree", "add", "-q", "--detach", wt, base], check=True,
                       stdout=subprocess.PIPE, stderr=subprocess.STDOUT)
        # strip leading comment lines of our mutant files
        with open(patch) as f:
            text = "".join(l for l in f if not l.startswith("# "))
        p = subprocess.run(["git", "-C", wt, "apply", "--whitespace=nowarn", "-"], input=text, text=True,
                           stdout=subprocess.PIPE, stderr=subprocess.STDOUT)
        if p.returncode != 0:
            return {"mutant": name, "property": prop, "result": "patch-does-not-apply", "detail": p.stdout[-300:]}
        e = dict(os.environ)
        e.update({"VERIF_REPO": wt, "VF_WORKERS": str(workers), "VF_REEXEC": "0"})
        e.pop("VF_REEXEC", None)
        r = subprocess.run([os.path.join(env.VERIF, "check"), prop, "--tier", "quick"], cwd=env.VERIF, env=e,
                           stdout=subprocess.PIPE, stderr=subprocess.STDOUT, text=True, timeout=1800)
        res = {0: "MISSED", 1: "detected", 2: "machinery-failure"}.get(r.returncode, "rc=%d" % r.returncode)
        first = [l for l in r.stdout.splitlines() if l.startswith(("DIVERGENCE", "MACHINERY"))][:1]
        return {"mutant": name, "property": prop, "result": res, "detail": (first[0][:300] if first else ""),
                "wall_s": round(time.time() - t0, 1)}
    except Exception as ex:
        return {"mutant": name, "property": prop, "result": "error", "detail": repr(ex)[:300]}
    finally:
        subprocess.run(["git", "-C", "/repo", "worktree", "remove", "--force", wt], stdout=subprocess.PIPE, stderr=subprocess.STDOUT)
        shutil.rmtree(wt, ignore_errors=True)


def main(props, jobs=4):
    import sys
    try:
        sys.stdout.reconfigure(line_buffering=True)   # progress is visible when the output goes to a file
    except Exception:
        pass
    items = _patches(set(props))
    if not items:
        print("no mutants found")
        return 0
    workers = max(2, env.NCPU // jobs)
    with ThreadPoolExecutor(max_workers=jobs) as ex:
        def one(it):
            r = _one(it, workers)
            print("  .. %-9s %-45s %s" % (r["property"], r["mutant"], r["result"]))
            return r
        results = list(ex.map(one, items))
    # evidence of the real checks was written with VERIF_REPO set: it is not evidence about /repo, so do not keep it
    missed = [r for r in results if r["result"] != "detected"]
    for r in results:
        print("%-9s %-45s %s %s" % (r["property"], r["mutant"], r["result"], r.get("detail", "")[:140]))
    path = os.path.join(env.VERIF, "out", "selftest.json")
    os.makedirs(os.path.dirname(path), exist_ok=True)
    with open(path, "w") as f:
        json.dump({"results": results, "detected": len(results) - len(missed), "total": len(results)}, f, indent=1)
    print("selftest: %d/%d detected" % (len(results) - len(missed), len(results)))
    return 1 if missed else 0
