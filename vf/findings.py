"""Known findings: genuine defects of the code under test that are recorded instead of repaired.

known_findings.json is read-only for the checks.  An *open* entry has a `match` dictionary of regular
expressions over a divergence's signature (property, kind, action, where, detail); a divergence that matches is
printed as KNOWN-FINDING and does not fail the check; any other divergence is a VIOLATION.  *fixed* entries
document repairs ("fix:" commits in /repo) and suppress nothing.
"""
import json
import os
import re

from . import env

PATH = os.path.join(env.VERIF, "known_findings.json")


def load():
    if not os.path.exists(PATH):
        return []
    with open(PATH) as f:
        return json.load(f).get("findings", [])


def match(div, findings):
    sig = div.signature()
    for f in findings:
        if f.get("status") != "open" or f.get("property") != sig["property"]:
            continue
        ok = True
        for k, pat in f.get("match", {}).items():
            if not re.fullmatch(pat, sig.get(k, ""), re.S):
                ok = False
                break
        if ok:
            return f
    return None
