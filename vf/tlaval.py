"""Parser for TLA+ values as printed by TLC (state dumps, dot labels, PrintT output).

Python images:
  integer -> int, string -> str, TRUE/FALSE -> bool, model value / identifier -> MV(name)
  <<a, b>> -> tuple, {a, b} -> frozenset, a..b -> frozenset(range)
  [k |-> v, ...] and (k :> v @@ ...) -> FrozenDict (hashable dict)
A function whose domain is 1..n is printed by TLC as a tuple and therefore parses as a tuple.
"""
import re


class FrozenDict(dict):
    __slots__ = ("_h",)

    def __hash__(self):
        try:
            return self._h
        except AttributeError:
            self._h = hash(frozenset(self.items()))
            return self._h

    def _ro(self, *a, **k):
        raise TypeError("FrozenDict is read-only")

    __setitem__ = __delitem__ = clear = pop = popitem = setdefault = update = _ro


class MV(str):
    """model value / bare identifier"""
    __slots__ = ()

    def __repr__(self):
        return "MV(%s)" % str.__repr__(self)


_TOK = re.compile(r"""
    \s*(?:
      (?P<str>"(?:[^"\\]|\\.)*")
    | (?P<num>-?\d+)
    | (?P<op><<|>>|\|->|:>|@@|\.\.|/\\|[\[\]{}(),=])
    | (?P<id>[A-Za-z_][A-Za-z0-9_!]*)
    )""", re.X)

_ESC = {"n": "\n", "t": "\t", "r": "\r", "f": "\f", '"': '"', "\\": "\\"}


def _unescape(s):
    out = []
    i = 0
    while i < len(s):
        c = s[i]
        if c == "\\" and i + 1 < len(s):
            out.append(_ESC.get(s[i + 1], s[i + 1]))
            i += 2
        else:
            out.append(c)
            i += 1
    return "".join(out)


class ParseError(ValueError):
    pass


class _P:
    def __init__(self, text):
        self.toks = []
        pos = 0
        n = len(text)
        while pos < n:
            m = _TOK.match(text, pos)
            if not m:
                if text[pos:].strip() == "":
                    break
                raise ParseError("bad token at %r" % text[pos:pos + 30])
            pos = m.end()
            k = m.lastgroup
            self.toks.append((k, m.group(k)))
        self.i = 0

    def peek(self):
        return self.toks[self.i] if self.i < len(self.toks) else (None, None)

    def next(self):
        t = self.peek()
        self.i += 1
        return t

    def expect(self, v):
        k, t = self.next()
        if t != v:
            raise ParseError("expected %r got %r (tok %d)" % (v, t, self.i))

    def value(self):
        k, t = self.next()
        if k == "str":
            return _unescape(t[1:-1])
        if k == "num":
            v = int(t)
            if self.peek()[1] == "..":
                self.next()
                k2, t2 = self.next()
                return frozenset(range(v, int(t2) + 1))
            return v
        if k == "id":
            if t == "TRUE":
                return True
            if t == "FALSE":
                return False
            return MV(t)
        if t == "<<":
            items = []
            if self.peek()[1] == ">>":
                self.next()
                return ()
            while True:
                items.append(self.value())
                k, t = self.next()
                if t == ">>":
                    return tuple(items)
                if t != ",":
                    raise ParseError("in tuple: %r" % t)
        if t == "{":
            items = []
            if self.peek()[1] == "}":
                self.next()
                return frozenset()
            while True:
                items.append(self.value())
                k, t = self.next()
                if t == "}":
                    return frozenset(items)
                if t != ",":
                    raise ParseError("in set: %r" % t)
        if t == "[":
            d = {}
            while True:
                k, name = self.next()
                if k != "id":
                    raise ParseError("record field %r" % name)
                self.expect("|->")
                d[str(name)] = self.value()
                k, t = self.next()
                if t == "]":
                    return FrozenDict(d)
                if t != ",":
                    raise ParseError("in record: %r" % t)
        if t == "(":
            d = {}
            while True:
                key = self.value()
                self.expect(":>")
                d[key] = self.value()
                k, t = self.next()
                if t == ")":
                    return FrozenDict(d)
                if t != "@@":
                    raise ParseError("in function: %r" % t)
        raise ParseError("unexpected %r" % t)


def parse_value(text):
    p = _P(text)
    v = p.value()
    if p.i != len(p.toks):
        raise ParseError("trailing tokens in %r" % text[:80])
    return v


def parse_state(text):
    """`/\\ x = v /\\ y = w` (or a single `x = v`) -> dict"""
    p = _P(text)
    st = {}
    while p.i < len(p.toks):
        if p.peek()[1] == "/\\":
            p.next()
        k, name = p.next()
        if k != "id":
            raise ParseError("state var %r" % name)
        p.expect("=")
        st[str(name)] = p.value()
    return st


def to_py(v):
    """FrozenDict/tuple/frozenset -> plain JSON-able structures (sets become sorted lists)."""
    if isinstance(v, dict):
        return {str(k) if not isinstance(k, str) else str(k): to_py(x) for k, x in v.items()}
    if isinstance(v, tuple):
        return [to_py(x) for x in v]
    if isinstance(v, frozenset):
        return sorted((to_py(x) for x in v), key=repr)
    if isinstance(v, MV):
        return str(v)
    return v


def to_tla(v):
    """python value -> TLA+ expression text (for emitting constants)."""
    if isinstance(v, bool):
        return "TRUE" if v else "FALSE"
    if isinstance(v, MV):
        return str(v)
    if isinstance(v, int):
        return str(v)
    if isinstance(v, str):
        return '"' + v.replace("\\", "\\\\").replace('"', '\\"').replace("\n", "\\n").replace("\t", "\\t").replace("\r", "\\r") + '"'
    if isinstance(v, (tuple, list)):
        return "<<" + ", ".join(to_tla(x) for x in v) + ">>"
    if isinstance(v, (set, frozenset)):
        return "{" + ", ".join(sorted(to_tla(x) for x in v)) + "}"
    if isinstance(v, dict):
        if not v:
            return "<<>>"
        if all(isinstance(k, str) and re.fullmatch(r"[A-Za-z_][A-Za-z0-9_]*", k) and not isinstance(k, MV) for k in v):
            return "[" + ", ".join("%s |-> %s" % (k, to_tla(x)) for k, x in v.items()) + "]"
        return "(" + " @@ ".join("%s :> %s" % (to_tla(k), to_tla(x)) for k, x in v.items()) + ")"
    raise TypeError("cannot render %r" % (v,))
