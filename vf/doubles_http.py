"""In-memory stand-ins for the kernel's TCP sockets, for the HTTP families (C32).

A `Net` holds listening sockets by address.  `FakeSocketModule(net)` looks like the `socket` module to the code under
test (everything except `socket()` is the real module's), so `ioflo.aio.tcp.serving.Server.open()` and
`ioflo.aio.tcp.clienting.Client.open()/accept()` run unchanged on top of pairs of byte queues:

    net = Net()
    with patched(net):                      # ioflo.aio.tcp.{serving,clienting}.socket -> FakeSocketModule(net)
        valet = Valet(port=8080, app=app); valet.open()
        peer = net.connect(valet.servant.ha)   # the harness' end of a new connection (a `Peer`)
        peer.send(b"GET / HTTP/1.1\\r\\n\\r\\n"); valet.serviceAll(); peer.received()

No real sockets, no ports, no threads; non-blocking semantics only (EAGAIN when nothing is there).
"""
import contextlib
import errno
import socket as _real


class Net:
    def __init__(self):
        self.listeners = {}      # (host, port) -> FakeSock
        self.next_port = 50000

    def ephemeral(self):
        self.next_port += 1
        return ("127.0.0.1", self.next_port)

    def lookup(self, ha):
        host, port = ha[0], ha[1]
        for (h, p), s in self.listeners.items():
            if p == port and (h == host or h in ("", "0.0.0.0") or host in ("", "0.0.0.0")):
                return s
        return None

    # ---- the harness as a client of a server under test
    def connect(self, ha):
        ls = self.lookup(ha)
        if ls is None:
            raise ConnectionRefusedError(errno.ECONNREFUSED, "nobody listens at %r" % (ha,))
        ca = self.ephemeral()
        server_side = FakeSock(self)
        server_side.local = (ls.local[0] or "127.0.0.1", ls.local[1])
        server_side.remote = ca
        peer = Peer(server_side, ca)
        server_side.peer = peer
        ls.pending.append((server_side, ca))
        return peer

    # ---- the harness as a server for a client under test
    def listen(self, ha):
        ls = FakeSock(self)
        ls.bind(ha)
        ls.listen(5)
        return ls


class Peer:
    """the harness' end of a connection: what it sent is readable by the FakeSock, what the FakeSock sends lands here"""

    def __init__(self, sock, addr):
        self.sock = sock          # the end held by the code under test
        self.addr = addr
        self.rx = bytearray()     # bytes the code under test sent
        self.eof = False          # the code under test shut down / closed its end
        self.closed = False       # the harness closed its end

    def send(self, data):
        if self.closed:
            raise ValueError("peer already closed")
        if self.sock.closed:
            return 0              # nobody there any more: bytes vanish (a kernel would answer RST)
        self.sock.inq.extend(data)
        return len(data)

    def received(self):
        return bytes(self.rx)

    def close(self):
        self.closed = True
        self.sock.peer_closed = True


class FakeSock:
    def __init__(self, net):
        self.net = net
        self.local = None
        self.remote = None
        self.peer = None          # Peer (harness end) once connected
        self.pending = []         # listening socket: accepted-to-be connections
        self.listening = False
        self.inq = bytearray()
        self.peer_closed = False
        self.closed = False
        self.wr_shut = False
        self.send_limit = None    # max bytes accepted per send() (None: all)

    # ---- options: accepted and ignored
    def setsockopt(self, *a):
        pass

    def getsockopt(self, *a):
        return 1 << 20

    def setblocking(self, flag):
        pass

    def settimeout(self, t):
        pass

    def fileno(self):
        return -1

    # ---- server side
    def bind(self, ha):
        self.local = (ha[0], ha[1])
        self.net.listeners[self.local] = self

    def listen(self, n):
        self.listening = True

    def getsockname(self):
        return self.local

    def getpeername(self):
        if self.remote is None:
            raise OSError(errno.ENOTCONN, "not connected")
        return self.remote

    def accept(self):
        if not self.pending:
            raise BlockingIOError(errno.EAGAIN, "nothing to accept")
        return self.pending.pop(0)

    # ---- client side (the code under test connects to a listener the harness opened with Net.listen)
    def connect_ex(self, ha):
        if self.peer is not None:
            return errno.EISCONN
        ls = self.net.lookup(ha)
        if ls is None or not ls.listening or ls.closed:
            return errno.ECONNREFUSED
        self.local = self.net.ephemeral()
        self.remote = (ha[0], ha[1])
        peer = Peer(self, self.remote)
        self.peer = peer
        ls.pending.append((peer, self.local))     # the harness accepts a Peer
        return 0

    # ---- data
    def recv(self, n):
        if self.closed:
            raise OSError(errno.EBADF, "closed")
        if self.inq:
            data = bytes(self.inq[:n])
            del self.inq[:n]
            return data
        if self.peer_closed:
            return b""
        raise BlockingIOError(errno.EAGAIN, "nothing to read")

    def send(self, data):
        if self.closed or self.wr_shut:
            raise OSError(errno.EPIPE, "closed")
        if self.peer is None:
            raise OSError(errno.ENOTCONN, "not connected")
        data = bytes(data)
        if self.peer.closed:
            # the peer has hung up (FIN): like a kernel, accept the bytes - they go nowhere; the loss shows as
            # end-of-file on the next recv, after whatever the peer sent before hanging up has been read
            return len(data)
        if self.send_limit is not None:
            data = data[:self.send_limit]
        self.peer.rx.extend(data)
        return len(data)

    def shutdown(self, how):
        if self.closed:
            raise OSError(errno.ENOTCONN, "closed")
        if how in (_real.SHUT_WR, _real.SHUT_RDWR):
            self.wr_shut = True
            if self.peer is not None:
                self.peer.eof = True

    def close(self):
        self.closed = True
        if self.peer is not None:
            self.peer.eof = True
        if self.listening:
            self.net.listeners.pop(self.local, None)
            self.listening = False


class FakeSocketModule:
    """the `socket` module as seen by the code under test"""

    def __init__(self, net):
        self._net = net

    def socket(self, *a, **k):
        return FakeSock(self._net)

    def __getattr__(self, name):
        return getattr(_real, name)


@contextlib.contextmanager
def patched(net):
    """route ioflo's tcp server and client classes to `net` while the block runs"""
    from ioflo.aio.tcp import clienting, serving
    fake = FakeSocketModule(net)
    saved = (serving.socket, clienting.socket)
    serving.socket = fake
    clienting.socket = fake
    try:
        yield fake
    finally:
        serving.socket, clienting.socket = saved
