#!/venv/bin/python
"""Regenerate the generated tables of DESIGN.md §10.3 (findings) and §10.4 (seeded changes, mutants) between markers."""
import glob, json, os, re
V = os.path.dirname(os.path.dirname(os.path.abspath(__file__)))
d = json.load(open(V + "/known_findings.json"))
L = ["| id | property | commit | what failed (abridged; full text in known_findings.json) |", "|---|---|---|---|"]
for f in sorted(d["findings"], key=lambda f: (f["property"], f["id"])):
    what = f["what"].replace("fixed: property=%s %s " % (f["property"], f.get("commit", "")), "").replace("|", "/").replace("\n", " ")
    L.append("| %s | %s | %s | %s |" % (f["id"], f["property"], f.get("commit", "open"), what[:230] + ("…" if len(what) > 230 else "")))
nfix = sum(1 for f in d["findings"] if f["status"] == "fixed"); nopen = sum(1 for f in d["findings"] if f["status"] == "open")
L.append("")
L.append("%d fixed, %d open." % (nfix, nopen))
S = ["| seeded change | property | needs | result |", "|---|---|---|---|"]
for dn in sorted(glob.glob(V + "/seeded/*")):
    m = json.load(open(dn + "/meta.json"))
    if m["needs_to_manifest"].startswith("see notes.md"):
        # wave 2 / 3: the first paragraphs of the seeder's notes say what the change is and what it needs
        import re
        n = open(dn + "/notes.md").read() if os.path.exists(dn + "/notes.md") else ""
        paras = [re.sub(r"\s+", " ", x).strip() for x in re.split(r"\n\s*\n", n) if x.strip() and not x.strip().startswith("#")]
        m["needs_to_manifest"] = (" ".join(paras[:2]) or m.get("change", ""))[:260].replace("`", "")
    S.append("| %s | %s | %s | %s: %s |" % (os.path.basename(dn), m["property"], m["needs_to_manifest"][:260].replace("|", "/"),
                                        m["check_result"], str(m["caught_by"])[:300].replace("|", "/").replace("\n", " ")))
per = {}
for fn in glob.glob(V + "/mutants/C*-*.diff"):
    per.setdefault(os.path.basename(fn).split("-")[0], []).append(os.path.basename(fn)[4:-5])
M = ["| property | own mutants (mutants/Cnn-*.diff) |", "|---|---|"]
for p in sorted(per):
    M.append("| %s | %s |" % (p, ", ".join(sorted(per[p]))))
s = open(V + "/DESIGN.md").read()
def put(s, tag, lines):
    a, b = "<!-- BEGIN %s -->" % tag, "<!-- END %s -->" % tag
    return re.sub(re.escape(a) + ".*?" + re.escape(b), lambda m: a + "\n" + "\n".join(lines) + "\n" + b, s, flags=re.S)
s = put(s, "FINDINGS", L); s = put(s, "SEEDED", S); s = put(s, "MUTANTS", M)
open(V + "/DESIGN.md", "w").write(s)
print("findings %d seeded %d mutants %d" % (len(d["findings"]), len(S) - 2, sum(map(len, per.values()))))
