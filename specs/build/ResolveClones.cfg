SPECIFICATION LiveSpec
CONSTANTS
  MaxMoots = 2
  Emit = TRUE
INVARIANT TypeOK
INVARIANT Sound
INVARIANT Complete
INVARIANT Verdict
PROPERTY Termination
CHECK_DEADLOCK FALSE
