------------------------------- MODULE Mutate -------------------------------
(* Token-level grammar of FloScript and its mutations (property C14, second part).              *)
(*                                                                                             *)
(* A script is a sequence of commands, a command a sequence of words.  Valid scripts are        *)
(* written from the command forms of the builder docstrings (Body: every verb that may stand    *)
(* in a frame, with its optional clauses; Skeleton: house, init, framers of every schedule,     *)
(* frames, logger / log / loggee, server) or are the word streams of the example plans (Input). *)
(* Mutation actions then damage the script one word at a time:                                  *)
(*   Delete, Duplicate, Swap (with the next word), ReplaceReserved, ReplaceGarbage, Truncate    *)
(*   (drop the rest of the command), InsertConnective.                                          *)
(* Allowed is what the documentation promises for building the script:                          *)
(*   unmutated: {"built"} (a script with a Faulty command form - grammatical, but naming things  *)
(*              the script does not have - must be reported instead);                           *)
(*   mutated:   it builds, or Builder.build reports the failure ("refused": False for a caught  *)
(*              ResolveError or an unreadable file) or raises ParseError / the converters'      *)
(*              ValueError - never anything else, and it always returns;                        *)
(*   a mutated script in which some command starts with a word that is neither a verb nor a     *)
(*   connective cannot be built.                                                                *)
(* TLC -simulate writes behaviours; Finish prints the script with its Allowed set; the harness   *)
(* builds each in a child process under a wall-clock limit (vf/families/buildterm.py).          *)
EXTENDS Integers, Sequences, FiniteSets, TLC, Json, IOUtils

CONSTANTS MaxAdd,     \* body commands added to the skeleton
          MaxMut,     \* mutations applied
          Bases       \* "grammar": scripts written from the grammar; "plans": the example plans; "both"

Input == JsonDeserialize(IOEnv.MUTATE_INPUT)     \* {"plans": [[[word, ...], ...], ...]}

Comparisons == {"==", "<", "<=", ">=", ">", "!="}
Connectives == {"to", "by", "with", "from", "per", "for", "cum", "qua", "via", "as", "at", "in", "of", "on",
                "re", "is", "if", "be", "into", "and", "not", "+-"}
Reserved == Connectives \cup Comparisons
Verbs == {"load", "house", "init", "server", "logger", "log", "loggee", "framer", "first", "frame", "over", "under",
          "next", "done", "timeout", "repeat", "native", "benter", "enter", "recur", "exit", "precur", "renter", "rexit",
          "print", "put", "inc", "copy", "set", "aux", "rear", "raze", "go", "let", "do", "bid", "ready", "start", "stop",
          "run", "abort", "use", "flo", "give", "take"}
\* words that are none of the above: names, numbers in every documented form, paths, strings, debris
\* LongWord: 32 word characters and a character no path may hold (a path pattern that backtracks takes 2^32 steps on it)
LongWord == "aaaaaaaaaaaaaaaaaaaaaaaaaaaaaaaa!"
\* numbers at the edge of every documented numeric form: infinities and not-a-number in their spellings, exponents beyond
\* the float range, complex numbers (also with an infinite part), integers and fractions of 400 digits, a 300 digit hex
BigInt == "9999999999999999999999999999999999999999999999999999999999999999999999999999999999999999999999999999999999999999999999999999999999999999999999999999999999999999999999999999999999999999999999999999999999999999999999999999999999999999999999999999999999999999999999999999999999999999999999999999999999999999999999999999999999999999999999999999999999999999999999999999999999999999999999999999999999999999"
BigFrac == "0.3333333333333333333333333333333333333333333333333333333333333333333333333333333333333333333333333333333333333333333333333333333333333333333333333333333333333333333333333333333333333333333333333333333333333333333333333333333333333333333333333333333333333333333333333333333333333333333333333333333333333333333333333333333333333333333333333333333333333333333333333333333333333333333333333333333333333333"
BigHex == "0xffffffffffffffffffffffffffffffffffffffffffffffffffffffffffffffffffffffffffffffffffffffffffffffffffffffffffffffffffffffffffffffffffffffffffffffffffffffffffffffffffffffffffffffffffffffffffffffffffffffffffffffffffffffffffffffffffffffffffffffffffffffffffffffffffffffffffffffffffffffffffffffffffffffffffff"
Extremes == {"inf", "-inf", "Infinity", "-Infinity", "nan", "1e999", "-1e999", "1e-999", "3j", "infj", "1+infj", "nanj",
             BigInt, "-" \o BigInt, BigFrac, BigHex, "-0.0", "0"}
Garbage == Extremes \cup {LongWord, "zz9", "-3", "1.5", "0x1f", "2j", "inf", ".x.y", "a..b", "$%", "\"q s\"", "'s q'", "7up", "_u", "me", "all",
            "value", "framer", "main", "45N30.5", "1x2y", "goal", "elapsed", "mine", "frame", "done", "updated", "aux"}

\* ------------------------------------------------------------------ grammar
Cat(A, B) == {a \o b : a \in A, b \in B}
Opt(A) == {<<>>} \cup A
W(w) == {<<w>>}

\* every documented form of a need (docstring of Builder.makeNeed)
BasicNeeds == { <<"elapsed", ">=", "1.0">>, <<"recurred", "re", "me", "==", "2">>, <<"elapsed", "re", ">=", "goal">>,
                <<"elapsed", "re", "fr", ">=", "goal">>, <<"recurred", ">=", "2">>,
                <<".s.a", "==", "1">>, <<".s.a", "==", "1", "+-", "0.5">>, <<"not", ".s.a">>, <<"x", "in", ".s.b", ">", "y", "in", ".s.b">>,
                <<".s.a", "<=", ".s.c">>, <<".s.a", "!=", ".s.b">>, <<"s.r", "of", "me">>, <<"s.r", "of", "frame", "f2", "!=", "\"no\"">> }
\* if taskername is done | if (aux auxname, any, all) [in frame [(me, framename)] [in framer [(me, framername)]]] is done
\*                       | if ([aux] auxname, any, all) in frame ... | in framer [(me, framername)] is done
Who == { <<"aux", "ax">>, <<"ax">>, <<"any">>, <<"all">> }
InFrame == { <<>>, <<"in", "frame">>, <<"in", "frame", "me">>, <<"in", "frame", "f1">> }
InFramer == { <<>>, <<"in", "framer">>, <<"in", "framer", "me">>, <<"in", "framer", "fr">> }
DoneNeeds == Cat(Who, Cat(InFrame, Cat(InFramer, {<<"is", "done">>}))) \cup {<<"not", "ax", "is", "done">>, <<"fr", "is", "done">>}
\* if taskername is (readied, started, running, stopped, aborted)
StatusNeeds == Cat({<<"sl">>, <<"fr">>, <<"ax">>, <<"ia">>, <<"lg">>},
                   Cat(W("is"), {<<"readied">>, <<"started">>, <<"running">>, <<"stopped">>, <<"aborted">>}))
\* if indirect is (updated, changed) [in frame [(me, framename)]] [by marker]   (the two clauses in either order)
MarkFrame == { <<"in", "frame">>, <<"in", "frame", "me">>, <<"in", "frame", "f2">>, <<"in", "frame", "f1">> }
MarkBy == { <<"by", "mk">>, <<"by", "\"m k\"">> }
MarkerNeeds == Cat({<<".s.a">>, <<"s.r", "of", "frame">>},
                   Cat(W("is"), Cat({<<"updated">>, <<"changed">>},
                       {<<>>} \cup MarkFrame \cup MarkBy \cup Cat(MarkFrame, MarkBy) \cup Cat(MarkBy, MarkFrame))))
Needs == BasicNeeds \cup DoneNeeds \cup StatusNeeds \cup MarkerNeeds
AndTails == {<<".s.a", "==", "1">>, <<"not", ".s.a">>, <<"ax", "is", "done">>, <<"ax", "in", "frame", "f1", "is", "done">>,
             <<".s.a", "is", "updated", "in", "frame">>}
ConjHeads == BasicNeeds \cup {<<"ax", "in", "frame", "f1", "is", "done">>, <<"aux", "ax", "is", "done">>, <<"sl", "is", "stopped">>,
                              <<".s.a", "is", "changed", "in", "frame", "f2", "by", "mk">>, <<".s.a", "is", "updated", "in", "frame">>}
Conj == Cat(ConjHeads, Cat(W("and"), AndTails))
Data == { <<"3">>, <<"value", "3">>, <<"x", "1", "y", "2.5">>, <<"\"str ing\"">>, <<"t", "true", "n", "none">>, <<".p.q">>,
          <<"45N30.5">>, <<"1x2y">>, <<"0x1f">>, <<"x", "-2">> }
Source == { <<".s.a">>, <<"x", "in", ".s.b">>, <<"x", "y", "in", ".s.b">>, <<"s.r", "of", "me">>, <<"s.t", "of", "framer">>,
            <<"s.t", "of", "frame", "f2", "of", "framer", "fr">>, <<"value", "in", "s.u", "of", "root">> }
DoClauses == { <<"as", "rc", "one">>, <<"at", "enter">>, <<"at", "exit">>, <<"via", ".n.d">>, <<"via", "n.e", "of", "me">>,
               <<"with", "tag", "\"q\"">>, <<"with", "tag", "\"q\"", "more", "7">>, <<"from", "x", "in", ".s.b">>,
               <<"from", ".s.b">>, <<"per", "ia", ".i.a">>, <<"for", "fo", "in", ".s.f">>, <<"cum", "ca", "3">>, <<"qua", "x", "in", ".s.b">> }

Body ==
    Cat(W("over"), W("f3")) \cup Cat(W("under"), {<<"f4">>, <<"f5">>}) \cup Cat(W("next"), Opt(W("f2")))
    \cup Cat(W("done"), Opt({<<"me">>, <<"ax">>, <<"ax", "me">>}))
    \cup Cat(W("timeout"), {<<"1.5">>, <<"3">>}) \cup Cat(W("repeat"), {<<"2">>})
    \cup {<<v>> : v \in {"native", "benter", "enter", "recur", "exit", "precur", "renter", "rexit"}}
    \cup {<<"print", "hello", "world">>, <<"print", "\"quoted # text\"">>}
    \cup Cat(W("put"), Cat(Data \ {<<".p.q">>, <<"x", "1", "y", "2.5">>, <<"t", "true", "n", "none">>},
                            Cat(W("into"), Source \ {<<"x", "y", "in", ".s.b">>, <<"x", "in", ".s.b">>})))
    \cup Cat(W("put"), Cat({<<"x", "1", "y", "2.5">>, <<"t", "true", "n", "none">>}, Cat(W("into"), {<<"s.r", "of", "me">>, <<".s.h">>})))
    \cup {<<"put", "x", "1", "y", "2">> \o <<"into">> \o s : s \in {<<".s.b">>, <<"x", "y", "in", ".s.b">>}}
    \cup Cat(W("inc"), Cat({<<".s.a">>, <<"x", "in", ".s.b">>}, {<<"with", "1">>, <<"with", "value", "2.5">>, <<"from", ".s.c">>}))
    \cup Cat(W("copy"), Cat({<<".s.a">>, <<"x", "in", ".s.b">>, <<"s.r", "of", "me">>}, Cat(W("into"), {<<".s.d">>, <<"x", "in", ".s.e">>})))
    \cup Cat(W("set"), {<<"elapsed", "with", "2.0">>, <<"recurred", "to", "2">>, <<"elapsed", "from", ".s.c">>, <<"recurred", "by", ".s.c">>,
                        <<".s.g", "with", "3">>, <<".s.g", "from", ".s.a">>, <<"goal.speed", "with", "x", "1", "y", "2">>})
    \cup Cat(W("aux"), {<<"ax">>, <<"mo", "as", "mine">>, <<"mo", "as", "cl1">>, <<"mo", "as", "cl2", "via", ".n.c">>, <<"mo", "via", "mine", "as", "cl3">>})
    \cup Cat({<<"aux", "ax", "if">>}, {q \in BasicNeeds \cup StatusNeeds \cup MarkerNeeds \cup Conj : q[1] \notin {"ax", "any", "all", "aux"}})
    \cup Cat(W("rear"), {<<"mo", "in", "frame", "f2">>, <<"mo", "as", "mine", "be", "aux", "in", "frame", "f2">>, <<"mo", "be", "aux", "in", "frame", "f2", "as", "mine">>})
    \cup Cat(W("raze"), Cat({<<"all">>, <<"first">>, <<"last">>}, Opt({<<"in", "frame">>, <<"in", "frame", "f2">>, <<"in", "frame", "me">>})))
    \cup Cat({<<"go", "f2">>}, Opt(Cat(W("if"), Needs \cup Conj)))
    \cup Cat(W("go"), Cat({<<"next">>, <<"me">>}, Opt(Cat(W("if"), BasicNeeds))))
    \cup Cat({<<"let", "if">>}, Needs) \cup Cat({<<"let", "me", "if">>}, BasicNeeds \cup Conj)
    \cup Cat({<<"do", "vfrec">>}, Opt(DoClauses))
    \cup Cat({<<"do", "vfrec">>}, {a \o b : a \in DoClauses, b \in DoClauses} \ {a \o a : a \in DoClauses})
    \cup Cat(W("bid"), Cat({<<"stop">>, <<"start">>, <<"run">>, <<"abort">>, <<"ready">>},
                           Cat(Opt({<<"me">>, <<"all">>, <<"fr">>, <<"fr", "me">>}), Opt({<<"at", "0.5">>, <<"at", ".s.c">>, <<"at", "x", "in", ".s.b">>}))))
    \cup Cat({<<v>> : v \in {"ready", "start", "run", "stop", "abort"}}, W("sl"))

\* grammatical command forms that name things the script does not have, or move data between shares whose fields
\* do not fit: building must report them (it cannot succeed)
Faulty == { <<"go", "nowhere">>, <<"aux", "nobody">>,
            <<"aux", "nobody", "as", "mine">>, <<"aux", "fr">>, <<"done", "nobody">>, <<"done", "fr">>, <<"bid", "stop", "nobody">>,
            <<"bid", "start", "sl">>, <<"ready", "nobody">>, <<"start", "fr">>, <<"rear", "nobody", "in", "frame", "f2">>,
            <<"rear", "mo", "in", "frame", "nowhere">>, <<"raze", "all", "in", "frame", "nowhere">>,
            <<"go", "f2", "if", "nobody", "is", "done">>, <<"go", "f2", "if", "aux", "nobody", "is", "done">>,
            <<"go", "f2", "if", "nobody", "is", "running">>, <<"go", "f2", "if", ".s.w", "==", "1">>,
            <<"go", "f2", "if", ".s.a", "is", "updated", "in", "frame", "nowhere">>,
            <<"put", "x", "1", "y", "2", "into", ".s.v">>, <<"put", "3", "into", "x", "y", "in", ".s.w">>, <<"put", "3", "into", ".s.w">>,
            <<"copy", "x", "y", "in", ".s.w", "into", ".s.v">>, <<"copy", ".s.v", "into", ".s.w">>, <<"inc", ".s.v", "with", "x", "1", "y", "2">>,
            <<"inc", ".s.w", "with", "1">>, <<"set", ".s.v", "with", "x", "1", "y", "2">>, <<"set", ".s.w", "from", ".s.v">>,
            <<"do", "nothing", "known">>, <<"do", "vfrec", "for", ".s.w">>,
            \* a tasker of the wrong kind where a framer / slave is named (lg is the logger, sv the server, fr an active framer)
            <<"aux", "lg">>, <<"aux", "sv">>, <<"aux", "lg", "as", "mine">>, <<"aux", "lg", "if", ".s.a">>, <<"done", "lg">>,
            <<"ready", "lg">>, <<"rear", "lg", "in", "frame", "f2">>, <<"go", "f2", "if", "aux", "lg", "is", "done">>,
            \* a clone whose full name (framer_tag) is the name of another framer
            <<"aux", "mo", "as", "dup">>,
            \* a long word that is no path, wherever a path is read
            <<"put", "1", "into", LongWord>>, <<"put", LongWord, "into", ".s.a">>, <<"copy", LongWord, "into", ".s.a">>,
            <<"inc", LongWord, "with", "1">>, <<"set", LongWord, "with", "1">>, <<"go", "f2", "if", LongWord>>,
            <<"go", "f2", "if", ".s.a", "==", LongWord>>, <<"do", "vfrec", "via", LongWord>>, <<"do", "vfrec", "per", "ia", LongWord>>,
            <<"bid", "stop", "me", "at", LongWord>>, <<"aux", "mo", "as", "cl9", "via", LongWord>> }
\* (.s.v holds only `value`, .s.w holds x and y; no valid command form touches them)
\* every numeric operand position with an extreme number: the command may build or be refused, nothing else
ExtremeBody == UNION {{ <<"repeat", x>>, <<"timeout", x>>, <<"bid", "stop", "me", "at", x>>, <<"go", "f2", "if", ".s.a", "==", "1", "+-", x>>,
                        <<"go", "f2", "if", ".s.a", "==", x>>, <<"go", "f2", "if", "elapsed", ">=", x>>, <<"go", "f2", "if", "recurred", ">=", x>>,
                        <<"put", x, "into", ".s.h">>, <<"put", "x", x, "y", x, "into", ".s.k">>, <<"inc", ".s.a", "with", x>>,
                        <<"set", ".s.g", "with", x>>, <<"set", "elapsed", "with", x>>, <<"set", "recurred", "to", x>>,
                        <<"do", "vfrec", "with", "tag", x>>, <<"do", "vfrec", "cum", "ca", x>> } : x \in Extremes}
ExtremeTop == UNION {{ <<"framer", "zf", "be", "active", "at", x>>, <<"server", "zs", "at", x>>, <<"logger", "zl", "at", x>>,
                       <<"logger", "zl", "flush", x>>, <<"logger", "zl", "keep", x>>, <<"logger", "zl", "cycle", x>>,
                       <<"logger", "zl", "size", x>>, <<"init", ".s.z", "with", "value", x>> } : x \in Extremes}
\* commands that may not be repeated, written once more at the end of the script
FaultyTop == { <<"house", "h1">>, <<"server", "sv">>, <<"logger", "lg">>, <<"framer", "fr">>, <<"framer", "lg">>, <<"log", "l1">> }

\* commands before / after the body; the body stands in frame f1 of framer fr
SkeletonHead == << <<"house", "h1">>, <<"init", ".s.a", "with", "value", "1">>, <<"init", ".s.b", "with", "x", "1", "y", "2">>,
                   <<"init", ".s.c", "from", ".s.a">>, <<"init", ".s.f", "with", "fo", "\".i.f\"">>,
                   <<"init", ".s.v", "with", "value", "1">>, <<"init", ".s.w", "with", "x", "1", "y", "2">>,
                   <<"framer", "mo", "be", "moot", "first", "m1", "via", ".n.m">>, <<"frame", "m1">>, <<"print", "moot">>,
                   <<"framer", "ax", "be", "aux">>, <<"frame", "a1", "via", "n.a">>, <<"done", "me">>,
                   <<"framer", "sl", "be", "slave", "at", "0.25">>, <<"frame", "s1">>, <<"print", "slave">>,
                   <<"framer", "fr", "be", "active", "at", "0.125", "in", "front", "first", "f1">>, <<"frame", "f1">>, <<"aux", "ax">>,
                   \* doers the script names like the marker kinds, in a frame that needs mark
                   <<"do", "vfrec", "as", "marker", "update", "at", "enter">>, <<"do", "vfrec", "as", "marker", "change", "at", "enter">> >>
SkeletonTail == << <<"frame", "f2">>, <<"print", "two">>, <<"frame", "f3", "in", "f2">>, <<"frame", "f4", "in", "f1">>, <<"frame", "f5", "in", "f1">>, <<"first", "f1">>,
                   <<"framer", "ia", "be", "inactive", "in", "back">>, <<"frame", "i1">>, <<"framer", "fr_dup", "be", "inactive">>, <<"frame", "d1">>,
                   <<"logger", "lg", "to", "LOGDIR", "at", "0.5", "flush", "2", "keep", "1", "cycle", "60", "size", "2048", "reuse">>,
                   <<"log", "l1", "to", "fl1", "as", "text", "on", "update">>, <<"loggee", ".s.a", "as", "sa", "x", "in", ".s.b">>,
                   <<"log", "l2", "on", "streak">>, <<"loggee", "x", "in", ".s.b", "as", "xb">>,
                   <<"server", "sv", "at", "0.5", "be", "inactive", "rx", "localhost:45111", "tx", "localhost:45112", "in", "back",
                     "to", "LOGDIR", "per", "pa", "1", "for", "x", "in", ".s.b">> >>

\* ------------------------------------------------------------------ state
VARIABLES base,     \* "grammar" or the index of an example plan
          script,   \* sequence of commands
          want,     \* [add, mut]: how many commands to add and how many mutations to apply
          nadd, nmut,
          at,       \* <<command, word>> picked for the next mutation, or <<0, 0>>
          log,      \* the mutations applied (for reports)
          faulty,   \* an unresolvable command form was added
          verb,     \* verb picked for the next body command, or ""
          loose,    \* a command with an extreme number was added: it may build or be refused
          fin
vars == <<base, script, want, nadd, nmut, at, log, faulty, verb, loose, fin>>

NPlans == Len(Input.plans)
Init == /\ base \in (IF Bases = "plans" THEN {} ELSE {0}) \cup (IF Bases = "grammar" THEN {} ELSE 1..NPlans)
        /\ script = IF base = 0 THEN SkeletonHead \o SkeletonTail ELSE Input.plans[base]
        /\ want \in [add : IF base = 0 THEN 0..MaxAdd ELSE {0}, mut : 0..MaxMut]
        /\ nadd = 0 /\ nmut = 0 /\ at = <<0, 0>> /\ log = <<>> /\ faulty = FALSE /\ verb = "" /\ loose = FALSE /\ fin = FALSE

InsertCmd(s, i, c) == SubSeq(s, 1, i - 1) \o <<c>> \o SubSeq(s, i, Len(s))
\* a body command is chosen in two steps (verb, then one of its forms) so that every verb is written equally often
PickVerb == /\ ~fin /\ nadd < want.add /\ verb = ""
            /\ \E v \in {c[1] : c \in Body} : verb' = v
            /\ UNCHANGED <<base, script, want, nadd, nmut, at, log, faulty, loose, fin>>
AddCmd == /\ ~fin /\ nadd < want.add /\ verb # ""
          /\ \E c \in {b \in Body : b[1] = verb} : script' = InsertCmd(script, Len(SkeletonHead) + nadd + 1, c)
          /\ nadd' = nadd + 1 /\ verb' = ""
          /\ UNCHANGED <<base, want, nmut, at, log, fin, faulty, loose>>

\* one unresolvable command form instead of a valid one
AddFaulty == /\ ~fin /\ nadd < want.add /\ ~faulty /\ verb = ""
             /\ \E c \in Faulty : script' = InsertCmd(script, Len(SkeletonHead) + nadd + 1, c)
             /\ nadd' = nadd + 1 /\ faulty' = TRUE
             /\ UNCHANGED <<base, want, nmut, at, log, fin, verb, loose>>

AddFaultyTop == /\ ~fin /\ nadd < want.add /\ ~faulty /\ verb = ""
                /\ \E c \in FaultyTop : script' = Append(script, c)
                /\ nadd' = nadd + 1 /\ faulty' = TRUE
                /\ UNCHANGED <<base, want, nmut, at, log, fin, verb, loose>>

AddExtreme == /\ ~fin /\ nadd < want.add /\ ~loose /\ ~faulty /\ verb = ""
              /\ \/ \E c \in ExtremeBody : script' = InsertCmd(script, Len(SkeletonHead) + nadd + 1, c)
                 \/ \E c \in ExtremeTop : script' = Append(script, c)
              /\ nadd' = nadd + 1 /\ loose' = TRUE
              /\ UNCHANGED <<base, want, nmut, at, log, fin, verb, faulty>>

Adding == nadd < want.add
Pick == /\ ~fin /\ ~Adding /\ nmut < want.mut /\ at = <<0, 0>>
        /\ \E i \in 1..Len(script) : \E j \in 1..Len(script[i]) : at' = <<i, j>>
        /\ UNCHANGED <<base, script, want, nadd, nmut, log, faulty, verb, loose, fin>>

Cmd == script[at[1]]
J == at[2]
Apply(kind, new) == /\ script' = [script EXCEPT ![at[1]] = new]
                    /\ nmut' = nmut + 1 /\ at' = <<0, 0>>
                    /\ log' = Append(log, <<kind, at[1], at[2]>>)
                    /\ UNCHANGED <<base, want, nadd, faulty, verb, loose, fin>>
Picked == ~fin /\ at # <<0, 0>>
Without(q, j) == SubSeq(q, 1, j - 1) \o SubSeq(q, j + 1, Len(q))
Delete == Picked /\ Len(Cmd) > 1 /\ Apply("delete", Without(Cmd, J))
Duplicate == Picked /\ Apply("duplicate", SubSeq(Cmd, 1, J) \o SubSeq(Cmd, J, Len(Cmd)))
Swap == Picked /\ J < Len(Cmd) /\ Cmd[J] # Cmd[J + 1]
        /\ Apply("swap", [Cmd EXCEPT ![J] = Cmd[J + 1], ![J + 1] = Cmd[J]])
ReplaceReserved == Picked /\ \E w \in Reserved : w # Cmd[J] /\ Apply("reserved", [Cmd EXCEPT ![J] = w])
ReplaceGarbage == Picked /\ \E w \in Garbage : w # Cmd[J] /\ Apply("garbage", [Cmd EXCEPT ![J] = w])
Truncate == Picked /\ J < Len(Cmd) /\ Apply("truncate", SubSeq(Cmd, 1, J))
InsertConnective == Picked /\ \E w \in Connectives : Apply("insert", SubSeq(Cmd, 1, J) \o <<w>> \o SubSeq(Cmd, J + 1, Len(Cmd)))

\* ------------------------------------------------------------------ what building may answer
ScriptErrors == {"refused", "ParseError", "ResolveError", "ValueError"}
StartsWithDebris(s) == \E i \in 1..Len(s) : s[i][1] \notin Verbs \cup Reserved
Allowed == IF nmut = 0 THEN (IF loose THEN {"built"} \cup ScriptErrors ELSE IF faulty THEN ScriptErrors ELSE {"built"})
           ELSE IF StartsWithDebris(script) THEN {"refused", "ParseError", "ValueError"}
           ELSE {"built"} \cup ScriptErrors

Finish == /\ ~fin /\ ~Adding /\ nmut = want.mut /\ at = <<0, 0>>
          /\ fin' = TRUE
          /\ PrintT(ToJson([base |-> base, nmut |-> nmut, log |-> log, script |-> script, allowed |-> Allowed, faulty |-> faulty, loose |-> loose]))
          /\ UNCHANGED <<base, script, want, nadd, nmut, at, log, faulty, verb, loose>>

Next == PickVerb \/ AddCmd \/ AddFaulty \/ AddFaultyTop \/ AddExtreme \/ Pick \/ Delete \/ Duplicate \/ Swap \/ ReplaceReserved \/ ReplaceGarbage \/ Truncate \/ InsertConnective \/ Finish
Spec == Init /\ [][Next]_vars

\* ------------------------------------------------------------------ properties of the model
TypeOK == /\ nadd \in 0..MaxAdd /\ nmut \in 0..MaxMut
          /\ \A i \in 1..Len(script) : Len(script[i]) >= 1
          /\ Allowed \subseteq {"built"} \cup ScriptErrors /\ Allowed # {}
\* a mutation changes exactly one command
OneCommand == [][nmut' = nmut + 1 => Cardinality({i \in 1..Len(script) : script'[i] # script[i]}) <= 1 /\ Len(script') = Len(script)]_vars
\* every command form of the grammar starts with a verb
GrammarOK == \A c \in Body \cup Faulty \cup FaultyTop \cup ExtremeBody \cup ExtremeTop : c[1] \in Verbs
ASSUME GrammarOK
=============================================================================
