----------------------------- MODULE LayoutCases -----------------------------
(* Binding B for Layout.tla: layouts produced outside TLC (random layouts of the example plans, *)
(* written by the harness with the same layout actions) together with the word lists the real   *)
(* Builder handed to its dispatcher are judged against the documented reading:                  *)
(*   Join(case.lines) = case.cmds (and the same for the loaded file)  the layout is a layout of *)
(*                                       that script, and                                       *)
(*   case.dispatched = Dispatched        the builder read it as documented.                     *)
(* The verdicts are printed as <<"CASE", k, layoutOK, dispatchOK>>, one per case.               *)
(* Input: {"cmds": [...], "cases": [{"lines": [...], "cmds": [...], "sub": [...], "subcmds":     *)
(*         [...], "dispatched": [...]}, ...]}   (sub / subcmds: the loaded file, [] if none)      *)
EXTENDS Layout

VARIABLES k, dispatched
Cases == Input.cases
CaseInit == k \in 1..Len(Cases) /\ Cmds = Cases[k].cmds /\ dispatched = Cases[k].dispatched
            /\ SubCmds = Cases[k].subcmds /\ sub = Cases[k].sub
            /\ lines = Cases[k].lines /\ n = 0 /\ fin = FALSE
CaseNext == UNCHANGED <<vars, k, dispatched>>
CaseSpec == CaseInit /\ [][CaseNext]_<<vars, k, dispatched>>
CaseLayoutOK == Join(lines) = Cmds /\ Join(sub) = SubCmds
CaseDispatchOK == dispatched = Dispatched
Verdict == PrintT(<<"CASE", k, CaseLayoutOK, CaseDispatchOK>>)
=============================================================================
