----------------------------- MODULE LayoutCases -----------------------------
(* Binding B for Layout.tla: layouts produced outside TLC (random layouts of the example plans, *)
(* written by the harness with the same layout actions) together with the word lists the real   *)
(* Builder handed to its dispatcher are judged against the documented reading:                  *)
(*   Join(case.lines) = case.cmds        the layout is a layout of that script, and             *)
(*   case.dispatched = Join(case.lines)  the builder read it as documented.                     *)
(* The verdicts are printed as <<"CASE", k, layoutOK, dispatchOK>>, one per case.               *)
(* Input: {"cmds": [...], "cases": [{"lines": [...], "cmds": [...], "dispatched": [...]}, ...]}  *)
EXTENDS Layout

VARIABLES k, dispatched
Cases == Input.cases
CaseInit == k \in 1..Len(Cases) /\ Cmds = Cases[k].cmds /\ dispatched = Cases[k].dispatched
            /\ lines = Cases[k].lines /\ n = 0 /\ fin = FALSE
CaseNext == UNCHANGED <<vars, k, dispatched>>
CaseSpec == CaseInit /\ [][CaseNext]_<<vars, k, dispatched>>
CaseLayoutOK == Join(lines) = Cmds
CaseDispatchOK == dispatched = Join(lines)
Verdict == PrintT(<<"CASE", k, CaseLayoutOK, CaseDispatchOK>>)
=============================================================================
