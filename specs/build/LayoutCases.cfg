SPECIFICATION CaseSpec
CONSTANTS
  MaxActs = 0
  Emit = FALSE
INVARIANT Verdict
CHECK_DEADLOCK FALSE
