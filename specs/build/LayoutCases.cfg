SPECIFICATION CaseSpec
CONSTANTS
  MaxActs = 0
  Emit = "none"
INVARIANT Verdict
CHECK_DEADLOCK FALSE
