\* Reference configuration = one family of the quick tier of vf/families/literals.py; TABLE_OUT comes from the environment.
SPECIFICATION Spec
CONSTANTS
  Family = "num"
  MaxLen = 4
  Shard = 0
  NShards = 3
INVARIANT RoundTrip
INVARIANT ContextsAgree
INVARIANT OrderRespected
INVARIANT ShownIsToken
CHECK_DEADLOCK FALSE
