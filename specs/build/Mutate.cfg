SPECIFICATION Spec
CONSTANTS
  MaxAdd = 1
  MaxMut = 0
  Bases = "both"
INVARIANT TypeOK
PROPERTY OneCommand
CHECK_DEADLOCK FALSE
