------------------------------ MODULE Literals ------------------------------
(* Direct data literals of FloScript (property C17).                                            *)
(*                                                                                               *)
(* A literal is a sequence of characters (TLC cannot index strings).  The recognisers below are  *)
(* written from the documented forms: the conversion order spelled by the converter names and    *)
(* docstrings (Convert2StrBoolPathCoordPointNum = quoted string, none / boolean, path, lat/lon   *)
(* coordinate, point, number; Convert2Num = "Int, hex, Float, Complex"; need goals "want unitary *)
(* type not path or point"), the comments next to the regular expressions of globaling.py        *)
(* (lat/lon "in human readable form" ddNmm.mm with N E n e positive and S W s w negative,        *)
(* fracdeg = deg + min/60.0; the point namedtuples Pxy Pxyz Pne Pned Pfs Pfsb), the example plan *)
(* testPoint.flo, the path forms of aiding.isPath, the tokenising rule (quoted strings without   *)
(* the same quote inside) and Python's own grammar for int(text, 10), int(text, 16), float(text) *)
(* and complex(text).                                                                            *)
(*                                                                                               *)
(* Abstract values:  [t |-> "str", s], [t |-> "none"], [t |-> "bool", b], [t |-> "path", s],     *)
(* [t |-> "coord", neg, deg, m, e] (sign, whole degrees, minutes as decimal m*10^e),             *)
(* [t |-> "point", k, c] (kind xy xyz ne ned fs fsb, coordinates as decimals <<m, e>>),          *)
(* [t |-> "int", n], [t |-> "dec", m, e], [t |-> "cplx", re, im], [t |-> "err"] (ValueError:     *)
(* not a literal of the context) and [t |-> "unspec"] where the documentation is silent          *)
(* (nan / inf spellings that Python's float() also accepts).  Decimals are normalised (no        *)
(* trailing zero in the mantissa).                                                               *)
EXTENDS Integers, Sequences, FiniteSets, SequencesExt, TLC, Json, IOUtils

CONSTANTS Family,     \* which sub-alphabet / generator
          MaxLen,     \* all strings over the sub-alphabet up to this length
          Shard, NShards   \* this run takes the strings whose first character has index = Shard (mod NShards)

Alphabets ==
    [num    |-> <<"0", "1", "9", "+", "-", ".", "e", "x", "a", "f", "j">>,
     latlon |-> <<"0", "1", "9", ".", "N", "E", "S", "W", "n", ",">>,
     xy     |-> <<"0", "1", "-", ".", "X", "Y", "Z", "x", ",">>,
     ne     |-> <<"0", "1", "-", ".", "N", "E", "D", "e", ",">>,
     fs     |-> <<"0", "1", "-", ".", "F", "S", "B", "f", ",">>,
     word   |-> <<"t", "r", "u", "e", "n", "o", "y", "s", "f", "a", "l", "_", ".">>,
     quote  |-> <<"\"", "'", "a", "1", ".", " ">>]
Alphabet == Alphabets[Family]

\* ---------------------------------------------------------------- characters
DigitChars == <<"0", "1", "2", "3", "4", "5", "6", "7", "8", "9">>
HexLower == <<"a", "b", "c", "d", "e", "f">>
HexUpper == <<"A", "B", "C", "D", "E", "F">>
LowerLetters == <<"a","b","c","d","e","f","g","h","i","j","k","l","m","n","o","p","q","r","s","t","u","v","w","x","y","z">>
UpperLetters == <<"A","B","C","D","E","F","G","H","I","J","K","L","M","N","O","P","Q","R","S","T","U","V","W","X","Y","Z">>
DigitSet == ToSet(DigitChars)
HexSet == DigitSet \cup ToSet(HexLower) \cup ToSet(HexUpper)
UpperSet == ToSet(UpperLetters)
LetterSet == ToSet(LowerLetters) \cup UpperSet
DigitMap == [c \in DigitSet |-> (CHOOSE i \in 1..10 : DigitChars[i] = c) - 1]
HexMap == [c \in HexSet |-> IF c \in DigitSet THEN DigitMap[c]
                            ELSE IF c \in ToSet(HexLower) THEN 9 + (CHOOSE i \in 1..6 : HexLower[i] = c)
                            ELSE 9 + (CHOOSE i \in 1..6 : HexUpper[i] = c)]
LowerMap == [c \in UpperSet |-> LowerLetters[CHOOSE i \in 1..26 : UpperLetters[i] = c]]
IsDigit(c) == c \in DigitSet
DigitVal(c) == DigitMap[c]
IsHexDigit(c) == c \in HexSet
HexVal(c) == HexMap[c]
IsLetter(c) == c \in LetterSet
Lower(c) == IF c \in UpperSet THEN LowerMap[c] ELSE c
LowerAll(t) == [i \in DOMAIN t |-> Lower(t[i])]

AllDigits(t) == t # <<>> /\ \A i \in DOMAIN t : t[i] \in DigitSet
DigitsOrEmpty(t) == \A i \in DOMAIN t : t[i] \in DigitSet
NatOf(t) == FoldLeft(LAMBDA acc, c : acc * 10 + DigitMap[c], 0, t)
HexOf(t) == FoldLeft(LAMBDA acc, c : acc * 16 + HexMap[c], 0, t)
\* position of the first character of t that is in S (0: none)
RECURSIVE FirstFrom(_, _, _)
FirstFrom(t, S, i) == IF i > Len(t) THEN 0 ELSE IF t[i] \in S THEN i ELSE FirstFrom(t, S, i + 1)
First(t, S) == FirstFrom(t, S, 1)
From(t, i) == SubSeq(t, i, Len(t))
Upto(t, i) == SubSeq(t, 1, i)

Signed(t) == t # <<>> /\ t[1] \in {"+", "-"}
Unsign(t) == IF Signed(t) THEN Tail(t) ELSE t
SignOf(t) == IF t # <<>> /\ t[1] = "-" THEN -1 ELSE 1

\* decimals m * 10^e, normalised
RECURSIVE Norm(_, _)
Norm(m, e) == IF m = 0 THEN <<0, 0>> ELSE IF m % 10 = 0 THEN Norm(m \div 10, e + 1) ELSE <<m, e>>
Dec(m, e) == LET n == Norm(m, e) IN [t |-> "dec", m |-> n[1], e |-> n[2]]
Err == [t |-> "err"]
No == [ok |-> FALSE, v |-> Err]
Yes(v) == [ok |-> TRUE, v |-> v]

\* ---------------------------------------------------------------- numbers (Python's grammar)
\* int(text, 10): [sign] digits
DecInt(t) == IF AllDigits(Unsign(t)) THEN Yes([t |-> "int", n |-> SignOf(t) * NatOf(Unsign(t))]) ELSE No
\* int(text, 16): [sign] [0x | 0X] hex digits
HexBody(t) == LET u == Unsign(t) IN IF Len(u) >= 2 /\ u[1] = "0" /\ u[2] \in {"x", "X"} THEN From(u, 3) ELSE u
HexInt(t) == LET b == HexBody(t) IN
             IF b # <<>> /\ \A i \in DOMAIN b : IsHexDigit(b[i]) THEN Yes([t |-> "int", n |-> SignOf(t) * HexOf(b)]) ELSE No
\* float(text): [sign] (digits [. [digits]] | . digits) [(e | E) [sign] digits]
UFloat(u) ==
    LET k == First(u, {"e", "E"})
        mant == IF k = 0 THEN u ELSE Upto(u, k - 1)
        expo == IF k = 0 THEN <<>> ELSE From(u, k + 1)
        d == First(mant, {"."})
        ip == IF d = 0 THEN mant ELSE Upto(mant, d - 1)
        fp == IF d = 0 THEN <<>> ELSE From(mant, d + 1)
        okm == DigitsOrEmpty(ip) /\ DigitsOrEmpty(fp) /\ (ip # <<>> \/ fp # <<>>)
        oke == k = 0 \/ AllDigits(Unsign(expo))
        ex == IF k = 0 THEN 0 ELSE SignOf(expo) * NatOf(Unsign(expo))
    IN IF okm /\ oke THEN [ok |-> TRUE, m |-> NatOf(ip \o fp), e |-> ex - Len(fp)] ELSE [ok |-> FALSE, m |-> 0, e |-> 0]
Float(t) == LET f == UFloat(Unsign(t)) IN IF f.ok THEN Yes(Dec(SignOf(t) * f.m, f.e)) ELSE No
\* complex(text): float | [float] j-part where j-part = [sign] [unsigned float] j, the imaginary part last
Complex(t) ==
    IF t = <<>> \/ t[Len(t)] \notin {"j", "J"} THEN No
    ELSE LET b == Upto(t, Len(t) - 1)
             S == {i \in DOMAIN b : i > 1 /\ b[i] \in {"+", "-"} /\ b[i - 1] \notin {"e", "E"}}
             k == IF S = {} THEN 0 ELSE CHOOSE i \in S : \A j \in S : j <= i
             rp == IF k = 0 THEN <<>> ELSE Upto(b, k - 1)
             ip == IF k = 0 THEN b ELSE From(b, k)
             re == IF k = 0 THEN [ok |-> TRUE, m |-> 0, e |-> 0] ELSE UFloat(Unsign(rp))
             coef == Unsign(ip)
             im == IF coef = <<>> THEN [ok |-> TRUE, m |-> 1, e |-> 0] ELSE UFloat(coef)
         IN IF re.ok /\ im.ok /\ (k = 0 \/ Signed(ip))
            THEN Yes([t |-> "cplx", re |-> Dec((IF k = 0 THEN 1 ELSE SignOf(rp)) * re.m, re.e), im |-> Dec(SignOf(ip) * im.m, im.e)])
            ELSE No

\* ---------------------------------------------------------------- lat / lon:  dd N mm.mm
LatLon(t) ==
    LET k == First(t, {"N", "E", "n", "e", "S", "W", "s", "w"})
        deg == IF k = 0 THEN <<>> ELSE Upto(t, k - 1)
        mn == IF k = 0 THEN <<>> ELSE From(t, k + 1)
        d == First(mn, {"."})
        ip == IF d = 0 THEN <<>> ELSE Upto(mn, d - 1)
        fp == IF d = 0 THEN <<>> ELSE From(mn, d + 1)
    IN IF k > 1 /\ AllDigits(deg) /\ AllDigits(ip) /\ AllDigits(fp)
       THEN LET mm == Norm(NatOf(ip \o fp), 0 - Len(fp)) IN
            Yes([t |-> "coord", neg |-> t[k] \in {"S", "W", "s", "w"}, deg |-> NatOf(deg), m |-> mm[1], e |-> mm[2]])
       ELSE No

\* ---------------------------------------------------------------- points:  xXyY[zZ]  nNeE[dD]  fFsS[bB]
\* a coordinate: [sign] digits [. [digits]]
Coord(t) == LET u == Unsign(t)
                d == First(u, {"."})
                ip == IF d = 0 THEN u ELSE Upto(u, d - 1)
                fp == IF d = 0 THEN <<>> ELSE From(u, d + 1)
            IN IF AllDigits(ip) /\ DigitsOrEmpty(fp) THEN [ok |-> TRUE, m |-> SignOf(t) * NatOf(ip \o fp), e |-> 0 - Len(fp)]
               ELSE [ok |-> FALSE, m |-> 0, e |-> 0]
PointKinds == <<[k |-> "xy", l |-> <<"x", "y">>], [k |-> "ne", l |-> <<"n", "e">>], [k |-> "fs", l |-> <<"f", "s">>],
                [k |-> "xyz", l |-> <<"x", "y", "z">>], [k |-> "ned", l |-> <<"n", "e", "d">>], [k |-> "fsb", l |-> <<"f", "s", "b">>]>>
\* split t at its letters: the coordinates between them and the (lower-cased) letters
RECURSIVE Pieces(_)
Pieces(t) == LET k == First(t, LetterSet) IN
             IF k = 0 THEN [c |-> <<t>>, l |-> <<>>]
             ELSE LET r == Pieces(From(t, k + 1)) IN [c |-> <<Upto(t, k - 1)>> \o r.c, l |-> <<Lower(t[k])>> \o r.l]
Point(t) ==
    LET p == Pieces(t)
        K == {i \in DOMAIN PointKinds : PointKinds[i].l = p.l}
    IN IF K = {} \/ p.c[Len(p.c)] # <<>> THEN No          \* letters must spell a kind, the last one ends the literal
       ELSE LET cs == [i \in 1..Len(p.l) |-> Coord(p.c[i])] IN
            IF \A i \in DOMAIN cs : cs[i].ok
            THEN Yes([t |-> "point", k |-> PointKinds[CHOOSE i \in K : TRUE].k,
                      c |-> [i \in DOMAIN cs |-> Norm(cs[i].m, cs[i].e)]])
            ELSE No

\* ---------------------------------------------------------------- words, paths, quoted strings
IsNone(t) == t = <<"n", "o", "n", "e">>
IsTrue(t) == t \in {<<"t", "r", "u", "e">>, <<"y", "e", "s">>}
IsFalse(t) == t \in {<<"f", "a", "l", "s", "e">>, <<"n", "o">>}
IdStart(c) == IsLetter(c) \/ c = "_"
IdChar(c) == IdStart(c) \/ IsDigit(c)
\* identifiers separated by single dots, an optional leading dot, an optional trailing dot
RECURSIVE PathBody(_, _, _)
PathBody(t, i, fresh) ==    \* fresh: an identifier must start at position i (the end is fine: a trailing dot = node path)
    IF i > Len(t) THEN TRUE
    ELSE IF fresh THEN IdStart(t[i]) /\ PathBody(t, i + 1, FALSE)
    ELSE IF t[i] = "." THEN PathBody(t, i + 1, TRUE)
    ELSE IdChar(t[i]) /\ PathBody(t, i + 1, FALSE)
IsPath(t) == t # <<>> /\ (IF t[1] = "." THEN Len(t) > 1 /\ PathBody(t, 2, TRUE) ELSE PathBody(t, 1, TRUE))
QuotedBy(t, q) == Len(t) >= 2 /\ t[1] = q /\ t[Len(t)] = q /\ \A i \in 2..(Len(t) - 1) : t[i] # q
IsQuoted(t) == QuotedBy(t, "\"") \/ QuotedBy(t, "'")
Inner(t) == SubSeq(t, 2, Len(t) - 1)

\* spellings Python's float() also reads (nan, inf, infinity in any case, signed) and digit grouping with underscores
\* (1_000, which Python's int() and float() accept): the documentation says nothing
Silent(t) == LowerAll(Unsign(t)) \in {<<"n", "a", "n">>, <<"i", "n", "f">>, <<"i", "n", "f", "i", "n", "i", "t", "y">>}

\* ---------------------------------------------------------------- conversion: first match in the documented order
Number(t) == LET a == DecInt(t) IN IF a.ok THEN a.v ELSE
             LET b == HexInt(t) IN IF b.ok THEN b.v ELSE
             LET c == Float(t) IN IF c.ok THEN c.v ELSE
             LET d == Complex(t) IN IF d.ok THEN d.v ELSE
             IF Silent(t) \/ First(t, {"_"}) # 0 THEN [t |-> "unspec"] ELSE Err
Convert(ctx, t) ==
    CASE ctx = "number" -> Number(t)
      [] ctx = "goal" ->
            IF IsQuoted(t) THEN [t |-> "str", s |-> Inner(t)]
            ELSE IF IsNone(t) THEN [t |-> "none"]
            ELSE IF IsTrue(t) \/ IsFalse(t) THEN [t |-> "bool", b |-> IsTrue(t)]
            ELSE LET ll == LatLon(t) IN IF ll.ok THEN ll.v
            ELSE Number(t)
      [] OTHER ->      \* "direct"
            IF IsQuoted(t) THEN [t |-> "str", s |-> Inner(t)]
            ELSE IF IsNone(t) THEN [t |-> "none"]
            ELSE IF IsTrue(t) \/ IsFalse(t) THEN [t |-> "bool", b |-> IsTrue(t)]
            ELSE IF IsPath(t) THEN [t |-> "path", s |-> t]
            ELSE LET ll == LatLon(t) IN IF ll.ok THEN ll.v
            ELSE LET pt == Point(t) IN IF pt.ok THEN pt.v
            ELSE Number(t)
Contexts == {"direct", "goal", "number"}

\* a literal that can be written as one token of a command: no blank, no quote character, not a comment, or a quoted
\* string; reserved connectives and comparisons end clauses and are never values
ReservedWords == {<<"t","o">>, <<"b","y">>, <<"w","i","t","h">>, <<"f","r","o","m">>, <<"p","e","r">>, <<"f","o","r">>, <<"c","u","m">>,
                  <<"q","u","a">>, <<"v","i","a">>, <<"a","s">>, <<"a","t">>, <<"i","n">>, <<"o","f">>, <<"o","n">>, <<"r","e">>, <<"i","s">>,
                  <<"i","f">>, <<"b","e">>, <<"i","n","t","o">>, <<"a","n","d">>, <<"n","o","t">>, <<"+","-">>,
                  <<"=","=">>, <<"<">>, <<"<","=">>, <<">","=">>, <<">">>, <<"!","=">>}
IsToken(t) == /\ t # <<>> /\ t \notin ReservedWords
              /\ \/ IsQuoted(t)
                 \/ (t[1] # "#" /\ \A i \in DOMAIN t : t[i] \notin {" ", "\"", "'"})

\* ---------------------------------------------------------------- literal forms of values (Show) and the round trip
RECURSIVE DigitsOf(_)
DigitsOf(n) == IF n < 10 THEN <<DigitChars[n + 1]>> ELSE DigitsOf(n \div 10) \o <<DigitChars[(n % 10) + 1]>>
Abs(n) == IF n < 0 THEN 0 - n ELSE n
Minus(n) == IF n < 0 THEN <<"-">> ELSE <<>>
Zeros(k) == [i \in 1..k |-> "0"]
\* positional notation with a decimal point (so that it is neither a decimal nor a hexadecimal integer)
Positional(m, e) ==
    IF e >= 0 THEN Minus(m) \o DigitsOf(Abs(m)) \o Zeros(e) \o <<".", "0">>
    ELSE LET ds == DigitsOf(Abs(m))
             pad == IF Len(ds) <= 0 - e THEN Zeros((0 - e) - Len(ds) + 1) \o ds ELSE ds
         IN Minus(m) \o Upto(pad, Len(pad) + e) \o <<".">> \o From(pad, Len(pad) + e + 1)
Scientific(m, e) == Minus(m) \o DigitsOf(Abs(m)) \o <<".", "0", "e">> \o (IF e < 0 THEN <<"-">> ELSE <<"+">>) \o DigitsOf(Abs(e))
ShowDec(m, e) == IF e >= -6 /\ e <= 3 THEN Positional(m, e) ELSE Scientific(m, e)
PointLetters == [xy |-> <<"x", "y">>, ne |-> <<"n", "e">>, fs |-> <<"f", "s">>, xyz |-> <<"x", "y", "z">>, ned |-> <<"n", "e", "d">>, fsb |-> <<"f", "s", "b">>]
RECURSIVE ShowCoords(_, _)
ShowCoords(cs, ls) == IF cs = <<>> THEN <<>> ELSE Positional(cs[1][1], cs[1][2]) \o <<ls[1]>> \o ShowCoords(Tail(cs), Tail(ls))
Show(v) ==
    CASE v.t = "int" -> Minus(v.n) \o DigitsOf(Abs(v.n))
      [] v.t = "dec" -> ShowDec(v.m, v.e)
      [] v.t = "cplx" -> ShowDec(v.re.m, v.re.e) \o (IF v.im.m < 0 THEN <<>> ELSE <<"+">>) \o ShowDec(v.im.m, v.im.e) \o <<"j">>
      [] v.t = "none" -> <<"n", "o", "n", "e">>
      [] v.t = "bool" -> IF v.b THEN <<"t", "r", "u", "e">> ELSE <<"f", "a", "l", "s", "e">>
      [] v.t = "str" -> <<"\"">> \o v.s \o <<"\"">>
      [] v.t = "point" -> ShowCoords(v.c, PointLetters[v.k])
      [] OTHER -> <<>>
\* values the property promises a round trip for (the context must have the form at all)
Shown(ctx, v) ==
    \/ v.t \in {"int", "dec", "cplx"}
    \/ ctx # "number" /\ v.t \in {"none", "bool"}
    \/ ctx # "number" /\ v.t = "str" /\ \A i \in DOMAIN v.s : v.s[i] \notin {"\"", "'"}
    \/ ctx = "direct" /\ v.t = "point" /\ \A i \in DOMAIN v.c : v.c[i][2] <= 3 /\ v.c[i][2] >= -6

\* ---------------------------------------------------------------- the enumerated strings
RECURSIVE StringsOf(_)
StringsOf(n) == IF n = 0 THEN {<<>>} ELSE LET S == StringsOf(n - 1) IN S \cup {Append(s, Alphabet[i]) : s \in S, i \in DOMAIN Alphabet}
IndexOf(c) == CHOOSE i \in DOMAIN Alphabet : Alphabet[i] = c
\* structured longer literals (and near misses) from a small generator grammar per family
Cs == {<<"0">>, <<"-", "1">>, <<"1", ".", "5">>, <<"1", ".">>, <<"+", "1", "0">>}
Gen3(l1, l2, l3) == {a \o <<x>> \o b \o <<y>> \o c \o <<z>> : a \in Cs, b \in {<<"0">>, <<"-", "1", ".", "5">>}, c \in {<<"1">>, <<"2", ".", "2", "5">>},
                                                            x \in l1, y \in l2, z \in l3}
Mants == {<<"1", ".", "5">>, <<"1", "0">>, <<"0", ".">>, <<".", "5">>, <<"1", "2", "5">>}
Exps == {<<>>, <<"e", "1">>, <<"e", "-", "1">>, <<"E", "+", "1", "0">>, <<"e", "-", "3", "0", "0">>}
Sg == {<<>>, <<"-">>, <<"+">>}
Extras ==
    CASE Family = "num" -> {s \o m \o x : s \in Sg, m \in Mants, x \in Exps}
                           \cup {s \o m \o x \o t \o m2 \o <<"j">> : s \in {<<>>, <<"-">>}, m \in {<<"1">>, <<"1", ".", "5">>}, x \in {<<>>, <<"e", "1">>},
                                                                    t \in {<<"+">>, <<"-">>}, m2 \in {<<>>, <<"2">>, <<".", "5">>, <<"1", "e", "-", "1">>}}
                           \cup {<<"0", "x", "1", "f">>, <<"-", "0", "X", "a">>, <<"0", "x">>, <<"1", "e", "5">>, <<"0", "x", "1", ".", "f">>, <<"1", "f", "f", "f", "f">>,
                                 <<"1", "_", "0">>, <<"1", "2", "3", "4", "5", "6", "7">>, <<"-", "9", "9", "9", "9", "9", "9">>, <<"1", "j", "+", "1">>, <<"1", "+", "1">>}
      [] Family = "latlon" -> {<<"1", "0", "N", "1", "0", ".", "5">>, <<"1", "2", "0", "W", "3", "0", ".", "7", "5">>, <<"1", "s", "0", ".", "5">>,
                               <<"1", "e", "1", ".", "5">>, <<"0", "1", "E", "1", ".", "5", "0">>, <<"8", "0", "w", "3", "0", ".", "7", "5">>,
                               <<"1", "0", ",", "5", ".", "5">>, <<"1", "0", "N", "5">>, <<"1", "0", "N", "5", ".">>, <<"-", "1", "0", "N", "5", ".", "5">>,
                               <<"1", "0", "N", "5", ".", "5", "E">>, <<"1", "0", "n", "1", "0", ".", "5">>}
      [] Family = "xy" -> Gen3({"X", "x"}, {"Y", "y"}, {"Z", "z"}) \cup Gen3({"X"}, {"Y"}, {"D", ","}) \cup Gen3({"Y"}, {"X"}, {"Z"})
      [] Family = "ne" -> Gen3({"N", "n"}, {"E", "e"}, {"D", "d"}) \cup Gen3({"N"}, {"E"}, {"Z", ","}) \cup Gen3({"E"}, {"N"}, {"D"})
      [] Family = "fs" -> Gen3({"F", "f"}, {"S", "s"}, {"B", "b"}) \cup Gen3({"F"}, {"S"}, {"D", ","}) \cup Gen3({"S"}, {"F"}, {"B"})
      [] Family = "word" -> {<<"n", "o", "n", "e">>, <<"t", "r", "u", "e">>, <<"y", "e", "s">>, <<"n", "o">>, <<"f", "a", "l", "s", "e">>, <<"n", "o", "n", "e", "s">>, <<"t", "r", "u", "e", ".", "a">>, <<"a", ".", "b", ".", "c">>,
                             <<".", "a", ".", "b", ".">>, <<"a", ".", ".", "b">>, <<"_", "a", "1", ".", "b", "2">>, <<"1", "a">>, <<"a", "-", "b">>, <<"n", "a", "n">>,
                             <<"i", "n", "f">>, <<"y", "e", "s", "s">>, <<"f", "a", "l", "s", "e", ".">>}
      [] OTHER -> {<<"\"", "a", " ", "1", "\"">>, <<"'", "a", "\"", "1", "'">>, <<"\"", "'", "a", "'", "\"">>, <<"\"", "1", ".", "5", "\"">>,
                   <<"\"", "t", "r", "u", "e", "\"">>, <<"'", "n", "o", "n", "e", "'">>, <<"\"", "a", ".", "b", "\"">>}
Strings == {s \in StringsOf(MaxLen) : s # <<>> /\ IndexOf(s[1]) % NShards = Shard} \cup (IF Shard = 0 THEN Extras ELSE {})

\* ---------------------------------------------------------------- model: one literal at a time
\* (d, g, n: the conversions of text in the three contexts, computed once per literal)
VARIABLES text, d, g, n
vars == <<text, d, g, n>>
Init == /\ text \in Strings
        /\ d = Convert("direct", text) /\ g = Convert("goal", text) /\ n = Convert("number", text)
Next == UNCHANGED vars
Spec == Init /\ [][Next]_vars
Conv(ctx) == IF ctx = "direct" THEN d ELSE IF ctx = "goal" THEN g ELSE n

\* C17: writing a value in its literal form and converting it back yields the same value
RoundTrip == \A ctx \in Contexts : Shown(ctx, Conv(ctx)) => Convert(ctx, Show(Conv(ctx))) = Conv(ctx)
\* the contexts differ only in the forms they admit, never in the value of a form they share
ContextsAgree ==
    /\ n.t \notin {"err", "unspec"} => (g = n \/ g.t = "coord")
    /\ g.t \notin {"err", "unspec"} => (d = g \/ d.t \in {"path", "point"})
\* the forms are what the order says: a quoted string is a string whatever is inside, a path is never read as a
\* number, a decimal integer never as hexadecimal, a hexadecimal never as float
OrderRespected ==
    /\ IsQuoted(text) => (d.t = "str" /\ g.t = "str")
    /\ (~IsQuoted(text) /\ IsPath(text) /\ ~IsNone(text) /\ ~IsTrue(text) /\ ~IsFalse(text)) => d.t = "path"
    /\ LET a == DecInt(text) IN a.ok => (d = a.v /\ g = a.v /\ n = a.v)
    /\ LET b == HexInt(text) IN (b.ok /\ ~DecInt(text).ok) => n = b.v
\* every literal shown is one token
ShownIsToken == \A ctx \in Contexts : Shown(ctx, Conv(ctx)) => IsToken(Show(Conv(ctx)))

\* ---------------------------------------------------------------- table for the harness (binding C)
Row(s) == LET cd == Convert("direct", s)
              cg == Convert("goal", s)
              cn == Convert("number", s)
          IN [s |-> s, token |-> IsToken(s), direct |-> cd, goal |-> cg, number |-> cn,
              show |-> [direct |-> IF Shown("direct", cd) THEN Show(cd) ELSE <<>>,
                        goal |-> IF Shown("goal", cg) THEN Show(cg) ELSE <<>>,
                        number |-> IF Shown("number", cn) THEN Show(cn) ELSE <<>>]]
Table == LET ss == SetToSeq(Strings) IN [i \in DOMAIN ss |-> Row(ss[i])]
ASSUME JsonSerialize(IOEnv.TABLE_OUT, Table)
=============================================================================
