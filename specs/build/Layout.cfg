SPECIFICATION Spec
CONSTANTS
  MaxActs = 2
  Emit = "none"
INVARIANT TypeOK
INVARIANT LayoutPreserved
INVARIANT EmitLayout
PROPERTY WordsKept
CHECK_DEADLOCK FALSE
