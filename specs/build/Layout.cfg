SPECIFICATION Spec
CONSTANTS
  MaxActs = 2
  Emit = FALSE
INVARIANT TypeOK
INVARIANT LayoutPreserved
INVARIANT EmitLayout
PROPERTY WordsKept
CHECK_DEADLOCK FALSE
