------------------------------- MODULE Resolve -------------------------------
(* Resolution of the `in over` links of the frames of one framer (property C14, first part).    *)
(*                                                                                             *)
(* A script declares frames 1..nf in order; each names its over frame: none (0), one of the     *)
(* frames (possibly itself, possibly closing a cycle that does or does not contain the frame    *)
(* where a climb started) or a name no frame has (nf + 1, dangling).  After parsing, the        *)
(* builder resolves the links frame by frame in declaration order: starting at a frame it       *)
(* climbs the over names, attaching every frame met to the unders of its over frame, until it   *)
(* reaches a top frame.  The documentation promises a ResolveError for a name that cannot be    *)
(* found and for "outline overs create loop"; building then fails (Builder.build returns False).*)
(*                                                                                             *)
(* A frame may also declare its primary under frame (`under name`: a frame below it, but the    *)
(* script may name any frame, itself, or a name no frame has).  The primary under of a frame is *)
(* the declared one, else the first frame attached below it.  After the over links the builder  *)
(* traces the outline of every frame in declaration order: up its overs, then down the chain of *)
(* primary unders.  A chain that meets a frame twice has no outline: that is a ResolveError     *)
(* ("Outline unders create loop") wherever on the chain the loop lies.                          *)
(*                                                                                             *)
(* The procedure is written as actions (Start, Climb, NextFrame, EndOvers, TraceStart,          *)
(* Descend, TraceEnd, TraceFail, Finish) so that TLC can check                                  *)
(*   Termination: under weak fairness every over-graph on up to MaxFrames frames ends in        *)
(*                "resolved" or "error" (a cycle is an error however the climb entered it);     *)
(*   Sound / Complete: "resolved" exactly for the acyclic graphs without dangling names, and    *)
(*                then every frame is in the unders of its over frame exactly once.             *)
(* Every graph with its verdict is printed for the harness, which builds the corresponding      *)
(* script in a child process under a wall-clock limit (vf/families/buildterm.py).               *)
EXTENDS Integers, Sequences, FiniteSets, TLC, Json

CONSTANTS MaxFrames,       \* graphs on 1..MaxFrames frames
          MaxUnderFrames,  \* every assignment of `under` declarations is explored for graphs on up to this many frames,
          MaxUnders,       \* larger graphs carry at most this many `under` declarations
          Emit

VARIABLES nf,       \* number of frames
          over,     \* over[f] \in 0..nf+1
          cur,      \* frame whose links are being resolved (nf + 1: all done)
          pos,      \* frame the climb stands on (0: between climbs)
          seen,     \* frames met on this climb
          unders,   \* unders[f]: sequence of frames attached below f
          linked,   \* frames whose over name has been replaced by a reference
          under,    \* under[f] \in 0..nf+1 : the declared primary under (0: none declared)
          phase,    \* "overs" | "trace"
          result    \* "running" | "resolved" | "error"
vars == <<nf, over, cur, pos, seen, unders, linked, under, phase, result>>

Frames == 1..nf
Dangling == nf + 1
InSeq(q, x) == \E i \in 1..Len(q) : q[i] = x

\* over links alone decide the verdict when they are ill formed: `under` declarations are explored on the well formed graphs
RECURSIVE UpIn(_, _, _, _)
UpIn(n, ov, f, k) == IF k = 0 \/ f = 0 \/ f = n + 1 THEN f ELSE UpIn(n, ov, ov[f], k - 1)
WellFormedOver(n, ov) == \A f \in 1..n : ov[f] # n + 1 /\ \A k \in 1..n : UpIn(n, ov, f, k) # f

NoUnders(n) == [f \in 1..n |-> 0]
UnderChoices(n, ov) ==
    IF ~WellFormedOver(n, ov) \/ (n > MaxUnderFrames /\ MaxUnders = 0) THEN {NoUnders(n)}
    ELSE IF n <= MaxUnderFrames THEN [1..n -> 0..(n + 1)]
    ELSE {u \in [1..n -> 0..(n + 1)] : Cardinality({f \in 1..n : u[f] # 0}) <= MaxUnders}

Init == /\ nf \in 1..MaxFrames
        /\ over \in [1..nf -> 0..(nf + 1)]
        /\ under \in UnderChoices(nf, over)
        /\ phase = "overs"
        /\ cur = 1 /\ pos = 0 /\ seen = {} /\ linked = {}
        /\ unders = [f \in 1..nf |-> <<>>]
        /\ result = "running"

Start == /\ result = "running" /\ phase = "overs" /\ pos = 0 /\ cur <= nf
         /\ pos' = cur /\ seen' = {cur}
         /\ UNCHANGED <<nf, over, cur, unders, linked, under, phase, result>>

\* the climb reached a top frame: go on with the next declared frame
NextFrame == /\ result = "running" /\ phase = "overs" /\ pos # 0 /\ over[pos] = 0
             /\ pos' = 0 /\ cur' = cur + 1
             /\ UNCHANGED <<nf, over, seen, unders, linked, under, phase, result>>

Fail == /\ result = "running" /\ phase = "overs" /\ pos # 0
        /\ over[pos] = Dangling \/ over[pos] \in seen      \* unknown name, or a frame met before: loop
        /\ result' = "error"
        /\ UNCHANGED <<nf, over, cur, pos, seen, unders, linked, under, phase>>

Climb == /\ result = "running" /\ phase = "overs" /\ pos # 0
         /\ over[pos] \in Frames /\ over[pos] \notin seen
         /\ LET o == over[pos] IN
            /\ unders' = IF pos \in linked \/ InSeq(unders[o], pos) THEN unders ELSE [unders EXCEPT ![o] = Append(@, pos)]
            /\ linked' = linked \cup {pos}
            /\ pos' = o
            /\ seen' = seen \cup {o}
         /\ UNCHANGED <<nf, over, cur, under, phase, result>>

\* all over links resolved: an `under` name no frame has is an error; otherwise the outlines are traced
EndOvers == /\ result = "running" /\ phase = "overs" /\ pos = 0 /\ cur = nf + 1
            /\ IF \E f \in Frames : under[f] = Dangling
               THEN result' = "error" /\ UNCHANGED <<phase, cur>>
               ELSE phase' = "trace" /\ cur' = 1 /\ UNCHANGED result
            /\ UNCHANGED <<nf, over, pos, seen, unders, linked, under>>

\* primary under: the declared one, else the first frame attached below
Primary(f) == IF under[f] # 0 THEN under[f] ELSE IF unders[f] # <<>> THEN unders[f][1] ELSE 0
\* the outline of frame cur starts with the frame and its overs
RECURSIVE Overs(_, _)
Overs(f, k) == IF f = 0 \/ k = 0 THEN {} ELSE {f} \cup Overs(over[f], k - 1)
TraceStart == /\ result = "running" /\ phase = "trace" /\ pos = 0 /\ cur <= nf
              /\ pos' = cur /\ seen' = Overs(cur, nf)
              /\ UNCHANGED <<nf, over, cur, unders, linked, under, phase, result>>
Descend == /\ result = "running" /\ phase = "trace" /\ pos # 0
           /\ Primary(pos) # 0 /\ Primary(pos) \notin seen
           /\ pos' = Primary(pos) /\ seen' = seen \cup {Primary(pos)}
           /\ UNCHANGED <<nf, over, cur, unders, linked, under, phase, result>>
TraceFail == /\ result = "running" /\ phase = "trace" /\ pos # 0
             /\ Primary(pos) # 0 /\ Primary(pos) \in seen       \* a frame met before: the outline has a loop
             /\ result' = "error"
             /\ UNCHANGED <<nf, over, cur, pos, seen, unders, linked, under, phase>>
TraceEnd == /\ result = "running" /\ phase = "trace" /\ pos # 0 /\ Primary(pos) = 0
            /\ pos' = 0 /\ cur' = cur + 1
            /\ UNCHANGED <<nf, over, seen, unders, linked, under, phase, result>>

Finish == /\ result = "running" /\ phase = "trace" /\ pos = 0 /\ cur = nf + 1
          /\ result' = "resolved"
          /\ UNCHANGED <<nf, over, cur, pos, seen, unders, linked, under, phase>>

Next == Start \/ NextFrame \/ Fail \/ Climb \/ EndOvers \/ TraceStart \/ Descend \/ TraceFail \/ TraceEnd \/ Finish
Spec == Init /\ [][Next]_vars
LiveSpec == Spec /\ WF_vars(Next)

\* ------------------------------------------------------------------ properties
RECURSIVE Up(_, _)
Up(f, k) == IF k = 0 \/ f = 0 \/ f = Dangling THEN f ELSE Up(over[f], k - 1)    \* k steps up from f
OnCycle(f) == \E k \in 1..nf : Up(f, k) = f
HasDangling == \E f \in Frames : over[f] = Dangling
HasCycle == \E f \in Frames : OnCycle(f)
\* `under` declarations: Consistent = every declared under is a frame below the declaring frame
DanglingUnder == \E f \in Frames : under[f] = Dangling
Consistent == \A f \in Frames : under[f] # 0 => (under[f] \in Frames /\ over[under[f]] = f)
\* the chain of primary unders below f meets a frame of f's outline again (evaluated on resolved over links)
RECURSIVE Down(_, _, _)
Down(f, S, k) == IF k = 0 THEN FALSE
                 ELSE LET p == Primary(f) IN IF p = 0 THEN FALSE ELSE IF p \in S THEN TRUE ELSE Down(p, S \cup {p}, k - 1)
UnderLoop == \E f \in Frames : Down(f, Overs(f, nf), nf + 1)
WellFormed == ~HasDangling /\ ~HasCycle /\ ~DanglingUnder

\* classification of the graph (for reports and vacuity guards)
MeetsCycle(f) == \E k \in 0..nf : Up(f, k) \in Frames /\ OnCycle(Up(f, k))
FirstIntoCycle == CHOOSE f \in Frames : MeetsCycle(f) /\ \A g \in Frames : MeetsCycle(g) => f <= g
Kind == IF HasDangling /\ ~HasCycle THEN "dangling"
        ELSE IF ~HasCycle THEN "tree"
        ELSE IF OnCycle(FirstIntoCycle) THEN (IF over[FirstIntoCycle] = FirstIntoCycle THEN "self" ELSE "cycle-through-start")
        ELSE "cycle-not-through-start"

TypeOK == /\ cur \in 1..(nf + 1) /\ pos \in 0..nf /\ seen \subseteq Frames /\ linked \subseteq Frames
          /\ result \in {"running", "resolved", "error"}
Sound == result = "resolved" => WellFormed /\ ~UnderLoop
Complete == result = "error" => ~WellFormed \/ (phase = "trace" /\ UnderLoop)
\* consistent declarations never make a loop: only a script that names a frame not below as under can
ConsistentBuilds == (result = "error" /\ ~HasDangling /\ ~HasCycle) => ~Consistent
UndersMatch == result = "resolved" =>
    \A f \in Frames : \A g \in Frames : (over[g] = f) <=> Cardinality({i \in 1..Len(unders[f]) : unders[f][i] = g}) = 1
Termination == <>(result # "running")
\* the verdict for the harness, printed once per graph when the procedure ends
Verdict == (Emit /\ result # "running") =>
    PrintT(ToJson([nf |-> nf, over |-> over, under |-> under, result |-> result,
                   unders |-> IF result = "resolved" THEN unders ELSE [f \in 1..nf |-> <<>>],
                   primary |-> IF result = "resolved" THEN [f \in 1..nf |-> Primary(f)] ELSE [f \in 1..nf |-> 0],
                   consistent |-> Consistent,
                   kind |-> IF \A f \in Frames : under[f] = 0 THEN Kind
                            ELSE IF DanglingUnder THEN "under-dangling"
                            ELSE IF result = "error" THEN "under-loop"
                            ELSE IF Consistent THEN "under-consistent" ELSE "under-inconsistent"]))
=============================================================================
