------------------------------- MODULE Resolve -------------------------------
(* Resolution of the `in over` links of the frames of one framer (property C14, first part).    *)
(*                                                                                             *)
(* A script declares frames 1..nf in order; each names its over frame: none (0), one of the     *)
(* frames (possibly itself, possibly closing a cycle that does or does not contain the frame    *)
(* where a climb started) or a name no frame has (nf + 1, dangling).  After parsing, the        *)
(* builder resolves the links frame by frame in declaration order: starting at a frame it       *)
(* climbs the over names, attaching every frame met to the unders of its over frame, until it   *)
(* reaches a top frame.  The documentation promises a ResolveError for a name that cannot be    *)
(* found and for "outline overs create loop"; building then fails (Builder.build returns False).*)
(*                                                                                             *)
(* The procedure is written as actions (Start, Climb, NextFrame, Finish) so that TLC can check  *)
(*   Termination: under weak fairness every over-graph on up to MaxFrames frames ends in        *)
(*                "resolved" or "error" (a cycle is an error however the climb entered it);     *)
(*   Sound / Complete: "resolved" exactly for the acyclic graphs without dangling names, and    *)
(*                then every frame is in the unders of its over frame exactly once.             *)
(* Every graph with its verdict is printed for the harness, which builds the corresponding      *)
(* script in a child process under a wall-clock limit (vf/families/buildterm.py).               *)
EXTENDS Integers, Sequences, FiniteSets, TLC, Json

CONSTANTS MaxFrames, Emit

VARIABLES nf,       \* number of frames
          over,     \* over[f] \in 0..nf+1
          cur,      \* frame whose links are being resolved (nf + 1: all done)
          pos,      \* frame the climb stands on (0: between climbs)
          seen,     \* frames met on this climb
          unders,   \* unders[f]: sequence of frames attached below f
          linked,   \* frames whose over name has been replaced by a reference
          result    \* "running" | "resolved" | "error"
vars == <<nf, over, cur, pos, seen, unders, linked, result>>

Frames == 1..nf
Dangling == nf + 1
InSeq(q, x) == \E i \in 1..Len(q) : q[i] = x

Init == /\ nf \in 1..MaxFrames
        /\ over \in [1..nf -> 0..(nf + 1)]
        /\ cur = 1 /\ pos = 0 /\ seen = {} /\ linked = {}
        /\ unders = [f \in 1..nf |-> <<>>]
        /\ result = "running"

Start == /\ result = "running" /\ pos = 0 /\ cur <= nf
         /\ pos' = cur /\ seen' = {cur}
         /\ UNCHANGED <<nf, over, cur, unders, linked, result>>

\* the climb reached a top frame: go on with the next declared frame
NextFrame == /\ result = "running" /\ pos # 0 /\ over[pos] = 0
             /\ pos' = 0 /\ cur' = cur + 1
             /\ UNCHANGED <<nf, over, seen, unders, linked, result>>

Fail == /\ result = "running" /\ pos # 0
        /\ over[pos] = Dangling \/ over[pos] \in seen      \* unknown name, or a frame met before: loop
        /\ result' = "error"
        /\ UNCHANGED <<nf, over, cur, pos, seen, unders, linked>>

Climb == /\ result = "running" /\ pos # 0
         /\ over[pos] \in Frames /\ over[pos] \notin seen
         /\ LET o == over[pos] IN
            /\ unders' = IF pos \in linked \/ InSeq(unders[o], pos) THEN unders ELSE [unders EXCEPT ![o] = Append(@, pos)]
            /\ linked' = linked \cup {pos}
            /\ pos' = o
            /\ seen' = seen \cup {o}
         /\ UNCHANGED <<nf, over, cur, result>>

Finish == /\ result = "running" /\ pos = 0 /\ cur = nf + 1
          /\ result' = "resolved"
          /\ UNCHANGED <<nf, over, cur, pos, seen, unders, linked>>

Next == Start \/ NextFrame \/ Fail \/ Climb \/ Finish
Spec == Init /\ [][Next]_vars
LiveSpec == Spec /\ WF_vars(Next)

\* ------------------------------------------------------------------ properties
RECURSIVE Up(_, _)
Up(f, k) == IF k = 0 \/ f = 0 \/ f = Dangling THEN f ELSE Up(over[f], k - 1)    \* k steps up from f
OnCycle(f) == \E k \in 1..nf : Up(f, k) = f
HasDangling == \E f \in Frames : over[f] = Dangling
HasCycle == \E f \in Frames : OnCycle(f)
WellFormed == ~HasDangling /\ ~HasCycle

\* classification of the graph (for reports and vacuity guards)
MeetsCycle(f) == \E k \in 0..nf : Up(f, k) \in Frames /\ OnCycle(Up(f, k))
FirstIntoCycle == CHOOSE f \in Frames : MeetsCycle(f) /\ \A g \in Frames : MeetsCycle(g) => f <= g
Kind == IF HasDangling /\ ~HasCycle THEN "dangling"
        ELSE IF ~HasCycle THEN "tree"
        ELSE IF OnCycle(FirstIntoCycle) THEN (IF over[FirstIntoCycle] = FirstIntoCycle THEN "self" ELSE "cycle-through-start")
        ELSE "cycle-not-through-start"

TypeOK == /\ cur \in 1..(nf + 1) /\ pos \in 0..nf /\ seen \subseteq Frames /\ linked \subseteq Frames
          /\ result \in {"running", "resolved", "error"}
Sound == result = "resolved" => WellFormed
Complete == result = "error" => ~WellFormed
UndersMatch == result = "resolved" =>
    \A f \in Frames : \A g \in Frames : (over[g] = f) <=> Cardinality({i \in 1..Len(unders[f]) : unders[f][i] = g}) = 1
Termination == <>(result # "running")
\* the verdict for the harness, printed once per graph when the procedure ends
Verdict == (Emit /\ result # "running") =>
    PrintT(ToJson([nf |-> nf, over |-> over, result |-> result,
                   unders |-> IF result = "resolved" THEN unders ELSE [f \in 1..nf |-> <<>>],
                   kind |-> Kind]))
=============================================================================
