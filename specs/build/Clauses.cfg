SPECIFICATION Spec
CONSTANTS
  Verbs = {"framer", "frame", "do", "logger", "log", "server", "aux", "rear", "raze", "bid", "need"}
  MaxTake = 3
  Emit = FALSE
INVARIANT TypeOK
INVARIANT ReadBack
INVARIANT Confluent
INVARIANT Closed
PROPERTY Stable
CHECK_DEADLOCK FALSE
