------------------------------- MODULE Paths -------------------------------
(* Relative store addressing in FloScript (property C13).                                       *)
(*                                                                                               *)
(* Written from the documentation: the docstrings of Builder.parseIndirect / parseRelation       *)
(* (forms of an indirect address: absolute dotpath; `path [of root]`; `path of me`;              *)
(* `path of framer [me|main|name]`; `path of frame [me|main|name] [of framer ..]`;               *)
(* `path of actor [me|name] [of frame ..]`; inline `framer.` / `frame.` / `actor.` prefixes with *)
(* implied relations), the docstring of Act.resolvePath (leading dot = fully reconciled, no      *)
(* substitution; `me` = framer-inode relative; otherwise the act inode (do .. via), the inodes   *)
(* of the frame and its over frames, and the framer inode - through the main frame / main framer *)
(* of an auxiliary clone - are prepended; then `framer.me|main`, `frame.me|main`, `actor.me` are *)
(* replaced by the current / main names) with the cases spelled out in its comments (absolute,   *)
(* framer relative, empty, me relative, relative inodes; a me-relative inode skips the over      *)
(* frames; default inode framer.me.frame.me.actor.me for a deed without any inode), the          *)
(* nameToPath docstring (camel case actor name -> dotted path) and the example plans             *)
(* testAddress / testActorRelative / testFramerInode / testNestedVia* (a clone made by           *)
(* `aux X as tag via inode` is the framer `<main framer>_<tag>` whose framer inode is that via). *)
(*                                                                                               *)
(* A context is one program shape:                                                               *)
(*     framer F [via fi]                                                                         *)
(*        frame f0 [via oi]                                                                      *)
(*           frame f1 in f0 [via ni]        <- the act lives here when ~aux                      *)
(*              aux S as tag [via ci]       <- when aux: S is cloned under main frame f1         *)
(*     framer G .. frame g1                                                                      *)
(*     framer S be moot                                                                          *)
(*        frame s0 [via so]                                                                      *)
(*           frame s1 in s0 [via si]        <- the act lives here (in the clone F_tag) when aux  *)
(* An act is `put/inc/copy/go .. if` with a reference, or `do doer param as <an> [via ai]        *)
(* per k <ipath>`.  Paths are sequences of segments; a segment remembers where it came from:     *)
(*     [t |-> "lit"]     text written by the user (path parts, inodes, key words)                *)
(*     [t |-> "framer" / "frame" / "actor"]  the name of a framer / frame / actor                *)
(*     [t |-> "clone", n |-> main framer, g |-> tag]   the name of a clone, printed n_g          *)
(* so that "renames exactly the corresponding segments" can be stated.                           *)
EXTENDS Integers, Sequences, FiniteSets, SequencesExt, TLC, Json, IOUtils

CONSTANTS FIs, OIs, NIs, CIs, SOs, SIs,   \* inode kinds enumerated at each level (subsets of InodeKinds)
          AIs,                            \* act inode kinds for deeds
          AuxModes,                       \* subset of BOOLEAN
          Fresh                           \* the fresh name used by renamings

InodeKinds == {"none", "rel", "me", "abs", "framer", "frame"}

Lit(s) == [t |-> "lit", n |-> s, g |-> ""]
Nm(kind, s) == [t |-> kind, n |-> s, g |-> ""]
Lits(ss) == [i \in DOMAIN ss |-> Lit(ss[i])]

\* ---------------------------------------------------------------- inodes
\* an inode clause `via ..` with one user segment s, as the path the builder stores
InodeParts(i) ==
    CASE i.k = "none"   -> <<>>
      [] i.k = "rel"    -> <<Lit(i.s)>>                                      \* via s
      [] i.k = "me"     -> <<Lit("me"), Lit(i.s)>>                           \* via me.s  /  via s of me
      [] i.k = "abs"    -> <<Lit(""), Lit(i.s)>>                             \* via .s
      [] i.k = "framer" -> <<Lit("framer"), Lit("me"), Lit(i.s)>>            \* via s of framer
      [] i.k = "frame"  -> <<Lit("framer"), Lit("me"), Lit("frame"), Lit("me"), Lit(i.s)>>   \* via s of frame
      [] OTHER          -> <<>>                                              \* "absent": not a deed

Anchored(p) == p # <<>> /\ p[1] \in {Lit(""), Lit("framer")}     \* absolute or framer relative: nothing is prepended
StartsMe(p) == p # <<>> /\ p[1] = Lit("me")
StripMe(p) == IF StartsMe(p) THEN Tail(p) ELSE p

\* inodes of a frame and its over frames, innermost first: each is prepended until the path is anchored;
\* a me-relative inode is relative to the framer inode and skips the frames further out
RECURSIVE FrameChain(_, _)
FrameChain(acc, outer) ==
    IF Anchored(acc) THEN acc
    ELSE IF StartsMe(acc) THEN Tail(acc)
    ELSE IF outer = <<>> THEN acc
    ELSE FrameChain(outer[1] \o acc, Tail(outer))

\* the same walk from the main frame of an auxiliary upwards, applied to the auxiliary's framer inode
RECURSIVE MainChain(_, _)
MainChain(acc, frames) ==
    IF Anchored(acc) \/ frames = <<>> THEN acc
    ELSE LET a2 == frames[1] \o acc IN
         IF frames[1] # <<>> /\ StartsMe(a2) THEN Tail(a2)
         ELSE MainChain(a2, Tail(frames))

\* effective frame inode path of the act
OParts(c) == IF c.aux THEN FrameChain(InodeParts(c.si), <<InodeParts(c.so)>>)
             ELSE FrameChain(InodeParts(c.ni), <<InodeParts(c.oi)>>)

\* effective framer inode path of the act: for a clone its own via, relative to the main frame's context
\* (or, me relative, to the main framer's inode only)
FParts(c) ==
    IF ~c.aux THEN StripMe(InodeParts(c.fi))
    ELSE LET own == InodeParts(c.ci) IN
         IF Anchored(own) THEN own
         ELSE LET up == IF StartsMe(own) THEN Tail(own)
                        ELSE MainChain(own, <<InodeParts(c.ni), InodeParts(c.oi)>>)
              IN IF Anchored(up) THEN up ELSE StripMe(InodeParts(c.fi) \o up)

\* ---------------------------------------------------------------- names
ActFramer(c) == IF c.aux THEN [t |-> "clone", n |-> c.F, g |-> c.tag] ELSE Nm("framer", c.F)
ActFrame(c) == Nm("frame", IF c.aux THEN c.s1 ELSE c.f1)
MainFramer(c) == Nm("framer", c.F)
MainFrame(c) == Nm("frame", c.f1)
\* The name of a deed written `as tok1 tok2 ..` is the camel case of its tokens (each token capitalised, buildDo) and
\* nameToPath turns every upper case letter into the start of a new lower case path segment: every token that starts
\* with a letter is its own segment - also a one letter token in front of another (as n gauge -> n.gauge, never ngauge) -
\* and a token that starts with a digit stays glued to the segment before it (as gauge b 2 c -> gauge.b2.c).
\* put is the actor poke.direct, a need need.direct.  Segments of a deed's name: the first is the renamable name
\* (t = "actor"), the others t = "apart"; the last one carries g = "last" (the harness numbers deed instances there).
DigitTokens == {"2", "7"}
RECURSIVE NameSegs(_, _)
NameSegs(tokens, acc) ==
    IF tokens = <<>> THEN acc
    ELSE IF tokens[1] \in DigitTokens /\ acc # <<>>
         THEN NameSegs(Tail(tokens), [acc EXCEPT ![Len(acc)] = @ \o tokens[1]])
         ELSE NameSegs(Tail(tokens), Append(acc, tokens[1]))
ActorParts(a) ==
    CASE a.verb = "do" -> LET ss == NameSegs(a.an, <<>>) IN
                          [i \in DOMAIN ss |-> [t |-> IF i = 1 THEN "actor" ELSE "apart", n |-> ss[i], g |-> IF i = Len(ss) THEN "last" ELSE ""]]
      [] a.verb \in {"need", "let"} -> Lits(<<"need", "direct">>)
      [] OTHER -> Lits(<<"poke", "direct">>)

\* ---------------------------------------------------------------- the indirect address as parsed by the builder
NameOr(kind, n) == IF n \in {"me", "main"} THEN Lit(n) ELSE Nm(kind, n)
Default(n, d) == IF n = "" THEN d ELSE n

\* r = [form, segs, n1, n2, n3]; "-" = clause not written, "" = clause written without a name
IPath(r) ==
    LET u == Lits(r.segs)
        framerOf(n) == <<Lit("framer"), NameOr("framer", Default(n, "me"))>>
        \* the default framer of `frame main` is `framer main` (parseRelation: framername = default framer name)
        frameOf(n, m) == framerOf(IF m \in {"-", ""} THEN (IF n = "main" THEN "main" ELSE "me") ELSE m)
                         \o <<Lit("frame"), NameOr("frame", Default(n, "me"))>>
    IN CASE r.form = "abs"     -> <<Lit("")>> \o u                   \* .a.x
         [] r.form = "root"    -> u                                    \* a.x  /  a.x of root
         [] r.form = "me"      -> <<Lit("me")>> \o u                   \* a.x of me  /  me.a.x
         [] r.form = "framer"  -> framerOf(r.n1) \o u                  \* a.x of framer [n1]  /  framer.n1.a.x
         [] r.form = "frame"   -> frameOf(r.n1, r.n2) \o u             \* a.x of frame [n1] [of framer [n2]]  /  frame.n1.a.x
         [] r.form = "actor"   -> frameOf(IF r.n2 = "-" THEN "me" ELSE r.n2, r.n3)
                                  \o <<Lit("actor"), NameOr("actor", Default(r.n1, "me"))>> \o u
                                                                        \* a.x of actor [n1] [of frame [n2] [of framer [n3]]]
         [] OTHER              -> <<>>                                  \* "inode": the deed's own inode node

\* ---------------------------------------------------------------- resolution
DefaultInode == Lits(<<"framer", "me", "frame", "me", "actor", "me">>)

Assemble(c, a) ==
    LET p0 == IPath(a.ref)
        o == OParts(c)
        f == FParts(c)
        deed == a.verb = "do"
        ip == InodeParts(a.ai)
        p1 == IF deed /\ ~(p0 # <<>> /\ p0[1] \in {Lit("framer"), Lit("me")})
              THEN (IF ip = <<>> /\ o = <<>> /\ f = <<>> THEN DefaultInode ELSE ip) \o p0
              ELSE p0
    IN IF Anchored(p1) THEN p1
       ELSE LET q == IF StartsMe(p1) THEN Tail(p1) ELSE o \o p1
            IN IF Anchored(q) THEN q ELSE f \o q

HasMain(p) == \/ Len(p) >= 2 /\ p[1] = Lit("framer") /\ p[2] = Lit("main")
              \/ Len(p) >= 4 /\ p[1] = Lit("framer") /\ p[3] = Lit("frame") /\ p[4] = Lit("main")

Substitute(c, a, p) ==
    IF p = <<>> \/ p[1] # Lit("framer") THEN p
    ELSE LET s2 == IF p[2] = Lit("me") THEN ActFramer(c) ELSE IF p[2] = Lit("main") THEN MainFramer(c) ELSE p[2]
             isFrame == Len(p) >= 4 /\ p[3] = Lit("frame")
             s4 == IF ~isFrame THEN <<>>
                   ELSE IF p[4] = Lit("me") THEN <<ActFrame(c)>> ELSE IF p[4] = Lit("main") THEN <<MainFrame(c)>> ELSE <<p[4]>>
             rest == IF isFrame THEN SubSeq(p, 5, Len(p)) ELSE SubSeq(p, 3, Len(p))
             rest2 == IF Len(rest) >= 2 /\ rest[1] = Lit("actor") /\ rest[2] = Lit("me")
                      THEN <<rest[1]>> \o ActorParts(a) \o SubSeq(rest, 3, Len(rest))
                      ELSE rest
         IN <<p[1], s2>> \o (IF isFrame THEN <<p[3]>> \o s4 ELSE <<>>) \o rest2

\* the store path (without leading dot) of the share or node the reference of act a resolves to in context c
Resolve(c, a) ==
    LET p == IPath(a.ref) IN
    IF p # <<>> /\ p[1] = Lit("") THEN Tail(p)                    \* leading dot: fully reconciled
    ELSE LET q == Substitute(c, a, Assemble(c, a)) IN
         IF q # <<>> /\ q[1] = Lit("") THEN Tail(q) ELSE q

\* The moot framer S is cloned twice under the main frame (aux S as tag .., aux S as tag2 ..): the same acts live in both
\* clones and each clone resolves them in its own context - Second(c) is the context of the act in the second clone
Second(c) == [c EXCEPT !.tag = c.tag2, !.tag2 = c.tag]

\* `main` needs an auxiliary context (otherwise the documented outcome is a ResolveError)
Resolvable(c, a) == c.aux \/ ~HasMain(Assemble(c, a))

\* ---------------------------------------------------------------- the enumerated space
Inodes(kinds, s) == {[k |-> k, s |-> s] : k \in kinds}
None == [k |-> "none", s |-> ""]
\* names: an ordinary profile for the full product of inode kinds, and two profiles whose framer / frame / tag / actor
\* names are proper substrings resp. superstrings of the key words me, main, framer, frame, actor (an explicit name is
\* a name, however it is spelled) for a small set of inode kinds (names and inodes do not interact)
PlainNames == [F |-> "fa", G |-> "fb", S |-> "sub", tag |-> "c1", tag2 |-> "c2", f0 |-> "f0", f1 |-> "f1", g1 |-> "g1", s0 |-> "s0", s1 |-> "s1", A |-> "worker"]
SubNames == [F |-> "ma", G |-> "m", S |-> "ai", tag |-> "n", tag2 |-> "a", f0 |-> "e", f1 |-> "mai", g1 |-> "ain", s0 |-> "a", s1 |-> "i", A |-> "m"]
SupNames == [F |-> "main2", G |-> "mex", S |-> "framers", tag |-> "me2", tag2 |-> "mex2", f0 |-> "frame1", f1 |-> "actor1", g1 |-> "mainly", s0 |-> "mes",
             s1 |-> "framer2", A |-> "actors"]
Ctx(nm, x, fi, oi, ni, ci, so, si) ==
    [aux |-> x, F |-> nm.F, G |-> nm.G, S |-> nm.S, tag |-> nm.tag, tag2 |-> nm.tag2, f0 |-> nm.f0, f1 |-> nm.f1, g1 |-> nm.g1, s0 |-> nm.s0, s1 |-> nm.s1,
     A |-> nm.A, fi |-> fi, oi |-> oi, ni |-> ni, ci |-> ci, so |-> so, si |-> si]
Contexts ==
    {Ctx(PlainNames, FALSE, fi, oi, ni, None, None, None) : fi \in Inodes(FIs, "qf"), oi \in Inodes(OIs, "qo"), ni \in Inodes(NIs, "qn")}
    \cup {Ctx(PlainNames, x, fi, oi, ni, ci, so, si) :
             x \in {TRUE} \cap AuxModes, fi \in Inodes(FIs, "qf"), oi \in Inodes(OIs, "qo"), ni \in Inodes(NIs, "qn"),
             ci \in Inodes(CIs, "qc"), so \in Inodes(SOs, "qp"), si \in Inodes(SIs, "qs")}
    \cup {Ctx(nm, FALSE, fi, None, None, None, None, None) : nm \in {SubNames, SupNames}, fi \in Inodes(FIs \cap {"none", "rel"}, "qf")}
    \cup {Ctx(nm, x, fi, None, None, ci, None, None) :
             nm \in {SubNames, SupNames}, x \in {TRUE} \cap AuxModes, fi \in Inodes(FIs \cap {"none", "rel"}, "qf"),
             ci \in Inodes(CIs \cap {"none", "rel"}, "qc")}

\* user path texts: one, two and three segments; one segment spelled like the framer's name
UserPaths(c) == {<<"x">>, <<"a", "x">>, <<c.F, "x">>, <<"a", "b", "x">>}

Ref(form, segs, n1, n2, n3) == [form |-> form, segs |-> segs, n1 |-> n1, n2 |-> n2, n3 |-> n3]
FramerNames(c) == {"", "me", c.G} \cup (IF c.aux THEN {"main", c.F} ELSE {c.F})
FrameNames(c) == {"", "me"} \cup (IF c.aux THEN {"main", c.s0} ELSE {c.f0})
RefsIn(c) ==
    {Ref("abs", u, "-", "-", "-") : u \in UserPaths(c) \cup {<<"framer", c.F, "x">>}}
    \cup {Ref(fm, u, "-", "-", "-") : fm \in {"root", "me"}, u \in UserPaths(c)}
    \cup {Ref("framer", u, n, "-", "-") : u \in {<<"x">>, <<"a", "x">>}, n \in FramerNames(c)}
    \cup {Ref("frame", u, n, "-", "-") : u \in {<<"x">>, <<c.F, "x">>}, n \in FrameNames(c)}
    \cup {Ref("frame", <<"x">>, n, m, "-") : n \in {"", "me", c.f0}, m \in {"", "me", c.F}}
    \cup {Ref("frame", <<"x">>, c.g1, c.G, "-")}
    \cup (IF c.aux THEN {Ref("frame", <<"x">>, "main", m, "-") : m \in {"", "main"}} ELSE {})
    \cup {Ref("actor", u, n, "-", "-") : u \in {<<"x">>, <<"a", "x">>}, n \in {"", "me"}}
    \cup {Ref("actor", <<"x">>, c.A, "-", "-"), Ref("actor", <<"x">>, "", "", "-"), Ref("actor", <<"x">>, "me", "me", "me")}

Absent == [k |-> "absent", s |-> ""]
\* plain acts carry no inode; a deed carries the via clause and per-clause paths (written as data: no relation clause)
Plain(v, r) == [verb |-> v, an |-> <<>>, ai |-> Absent, ref |-> r]
OtherVerbRefs(c) == {Ref("root", <<"a", "x">>, "-", "-", "-"), Ref("me", <<"x">>, "-", "-", "-"),
                     Ref("framer", <<"x">>, "", "-", "-"), Ref("frame", <<"x">>, "", "-", "-"), Ref("frame", <<"x">>, c.f0, c.F, "-")}
                    \cup (IF c.aux THEN {Ref("framer", <<"x">>, "main", "-", "-"), Ref("frame", <<"x">>, "main", "-", "-")} ELSE {})
PlainActs(c) == {Plain("put", r) : r \in RefsIn(c)}
                \cup {Plain(v, r) : v \in {"inc", "copy", "need", "let"}, r \in OtherVerbRefs(c)}
                \cup {Plain("need", Ref("actor", <<"x">>, "", "-", "-"))}
DeedRefs(c) == {Ref("inode", <<>>, "-", "-", "-"), Ref("root", <<"x">>, "-", "-", "-"), Ref("root", <<"a", "x">>, "-", "-", "-"),
                Ref("me", <<"x">>, "-", "-", "-"), Ref("abs", <<"a", "x">>, "-", "-", "-"), Ref("framer", <<"x">>, "me", "-", "-")}
               \cup (IF c.aux THEN {Ref("framer", <<"x">>, "main", "-", "-")} ELSE {})
Deed(an, ai, r) == [verb |-> "do", an |-> an, ai |-> ai, ref |-> r]
\* deed names of several tokens, with one letter tokens in front, and siblings spelled with the same letters unsplit
ManyTokenNames == {<<"work", "horse">>, <<"n", "gauge">>, <<"s", "w", "gauge">>, <<"gauge", "b", "2", "c">>, <<"ngauge">>, <<"swgauge">>}
DeedActs(c) == {Deed(<<c.A>>, ai, r) : ai \in Inodes(AIs, "qa"), r \in DeedRefs(c)}
               \cup {Deed(<<"work", "horse">>, ai, Ref("root", <<"x">>, "-", "-", "-")) : ai \in Inodes(AIs \cap {"none", "frame"}, "qa")}
               \cup {Deed(an, ai, r) : an \in ManyTokenNames, ai \in Inodes(AIs \cap {"none"}, "qa"),
                                       r \in {Ref("inode", <<>>, "-", "-", "-"),                 \* default inode ..actor.me when no inode at all
                                               Ref("actor", <<"x">>, "me", "me", "me")}}      \* per k framer.me.frame.me.actor.me.x
ActsIn(c) == {a \in PlainActs(c) \cup DeedActs(c) : Resolvable(c, a)}

\* ---------------------------------------------------------------- renaming one name to a fresh name
\* rho = [kind, old]: kind in framer / frame / actor / tag
Renamings(c) == {[kind |-> "framer", old |-> n] : n \in {c.F, c.G, c.S}}
                \cup {[kind |-> "frame", old |-> n] : n \in {c.f0, c.f1, c.g1, c.s0, c.s1}}
                \cup {[kind |-> "tag", old |-> c.tag], [kind |-> "tag", old |-> c.tag2], [kind |-> "actor", old |-> c.A], [kind |-> "actor", old |-> "work"], [kind |-> "actor", old |-> "n"],
                      [kind |-> "actor", old |-> "s"]}

Ren(rho, kind, n) == IF rho.kind = kind /\ n = rho.old THEN Fresh ELSE n
RenCtx(rho, c) == [c EXCEPT !.F = Ren(rho, "framer", @), !.G = Ren(rho, "framer", @), !.S = Ren(rho, "framer", @),
                            !.f0 = Ren(rho, "frame", @), !.f1 = Ren(rho, "frame", @), !.g1 = Ren(rho, "frame", @),
                            !.s0 = Ren(rho, "frame", @), !.s1 = Ren(rho, "frame", @), !.tag = Ren(rho, "tag", @), !.tag2 = Ren(rho, "tag", @),
                            !.A = Ren(rho, "actor", @)]
\* in a reference only the name positions are renamed (never the user's path text)
RenRef(rho, r) ==
    CASE r.form = "framer" -> [r EXCEPT !.n1 = Ren(rho, "framer", @)]
      [] r.form = "frame"  -> [r EXCEPT !.n1 = Ren(rho, "frame", @), !.n2 = Ren(rho, "framer", @)]
      [] r.form = "actor"  -> [r EXCEPT !.n1 = Ren(rho, "actor", @), !.n2 = Ren(rho, "frame", @), !.n3 = Ren(rho, "framer", @)]
      [] OTHER -> r
RenAct(rho, a) == [a EXCEPT !.ref = RenRef(rho, @),
                            !.an = IF @ = <<>> THEN @ ELSE <<Ren(rho, "actor", @[1])>> \o Tail(@)]
\* in a resolved path exactly the segments that carry the renamed name change
RenSeg(rho, s) ==
    CASE s.t = "lit" -> s
      [] s.t = "clone" -> [s EXCEPT !.n = Ren(rho, "framer", @), !.g = Ren(rho, "tag", @)]
      [] OTHER -> [s EXCEPT !.n = Ren(rho, s.t, @)]
RenPath(rho, p) == [i \in DOMAIN p |-> RenSeg(rho, p[i])]

\* ---------------------------------------------------------------- the model: one case at a time
\* (the context is chosen initially, the act by the one step, so that TLC's workers share the cases)
VARIABLE case
NoAct == [verb |-> "none", an |-> <<>>, ai |-> Absent, ref |-> Ref("abs", <<"x">>, "-", "-", "-")]
Init == \E c \in Contexts : case = <<c, NoAct>>
Pick == /\ case[2] = NoAct
        /\ \E a \in ActsIn(case[1]) : case' = <<case[1], a>>
Next == Pick
Spec == Init /\ [][Next]_case
Chosen == case[2] # NoAct

\* C13: consistently renaming a framer, frame or actor renames exactly the corresponding segments
Equivariant ==
    Chosen => \A cc \in (IF case[1].aux THEN {case[1], Second(case[1])} ELSE {case[1]}) : \A rho \in Renamings(cc) :
        Resolve(RenCtx(rho, cc), RenAct(rho, case[2])) = RenPath(rho, Resolve(cc, case[2]))

\* the two clones of one moot framer resolve the same act alike, each through its own name
SwapTags(c, p) == [i \in DOMAIN p |-> IF p[i].t = "clone" /\ p[i].g = c.tag THEN [p[i] EXCEPT !.g = c.tag2]
                                       ELSE IF p[i].t = "clone" /\ p[i].g = c.tag2 THEN [p[i] EXCEPT !.g = c.tag] ELSE p[i]]
BothClones == (Chosen /\ case[1].aux) => Resolve(Second(case[1]), case[2]) = SwapTags(case[1], Resolve(case[1], case[2]))

\* C13: absolute references never depend on who uses them
AbsoluteIndependent ==
    (Chosen /\ case[2].ref.form = "abs") => Resolve(case[1], case[2]) = Lits(case[2].ref.segs)

\* renaming something that is not there changes nothing; nothing resolved carries the fresh name; results are well formed
FreshUnused == Chosen => \A i \in DOMAIN Resolve(case[1], case[2]) : LET s == Resolve(case[1], case[2])[i] IN s.n # Fresh /\ s.g # Fresh
WellFormed == Chosen => LET p == Resolve(case[1], case[2]) IN
              /\ p # <<>>
              /\ \A i \in DOMAIN p : p[i].n # "" /\ ~(p[i].t = "lit" /\ p[i].n \in {"me", "main"})
\* relative references of the three named kinds go through the names they mention
ThroughNames ==
    Chosen =>
    LET r == case[2].ref
        p == Resolve(case[1], case[2]) IN
    /\ (r.form = "framer" /\ r.n1 \in {"", "me"}) => (p[1] = Lit("framer") /\ p[2] = ActFramer(case[1]))
    /\ (r.form = "frame" /\ r.n1 \in {"", "me"} /\ r.n2 = "-") =>
            (p[1] = Lit("framer") /\ p[2] = ActFramer(case[1]) /\ p[3] = Lit("frame") /\ p[4] = ActFrame(case[1]))
    /\ (r.form = "framer" /\ r.n1 = "main") => p[2] = MainFramer(case[1])

\* ---------------------------------------------------------------- table for the harness (binding C)
Seg(s) == <<s.t, s.n, s.g>>
Row(c) == [ctx |-> c, acts |-> LET as == SetToSeq(ActsIn(c)) IN
                               [i \in DOMAIN as |-> [act |-> as[i], path |-> [j \in DOMAIN Resolve(c, as[i]) |-> Seg(Resolve(c, as[i])[j])],
                                                      path2 |-> IF c.aux THEN [j \in DOMAIN Resolve(Second(c), as[i]) |-> Seg(Resolve(Second(c), as[i])[j])] ELSE <<>>]]]
Table == LET cs == SetToSeq(Contexts) IN [i \in DOMAIN cs |-> Row(cs[i])]
ASSUME JsonSerialize(IOEnv.TABLE_OUT, Table)
=============================================================================
