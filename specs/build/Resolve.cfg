SPECIFICATION Spec
CONSTANTS
  MaxFrames = 4
  Emit = TRUE
INVARIANT TypeOK
INVARIANT Sound
INVARIANT Complete
INVARIANT UndersMatch
INVARIANT Verdict
CHECK_DEADLOCK FALSE
