SPECIFICATION LiveSpec
CONSTANTS
  MaxFrames = 4
  MaxUnderFrames = 3
  MaxUnders = 0
  Emit = TRUE
INVARIANT TypeOK
INVARIANT Sound
INVARIANT Complete
INVARIANT UndersMatch
INVARIANT ConsistentBuilds
INVARIANT Verdict
PROPERTY Termination
CHECK_DEADLOCK FALSE
