------------------------------- MODULE Layout -------------------------------
(* Layout of a FloScript file (property C16).                                                   *)
(*                                                                                             *)
(* The abstract script is a sequence of commands, each a sequence of words (Cmds).  A layout    *)
(* is a sequence of physical lines.  Starting from the canonical layout (one command per line,  *)
(* no indentation) the layout actions are the transformations named by the property:            *)
(*   Indent          change the leading white space of a line (spaces or a tab);               *)
(*   SplitBackslash  break a line at any word boundary with a trailing backslash;              *)
(*   SplitConnective break a line before a reserved connective (continuation line);            *)
(*   InsertBlank / InsertComment  put an empty or a comment-only line anywhere except directly  *)
(*                   after a line that ends in a backslash (also between continuation lines);  *)
(*   TrailComment    append a comment to a line that does not end in a backslash.              *)
(* Join is the documented reading of a file: a line ending in a backslash is joined with the    *)
(* next one; a comment runs to the end of the (joined) line; lines without words vanish; a      *)
(* line whose first word is a reserved connective or comparison continues the command before    *)
(* it (`load` excepted; a `load` command pulls in a second file, which is read by the same     *)
(* rules on its own - no command continues across the end of a file).  LayoutPreserved: Join(lines) = Cmds in every reachable layout - the    *)
(* documented reading itself is unambiguous under the stated side conditions (ASSUME).          *)
(* The harness builds every layout TLC reaches and compares house, run and the words handed     *)
(* to Builder.dispatch with the canonical layout (vf/families/layout.py).                       *)
EXTENDS Integers, Sequences, SequencesExt, FiniteSets, TLC, Json, IOUtils

CONSTANTS MaxActs,   \* number of layout actions applied to the canonical layout
          Emit       \* "all": print every layout reached (exhaustive search); "final": print the layout after
                     \* MaxActs actions (simulation); "none".  One JSON object per line, read by the harness

\* the abstract script arrives as JSON (words may contain quotes and #): {"cmds": [[word, ...], ...], "sub": [[word, ...], ...]}
\* "sub" (optional) is the abstract script of a second file that a `load` command of "cmds" pulls in
Input == JsonDeserialize(IOEnv.LAYOUT_INPUT)
InputSub == IF "sub" \in DOMAIN Input THEN Input.sub ELSE <<>>

Comparisons == {"==", "<", "<=", ">=", ">", "!="}
Connectives == {"to", "by", "with", "from", "per", "for", "cum", "qua", "via", "as", "at", "in", "of", "on",
                "re", "is", "if", "be", "into", "and", "not", "+-"}
Reserved == Connectives \cup Comparisons

\* side conditions under which the documented rule is unambiguous
WellFormed(cs) == \A i \in 1..Len(cs) : Len(cs[i]) > 0 /\ cs[i][1] \notin Reserved
ASSUME WellFormed(Input.cmds) /\ WellFormed(InputSub)

\* a physical line: kind "code" (words), "blank" or "comment"; ind = leading white space (0 none, 1 two spaces,
\* 2 six spaces, 3 a tab); bs = ends in a backslash; tc = carries a trailing comment
Code(w, ind, bs, tc) == [kind |-> "code", toks |-> w, ind |-> ind, bs |-> bs, tc |-> tc]
BlankLine == [kind |-> "blank", toks |-> <<>>, ind |-> 0, bs |-> FALSE, tc |-> FALSE]
CommentLine == [kind |-> "comment", toks |-> <<>>, ind |-> 0, bs |-> FALSE, tc |-> FALSE]

VARIABLES Cmds,      \* the abstract script: sequence of commands, a command is a non-empty sequence of words
                     \* (read once from the input; never changes)
          SubCmds,   \* the abstract script of the loaded file (empty: there is none)
          lines,     \* the physical lines of the file
          sub,       \* the physical lines of the loaded file
          n,         \* number of layout actions applied
          fin        \* the layout has been handed over (simulation only)
vars == <<Cmds, SubCmds, lines, sub, n, fin>>

Canonical(cs) == [i \in 1..Len(cs) |-> Code(cs[i], 0, FALSE, FALSE)]
Init == /\ Cmds = Input.cmds /\ SubCmds = InputSub
        /\ lines = Canonical(Cmds) /\ sub = Canonical(SubCmds) /\ n = 0 /\ fin = FALSE

\* ---- the layouts one action away from the layout ls of one file
ReplaceIn(ls, i, new) == SubSeq(ls, 1, i - 1) \o new \o SubSeq(ls, i + 1, Len(ls))
InsertIn(ls, i, l) == SubSeq(ls, 1, i - 1) \o <<l>> \o SubSeq(ls, i, Len(ls))
Indents(ls) == {[ls EXCEPT ![i].ind = k] : i \in 1..Len(ls), k \in 0..3} \ {ls}
SplitAt(ls, i, j, bs) == LET l == ls[i] IN
    ReplaceIn(ls, i, << Code(SubSeq(l.toks, 1, j), l.ind, bs, FALSE),
                        Code(SubSeq(l.toks, j + 1, Len(l.toks)), 0, l.bs, l.tc) >>)
Boundaries(ls) == {<<i, j>> \in (1..Len(ls)) \X (1..20) : ls[i].kind = "code" /\ j < Len(ls[i].toks)}
BackslashSplits(ls) == {SplitAt(ls, b[1], b[2], TRUE) : b \in Boundaries(ls)}
\* before a reserved connective; a load command cannot be continued
ConnectiveSplits(ls) == {SplitAt(ls, b[1], b[2], FALSE) :
                            b \in {c \in Boundaries(ls) : ls[c[1]].toks[c[2] + 1] \in Reserved /\ ls[c[1]].toks[1] # "load"}}
Separable(ls, i) == IF i = 1 THEN TRUE ELSE ~ls[i - 1].bs     \* a new line may be put before position i
Inserts(ls, l) == {InsertIn(ls, i, l) : i \in {k \in 1..(Len(ls) + 1) : Separable(ls, k)}}
TrailComments(ls) == {[ls EXCEPT ![i].tc = TRUE] : i \in {k \in 1..Len(ls) : ls[k].kind = "code" /\ ~ls[k].bs /\ ~ls[k].tc}}

Step == n < MaxActs /\ n' = n + 1 /\ UNCHANGED <<Cmds, SubCmds, fin>>
\* a layout action changes one of the two files
AnyIndent == Step /\ ((lines' \in Indents(lines) /\ UNCHANGED sub) \/ (sub' \in Indents(sub) /\ UNCHANGED lines))
AnySplitBackslash == Step /\ ((lines' \in BackslashSplits(lines) /\ UNCHANGED sub) \/ (sub' \in BackslashSplits(sub) /\ UNCHANGED lines))
AnySplitConnective == Step /\ ((lines' \in ConnectiveSplits(lines) /\ UNCHANGED sub) \/ (sub' \in ConnectiveSplits(sub) /\ UNCHANGED lines))
AnyInsertBlank == Step /\ ((lines' \in Inserts(lines, BlankLine) /\ UNCHANGED sub) \/ (sub' \in Inserts(sub, BlankLine) /\ UNCHANGED lines))
AnyInsertComment == Step /\ ((lines' \in Inserts(lines, CommentLine) /\ UNCHANGED sub) \/ (sub' \in Inserts(sub, CommentLine) /\ UNCHANGED lines))
AnyTrailComment == Step /\ ((lines' \in TrailComments(lines) /\ UNCHANGED sub) \/ (sub' \in TrailComments(sub) /\ UNCHANGED lines))
Finish == /\ Emit = "final" /\ n = MaxActs /\ ~fin
          /\ fin' = TRUE /\ UNCHANGED <<Cmds, SubCmds, lines, sub, n>>
          /\ PrintT(ToJson([n |-> n, lines |-> lines, sub |-> sub]))
Next == \/ AnyIndent \/ AnySplitBackslash \/ AnySplitConnective \/ AnyInsertBlank \/ AnyInsertComment \/ AnyTrailComment
        \/ Finish
Spec == Init /\ [][Next]_vars

\* ------------------------------------------------------------------ the documented reading
\* the file is read line by line (a left fold, so that long files need no deep recursion):
\*   cmds  the commands read so far;  cur  the words of the logical line being joined;
\*   cut   a comment has started on the joined line;  open  the previous physical line ended in a backslash
EndLine(cmds, w) ==
    IF w = <<>> THEN cmds
    ELSE IF w[1] \in Reserved /\ Len(cmds) > 0 /\ cmds[Len(cmds)][1] # "load"
         THEN [cmds EXCEPT ![Len(cmds)] = @ \o w]      \* continuation of the command before
         ELSE Append(cmds, w)
ReadLine(acc, l) ==
    LET w == IF acc.cut THEN acc.cur ELSE acc.cur \o l.toks
        c == acc.cut \/ l.tc \/ l.kind = "comment" IN
    IF l.bs THEN [cmds |-> acc.cmds, cur |-> w, cut |-> c, open |-> TRUE]
    ELSE [cmds |-> EndLine(acc.cmds, w), cur |-> <<>>, cut |-> FALSE, open |-> FALSE]
Join(ls) == LET r == FoldLeft(ReadLine, [cmds |-> <<>>, cur |-> <<>>, cut |-> FALSE, open |-> FALSE], ls) IN
            IF r.open THEN EndLine(r.cmds, r.cur) ELSE r.cmds      \* a backslash on the last line joins nothing

\* ------------------------------------------------------------------ properties
\* what the builder is handed when it reads the file: the commands of the file, those of the loaded file right after
\* the load command (a command never continues across the end of a file)
RECURSIVE SpliceFrom(_, _, _)
SpliceFrom(cs, ss, i) == IF i > Len(cs) THEN <<>>
                         ELSE IF cs[i][1] = "load" /\ ss # <<>> THEN <<cs[i]>> \o ss \o SubSeq(cs, i + 1, Len(cs))
                         ELSE <<cs[i]>> \o SpliceFrom(cs, ss, i + 1)
Splice(cs, ss) == SpliceFrom(cs, ss, 1)
Dispatched == Splice(Join(lines), Join(sub))

LinesOK(ls) == \A i \in 1..Len(ls) : ls[i].kind \in {"code", "blank", "comment"} /\ ls[i].ind \in 0..3
TypeOK == n \in 0..MaxActs /\ LinesOK(lines) /\ LinesOK(sub)
LayoutPreserved == Join(lines) = Cmds /\ Join(sub) = SubCmds /\ Dispatched = Splice(Cmds, SubCmds)
\* no word is lost, duplicated or reordered by a layout action
Flat(ls) == FoldLeft(LAMBDA acc, l : acc \o l.toks, <<>>, ls)
WordsKept == [][Flat(lines') = Flat(lines) /\ Flat(sub') = Flat(sub)]_vars
EmitLayout == Emit = "all" => PrintT(ToJson([n |-> n, lines |-> lines, sub |-> sub]))
=============================================================================
