------------------------------- MODULE Layout -------------------------------
(* Layout of a FloScript file (property C16).                                                   *)
(*                                                                                             *)
(* The abstract script is a sequence of commands, each a sequence of words (Cmds).  A layout    *)
(* is a sequence of physical lines.  Starting from the canonical layout (one command per line,  *)
(* no indentation) the layout actions are the transformations named by the property:            *)
(*   Indent          change the leading white space of a line (spaces or a tab);               *)
(*   SplitBackslash  break a line at any word boundary with a trailing backslash;              *)
(*   SplitConnective break a line before a reserved connective (continuation line);            *)
(*   InsertBlank / InsertComment  put an empty or a comment-only line anywhere except directly  *)
(*                   after a line that ends in a backslash (also between continuation lines);  *)
(*   TrailComment    append a comment to a line that does not end in a backslash.              *)
(* Join is the documented reading of a file: a line ending in a backslash is joined with the    *)
(* next one; a comment runs to the end of the (joined) line; lines without words vanish; a      *)
(* line whose first word is a reserved connective or comparison continues the command before    *)
(* it (`load` excepted).  LayoutPreserved: Join(lines) = Cmds in every reachable layout - the    *)
(* documented reading itself is unambiguous under the stated side conditions (ASSUME).          *)
(* The harness builds every layout TLC reaches and compares house, run and the words handed     *)
(* to Builder.dispatch with the canonical layout (vf/families/layout.py).                       *)
EXTENDS Integers, Sequences, FiniteSets, TLC, Json, IOUtils

CONSTANTS MaxActs,   \* number of layout actions applied to the canonical layout
          Emit       \* TRUE: print every layout reached (one JSON object per line) for the harness

\* the abstract script arrives as JSON (words may contain quotes and #): {"cmds": [[word, ...], ...]}
Input == JsonDeserialize(IOEnv.LAYOUT_INPUT)
Cmds == Input.cmds   \* sequence of commands; a command is a non-empty sequence of words

Comparisons == {"==", "<", "<=", ">=", ">", "!="}
Connectives == {"to", "by", "with", "from", "per", "for", "cum", "qua", "via", "as", "at", "in", "of", "on",
                "re", "is", "if", "be", "into", "and", "not", "+-"}
Reserved == Connectives \cup Comparisons

\* side conditions under which the documented rule is unambiguous
ASSUME \A i \in 1..Len(Cmds) : Len(Cmds[i]) > 0 /\ Cmds[i][1] \notin Reserved

\* a physical line: kind "code" (words), "blank" or "comment"; ind = leading white space (0 none, 1 two spaces,
\* 2 six spaces, 3 a tab); bs = ends in a backslash; tc = carries a trailing comment
Code(w, ind, bs, tc) == [kind |-> "code", toks |-> w, ind |-> ind, bs |-> bs, tc |-> tc]
BlankLine == [kind |-> "blank", toks |-> <<>>, ind |-> 0, bs |-> FALSE, tc |-> FALSE]
CommentLine == [kind |-> "comment", toks |-> <<>>, ind |-> 0, bs |-> FALSE, tc |-> FALSE]

VARIABLES lines, n
vars == <<lines, n>>

Canonical == [i \in 1..Len(Cmds) |-> Code(Cmds[i], 0, FALSE, FALSE)]
Init == lines = Canonical /\ n = 0

Replace(i, new) == SubSeq(lines, 1, i - 1) \o new \o SubSeq(lines, i + 1, Len(lines))
InsertAt(i, l) == SubSeq(lines, 1, i - 1) \o <<l>> \o SubSeq(lines, i, Len(lines))
Step == n < MaxActs /\ n' = n + 1

Indent(i, k) == /\ Step
                /\ lines[i].ind # k
                /\ lines' = [lines EXCEPT ![i].ind = k]

SplitBackslash(i, j) == LET l == lines[i] IN
    /\ Step
    /\ l.kind = "code" /\ j < Len(l.toks)
    /\ lines' = Replace(i, << Code(SubSeq(l.toks, 1, j), l.ind, TRUE, FALSE),
                              Code(SubSeq(l.toks, j + 1, Len(l.toks)), 0, l.bs, l.tc) >>)

SplitConnective(i, j) == LET l == lines[i] IN
    /\ Step
    /\ l.kind = "code" /\ j < Len(l.toks) /\ l.toks[j + 1] \in Reserved
    /\ l.toks[1] # "load"          \* a load command cannot be continued
    /\ lines' = Replace(i, << Code(SubSeq(l.toks, 1, j), l.ind, FALSE, FALSE),
                              Code(SubSeq(l.toks, j + 1, Len(l.toks)), 0, l.bs, l.tc) >>)

Separable(i) == IF i = 1 THEN TRUE ELSE ~lines[i - 1].bs     \* a new line may be put before position i
InsertBlank(i) == Step /\ Separable(i) /\ lines' = InsertAt(i, BlankLine)
InsertComment(i) == Step /\ Separable(i) /\ lines' = InsertAt(i, CommentLine)

TrailComment(i) == /\ Step
                   /\ lines[i].kind = "code" /\ ~lines[i].bs /\ ~lines[i].tc
                   /\ lines' = [lines EXCEPT ![i].tc = TRUE]

AnyIndent == \E i \in 1..Len(lines) : \E k \in 0..3 : Indent(i, k)
AnySplitBackslash == \E i \in 1..Len(lines) : \E j \in 1..Len(lines[i].toks) : SplitBackslash(i, j)
AnySplitConnective == \E i \in 1..Len(lines) : \E j \in 1..Len(lines[i].toks) : SplitConnective(i, j)
AnyInsertBlank == \E i \in 1..(Len(lines) + 1) : InsertBlank(i)
AnyInsertComment == \E i \in 1..(Len(lines) + 1) : InsertComment(i)
AnyTrailComment == \E i \in 1..Len(lines) : TrailComment(i)
Next == AnyIndent \/ AnySplitBackslash \/ AnySplitConnective \/ AnyInsertBlank \/ AnyInsertComment \/ AnyTrailComment
Spec == Init /\ [][Next]_vars

\* ------------------------------------------------------------------ the documented reading
\* words of the logical line that starts at physical line i, and the index of the physical line after it
RECURSIVE Logical(_, _, _)
Logical(ls, i, acc) ==
    LET l == ls[i]
        acc2 == IF acc.cut THEN acc ELSE [words |-> acc.words \o l.toks, cut |-> l.tc \/ l.kind = "comment"] IN
    IF l.bs /\ i < Len(ls) THEN Logical(ls, i + 1, acc2) ELSE [words |-> acc2.words, next |-> i + 1]

RECURSIVE JoinFrom(_, _, _)
JoinFrom(ls, i, cmds) ==
    IF i > Len(ls) THEN cmds
    ELSE LET g == Logical(ls, i, [words |-> <<>>, cut |-> FALSE])
             w == g.words IN
         IF w = <<>> THEN JoinFrom(ls, g.next, cmds)
         ELSE IF w[1] \in Reserved /\ Len(cmds) > 0 /\ cmds[Len(cmds)][1] # "load"
              THEN JoinFrom(ls, g.next, [cmds EXCEPT ![Len(cmds)] = @ \o w])
              ELSE JoinFrom(ls, g.next, Append(cmds, w))
Join(ls) == JoinFrom(ls, 1, <<>>)

\* ------------------------------------------------------------------ properties
TypeOK == /\ n \in 0..MaxActs
          /\ \A i \in 1..Len(lines) : lines[i].kind \in {"code", "blank", "comment"} /\ lines[i].ind \in 0..3
LayoutPreserved == Join(lines) = Cmds
\* no word is lost, duplicated or reordered by a layout action
RECURSIVE FlatFrom(_, _)
FlatFrom(ls, i) == IF i > Len(ls) THEN <<>> ELSE ls[i].toks \o FlatFrom(ls, i + 1)
WordsKept == [][FlatFrom(lines', 1) = FlatFrom(lines, 1)]_vars
EmitLayout == Emit => PrintT(ToJson([n |-> n, lines |-> lines]))
=============================================================================
