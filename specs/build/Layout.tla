------------------------------- MODULE Layout -------------------------------
(* Layout of a FloScript file (property C16).                                                   *)
(*                                                                                             *)
(* The abstract script is a sequence of commands, each a sequence of words (Cmds).  A layout    *)
(* is a sequence of physical lines.  Starting from the canonical layout (one command per line,  *)
(* no indentation) the layout actions are the transformations named by the property:            *)
(*   Indent          change the leading white space of a line (spaces or a tab);               *)
(*   SplitBackslash  break a line at any word boundary with a trailing backslash;              *)
(*   SplitConnective break a line before a reserved connective (continuation line);            *)
(*   InsertBlank / InsertComment  put an empty or a comment-only line anywhere except directly  *)
(*                   after a line that ends in a backslash (also between continuation lines);  *)
(*   TrailComment    append a comment to a line that does not end in a backslash.              *)
(* Join is the documented reading of a file: a line ending in a backslash is joined with the    *)
(* next one; a comment runs to the end of the (joined) line; lines without words vanish; a      *)
(* line whose first word is a reserved connective or comparison continues the command before    *)
(* it (`load` excepted).  LayoutPreserved: Join(lines) = Cmds in every reachable layout - the    *)
(* documented reading itself is unambiguous under the stated side conditions (ASSUME).          *)
(* The harness builds every layout TLC reaches and compares house, run and the words handed     *)
(* to Builder.dispatch with the canonical layout (vf/families/layout.py).                       *)
EXTENDS Integers, Sequences, SequencesExt, FiniteSets, TLC, Json, IOUtils

CONSTANTS MaxActs,   \* number of layout actions applied to the canonical layout
          Emit       \* "all": print every layout reached (exhaustive search); "final": print the layout after
                     \* MaxActs actions (simulation); "none".  One JSON object per line, read by the harness

\* the abstract script arrives as JSON (words may contain quotes and #): {"cmds": [[word, ...], ...]}
Input == JsonDeserialize(IOEnv.LAYOUT_INPUT)

Comparisons == {"==", "<", "<=", ">=", ">", "!="}
Connectives == {"to", "by", "with", "from", "per", "for", "cum", "qua", "via", "as", "at", "in", "of", "on",
                "re", "is", "if", "be", "into", "and", "not", "+-"}
Reserved == Connectives \cup Comparisons

\* side conditions under which the documented rule is unambiguous
WellFormed(cs) == \A i \in 1..Len(cs) : Len(cs[i]) > 0 /\ cs[i][1] \notin Reserved
ASSUME WellFormed(Input.cmds)

\* a physical line: kind "code" (words), "blank" or "comment"; ind = leading white space (0 none, 1 two spaces,
\* 2 six spaces, 3 a tab); bs = ends in a backslash; tc = carries a trailing comment
Code(w, ind, bs, tc) == [kind |-> "code", toks |-> w, ind |-> ind, bs |-> bs, tc |-> tc]
BlankLine == [kind |-> "blank", toks |-> <<>>, ind |-> 0, bs |-> FALSE, tc |-> FALSE]
CommentLine == [kind |-> "comment", toks |-> <<>>, ind |-> 0, bs |-> FALSE, tc |-> FALSE]

VARIABLES Cmds,      \* the abstract script: sequence of commands, a command is a non-empty sequence of words
                     \* (read once from the input; never changes)
          lines,     \* the physical lines
          n,         \* number of layout actions applied
          fin        \* the layout has been handed over (simulation only)
vars == <<Cmds, lines, n, fin>>

Canonical(cs) == [i \in 1..Len(cs) |-> Code(cs[i], 0, FALSE, FALSE)]
Init == Cmds = Input.cmds /\ lines = Canonical(Cmds) /\ n = 0 /\ fin = FALSE

Replace(i, new) == SubSeq(lines, 1, i - 1) \o new \o SubSeq(lines, i + 1, Len(lines))
InsertLine(i, l) == SubSeq(lines, 1, i - 1) \o <<l>> \o SubSeq(lines, i, Len(lines))
Step == n < MaxActs /\ n' = n + 1 /\ UNCHANGED <<Cmds, fin>>

Indent(i, k) == /\ Step
                /\ lines[i].ind # k
                /\ lines' = [lines EXCEPT ![i].ind = k]

SplitBackslash(i, j) == LET l == lines[i] IN
    /\ Step
    /\ l.kind = "code" /\ j < Len(l.toks)
    /\ lines' = Replace(i, << Code(SubSeq(l.toks, 1, j), l.ind, TRUE, FALSE),
                              Code(SubSeq(l.toks, j + 1, Len(l.toks)), 0, l.bs, l.tc) >>)

SplitConnective(i, j) == LET l == lines[i] IN
    /\ Step
    /\ l.kind = "code" /\ j < Len(l.toks) /\ l.toks[j + 1] \in Reserved
    /\ l.toks[1] # "load"          \* a load command cannot be continued
    /\ lines' = Replace(i, << Code(SubSeq(l.toks, 1, j), l.ind, FALSE, FALSE),
                              Code(SubSeq(l.toks, j + 1, Len(l.toks)), 0, l.bs, l.tc) >>)

Separable(i) == IF i = 1 THEN TRUE ELSE ~lines[i - 1].bs     \* a new line may be put before position i
InsertBlank(i) == Step /\ Separable(i) /\ lines' = InsertLine(i, BlankLine)
InsertComment(i) == Step /\ Separable(i) /\ lines' = InsertLine(i, CommentLine)

TrailComment(i) == /\ Step
                   /\ lines[i].kind = "code" /\ ~lines[i].bs /\ ~lines[i].tc
                   /\ lines' = [lines EXCEPT ![i].tc = TRUE]

AnyIndent == \E i \in 1..Len(lines) : \E k \in 0..3 : Indent(i, k)
AnySplitBackslash == \E i \in 1..Len(lines) : \E j \in 1..Len(lines[i].toks) : SplitBackslash(i, j)
AnySplitConnective == \E i \in 1..Len(lines) : \E j \in 1..Len(lines[i].toks) : SplitConnective(i, j)
AnyInsertBlank == \E i \in 1..(Len(lines) + 1) : InsertBlank(i)
AnyInsertComment == \E i \in 1..(Len(lines) + 1) : InsertComment(i)
AnyTrailComment == \E i \in 1..Len(lines) : TrailComment(i)
Finish == /\ Emit = "final" /\ n = MaxActs /\ ~fin
          /\ fin' = TRUE /\ UNCHANGED <<Cmds, lines, n>>
          /\ PrintT(ToJson([n |-> n, lines |-> lines]))
Next == \/ AnyIndent \/ AnySplitBackslash \/ AnySplitConnective \/ AnyInsertBlank \/ AnyInsertComment \/ AnyTrailComment
        \/ Finish
Spec == Init /\ [][Next]_vars

\* ------------------------------------------------------------------ the documented reading
\* the file is read line by line (a left fold, so that long files need no deep recursion):
\*   cmds  the commands read so far;  cur  the words of the logical line being joined;
\*   cut   a comment has started on the joined line;  open  the previous physical line ended in a backslash
EndLine(cmds, w) ==
    IF w = <<>> THEN cmds
    ELSE IF w[1] \in Reserved /\ Len(cmds) > 0 /\ cmds[Len(cmds)][1] # "load"
         THEN [cmds EXCEPT ![Len(cmds)] = @ \o w]      \* continuation of the command before
         ELSE Append(cmds, w)
ReadLine(acc, l) ==
    LET w == IF acc.cut THEN acc.cur ELSE acc.cur \o l.toks
        c == acc.cut \/ l.tc \/ l.kind = "comment" IN
    IF l.bs THEN [cmds |-> acc.cmds, cur |-> w, cut |-> c, open |-> TRUE]
    ELSE [cmds |-> EndLine(acc.cmds, w), cur |-> <<>>, cut |-> FALSE, open |-> FALSE]
Join(ls) == LET r == FoldLeft(ReadLine, [cmds |-> <<>>, cur |-> <<>>, cut |-> FALSE, open |-> FALSE], ls) IN
            IF r.open THEN EndLine(r.cmds, r.cur) ELSE r.cmds      \* a backslash on the last line joins nothing

\* ------------------------------------------------------------------ properties
TypeOK == /\ n \in 0..MaxActs
          /\ \A i \in 1..Len(lines) : lines[i].kind \in {"code", "blank", "comment"} /\ lines[i].ind \in 0..3
LayoutPreserved == Join(lines) = Cmds
\* no word is lost, duplicated or reordered by a layout action
Flat(ls) == FoldLeft(LAMBDA acc, l : acc \o l.toks, <<>>, ls)
WordsKept == [][Flat(lines') = Flat(lines)]_vars
EmitLayout == Emit = "all" => PrintT(ToJson([n |-> n, lines |-> lines]))
=============================================================================
