------------------------------- MODULE Clauses -------------------------------
(* Optional clauses of a FloScript command (property C15).                                      *)
(*                                                                                             *)
(* For every verb whose docstring in ioflo/base/building.py lists its optional clauses as a     *)
(* set -- framer, frame, do, logger, log, server, aux (its `if` clause is last), rear, raze,    *)
(* bid and the `in frame` / `by` clauses of an `is updated` need -- this module holds the       *)
(* clause table: connective, shape of the arguments (from the docstrings), and concrete         *)
(* argument words, distinct per clause.                                                         *)
(*                                                                                             *)
(* State: the set of clauses still to be written (rest), the record parsed so far (rec) and     *)
(* the words written so far (toks).  Take(c) writes clause c.  Two things are checked:          *)
(*   Confluent  - the record at the end depends only on the SET of clauses taken;               *)
(*   ReadBack   - reading the words left to right with the documented shapes of the clause      *)
(*                arguments (Read) gives back exactly the clauses that were written, in every   *)
(*                order: no clause absorbs the words of the clause that follows it.             *)
(* Where the documented grammar itself cannot tell two readings apart (a source without a       *)
(* `fields in` part directly followed by an `in` clause: `server s for p in front` is, by the    *)
(* docstring's own `[(value, fields) in] indirect`, also the source "field p in share front";   *)
(* no reader can tell the two apart) the argument words below avoid the ambiguity; this is the  *)
(* stated side condition of the check.  An optional name that is left out is NOT such a case:   *)
(* the words that end it are the reserved words and the connectives of the verb's own clauses   *)
(* (Stops), so relations with the name left out (`of actor`, `of frame`, `of framer`) and       *)
(* `of me` are among the wordings of every clause that takes an indirect address.               *)
(* The harness prints every terminal state as a command inside a minimal script, builds it with *)
(* the real Builder and compares the projected structure with rec (vf/families/clauses.py).     *)
EXTENDS Integers, Sequences, FiniteSets, FiniteSetsExt, TLC, Json

CONSTANTS Verbs,       \* the verbs whose clause sets are explored
          MaxTake,     \* at most this many clauses in one command
          Emit         \* TRUE: print every finished command (one JSON object per line) for the harness

Comparisons == {"==", "<", "<=", ">=", ">", "!="}
Connectives == {"to", "by", "with", "from", "per", "for", "cum", "qua", "via", "as", "at", "in", "of", "on",
                "re", "is", "if", "be", "into", "and", "not", "+-"}
Reserved == Connectives \cup Comparisons

\* ---- shapes of clause arguments (kind):
\*  "fixed"    exactly n words
\*  "flag"     no word
\*  "data"     direct data: value | field value [field value ...]
\*  "indirect" path [of relation [name] ...]
\*  "source"   [field ... in] indirect
\*  "parts"    name [part ...]
\*  "place"    frame [name]
\*  "needs"    everything up to the end of the command (the trailing `if` of aux)
\* a variant is one concrete wording of the arguments; bad = the docstring does not allow that value
V(a) == [args |-> a, bad |-> FALSE]
Bad(a) == [args |-> a, bad |-> TRUE]
C(conn, kind, n, vars) == [conn |-> conn, kind |-> kind, n |-> n, vars |-> vars, last |-> FALSE]
L(conn, kind, n, vars) == [conn |-> conn, kind |-> kind, n |-> n, vars |-> vars, last |-> TRUE]

Table ==
  [framer |->
     [be    |-> C("be", "fixed", 1, <<V(<<"active">>), V(<<"aux">>), Bad(<<"bogus">>)>>),
      at    |-> C("at", "fixed", 1, <<V(<<"0.5">>)>>),
      in    |-> C("in", "fixed", 1, <<V(<<"front">>), Bad(<<"nowhere">>)>>),
      first |-> C("first", "fixed", 1, <<V(<<"fb">>)>>),
      via   |-> C("via", "indirect", 0, <<V(<<".nd.ft">>), V(<<"nd.rel", "of", "framer", "ft">>), V(<<"nd.rel", "of", "framer">>),
                                          V(<<"nd.rel", "of", "frame">>)>>)],
   frame |->
     [in    |-> C("in", "fixed", 1, <<V(<<"fa">>)>>),
      via   |-> C("via", "indirect", 0, <<V(<<".nd.fb">>), V(<<"nd.rel", "of", "me">>), V(<<"nd.rel", "of", "frame">>),
                                          V(<<"nd.rel", "of", "framer">>)>>)],
   do |->
     [as    |-> C("as", "parts", 0, <<V(<<"nm", "part">>)>>),
      at    |-> C("at", "fixed", 1, <<V(<<"enter">>), Bad(<<"nowhen">>)>>),
      via   |-> C("via", "indirect", 0, <<V(<<".nd.do">>), V(<<"nd.rel", "of", "me">>), V(<<"nd.rel", "of", "actor">>),
                                          V(<<"nd.rel", "of", "frame">>), V(<<"nd.rel", "of", "framer">>),
                                          V(<<"nd.rel", "of", "actor", "of", "frame">>)>>),
      with  |-> C("with", "data", 0, <<V(<<"wa", "1", "wb", "\"two\"">>), V(<<"7">>)>>),
      from  |-> C("from", "source", 0, <<V(<<"fa1", "in", ".src.from">>), V(<<".src.from">>), V(<<"src.rf", "of", "actor">>),
                                         V(<<"fa1", "in", "src.rf", "of", "frame">>)>>),
      per   |-> C("per", "data", 0, <<V(<<"pa", ".io.pa">>)>>),
      for   |-> C("for", "source", 0, <<V(<<"fo", "in", ".src.for">>), V(<<".src.for">>), V(<<"src.ro", "of", "framer">>),
                                       V(<<"fo", "in", "src.ro", "of", "actor">>)>>),
      cum   |-> C("cum", "data", 0, <<V(<<"ca", "3">>)>>),
      qua   |-> C("qua", "source", 0, <<V(<<"qa", "in", ".src.qua">>), V(<<".src.qua">>), V(<<"src.rq", "of", "frame">>),
                                       V(<<"qa", "in", "src.rq", "of", "me">>)>>)],
   logger |->
     [to    |-> C("to", "fixed", 1, <<V(<<"LOGDIR">>)>>),
      at    |-> C("at", "fixed", 1, <<V(<<"0.25">>)>>),
      be    |-> C("be", "fixed", 1, <<V(<<"inactive">>), Bad(<<"aux">>)>>),
      in    |-> C("in", "fixed", 1, <<V(<<"back">>), Bad(<<"nowhere">>)>>),
      flush |-> C("flush", "fixed", 1, <<V(<<"2.0">>)>>),
      keep  |-> C("keep", "fixed", 1, <<V(<<"3">>)>>),
      cycle |-> C("cycle", "fixed", 1, <<V(<<"60.0">>)>>),
      size  |-> C("size", "fixed", 1, <<V(<<"2048">>)>>),
      reuse |-> C("reuse", "flag", 0, <<V(<<>>)>>)],
   log |->
     [to    |-> C("to", "fixed", 1, <<V(<<"fileA">>)>>),
      as    |-> C("as", "fixed", 1, <<V(<<"binary">>), Bad(<<"ascii">>)>>),
      on    |-> C("on", "fixed", 1, <<V(<<"update">>), Bad(<<"sometimes">>)>>)],
   server |->
     [at    |-> C("at", "fixed", 1, <<V(<<"0.5">>)>>),
      be    |-> C("be", "fixed", 1, <<V(<<"inactive">>), Bad(<<"aux">>)>>),
      rx    |-> C("rx", "fixed", 1, <<V(<<"localhost:45001">>)>>),
      tx    |-> C("tx", "fixed", 1, <<V(<<"localhost:45002">>), V(<<"localhost">>)>>),
      in    |-> C("in", "fixed", 1, <<V(<<"back">>), Bad(<<"nowhere">>)>>),
      to    |-> C("to", "fixed", 1, <<V(<<"LOGDIR">>)>>),
      per   |-> C("per", "data", 0, <<V(<<"pa", "1">>), V(<<"9">>)>>),
      for   |-> C("for", "source", 0, <<V(<<"fo", "in", ".src.srv">>)>>)],
   aux |->
     [as    |-> C("as", "fixed", 1, <<V(<<"ctag">>), V(<<"mine">>)>>),
      via   |-> C("via", "indirect", 0, <<V(<<".nd.aux">>), V(<<"nd.rel", "of", "me">>), V(<<"nd.rel", "of", "frame">>),
                                          V(<<"nd.rel", "of", "framer">>)>>),
      if    |-> L("if", "needs", 0, <<V(<<".a.b", "==", "1">>), V(<<"not", ".a.b", "and", ".a.c", ">=", "2">>)>>)],
   rear |->
     [as    |-> C("as", "fixed", 1, <<V(<<"mine">>), Bad(<<"ctag">>)>>),
      be    |-> C("be", "fixed", 1, <<V(<<"aux">>), Bad(<<"active">>)>>),
      in    |-> C("in", "place", 0, <<V(<<"frame", "fa">>)>>)],
   raze |->
     [in    |-> C("in", "place", 0, <<V(<<"frame", "fa">>), V(<<"frame">>)>>)],
   bid |->
     [at    |-> C("at", "fixed", 1, <<V(<<"0.5">>)>>)],
   need |->
     [in    |-> C("in", "place", 0, <<V(<<"frame", "fa">>), V(<<"frame">>)>>),
      by    |-> C("by", "fixed", 1, <<V(<<"mk">>)>>)]]

\* words before the clauses, and alternative endings after them (a following need)
Heads == [framer |-> <<"framer", "ft">>, frame |-> <<"frame", "fb">>, do |-> <<"do", "vf", "clause">>,
         logger |-> <<"logger", "lg">>, log |-> <<"log", "lga">>, server |-> <<"server", "sv">>,
         aux |-> <<"aux", "orig">>, rear |-> <<"rear", "orig">>, raze |-> <<"raze", "all">>,
         bid |-> <<"bid", "stop", "me">>, need |-> <<"go", "fa", "if", ".a.b", "is", "updated">>]
VARIABLES verb,      \* the verb of this command (fixed at Init)
          chosen,    \* clauses of this command (fixed at Init)
          variant,   \* wording chosen per clause (fixed at Init)
          tail,      \* words after the clauses (fixed at Init)
          rest,      \* clauses still to be written
          rec,       \* parsed record: clause -> argument words
          toks,      \* the command written so far
          out        \* "" while writing; once closed: what the docstrings promise ("built" | "ParseError")
vars == <<verb, chosen, variant, tail, rest, rec, toks, out>>

TailsOf(v) == IF v = "need" THEN {<<>>, <<"and", ".a.c", "==", "1">>} ELSE {<<>>}
\* clauses without which the docstring's form is incomplete
Required == IF verb = "rear" THEN {"in"} ELSE {}

T == Table[verb]
Ids == DOMAIN T
ConnOf(c) == T[c].conn
Conns == {ConnOf(c) : c \in Ids}
IdOfConn(w) == CHOOSE c \in Ids : ConnOf(c) = w
Stops == Reserved \cup Conns        \* words that end a list-shaped clause argument

Args(c) == T[c].vars[variant[c]].args
IsBad(c) == T[c].vars[variant[c]].bad

Empty == [c \in {} |-> <<>>]
\* at most one clause per command in a wording other than the first one
Variants(S) == LET base == [c \in S |-> 1] IN
    {base} \cup UNION {{[base EXCEPT ![c] = k] : k \in 2..Len(T[c].vars)} : c \in S}

Init == /\ verb \in Verbs
        /\ chosen \in {S \in SUBSET Ids : Cardinality(S) <= MaxTake}
        /\ variant \in Variants(chosen)
        /\ tail \in TailsOf(verb)
        /\ rest = chosen
        /\ rec = Empty
        /\ toks = Heads[verb]
        /\ out = ""

Take(c) == /\ c \in rest
           /\ T[c].last => rest = {c}
           /\ rest' = rest \ {c}
           /\ rec' = [d \in DOMAIN rec \cup {c} |-> IF d = c THEN Args(c) ELSE rec[d]]
           /\ toks' = toks \o <<ConnOf(c)>> \o Args(c)
           /\ UNCHANGED <<verb, chosen, variant, tail, out>>

\* what the docstrings promise for the finished command
Outcome == IF (\E c \in chosen : IsBad(c)) \/ ~(Required \subseteq chosen) THEN "ParseError" ELSE "built"
Close == /\ rest = {} /\ out = ""
         /\ toks' = toks \o tail
         /\ out' = Outcome
         /\ UNCHANGED <<verb, chosen, variant, tail, rest, rec>>
         /\ Emit => PrintT(ToJson([verb |-> verb, cmd |-> toks', out |-> out', rec |-> rec, variant |-> variant,
                                   clauses |-> [c \in chosen |-> T[c].kind]]))

TakeAny == \E c \in Ids : out = "" /\ Take(c)
Next == TakeAny \/ Close
Spec == Init /\ [][Next]_vars

\* number of finished commands the exploration must print (counted from the table, independently of the search):
\* per verb and clause set: wordings x endings x orders (a `last` clause has its place fixed)
RECURSIVE Fact(_)
Fact(k) == IF k <= 1 THEN 1 ELSE k * Fact(k - 1)
Sum(S, f(_)) == FoldSet(LAMBDA x, acc : acc + f(x), 0, S)
WordingsOf(v, S) == 1 + Sum(S, LAMBDA c : Len(Table[v][c].vars) - 1)
OrdersOf(v, S) == Fact(Cardinality({c \in S : ~Table[v][c].last}))
ExpectedCommands == Sum(Verbs, LAMBDA v : Sum({S \in SUBSET (DOMAIN Table[v]) : Cardinality(S) <= MaxTake},
                                               LAMBDA S : WordingsOf(v, S) * Cardinality(TailsOf(v)) * OrdersOf(v, S)))
ASSUME Emit => PrintT(<<"EXPECTED", ExpectedCommands>>)

\* ------------------------------------------------------------------ the documented reading
\* index just after the words of a list-shaped argument starting at i
RECURSIVE UntilStop(_, _)
UntilStop(q, i) == IF i > Len(q) \/ q[i] \in Stops THEN i ELSE UntilStop(q, i + 1)

\* path [of relation [name]] ... ; an optional name is any word that is not a stop word
RECURSIVE AfterRelations(_, _)
AfterRelations(q, i) ==
    IF i + 1 <= Len(q) /\ q[i] = "of"
    THEN LET r == q[i + 1] IN
         IF r \in {"framer", "frame", "actor"} /\ i + 2 <= Len(q) /\ q[i + 2] \notin Stops
         THEN AfterRelations(q, i + 3)
         ELSE AfterRelations(q, i + 2)
    ELSE i
AfterIndirect(q, i) == AfterRelations(q, i + 1)

\* [field ... in] indirect : the field list is there iff an `in` comes before any other stop word
RECURSIVE FirstStopOrIn(_, _)
FirstStopOrIn(q, i) == IF i > Len(q) THEN i
                       ELSE IF q[i] = "in" \/ q[i] \in (Stops \ {"in"}) THEN i ELSE FirstStopOrIn(q, i + 1)
AfterSource(q, i) == LET k == FirstStopOrIn(q, i) IN
    IF k <= Len(q) /\ q[k] = "in" /\ k > i THEN AfterIndirect(q, k + 1) ELSE AfterIndirect(q, i)

AfterPlace(q, i) == IF i + 1 <= Len(q) /\ q[i + 1] \notin Stops THEN i + 2 ELSE i + 1

After(c, q, i) == LET k == T[c].kind IN
    CASE k = "fixed" -> i + T[c].n
      [] k = "flag" -> i
      [] k = "data" -> UntilStop(q, i)
      [] k = "parts" -> UntilStop(q, i)
      [] k = "indirect" -> AfterIndirect(q, i)
      [] k = "source" -> AfterSource(q, i)
      [] k = "place" -> AfterPlace(q, i)
      [] k = "needs" -> Len(q) + 1

\* Read(q) = the record a reader following the docstrings gets from the words q ("?" marks a word that is no
\* connective of the verb where one is expected)
RECURSIVE ReadFrom(_, _, _)
ReadFrom(q, i, acc) ==
    IF i > Len(q) THEN acc
    ELSE IF q[i] \notin Conns THEN [d \in DOMAIN acc \cup {"?"} |-> IF d = "?" THEN SubSeq(q, i, Len(q)) ELSE acc[d]]
    ELSE LET c == IdOfConn(q[i])
             e == After(c, q, i + 1)
             e2 == IF e > Len(q) + 1 THEN Len(q) + 1 ELSE e IN
         ReadFrom(q, e2, [d \in DOMAIN acc \cup {c} |-> IF d = c THEN SubSeq(q, i + 1, e2 - 1) ELSE acc[d]])
Read(q) == ReadFrom(q, 1, Empty)

\* ------------------------------------------------------------------ properties
TypeOK == /\ rest \subseteq chosen
          /\ DOMAIN rec = chosen \ rest
Written == SubSeq(toks, Len(Heads[verb]) + 1, Len(toks))
ReadBack == LET r == Read(Written) IN
    IF out = "" \/ tail = <<>> THEN r = rec
    ELSE r = [d \in DOMAIN rec \cup {"?"} |-> IF d = "?" THEN tail ELSE rec[d]]
\* the final record is a function of the set of clauses (and their wordings) alone
Final == [c \in chosen |-> Args(c)]
Confluent == rest = {} => rec = Final
Closed == out # "" => toks = Heads[verb] \o Written /\ rest = {}
\* taking a clause never changes what was recorded for the others
Stable == [][\A c \in DOMAIN rec : rec'[c] = rec[c]]_vars
=============================================================================
