SPECIFICATION LiveSpec
CONSTANTS
  MaxFrames = 4
  Emit = FALSE
PROPERTY Termination
CHECK_DEADLOCK FALSE
