\* Reference configuration = quick tier of vf/families/paths.py; TABLE_OUT (table file) comes from the environment.
SPECIFICATION Spec
CONSTANTS
  FIs = {"none", "rel"}
  OIs = {"none", "rel"}
  NIs = {"none", "rel", "me"}
  CIs = {"none", "rel", "me", "abs"}
  SOs = {"none", "rel"}
  SIs = {"none", "rel", "me"}
  AIs = {"none", "rel", "me", "abs", "framer", "frame"}
  AuxModes = {FALSE, TRUE}
  Fresh = "zz"
INVARIANT Equivariant
INVARIANT BothClones
INVARIANT AbsoluteIndependent
INVARIANT FreshUnused
INVARIANT WellFormed
INVARIANT ThroughNames
CHECK_DEADLOCK FALSE
