---------------------------- MODULE ResolveClones ----------------------------
(* Resolution of clone records (property C14, companion of Resolve.tla).                        *)
(*                                                                                             *)
(* A script declares moot framers 1..nm; the frame of moot m holds `aux u as mine` for every    *)
(* u in uses[m] (possibly m itself), and an active framer holds `aux r as mine` for every r in  *)
(* root.  Before links are resolved the builder turns every such record into a clone of the     *)
(* named moot framer; a clone carries copies of the records of its original and is therefore    *)
(* presolved in turn.  A framer is identified here by its lineage: the sequence of originals it *)
(* was cloned from, starting at the active framer (the empty lineage).  Presolve(L) makes the   *)
(* clones of one framer; when a record names an original that is already in the lineage the     *)
(* cloning would never end and must be reported (ResolveError, Builder.build returns False).   *)
(*                                                                                             *)
(* TLC checks, for every uses-graph and root set on up to MaxMoots moots:                       *)
(*   Termination (under weak fairness)  the procedure ends in "resolved" or "error";            *)
(*   Sound / Complete   "resolved" exactly when no cycle of uses is reachable from root, and    *)
(*                      then the number of clones made is the number of uses-paths from root.   *)
(* Every graph is printed with its verdict; the harness builds the script in a watched child.   *)
EXTENDS Integers, Sequences, FiniteSets, TLC, Json

CONSTANTS MaxMoots, Emit

VARIABLES nm,       \* number of moot framers
          uses,     \* uses[m] \subseteq 1..nm : the moots cloned inside moot m
          root,     \* the moots cloned inside the active framer
          todo,     \* lineages of the framers still to presolve
          made,     \* clones made so far
          result    \* "running" | "resolved" | "error"
vars == <<nm, uses, root, todo, made, result>>

Moots == 1..nm
Range(q) == {q[i] : i \in 1..Len(q)}
Records(L) == IF L = <<>> THEN root ELSE uses[L[Len(L)]]     \* the clone records a framer carries

Init == /\ nm \in 1..MaxMoots
        /\ uses \in [1..nm -> SUBSET (1..nm)]
        /\ root \in SUBSET (1..nm)
        /\ todo = {<<>>} /\ made = 0 /\ result = "running"

Presolve(L) == /\ result = "running" /\ L \in todo
               /\ Records(L) \cap Range(L) = {}
               /\ todo' = (todo \ {L}) \cup {Append(L, m) : m \in Records(L)}
               /\ made' = made + Cardinality(Records(L))
               /\ UNCHANGED <<nm, uses, root, result>>

\* a record names an original the framer itself descends from
Fail(L) == /\ result = "running" /\ L \in todo
           /\ Records(L) \cap Range(L) # {}
           /\ result' = "error"
           /\ UNCHANGED <<nm, uses, root, todo, made>>

Finish == /\ result = "running" /\ todo = {}
          /\ result' = "resolved"
          /\ UNCHANGED <<nm, uses, root, todo, made>>

AnyPresolve == \E L \in todo : Presolve(L)
AnyFail == \E L \in todo : Fail(L)
Next == AnyPresolve \/ AnyFail \/ Finish
Spec == Init /\ [][Next]_vars
LiveSpec == Spec /\ WF_vars(Next)

\* ------------------------------------------------------------------ properties
RECURSIVE Reach(_, _)
Reach(S, k) == IF k = 0 THEN S ELSE Reach(S \cup UNION {uses[m] : m \in S}, k - 1)
Reachable == Reach(root, nm)                         \* moots cloned directly or indirectly by the active framer
RECURSIVE Below(_, _)
Below(m, k) == IF k = 0 THEN {} ELSE uses[m] \cup UNION {Below(u, k - 1) : u \in uses[m]}
OnCycle(m) == m \in Below(m, nm)
Cyclic == \E m \in Reachable : OnCycle(m)
RECURSIVE Paths(_, _)
Paths(S, k) == IF k = 0 \/ S = {} THEN 0
               ELSE LET m == CHOOSE x \in S : TRUE IN 1 + Paths(uses[m], k - 1) + Paths(S \ {m}, k)

TypeOK == /\ made \in Nat /\ result \in {"running", "resolved", "error"}
          /\ \A L \in todo : Len(L) <= nm /\ Cardinality(Range(L)) = Len(L)
Sound == result = "resolved" => ~Cyclic /\ made = Paths(root, nm + 1)
Complete == result = "error" => Cyclic
Termination == <>(result # "running")
Kind == IF ~Cyclic THEN "acyclic" ELSE IF \E m \in Reachable : m \in uses[m] THEN "self" ELSE "mutual"
Verdict == (Emit /\ result # "running") =>
    PrintT(ToJson([nm |-> nm, uses |-> [m \in 1..nm |-> [u \in 1..nm |-> u \in uses[m]]], root |-> [u \in 1..nm |-> u \in root],
                   result |-> result, clones |-> IF result = "resolved" THEN made ELSE 0, kind |-> Kind,
                   unreachable_cycle |-> (~Cyclic /\ \E m \in 1..nm : OnCycle(m))]))
=============================================================================
