\* default configuration (the family module generates its cfgs from this shape with other constants)
SPECIFICATION Spec
CONSTANTS
  Segs = {"a", "value"}
  MaxDepth = 3
  MaxEntries = 4
  Ids = {1, 2}
INVARIANT TypeOK
INVARIANT PrefixClosed
INVARIANT NamesArePaths
INVARIANT VariantsAgree
PROPERTY LookupIsLastPlaced
PROPERTY RejectedUnchanged
PROPERTY KindsStable
CHECK_DEADLOCK FALSE
