\* default configuration (the family module generates its cfgs from this shape with other constants)
SPECIFICATION Spec
CONSTANTS
  Names = {"value", "a"}
  BadNames = {"_x", "1a", ""}
  Vals0 = {0, 1}
  MaxTime = 2
  MaxDeck = 1
INVARIANT TypeOK
INVARIANT PublicIdentifiersOnly
INVARIANT StampNotAhead
INVARIANT NoNoneInDeck
PROPERTY StampRules
PROPERTY ChangeKeepsStamp
PROPERTY OnlyStampersStamp
PROPERTY UpdateStamps
PROPERTY CreateNeverOverwrites
PROPERTY FieldOrder
PROPERTY RejectedUnchanged
PROPERTY DeckFifo
PROPERTY GulpIgnoresNone
PROPERTY SpewNoneIffEmpty
CHECK_DEADLOCK FALSE
