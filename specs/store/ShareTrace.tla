------------------------------ MODULE ShareTrace ------------------------------
(* Binding B for Share.tla: an execution recorded from a real Share (with its Store) is a       *)
(* sequence of events                                                                          *)
(*   {"ev": operation, arguments (k, v, k1, v1, k2, v2, dt), "res": {"t", "v"},                  *)
(*    "keys": [...], "vals": [...], "stamp", "attached", "now", "deck": [...]}                   *)
(* whose state part is the projection of the real objects after the call (None is -1).  The    *)
(* first event is the header {"ev": "Init", "attached": bool}.  TLC decides whether the         *)
(* recorded execution is a behaviour of Share.                                                  *)
EXTENDS Share, TraceBatch

VARIABLES tid, l
tvars == <<vars, tid, l>>

Ev == EvAt(tid, l)

TraceInit == /\ tid \in 1..NTraces /\ l = 2
             /\ keys = <<>> /\ val = <<>> /\ stamp = None /\ deck = <<>> /\ now = 0
             /\ attached = EvAt(tid, 1).attached

\* the share observed after the call must be exactly what the specification's action produces
Logged == /\ keys' = Ev.keys
          /\ val' = [k \in Range(Ev.keys) |-> Ev.vals[IndexOf(Ev.keys, k)]]
          /\ stamp' = Ev.stamp /\ attached' = Ev.attached /\ now' = Ev.now /\ deck' = Ev.deck
Consume(name) == l <= TraceLen(tid) /\ Ev.ev = name /\ l' = l + 1 /\ UNCHANGED tid

TraceNext ==
    \/ Consume("SetValue") /\ SetValue(Ev.v, Ev.res) /\ Logged
    \/ Consume("GetValue") /\ GetValue(Ev.res) /\ Logged
    \/ Consume("Update1") /\ Update1(Ev.k, Ev.v, Ev.res) /\ Logged
    \/ Consume("Change1") /\ Change1(Ev.k, Ev.v, Ev.res) /\ Logged
    \/ Consume("Create1") /\ Create1(Ev.k, Ev.v, Ev.res) /\ Logged
    \/ Consume("Update2") /\ Update2(Ev.k1, Ev.v1, Ev.k2, Ev.v2, Ev.res) /\ Logged
    \/ Consume("Change2") /\ Change2(Ev.k1, Ev.v1, Ev.k2, Ev.v2, Ev.res) /\ Logged
    \/ Consume("Create2") /\ Create2(Ev.k1, Ev.v1, Ev.k2, Ev.v2, Ev.res) /\ Logged
    \/ Consume("StampNow") /\ StampNow(Ev.res) /\ Logged
    \/ Consume("SetItem") /\ SetItem(Ev.k, Ev.v, Ev.res) /\ Logged
    \/ Consume("GetItem") /\ GetItem(Ev.k, Ev.res) /\ Logged
    \/ Consume("Contains") /\ Contains(Ev.k, Ev.res) /\ Logged
    \/ Consume("DelItem") /\ DelItem(Ev.k, Ev.res) /\ Logged
    \/ Consume("Clear") /\ Clear(Ev.res) /\ Logged
    \/ Consume("Attach") /\ Attach(Ev.res) /\ Logged
    \/ Consume("Detach") /\ Detach(Ev.res) /\ Logged
    \/ Consume("Advance") /\ Advance(Ev.dt, Ev.res) /\ Logged
    \/ Consume("Push") /\ Push(Ev.v, Ev.res) /\ Logged
    \/ Consume("Pull") /\ Pull(Ev.res) /\ Logged
    \/ Consume("Gulp") /\ Gulp(Ev.v, Ev.res) /\ Logged
    \/ Consume("Spew") /\ Spew(Ev.res) /\ Logged

TraceSpec == TraceInit /\ [][TraceNext]_tvars
TraceOK == TraceConstraint(tid, l)
=============================================================================
