--------------------------- MODULE StoreTreeTrace ---------------------------
(* Binding B for StoreTree.tla: an execution recorded from a real Store is a sequence of events *)
(*   {"ev": operation, "text": pieces of the dotted text, "id": share identity (Add/Change),    *)
(*    "res": "none" | "err" | "node" | "share", "tree": [{"path", "kind", "id", "name"}, ...]}   *)
(* where "tree" is the projection of the real store after the call (left out when it equals    *)
(* the projection logged by the event before).  The first event is a header {"ev": "Init"}.    *)
(* TLC decides whether the recorded execution is a behaviour of StoreTree.                     *)
EXTENDS StoreTree, TraceBatch

VARIABLES tid, l
tvars == <<tree, tid, l>>

Ev == EvAt(tid, l)
T == Parsed(Ev.text)

TreeOf(es) == [p \in {es[k].path : k \in 1..Len(es)} |->
                 LET e == es[CHOOSE k \in 1..Len(es) : es[k].path = p]
                 IN [kind |-> e.kind, id |-> e.id, name |-> e.name]]

TraceInit == tid \in 1..NTraces /\ l = 2 /\ tree = <<>>

\* the store observed after the call must be exactly the tree the specification's action produces
Logged == IF HasField(Ev, "tree") THEN tree' = TreeOf(Ev.tree) ELSE tree' = tree
Consume(name) == l <= TraceLen(tid) /\ Ev.ev = name /\ l' = l + 1 /\ UNCHANGED tid

TraceNext ==
    \/ Consume("Add") /\ Add(T, Ev.id, Ev.res) /\ Logged
    \/ Consume("Change") /\ Change(T, Ev.id, Ev.res) /\ Logged
    \/ Consume("Create") /\ Create(T, Ev.res) /\ Logged
    \/ Consume("AddNode") /\ AddNode(T, Ev.res) /\ Logged
    \/ Consume("CreateNode") /\ CreateNode(T, Ev.res) /\ Logged
    \/ Consume("Fetch") /\ Fetch(T, Ev.res) /\ Logged
    \/ Consume("FetchShare") /\ FetchShare(T, Ev.res) /\ Logged
    \/ Consume("FetchNode") /\ FetchNode(T, Ev.res) /\ Logged

TraceSpec == TraceInit /\ [][TraceNext]_tvars
TraceOK == TraceConstraint(tid, l)
=============================================================================
