------------------------------- MODULE Share -------------------------------
(* A share of ioflo.base.storing (property C19): its data fields, time stamp, store and deck.   *)
(*                                                                                             *)
(* Written from the docstrings of Share (value, update, change, create, stampNow, the mapping  *)
(* methods), Data ("Attributes may be any python public identifier ... Attempting to set an     *)
(* attribute that is not a python public identifier raises AttributeError"), Deck (push / pull  *)
(* aliases of append / popleft, "gulp does not allow a value of None to be added", "spew        *)
(* returns None when empty") and from the statement of C19.                                     *)
(*                                                                                             *)
(*   keys, val   the data fields: an insertion ordered mapping                                  *)
(*   stamp       None or the store time at which the share was last stamped                     *)
(*   attached    does the share have a store                                                    *)
(*   now         the time of the store (environment action Advance)                             *)
(*   deck        the share's deck, oldest element first                                         *)
(*                                                                                             *)
(* Python's None is the value -1 here (TLC compares only like with like).  The result of an     *)
(* operation is the LAST PARAMETER r of its action, a record [t, v]:                             *)
(*   [t |-> "ok", v |-> 0]  no result / the share itself      [t |-> "val", v |-> x]  value x     *)
(*   [t |-> "bool", v |-> 0|1]                                 [t |-> <exception name>, v |-> 0]  *)
(* so that the state graph carries the expected result on its edges without multiplying states. *)
EXTENDS Integers, Sequences, FiniteSets, TLC

CONSTANTS Names,      \* public identifiers offered as field names ("value" must be one of them)
          BadNames,   \* strings that are not public identifiers ("_x", "1a", "")
          Vals0,      \* field / deck values other than None (naturals)
          MaxTime,    \* store time runs 0..MaxTime         (model scope only)
          MaxDeck     \* bound on the deck length            (model scope only)

None == -1
Vals == Vals0 \cup {None}
Time == 0..MaxTime

VARIABLES keys, val, stamp, attached, now, deck
vars == <<keys, val, stamp, attached, now, deck>>
data == <<keys, val>>

Ok == [t |-> "ok", v |-> 0]
Val(x) == [t |-> "val", v |-> x]
Bool(b) == [t |-> "bool", v |-> IF b THEN 1 ELSE 0]
Err(e) == [t |-> e, v |-> 0]
ValResults == {Val(x) : x \in Vals}

Range(s) == {s[i] : i \in 1..Len(s)}
Has(k) == k \in Range(keys)
IndexOf(s, k) == CHOOSE i \in 1..Len(s) : s[i] = k
Remove(s, k) == SelectSeq(s, LAMBDA x : x # k)
Valid(k) == k \in Names

\* fields after  share[k] = v : a new name goes last, an existing name keeps its place
PutKeys(ks, k) == IF k \in Range(ks) THEN ks ELSE Append(ks, k)
PutVal(vl, k, v) == [x \in DOMAIN vl \cup {k} |-> IF x = k THEN v ELSE vl[x]]
\* ... and after setting it only when absent
NewKeys(ks, k) == PutKeys(ks, k)
NewVal(vl, k, v) == IF k \in DOMAIN vl THEN vl ELSE PutVal(vl, k, v)

\* the stamp a stamping operation leaves: the store's time, "no stamp without a store"
Stamp == IF attached THEN now ELSE None

Init == /\ keys = <<>> /\ val = <<>> /\ stamp = None /\ deck = <<>>
        /\ now = 0 /\ attached \in BOOLEAN      \* made by Share() or by store.create(path)

(* ---- value property ---- *)
SetValue(v, r) == /\ r = Ok /\ stamp' = Stamp /\ UNCHANGED <<attached, now, deck>>
                  /\ keys' = PutKeys(keys, "value") /\ val' = PutVal(val, "value", v)
\* "returns none if no field in data of name 'value'"
GetValue(r) == r = Val(IF Has("value") THEN val["value"] ELSE None) /\ UNCHANGED vars

(* ---- update / change / create with one field (any name) and with two fields in order ---- *)
Rejected(r, e) == r = Err(e) /\ UNCHANGED vars

\* update: "Update data fields of this share. create field if not already exist. set stamp to store.stamp if store"
Update1(k, v, r) ==
    \/ r = Ok /\ Valid(k) /\ stamp' = Stamp /\ UNCHANGED <<attached, now, deck>>
              /\ keys' = PutKeys(keys, k) /\ val' = PutVal(val, k, v)
    \/ Rejected(r, "AttributeError") /\ ~Valid(k)
Update2(k1, v1, k2, v2, r) ==
    /\ r = Ok /\ stamp' = Stamp /\ UNCHANGED <<attached, now, deck>>
    /\ keys' = PutKeys(PutKeys(keys, k1), k2) /\ val' = PutVal(PutVal(val, k1, v1), k2, v2)

\* change: "Change data fields without affecting stamp. Create if not already exist."
Change1(k, v, r) ==
    \/ r = Ok /\ Valid(k) /\ UNCHANGED <<stamp, attached, now, deck>>
              /\ keys' = PutKeys(keys, k) /\ val' = PutVal(val, k, v)
    \/ Rejected(r, "AttributeError") /\ ~Valid(k)
Change2(k1, v1, k2, v2, r) ==
    /\ r = Ok /\ UNCHANGED <<stamp, attached, now, deck>>
    /\ keys' = PutKeys(PutKeys(keys, k1), k2) /\ val' = PutVal(PutVal(val, k1, v1), k2, v2)

\* create: "Create and update fields if they do not already exist otherwise do nothing. This allows setting
\* defaults only if they have not already been set"; stamped only when a field was added
Create1(k, v, r) ==
    \/ r = Ok /\ Valid(k) /\ stamp' = (IF Has(k) THEN stamp ELSE Stamp) /\ UNCHANGED <<attached, now, deck>>
              /\ keys' = NewKeys(keys, k) /\ val' = NewVal(val, k, v)
    \/ Rejected(r, "AttributeError") /\ ~Valid(k)
Create2(k1, v1, k2, v2, r) ==
    /\ r = Ok /\ stamp' = (IF Has(k1) /\ Has(k2) THEN stamp ELSE Stamp) /\ UNCHANGED <<attached, now, deck>>
    /\ keys' = NewKeys(NewKeys(keys, k1), k2) /\ val' = NewVal(NewVal(val, k1, v1), k2, v2)

\* stampNow: "Force time stamp of this share to store.stamp if exists"; answers the stamp
StampNow(r) == r = Val(Stamp) /\ stamp' = Stamp /\ UNCHANGED <<keys, val, attached, now, deck>>

(* ---- the share as a mapping of its fields ---- *)
\* share[k] = v : no stamp ("don't update stamp here since used by change"); a bad name is refused the way a mapping
\* refuses a key (KeyError); the AttributeError that Data documents for such a name is admitted as well
SetItem(k, v, r) ==
    \/ r = Ok /\ Valid(k) /\ UNCHANGED <<stamp, attached, now, deck>>
              /\ keys' = PutKeys(keys, k) /\ val' = PutVal(val, k, v)
    \/ (Rejected(r, "KeyError") \/ Rejected(r, "AttributeError")) /\ ~Valid(k)
GetItem(k, r) == r = (IF Has(k) THEN Val(val[k]) ELSE Err("KeyError")) /\ UNCHANGED vars
Contains(k, r) == r = Bool(Has(k)) /\ UNCHANGED vars
DelItem(k, r) ==
    \/ r = Ok /\ Has(k) /\ UNCHANGED <<stamp, attached, now, deck>>
              /\ keys' = Remove(keys, k) /\ val' = [x \in DOMAIN val \ {k} |-> val[x]]
    \/ Rejected(r, "KeyError") /\ ~Has(k)
Clear(r) == r = Ok /\ keys' = <<>> /\ val' = <<>> /\ UNCHANGED <<stamp, attached, now, deck>>

(* ---- store ---- *)
Attach(r) == r = Ok /\ attached' = TRUE /\ UNCHANGED <<keys, val, stamp, now, deck>>
Detach(r) == r = Ok /\ attached' = FALSE /\ UNCHANGED <<keys, val, stamp, now, deck>>
\* environment: the store's time advances (whether or not the share is attached to it)
Advance(dt, r) == r = Ok /\ now + dt <= MaxTime /\ now' = now + dt /\ UNCHANGED <<keys, val, stamp, attached, deck>>

(* ---- deck ---- *)
\* push = append on the right, pull = popleft ("if empty then raise IndexError")
Push(v, r) == r = Ok /\ Len(deck) < MaxDeck /\ deck' = Append(deck, v) /\ UNCHANGED <<keys, val, stamp, attached, now>>
Pull(r) ==
    \/ deck # <<>> /\ r = Val(Head(deck)) /\ deck' = Tail(deck) /\ UNCHANGED <<keys, val, stamp, attached, now>>
    \/ deck = <<>> /\ Rejected(r, "IndexError")
\* gulp: "If not None, add elem to right side of deque, Otherwise ignore"
Gulp(v, r) ==
    /\ r = Ok /\ UNCHANGED <<keys, val, stamp, attached, now>>
    /\ IF v = None THEN deck' = deck ELSE Len(deck) < MaxDeck /\ deck' = Append(deck, v)
\* spew: "Remove and return elem from left side of deque, If empty return None"
Spew(r) ==
    /\ UNCHANGED <<keys, val, stamp, attached, now>>
    /\ IF deck = <<>> THEN r = Val(None) /\ deck' = deck ELSE r = Val(Head(deck)) /\ deck' = Tail(deck)

AnyName == Names \cup BadNames
Next ==
    \/ \E v \in Vals, r \in {Ok} : SetValue(v, r) \/ Gulp(v, r)
    \/ \E v \in Vals0, r \in {Ok} : Push(v, r)          \* real elements are pushed; anything may be offered to gulp
    \/ \E r \in ValResults : GetValue(r) \/ Spew(r)
    \/ \E r \in ValResults \cup {Err("IndexError")} : Pull(r)
    \/ \E r \in {Val(x) : x \in Time \cup {None}} : StampNow(r)
    \/ \E k \in AnyName, v \in Vals, r \in {Ok, Err("AttributeError")} : Update1(k, v, r) \/ Change1(k, v, r) \/ Create1(k, v, r)
    \/ \E k \in AnyName, v \in Vals, r \in {Ok, Err("KeyError"), Err("AttributeError")} : SetItem(k, v, r)
    \/ \E k \in AnyName, r \in ValResults \cup {Err("KeyError")} : GetItem(k, r)
    \/ \E k \in AnyName, r \in {Ok, Err("KeyError")} : DelItem(k, r)
    \/ \E k \in AnyName, r \in {Bool(TRUE), Bool(FALSE)} : Contains(k, r)
    \/ \E k1, k2 \in Names, v1, v2 \in Vals, r \in {Ok} : Update2(k1, v1, k2, v2, r) \/ Change2(k1, v1, k2, v2, r)
                                                          \/ Create2(k1, v1, k2, v2, r)
    \/ \E r \in {Ok} : Clear(r) \/ Attach(r) \/ Detach(r)
    \/ \E dt \in {1, 2}, r \in {Ok} : Advance(dt, r)

Spec == Init /\ [][Next]_vars

(* ---- properties ---- *)
TypeOK == /\ keys \in Seq(Names) /\ \A i, j \in 1..Len(keys) : i # j => keys[i] # keys[j]
          /\ DOMAIN val = Range(keys) /\ \A k \in DOMAIN val : val[k] \in Vals
          /\ stamp \in Time \cup {None} /\ attached \in BOOLEAN /\ now \in Time
          /\ deck \in Seq(Vals)
\* field names are public identifiers, whatever was tried
PublicIdentifiersOnly == Range(keys) \subseteq Names /\ Range(keys) \cap BadNames = {}
\* a stamp is a time the store has shown
StampNotAhead == stamp # None => stamp <= now
\* only gulp and push of real elements feed the deck, so it never holds None ...
NoNoneInDeck == \A i \in 1..Len(deck) : deck[i] # None

\* the stamp changes only to the store's current time, and to None when there is no store
StampRules == [][stamp' = stamp \/ stamp' = Stamp]_vars
\* change, item assignment, deletion, deck operations and time never alter the stamp
ChangeKeepsStamp == [][stamp' = stamp \/ ~(\E k \in AnyName, v \in Vals : Change1(k, v, Ok) \/ SetItem(k, v, Ok))]_vars
OnlyStampersStamp == [][stamp' = stamp \/ (\E v \in Vals : SetValue(v, Ok))
                                      \/ (\E k \in Names, v \in Vals : Update1(k, v, Ok) \/ Create1(k, v, Ok))
                                      \/ (\E k1, k2 \in Names, v1, v2 \in Vals : Update2(k1, v1, k2, v2, Ok) \/ Create2(k1, v1, k2, v2, Ok))
                                      \/ StampNow(Val(Stamp))]_vars
\* value assignment and update always stamp
UpdateStamps == [][stamp' = Stamp \/ data' = data \/ ~((\E v \in Vals : SetValue(v, Ok)) \/ (\E k \in Names, v \in Vals : Update1(k, v, Ok)))
                               ]_vars
\* create never overwrites an existing field, and stamps only when a field was added
CreateNeverOverwrites == [][\/ /\ \A k \in Range(keys) : Has(k)' /\ val'[k] = val[k]
                                /\ (stamp' # stamp => Len(keys') > Len(keys))
                             \/ ~((\E k \in Names, v \in Vals : Create1(k, v, Ok))
                                  \/ (\E k1, k2 \in Names, v1, v2 \in Vals : Create2(k1, v1, k2, v2, Ok)))]_vars
\* insertion order: surviving names keep their relative order and new names go last
FieldOrder == [][data' = data \/ /\ \A a, b \in Range(keys) \cap Range(keys') :
                                      (IndexOf(keys, a) < IndexOf(keys, b)) <=> (IndexOf(keys', a) < IndexOf(keys', b))
                                 /\ \A k \in Range(keys') \ Range(keys), o \in Range(keys) \cap Range(keys') :
                                      IndexOf(keys', o) < IndexOf(keys', k)]_vars
\* a rejected operation leaves the share as it was
RejectedUnchanged == [][UNCHANGED vars \/ ~(\E k \in AnyName, v \in Vals :
                            \/ Update1(k, v, Err("AttributeError")) \/ Change1(k, v, Err("AttributeError"))
                            \/ Create1(k, v, Err("AttributeError")) \/ SetItem(k, v, Err("KeyError"))
                            \/ SetItem(k, v, Err("AttributeError")))]_vars
\* the deck is first in first out: elements enter on the right and leave on the left, one at a time
DeckFifo == [][deck' = deck \/ (\E v \in Vals : deck' = Append(deck, v)) \/ (deck # <<>> /\ deck' = Tail(deck))]_vars
GulpIgnoresNone == [][deck' = deck \/ ~Gulp(None, Ok)]_vars
\* ... and therefore spew answers None exactly when the deck is empty
SpewNoneIffEmpty == [][\A r \in ValResults : Spew(r) /\ UNCHANGED <<keys, val, stamp, attached, now>> /\ (deck' = deck \/ deck' = Tail(deck))
                                              => (r = Val(None) <=> deck = <<>>)]_vars
=============================================================================
