----------------------------- MODULE StoreTree -----------------------------
(* The hierarchical data store of ioflo.base.storing.Store (property C18).                      *)
(*                                                                                             *)
(* Written from the docstrings of Store.add / addNode / change / create / createNode / fetch / *)
(* fetchShare / fetchNode and from the statement of C18.  The store is a tree of named entries: *)
(* inner entries are nodes, leaves are nodes or shares.  `tree` maps a path (a non-empty        *)
(* sequence of non-empty segments) to the entry placed there.                                  *)
(*                                                                                             *)
(* Texts.  Callers name entries by dotted text ("a.b", ".a.b", "a.b.", "a..b", ".").  TLC cannot *)
(* index into strings, so a text is modelled by its pieces between the dots: the sequence that *)
(* Python's text.split(".") yields ("a.b" = <<"a","b">>, ".a" = <<"","a">>, "a..b" =            *)
(* <<"a","","b">>, "." = <<"","">>, "" = <<"">>).  This is a bijection between texts and        *)
(* non-empty sequences of dot-free strings.  Leading and trailing dots are ignored by every     *)
(* operation ("strip leading and following '.' and split"); an empty piece that remains is an   *)
(* empty path segment, which no operation accepts.                                             *)
(*                                                                                             *)
(* Results.  An operation answers with the object at the operation's path or with nothing /     *)
(* a rejection.  The result is the last parameter `r` of every action, one of                    *)
(*    "none"  nothing (None)          "err"   rejected with an exception                        *)
(*    "node"  THE node  stored in `tree` (after the step) at Levels(text)                       *)
(*    "share" THE share stored in `tree` (after the step) at Levels(text)                       *)
(* (where the documentation admits two answers both are enabled)                               *)
(* so that the state graph carries the expected result on its edges without multiplying states. *)
(* Share identities: a share offered by a caller carries an identity from Ids; shares made by   *)
(* the store itself (create) have identity 0.  The real shares used by the harness also carry   *)
(* data fields named like path segments; the specification does not mention them because no     *)
(* store operation is documented to look inside a share.                                       *)
EXTENDS Naturals, Sequences, FiniteSets, TLC

CONSTANTS Segs,        \* segment names
          MaxDepth,    \* longest path offered
          MaxEntries,  \* bound on the number of entries (model scope only)
          Ids          \* identities of caller-made shares

VARIABLE tree          \* [path -> [kind: "node" | "share", id: Nat, name: path]]

(* ---- texts and paths ---- *)
SeqsUpTo(S, n) == UNION {[1..k -> S] : k \in 1..n}
Paths == SeqsUpTo(Segs, MaxDepth)
ShortPaths == SeqsUpTo(Segs, IF MaxDepth > 2 THEN 2 ELSE MaxDepth)

Texts == Paths
         \cup {<<"">> \o p : p \in ShortPaths}                   \* ".a.b"
         \cup {p \o <<"">> : p \in ShortPaths}                   \* "a.b."
         \cup {<<"">> \o p \o <<"">> : p \in SeqsUpTo(Segs, 1)}  \* ".a."
         \cup {<<s, "", s2>> : s, s2 \in Segs}                   \* "a..b"   empty inner segment
         \cup {<<s, "", "">> : s \in Segs}                       \* "a.."    only outer dots
         \cup {<<"", "", s>> : s \in Segs}                       \* "..a"
         \cup {<<s, s2, "", s>> : s, s2 \in Segs}                \* "a.b..a" empty segment after two good ones
         \cup {<<"">>, <<"", "">>, <<"", "", "">>}               \* "", ".", ".."

RECURSIVE DropLead(_), DropTrail(_)
DropLead(s) == IF s # <<>> /\ Head(s) = "" THEN DropLead(Tail(s)) ELSE s
DropTrail(s) == IF s # <<>> /\ s[Len(s)] = "" THEN DropTrail(SubSeq(s, 1, Len(s) - 1)) ELSE s
\* text.strip('.').split('.') : never empty; all-dots and the empty text give the single empty segment
Levels(t) == LET s == DropTrail(DropLead(t)) IN IF s = <<>> THEN <<"">> ELSE s
IsPath(p) == \A i \in 1..Len(p) : p[i] # ""
\* a text offered to an operation comes with its levels (parsed once: TLC would otherwise re-parse the text for
\* every candidate step); actions take such a record T = [text |-> pieces, lv |-> Levels(pieces)]
Parsed(t) == [text |-> t, lv |-> Levels(t)]
TextRecs == {Parsed(t) : t \in Texts}
EmptyText(T) == T.text = <<"">>

Prefix(p, k) == SubSeq(p, 1, k)
ProperPrefixes(p) == {Prefix(p, k) : k \in 1..(Len(p) - 1)}
Has(p) == p \in DOMAIN tree
IsShare(p) == Has(p) /\ tree[p].kind = "share"
IsNode(p) == Has(p) /\ tree[p].kind = "node"

NodeEntry(p) == [kind |-> "node", id |-> 0, name |-> p]
ShareEntry(i, nm) == [kind |-> "share", id |-> i, name |-> nm]

\* the tree after placing entry e at p, creating the missing nodes above it
Placed(p, e) == [q \in DOMAIN tree \cup ProperPrefixes(p) \cup {p} |->
                    IF q = p THEN e ELSE IF q \in DOMAIN tree THEN tree[q] ELSE NodeEntry(q)]
Fits(p) == Cardinality(DOMAIN tree \cup ProperPrefixes(p) \cup {p}) <= MaxEntries

Init == tree = <<>>

(* ---- operations ---- *)
\* add(share): "Creates node hierarchy from name as needed. If share already exists with same name then
\* raises exception ... to prevent inadvertant adding of shares that clobber node hierarchy"
CanAdd(T) == LET p == T.lv IN
    /\ ~EmptyText(T)                                  \* "Empty Share Name"
    /\ IsPath(p)                                      \* no empty segment
    /\ \A q \in ProperPrefixes(p) : ~IsShare(q)       \* would turn a share into a node
    /\ ~Has(p)                                        \* would add over an existing entry

\* the share records the name it was given; read as a dotted path that name is Levels(text)
Add(T, i, r) ==
    \/ r = "share" /\ CanAdd(T) /\ Fits(T.lv) /\ tree' = Placed(T.lv, ShareEntry(i, T.lv))
    \/ r = "err" /\ UNCHANGED tree /\ ~CanAdd(T)

\* change(share): "change existing share with same name in store to share ... if share and node hierachy do
\* not exist then raises exception"
CanChange(T) == IsPath(T.lv) /\ IsShare(T.lv)
Change(T, i, r) ==
    \/ r = "share" /\ CanChange(T) /\ tree' = [tree EXCEPT ![T.lv] = ShareEntry(i, T.lv)]
    \/ r = "err" /\ UNCHANGED tree /\ ~CanChange(T)

\* create(name): "Retrieve share with name if it exits otherwise create a share with name and add to store"
Create(T, r) ==
    \/ r = "share" /\ UNCHANGED tree /\ CanChange(T)
    \/ r = "share" /\ ~CanChange(T) /\ CanAdd(T) /\ Fits(T.lv) /\ tree' = Placed(T.lv, ShareEntry(0, T.lv))
    \/ r = "err" /\ UNCHANGED tree /\ ~CanChange(T) /\ ~CanAdd(T)

\* addNode(name): "Creates node hierarchy from name as needed ... prevent inadvertant adding of node that
\* clobber node/share hierarchy".  The docstring also says "If node already exists with same name then raises
\* exception" while createNode is the documented get-or-add; C18 only requires that nothing is clobbered, so for
\* an existing node both answers (the node, a rejection) are admitted, the tree being unchanged either way.
IsOldNode(T) == IsPath(T.lv) /\ IsNode(T.lv)
CanAddNode(T) == /\ IsPath(T.lv)
                 /\ \A q \in ProperPrefixes(T.lv) \cup {T.lv} : ~IsShare(q)

AddNode(T, r) ==
    \/ r \in {"node", "err"} /\ UNCHANGED tree /\ IsOldNode(T)
    \/ r = "node" /\ ~IsOldNode(T) /\ CanAddNode(T) /\ Fits(T.lv) /\ tree' = Placed(T.lv, NodeEntry(T.lv))
    \/ r = "err" /\ UNCHANGED tree /\ ~IsOldNode(T) /\ ~CanAddNode(T)

\* createNode(name): "Retrieve node with name if it exits otherwise create a node with name and add to store"
CreateNode(T, r) ==
    \/ r = "node" /\ UNCHANGED tree /\ IsOldNode(T)
    \/ r = "node" /\ ~IsOldNode(T) /\ CanAddNode(T) /\ Fits(T.lv) /\ tree' = Placed(T.lv, NodeEntry(T.lv))
    \/ r = "err" /\ UNCHANGED tree /\ ~IsOldNode(T) /\ ~CanAddNode(T)

\* lookups: "return node or share or if not exist return None" / "...or if not a share (node by same name) then
\* return None" / "... if not a node (share by same name) then return None"
Kind(tr, T) == IF IsPath(T.lv) /\ T.lv \in DOMAIN tr THEN tr[T.lv].kind ELSE "none"
Fetch(T, r) == r = Kind(tree, T) /\ UNCHANGED tree
FetchShare(T, r) == r = (IF Kind(tree, T) = "share" THEN "share" ELSE "none") /\ UNCHANGED tree
FetchNode(T, r) == r = (IF Kind(tree, T) = "node" THEN "node" ELSE "none") /\ UNCHANGED tree

Next == \/ \E T \in TextRecs, i \in Ids, r \in {"share", "err"} : Add(T, i, r) \/ Change(T, i, r)
        \/ \E T \in TextRecs, r \in {"share", "err"} : Create(T, r)
        \/ \E T \in TextRecs, r \in {"node", "err"} : AddNode(T, r) \/ CreateNode(T, r)
        \/ \E T \in TextRecs, r \in {"none", "node", "share"} : Fetch(T, r)
        \/ \E T \in TextRecs, r \in {"none", "share"} : FetchShare(T, r)
        \/ \E T \in TextRecs, r \in {"none", "node"} : FetchNode(T, r)

Spec == Init /\ [][Next]_tree

(* ---- properties ---- *)
TypeOK == /\ DOMAIN tree \subseteq Paths
          /\ \A p \in DOMAIN tree : /\ tree[p].kind \in {"node", "share"}
                                    /\ tree[p].id \in Ids \cup {0}
                                    /\ tree[p].kind = "node" => tree[p].id = 0
\* every entry hangs under nodes all the way up: shares are leaves
PrefixClosed == \A p \in DOMAIN tree : \A q \in ProperPrefixes(p) : IsNode(q)
\* every node and share records its own dotted path as its name
NamesArePaths == \A p \in DOMAIN tree : tree[p].name = p
\* what a lookup of path q answers: the identity of the entry placed there, or nothing
At(tr, q) == IF q \in DOMAIN tr THEN [kind |-> tr[q].kind, id |-> tr[q].id] ELSE [kind |-> "none", id |-> 0]
\* every textual variant of a path answers like the path itself
VariantsAgree == \A T \in TextRecs : IsPath(T.lv) => Kind(tree, T) = At(tree, T.lv).kind
\* the answer for a path changes only in a step that places an object there, and then it is that object
LookupIsLastPlaced == [][tree' = tree \/ \A q \in Paths : At(tree', q) # At(tree, q) =>
        \/ \E T \in TextRecs, i \in Ids : /\ T.lv = q /\ (Add(T, i, "share") \/ Change(T, i, "share"))
                                          /\ At(tree', q) = [kind |-> "share", id |-> i]
        \/ \E T \in TextRecs : /\ T.lv = q /\ Create(T, "share") /\ At(tree', q) = [kind |-> "share", id |-> 0]
        \/ \E T \in TextRecs : /\ T.lv = q /\ (AddNode(T, "node") \/ CreateNode(T, "node"))
                               /\ At(tree', q) = [kind |-> "node", id |-> 0]
        \/ /\ ~Has(q) /\ At(tree', q) = [kind |-> "node", id |-> 0]        \* a missing node created on the way down
           /\ \E p \in DOMAIN tree' : q \in ProperPrefixes(p) /\ ~Has(p)]_tree
\* a rejected operation leaves the store unchanged
RejectedUnchanged == [][tree' = tree \/ \A T \in TextRecs :
        (\/ \E i \in Ids : Add(T, i, "err") \/ Change(T, i, "err")
         \/ Create(T, "err") \/ AddNode(T, "err") \/ CreateNode(T, "err")) => UNCHANGED tree]_tree
\* entries are never removed and a node never becomes a share or the reverse
KindsStable == [][\A q \in DOMAIN tree : q \in DOMAIN tree' /\ tree'[q].kind = tree[q].kind]_tree
=============================================================================
