------------------------------ MODULE HttpRound ------------------------------
(* Round trip of HTTP requests and WSGI responses (property C30).                              *)
(*                                                                                             *)
(* An abstract request                                                                         *)
(*   [method, path : sequence of segments, query : sequence of items [k, v],                   *)
(*    heads : sequence of [name, value], body : [k |-> "none"] | [k |-> "raw", data]           *)
(*                                             | [k |-> "json", obj] | [k |-> "form", items]]  *)
(* whose texts are sequences of symbolic characters                                            *)
(*   "a" a plain (unreserved) character      SP  a space                                       *)
(*   "&" "=" "+" "%" the characters that mean something in form encoding / percent encoding    *)
(*   "R" any other reserved or delimiter character     "HI" a character outside ASCII         *)
(*   "DQ" the double quote, "BS" the backslash, LF a control character (JSON strings)          *)
(* is turned by BuildRequest into an HTTP/1.1 message (HttpMsg.tla) with the documented        *)
(* quoting:                                                                                    *)
(*   path segments   RFC 3986 percent-encoding of everything that is not unreserved            *)
(*   query, form     application/x-www-form-urlencoded (the WHATWG/W3C serializer the library  *)
(*                   cites): names and values percent-encoded, space as "+", items joined by   *)
(*                   "&", name and value by "="                                                *)
(*   JSON data       RFC 8259 object text with escaped strings, Content-Type application/json  *)
(*   GET             carries no body (library documentation: "do not send body on GET")        *)
(* Wire() gives its bytes, the incremental parser of HttpParse.tla reads them back, and        *)
(* Environ() is what a WSGI application is shown (PEP 3333: REQUEST_METHOD, PATH_INFO decoded, *)
(* QUERY_STRING raw, CONTENT_TYPE, CONTENT_LENGTH, HTTP_* headers, wsgi.input).  RoundTrip     *)
(* says that decoding what the application is shown gives the request back.  Likewise a        *)
(* response the application produces (status, reason, headers, body pieces; fixed length,      *)
(* chunked, empty, or a raised HTTP error) is put on the wire by BuildResponse and read back   *)
(* by the client.  A 204 or 304 response and the reply to a HEAD request end with their header *)
(* section (RFC 7230 3.3.3).  FollowUp puts the response to a further request behind the first *)
(* one on the same connection: it must be read intact (NextIntact), i.e. the first response    *)
(* was delimited for both sides alike.                                                         *)
(*                                                                                             *)
(* Percent-encoded octets are symbolic: "%" followed by two digit symbols that identify the    *)
(* character ("2","6" for "&"; "R1","R2" for the class "R"; a character outside ASCII takes    *)
(* two escapes "%","H1","H2","%","H3","H4").  Lengths count symbolic bytes.                    *)
EXTENDS HttpMsg, TLC

CONSTANTS Methods,     \* request methods
          QC,          \* characters of query values
          FC,          \* characters of form values
          JC,          \* characters of JSON strings
          HC,          \* characters of header values
          PC,          \* characters of path segments
          MaxLen,      \* longest value (in characters)
          MaxItems,    \* most query items
          AllItems,    \* most query items in the product family "all"
          BodyItems,   \* most form / JSON items in the "body" family
          Cross,       \* "some": every ordered pair of response classes on one connection for a few requests; "all": for more
          Family       \* which requests: "query" | "body" | "resp" | "path" | "head" | "all" | "mc" (all of those) | "cover"

NoWire(i) == <<>>
NoKind(i) == "req"
NoMsgs(i) == 1
NoHead(i, n) == FALSE
HP == INSTANCE HttpParse WITH NSc <- 1, ScWire <- NoWire, ScKind <- NoKind, ScMsgs <- NoMsgs, ScHead <- NoHead, MaxPieces <- 1, MaxK <- 1,
                              sc <- 1, sent <- 0, pieces <- 0, closed <- FALSE, fresh <- FALSE, nth <- 1, p <- <<>>, obs <- <<>>

VARIABLES req,      \* the request the client's user builds
          resp,     \* the response the application produces (NoResp until it is asked)
          stage,    \* "new" -> "sent" -> "served" -> "done" -> "again"
          environ,  \* what the application was shown (NoEnv before)
          got,      \* what the client's user is handed (NoGot before)
          follow,   \* the response the application produces for a further request on the same connection (NoResp before)
          next      \* what the client's user is handed for that further request (NoGot before)
vars == <<req, resp, stage, environ, got, follow, next>>

(* ------------------------------------------------------------------ text helpers *)
RECURSIVE Join(_, _), SplitAt(_, _, _), PctDec(_), PlusSp(_)
Join(ss, sep) == IF ss = <<>> THEN <<>> ELSE IF Len(ss) = 1 THEN ss[1] ELSE ss[1] \o sep \o Join(Tail(ss), sep)
\* split s at every byte c (acc = the piece being collected)
SplitAt(s, c, acc) == IF s = <<>> THEN <<acc>>
                      ELSE IF Head(s) = c THEN <<acc>> \o SplitAt(Tail(s), c, <<>>)
                      ELSE SplitAt(Tail(s), c, Append(acc, Head(s)))
Split(s, c) == SplitAt(s, c, <<>>)
\* <<before the first c, after it>>; <<s, <<>>>> when there is none
Cut(s, c) == LET i == HP!Find(s, c) IN IF i = 0 THEN <<s, <<>>>> ELSE <<SubSeq(s, 1, i - 1), SubSeq(s, i + 1, Len(s))>>
Map(s, F(_)) == Cat([i \in 1..Len(s) |-> F(s[i])])
Strs(A, n) == UNION {[1..k -> A] : k \in 0..n}
NoEdgeSpace(s) == s = <<>> \/ (s[1] # SP /\ s[Len(s)] # SP)

(* ------------------------------------------------------------------ percent encoding, form encoding *)
Digits(c) == CASE c = "&" -> <<"2", "6">> [] c = "=" -> <<"3", "D">> [] c = "+" -> <<"2", "B">>
               [] c = "%" -> <<"2", "5">> [] c = SP -> <<"2", "0">> [] c = "R" -> <<"R1", "R2">>
Pct(c) == IF c = "HI" THEN <<"%", "H1", "H2", "%", "H3", "H4">> ELSE <<"%">> \o Digits(c)
Special == {SP, "&", "=", "+", "%", "R", "HI"}      \* every other character stands for an unreserved one
PathEnc(c) == IF c \in Special THEN Pct(c) ELSE <<c>>
FormEnc(c) == IF c = SP THEN <<"+">> ELSE IF c \in Special THEN Pct(c) ELSE <<c>>
Undigits(a, b) == CASE <<a, b>> = <<"2", "6">> -> "&" [] <<a, b>> = <<"3", "D">> -> "=" [] <<a, b>> = <<"2", "B">> -> "+"
                    [] <<a, b>> = <<"2", "5">> -> "%" [] <<a, b>> = <<"2", "0">> -> SP [] <<a, b>> = <<"R1", "R2">> -> "R"
                    [] OTHER -> "BAD"
PctDec(s) == IF s = <<>> THEN <<>>
             ELSE IF Head(s) = "%" /\ Len(s) >= 3
                  THEN IF s[2] = "H1"
                       THEN IF Len(s) >= 6 /\ s[3] = "H2" /\ s[4] = "%" /\ s[5] = "H3" /\ s[6] = "H4"
                            THEN <<"HI">> \o PctDec(SubSeq(s, 7, Len(s))) ELSE <<"BAD">>
                       ELSE <<Undigits(s[2], s[3])>> \o PctDec(SubSeq(s, 4, Len(s)))
             ELSE <<Head(s)>> \o PctDec(Tail(s))
PlusSp(s) == IF s = <<>> THEN <<>> ELSE <<IF Head(s) = "+" THEN SP ELSE Head(s)>> \o PlusSp(Tail(s))
FormDec(s) == PctDec(PlusSp(s))

\* application/x-www-form-urlencoded serializer and parser
FormWire(items) == Join([i \in 1..Len(items) |-> Map(items[i].k, FormEnc) \o <<"=">> \o Map(items[i].v, FormEnc)], <<"&">>)
FormParse(s) == IF s = <<>> THEN <<>>
                ELSE LET parts == Split(s, "&") IN
                     [i \in 1..Len(parts) |-> LET kv == Cut(parts[i], "=") IN [k |-> FormDec(kv[1]), v |-> FormDec(kv[2])]]

(* ------------------------------------------------------------------ JSON object text (RFC 8259) *)
JEnc(c) == CASE c = "DQ" -> <<"BS", "DQ">> [] c = "BS" -> <<"BS", "BS">> [] c = LF -> <<"BS", "n">>
             [] c = "HI" -> <<"BS", "u", "H1", "H2", "H3", "H4">> [] OTHER -> <<c>>
JStr(s) == <<"DQ">> \o Map(s, JEnc) \o <<"DQ">>
JVal(v) == IF v.t = "str" THEN JStr(v.s) ELSE <<v.a>>
JsonWire(obj) == <<"{">> \o Join([i \in 1..Len(obj) |-> JStr(obj[i].k) \o <<":">> \o JVal(obj[i].v)], <<",">>) \o <<"}">>
RECURSIVE JScan(_), JMembers(_)
\* s starts just after an opening quote: <<characters, rest after the closing quote>>
JScan(s) == IF s = <<>> THEN <<<<"BAD">>, <<>>>>
            ELSE IF Head(s) = "DQ" THEN <<<<>>, Tail(s)>>
            ELSE IF Head(s) = "BS" /\ Len(s) >= 2
                 THEN IF s[2] = "u" /\ Len(s) >= 6
                      THEN LET r == JScan(SubSeq(s, 7, Len(s))) IN <<<<"HI">> \o r[1], r[2]>>
                      ELSE LET r == JScan(SubSeq(s, 3, Len(s)))
                               c == IF s[2] = "n" THEN LF ELSE s[2] IN <<<<c>> \o r[1], r[2]>>
            ELSE LET r == JScan(Tail(s)) IN <<<<Head(s)>> \o r[1], r[2]>>
\* s starts at a member or at "}"
JMembers(s) == IF s = <<>> \/ Head(s) = "}" THEN <<>>
               ELSE LET t == IF Head(s) = "," THEN Tail(s) ELSE s
                        k == JScan(Tail(t))                 \* t[1] is the opening quote of the name
                        after == Tail(k[2])                 \* k[2][1] is ":"
                    IN IF Head(after) = "DQ"
                       THEN LET v == JScan(Tail(after)) IN <<[k |-> k[1], v |-> [t |-> "str", s |-> v[1]]]>> \o JMembers(v[2])
                       ELSE <<[k |-> k[1], v |-> [t |-> "atom", a |-> Head(after)]]>> \o JMembers(Tail(after))
JsonParse(s) == IF s = <<>> \/ Head(s) # "{" THEN <<"BAD">> ELSE JMembers(Tail(s))

(* ------------------------------------------------------------------ requests *)
Chars(s) == [i \in 1..Len(s) |-> s[i]]
MethodText(m) == CASE m = "GET" -> <<"G", "E", "T">> [] m = "HEAD" -> <<"H", "E", "A", "D">> [] m = "PUT" -> <<"P", "U", "T">>
                   [] m = "PATCH" -> <<"P", "A", "T", "C", "H">> [] m = "POST" -> <<"P", "O", "S", "T">>
                   [] m = "DELETE" -> <<"D", "E", "L", "E", "T", "E">> [] m = "OPTIONS" -> <<"O", "P", "T", "I", "O", "N", "S">>
                   [] m = "TRACE" -> <<"T", "R", "A", "C", "E">> [] m = "CONNECT" -> <<"C", "O", "N", "N", "E", "C", "T">>
ContentType == <<"C", "o", "n", "t", "e", "n", "t", "-", "T", "y", "p", "e">>
HostName == <<"H", "o", "s", "t">>
HostValue == <<"h", ":", "8">>
JsonType == <<"j", "s", "o", "n">>        \* stands for application/json; charset=utf-8
FormType == <<"f", "o", "r", "m">>        \* stands for application/x-www-form-urlencoded; charset=utf-8
K1 == <<"k">>
K2 == <<"j", "2">>

\* GET carries no body
EffBody(r) == IF r.method = "GET" THEN [k |-> "none"] ELSE r.body
BodyBytes(b) == CASE b.k = "none" -> <<>> [] b.k = "raw" -> b.data [] b.k = "json" -> JsonWire(b.obj) [] b.k = "form" -> FormWire(b.items)
TypeHead(b) == CASE b.k = "json" -> <<[name |-> ContentType, ows |-> <<SP>>, value |-> JsonType]>>
                 [] b.k = "form" -> <<[name |-> ContentType, ows |-> <<SP>>, value |-> FormType]>>
                 [] OTHER -> <<>>
Target(r) == <<"/">> \o Join([i \in 1..Len(r.path) |-> Map(r.path[i], PathEnc)], <<"/">>)
             \o (IF r.query = <<>> THEN <<>> ELSE <<"?">> \o FormWire(r.query))
BuildRequest(r) ==
    LET b == EffBody(r)
        data == BodyBytes(b) IN
    [kind |-> "req", start |-> <<MethodText(r.method), Target(r), Http11>>,
     heads |-> <<[name |-> HostName, ows |-> <<SP>>, value |-> HostValue]>>
               \o [i \in 1..Len(r.heads) |-> [name |-> r.heads[i].name, ows |-> <<SP>>, value |-> r.heads[i].value]]
               \o TypeHead(b),
     fows |-> <<SP>>,
     body |-> IF data = <<>> THEN [k |-> "none"] ELSE [k |-> "fixed", data |-> data]]
ReqWire(r) == Wire(BuildRequest(r))

\* what the server's parser reports for the bytes, and what the application is shown
\* hd: the message answers a HEAD request (responses only)
Parsed(wire, kind, hd) == HP!Result(HP!Run([HP!P0 EXCEPT !.buf = wire], kind, kind = "resp", hd))
HeadOf(res, name) == LET hs == {h \in res.headers : h[1] = LowerS(name)} IN IF hs = {} THEN <<>> ELSE (CHOOSE h \in hs : TRUE)[2]
Environ(res) ==
    LET tq == Cut(res.start[2], "?")
        segs == Split(Tail(tq[1]), "/")            \* the target starts with "/"
        ctype == HeadOf(res, ContentType) IN
    [method |-> res.start[1],
     path |-> [i \in 1..Len(segs) |-> PctDec(segs[i])],
     qargs |-> FormParse(tq[2]),
     heads |-> {h \in res.headers : h[1] \notin {LowerS(ContentLength), LowerS(ContentType), LowerS(HostName)}},
     host |-> HeadOf(res, HostName),
     ctype |-> ctype,
     clen |-> IF HeadOf(res, ContentLength) = <<>> THEN 0 ELSE NumVal(HeadOf(res, ContentLength), 10, 0),
     body |-> res.body,
     data |-> IF ctype = JsonType THEN JsonParse(res.body) ELSE <<>>,
     fargs |-> IF ctype = FormType THEN FormParse(res.body) ELSE <<>>]
\* what the application must be shown for request r
ExpectedEnv(r) ==
    LET b == EffBody(r) IN
    [method |-> MethodText(r.method), path |-> r.path, qargs |-> r.query,
     heads |-> {<<LowerS(r.heads[i].name), r.heads[i].value>> : i \in 1..Len(r.heads)},
     host |-> HostValue,
     ctype |-> IF b.k = "json" THEN JsonType ELSE IF b.k = "form" THEN FormType ELSE <<>>,
     clen |-> Len(BodyBytes(b)),
     body |-> BodyBytes(b),
     data |-> IF b.k = "json" THEN b.obj ELSE <<>>,
     fargs |-> IF b.k = "form" THEN b.items ELSE <<>>]

(* ------------------------------------------------------------------ responses *)
ServerName == <<"S", "e", "r", "v", "e", "r">>
ServerValue == <<"s", "v">>
ReasonText(st) == CASE st = 200 -> <<"O", "K">> [] st = 204 -> <<"N", "o", SP, "C", "o", "n", "t", "e", "n", "t">>
                    [] st = 404 -> <<"N", "o", "t", SP, "F", "o", "u", "n", "d">> [] st = 500 -> <<"O", "o", "p", "s">>
                    [] st = 418 -> <<"T", "e", "a", "p", "o", "t">>
                    [] st = 304 -> <<"N", "o", "t", SP, "M", "o", "d", "i", "f", "i", "e", "d">>
ErrBody == <<"e", "r", "r", LF, "t", LF, "d", LF>>     \* stands for the rendering of the raised error
TextType == <<"t", "e", "x", "t">>                      \* stands for text/plain
\* shape: "fixed" (Content-Length given), "chunked" (pieces without a length to an HTTP/1.1 client), "empty" (no body),
\*        "error" (the application raises an HTTP error carrying status, reason and headers)
RespBody(r) == IF r.shape = "error" THEN ErrBody ELSE Cat(r.pieces)
\* RFC 7230 3.3: a 204 or 304 response and the reply to a HEAD request (hd) end with the header section: no body,
\* no chunked coding on the wire; a length given by the application (here 0) is passed on
BuildResponse(r, hd) ==
    LET data == RespBody(r)
        bodiless == hd \/ r.status \in {204, 304}
        chunks == SelectSeq(r.pieces, LAMBDA x : x # <<>>) IN
    [kind |-> "resp", start |-> <<Http11, Dec(r.status), ReasonText(r.status)>>,
     heads |-> [i \in 1..Len(r.heads) |-> [name |-> r.heads[i].name, ows |-> <<SP>>, value |-> r.heads[i].value]]
               \o (IF r.shape = "error" THEN <<[name |-> ContentType, ows |-> <<SP>>, value |-> TextType]>> ELSE <<>>)
               \o <<[name |-> ServerName, ows |-> <<SP>>, value |-> ServerValue]>>,
     fows |-> <<SP>>,
     body |-> IF bodiless THEN (IF r.shape = "fixed" THEN [k |-> "fixed", data |-> <<>>] ELSE [k |-> "none"])
              ELSE IF r.shape \in {"fixed", "error"} THEN [k |-> "fixed", data |-> data]
              ELSE [k |-> "chunked", chunks |-> [i \in 1..Len(chunks) |-> [data |-> chunks[i], exts |-> <<>>]],
                    lastexts |-> <<>>, trailers |-> <<>>]]
RespWire(r, hd) == Wire(BuildResponse(r, hd))
Got(res) == [status |-> NumVal(res.start[2], 10, 0), reason |-> res.start[3],
             heads |-> {h \in res.headers : h[1] \notin {LowerS(ContentLength), LowerS(TransferEncoding), LowerS(ServerName), LowerS(ContentType)}},
             body |-> res.body]
ExpectedGot(r) == [status |-> r.status, reason |-> ReasonText(r.status),
                   heads |-> {<<LowerS(r.heads[i].name), r.heads[i].value>> : i \in 1..Len(r.heads)},
                   body |-> RespBody(r)]

(* ------------------------------------------------------------------ the families *)
Items(A, n) == {<<>>} \cup {<<[k |-> K1, v |-> v]>> : v \in Strs(A, MaxLen)}
            \cup (IF n >= 2 THEN {<<[k |-> K1, v |-> v], [k |-> K2, v |-> w]>> : v \in Strs(A, MaxLen), w \in Strs(A, MaxLen)} ELSE {})
JVals == {[t |-> "str", s |-> s] : s \in Strs(JC, MaxLen)} \cup {[t |-> "atom", a |-> a] : a \in {"Jnum", "Jtrue", "Jnull", "Jlist"}}
JObjs == {<<>>} \cup {<<[k |-> K1, v |-> v]>> : v \in JVals}
         \cup (IF BodyItems >= 2 THEN {<<[k |-> K1, v |-> v], [k |-> K2, v |-> w]>> : v \in JVals, w \in {[t |-> "str", s |-> <<"a">>], [t |-> "atom", a |-> "Jnum"]}} ELSE {})
RawDatas == {<<"a">>, <<CR, LF, CR, LF>>, <<"HI", "NUL", "a">>, <<"&", "=", "%", "+">>}
Bodies == {[k |-> "none"]} \cup {[k |-> "raw", data |-> d] : d \in RawDatas}
          \cup {[k |-> "json", obj |-> o] : o \in JObjs} \cup {[k |-> "form", items |-> it] : it \in Items(FC, BodyItems) \ {<<>>}}
Paths == {<<<<"a">>>>, <<<<>>>>} \cup {<<s>> : s \in Strs(PC, MaxLen) \ {<<>>}} \cup {<<<<"a">>, s>> : s \in Strs(PC, MaxLen)}
XName == <<"X", "-", "a", "B">>
HeadSets == {<<>>} \cup {<<[name |-> XName, value |-> v]>> : v \in {s \in Strs(HC, MaxLen + 1) : s # <<>> /\ NoEdgeSpace(s)}}
SmallQ1 == <<[k |-> K1, v |-> <<"a", SP>>]>>
SmallQ == {<<>>, SmallQ1}
R(m, path, q, hs, b) == [method |-> m, path |-> path, query |-> q, heads |-> hs, body |-> b]
\* the families: each widens one part of the request; "all" is the product of query values, methods and body kinds
CoverItems(A) == {<<[k |-> K1, v |-> v]>> : v \in Strs(A, 2)} \cup {<<[k |-> K1, v |-> v], [k |-> K2, v |-> w]>> : v \in Strs(A, 1), w \in Strs(A, 1)}
Plain == <<<<"a">>>>
NoBody == [k |-> "none"]
OneOfEach == {NoBody, [k |-> "raw", data |-> <<"a">>], [k |-> "json", obj |-> <<[k |-> K1, v |-> [t |-> "str", s |-> <<"a">>]]>>],
              [k |-> "form", items |-> <<[k |-> K1, v |-> <<"a">>]>>]}
FamQuery == {R(m, Plain, q, <<>>, NoBody) : m \in Methods \cap {"GET", "POST"}, q \in Items(QC, MaxItems)}
FamBody == {R(m, Plain, <<>>, <<>>, b) : m \in Methods \cap {"GET", "POST", "PUT"}, b \in Bodies}
FamResp == {R(m, Plain, q, <<>>, b) : m \in Methods, q \in SmallQ, b \in {NoBody, [k |-> "raw", data |-> <<"a">>]}}
FamPath == {R(m, path, <<>>, <<>>, NoBody) : m \in Methods \cap {"GET", "PUT"}, path \in Paths}
FamHead == {R(m, Plain, <<>>, hs, b) : m \in Methods \cap {"GET", "POST"}, hs \in HeadSets, b \in {NoBody, [k |-> "raw", data |-> <<"a">>]}}
FamAll == {R(m, Plain, q, <<>>, b) : m \in Methods, q \in Items(QC, AllItems), b \in OneOfEach}
\* the family replayed on the real programs: every value of <= 2 characters alone, every pair of values of <= 1 character
FamCover == {R(m, Plain, q, <<>>, NoBody) : m \in Methods \cap {"GET", "POST"}, q \in CoverItems(QC)}
            \cup {R(m, Plain, <<>>, <<>>, [k |-> "form", items |-> it]) : m \in Methods \cap {"POST", "PUT"}, it \in CoverItems(FC)}
            \cup {R("POST", Plain, <<>>, <<>>, [k |-> "json", obj |-> o]) : o \in JObjs}
            \cup {R(m, Plain, SmallQ1, <<>>, b) : m \in Methods, b \in OneOfEach \cup {[k |-> "raw", data |-> d] : d \in RawDatas}}
            \cup FamPath \cup FamHead \cup FamResp
Requests ==
    CASE Family = "query" -> FamQuery [] Family = "body" -> FamBody [] Family = "resp" -> FamResp
      [] Family = "path" -> FamPath [] Family = "head" -> FamHead [] Family = "all" -> FamAll
      [] Family = "mc" -> FamQuery \cup FamBody \cup FamResp \cup FamPath \cup FamHead \cup FamAll
      [] Family = "cover" -> FamCover

LongPiece == [i \in 1..17 |-> "a"]
PieceSets == {<<<<"a">>>>, <<<<"a", "HI">>, <<CR, LF, "0", CR, LF, CR, LF>>>>, <<<<"a">>, <<>>, <<"b">>>>, <<LongPiece, <<"b">>>>}
RHeads == {<<>>, <<[name |-> XName, value |-> <<"a", SP, "R">>]>>}
NoResp == [shape |-> "none"]
Responses(m) ==
    \* responses without a body: status 204 / 304 / the reply to HEAD, with ("fixed": Content-Length 0) or without
    \* ("empty") a length given by the application
    IF m = "HEAD" THEN {[status |-> st, heads |-> hs, shape |-> sh, pieces |-> <<>>] : st \in {200, 304}, hs \in RHeads, sh \in {"empty", "fixed"}}
    ELSE {[status |-> st, heads |-> hs, shape |-> sh, pieces |-> ps] : st \in {200, 404}, hs \in RHeads, sh \in {"fixed", "chunked"}, ps \in PieceSets}
         \cup {[status |-> st, heads |-> <<>>, shape |-> sh, pieces |-> <<>>] : st \in {200, 204, 304}, sh \in {"empty", "fixed"}}
         \cup {[status |-> st, heads |-> hs, shape |-> "error", pieces |-> <<>>] : st \in {404, 418, 500}, hs \in RHeads}
\* outside the "resp" family only a few responses are tried per request
FewResponses(m) == IF m = "HEAD" THEN Responses(m)
                   ELSE {r \in Responses(m) : r.heads = <<>> /\ ((r.shape = "chunked" /\ r.status = 200 /\ r.pieces = <<LongPiece, <<"b">>>>) \/ (r.shape = "fixed" /\ r.status = 404 /\ Len(r.pieces) = 1))}

(* ------------------------------------------------------------------ behaviour *)
NoEnv == [method |-> <<>>]
NoGot == [status |-> 0]
Init == /\ req \in Requests
        /\ resp = NoResp /\ stage = "new" /\ environ = NoEnv /\ got = NoGot /\ follow = NoResp /\ next = NoGot

AllResponses == UNION {Responses(m) : m \in Methods}
Offered(r) == IF req \in FamResp THEN r \in Responses(req.method) ELSE r \in FewResponses(req.method)
\* the client's user hands the request over; the client puts it on the wire
ClientRequest == /\ stage = "new" /\ stage' = "sent"
                 /\ UNCHANGED <<req, resp, environ, got, follow, next>>
\* the server reads the request, shows it to the application, the application answers r
ServerService(r) == /\ stage = "sent" /\ stage' = "served"
                    /\ Offered(r)
                    /\ environ' = Environ(Parsed(ReqWire(req), "req", FALSE))
                    /\ resp' = r
                    /\ UNCHANGED <<req, got, follow, next>>
\* the client reads the response
ClientService == /\ stage = "served" /\ stage' = "done"
                 /\ got' = Got(Parsed(RespWire(resp, req.method = "HEAD"), "resp", req.method = "HEAD"))
                 /\ UNCHANGED <<req, resp, environ, follow, next>>
\* a further request on the same persistent connection: its response follows the first one on the wire, the client
\* goes on reading where the first response ended
\* The further request is a plain GET; its response is one of each class: fixed length, streamed without a length,
\* empty, bodiless, an error raised by the application - so that every ordered pair of classes occurs on a connection.
Follows == {[status |-> 200, heads |-> <<>>, shape |-> "fixed", pieces |-> <<<<"n", "x", "t">>>>],
            [status |-> 200, heads |-> <<>>, shape |-> "chunked", pieces |-> <<LongPiece, <<"b">>>>],
            [status |-> 200, heads |-> <<>>, shape |-> "empty", pieces |-> <<>>],
            [status |-> 204, heads |-> <<>>, shape |-> "empty", pieces |-> <<>>],
            [status |-> 404, heads |-> <<>>, shape |-> "error", pieces |-> <<>>]}
\* where the cross product is not taken the follow-up is of another class than the first response (after a response
\* with a length a streamed one, and so on)
DefaultFollow(r) == CHOOSE f \in Follows :
    CASE r.shape \in {"fixed", "error"} /\ r.pieces # <<>> -> f.shape = "chunked"
      [] r.shape \in {"fixed", "error"} -> f.shape = "chunked"
      [] r.shape = "chunked" -> f.shape = "fixed"
      [] r.status \in {204, 304} -> f.shape = "chunked"
      [] OTHER -> f.shape = "error"
CrossProduct == req \in FamResp /\ (Cross = "all" \/ (req.method \in {"GET", "HEAD"} /\ req.query = <<>>))
FollowUp(f) == /\ stage = "done" /\ stage' = "again"
               /\ f \in Follows /\ (CrossProduct \/ f = DefaultFollow(resp))
               /\ follow' = f
               /\ LET hd == req.method = "HEAD"
                      first == HP!Run([HP!P0 EXCEPT !.buf = RespWire(resp, hd) \o RespWire(f, FALSE)], "resp", FALSE, hd) IN
                  next' = Got(HP!Result(HP!Run([HP!P0 EXCEPT !.buf = first.buf], "resp", FALSE, FALSE)))
               /\ UNCHANGED <<req, resp, environ, got>>
Next == \/ ClientRequest \/ ClientService
        \/ \E f \in Follows : FollowUp(f)
        \/ \E r \in AllResponses : ServerService(r)
Spec == Init /\ [][Next]_vars

(* ------------------------------------------------------------------ properties *)
RoundTripRequest == (stage \in {"served", "done", "again"}) => environ = ExpectedEnv(req)
RoundTripResponse == (stage \in {"done", "again"}) => got = ExpectedGot(resp)
\* every response is delimited: the one to the next request on the connection arrives intact
NextIntact == (stage = "again") => next = ExpectedGot(follow)
RoundTrip == RoundTripRequest /\ RoundTripResponse /\ NextIntact
\* the wire image of a request is a single well delimited message: nothing is left over
NothingLeft == (stage = "sent") => HP!Run([HP!P0 EXCEPT !.buf = ReqWire(req)], "req", FALSE, FALSE).buf = <<>>
=============================================================================
