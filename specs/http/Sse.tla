--------------------------------- MODULE Sse ---------------------------------
(* Server-sent events (property C33), written from the event stream rules of the HTML          *)
(* standard ("9.2 Server-sent events": parsing and interpreting an event stream), which are    *)
(* also quoted in the docstrings of ioflo.aio.http.httping.EventSource:                        *)
(*                                                                                             *)
(*   stream      = [ bom ] *event                                                              *)
(*   event       = *( comment / field ) end-of-line                                            *)
(*   comment     = colon *any-char end-of-line                                                 *)
(*   field       = 1*name-char [ colon [ space ] *any-char ] end-of-line                       *)
(*   end-of-line = ( cr lf / cr / lf )                                                         *)
(*                                                                                             *)
(* Interpretation: a blank line dispatches an event {last event id, event name, data lines     *)
(* joined by LF} if there was at least one data line, and resets name and data; "data" appends *)
(* a data line, "event" sets the name, "id" sets the last event id (it persists over events),  *)
(* "retry" with only digits sets the reconnection time; comments and other fields are ignored; *)
(* one space after the colon is not part of the value; a line without colon is a field with    *)
(* an empty value.                                                                             *)
(*                                                                                             *)
(* Bytes are strings as in HttpMsg.tla ("CR", "LF", "SP"; "xEF" = octet 0xEF; else the         *)
(* character itself).  A scenario is a sequence of bytes that arrives in pieces (Deliver(k));  *)
(* after each arrival the parser is asked to go on (Parse).  The parser below decodes byte by  *)
(* byte - a line ends AT a CR, an LF directly after that CR is swallowed - so what it has      *)
(* dispatched is by construction a function of the bytes that have arrived.                    *)
EXTENDS Integers, Sequences, TLC

CONSTANTS NSc,          \* scenarios 1..NSc
          ScWire(_),    \* the bytes of scenario i
          MaxPieces,    \* they arrive in at most that many pieces
          MaxK          \* constant bound of a piece's length

VARIABLES sc, sent, pieces,
          seen,     \* number of bytes the parser has looked at
          ps,       \* parser: [bomdone, held, cur (the unfinished line), skiplf, st]
          obs       \* what an observer sees: events dispatched so far, reconnection time, last event id
vars == <<sc, sent, pieces, seen, ps, obs>>

CR == "CR"
LF == "LF"
SP == "SP"
Bom == <<"xEF", "xBB", "xBF">>
DataW == <<"d", "a", "t", "a">>
EventW == <<"e", "v", "e", "n", "t">>
IdW == <<"i", "d">>
RetryW == <<"r", "e", "t", "r", "y">>
Digits == <<"0", "1", "2", "3", "4", "5", "6", "7", "8", "9">>
IsDigit(c) == \E i \in 1..10 : Digits[i] = c
DigitVal(c) == (CHOOSE i \in 1..10 : Digits[i] = c) - 1

RECURSIVE DecVal(_, _), ScanFor(_, _, _), Join(_)
DecVal(s, acc) == IF s = <<>> THEN acc ELSE DecVal(Tail(s), acc * 10 + DigitVal(Head(s)))
ScanFor(s, c, i) == IF i > Len(s) THEN 0 ELSE IF s[i] = c THEN i ELSE ScanFor(s, c, i + 1)
Rest(s, i) == SubSeq(s, i, Len(s))
\* data lines joined by LF
Join(parts) == IF Len(parts) = 1 THEN parts[1] ELSE parts[1] \o <<LF>> \o Join(Tail(parts))

(* ---- interpretation of complete lines ---- *)
NoRetry == -1
St0 == [parts |-> <<>>, name |-> <<>>, lastid |-> <<>>, retry |-> NoRetry, events |-> <<>>]

Dispatch(st) == IF st.parts = <<>> THEN [st EXCEPT !.name = <<>>]
                ELSE [st EXCEPT !.events = Append(@, [id |-> st.lastid, name |-> st.name, data |-> Join(st.parts)]),
                                !.parts = <<>>, !.name = <<>>]

Line(st, text) ==
    IF text = <<>> THEN Dispatch(st)
    ELSE IF text[1] = ":" THEN st
    ELSE LET c == ScanFor(text, ":", 1)
             field == IF c = 0 THEN text ELSE SubSeq(text, 1, c - 1)
             v0 == IF c = 0 THEN <<>> ELSE Rest(text, c + 1)
             value == IF v0 # <<>> /\ v0[1] = SP THEN Tail(v0) ELSE v0 IN
         CASE field = DataW -> [st EXCEPT !.parts = Append(@, value)]
           [] field = EventW -> [st EXCEPT !.name = value]
           [] field = IdW -> [st EXCEPT !.lastid = value]
           [] field = RetryW -> IF value # <<>> /\ \A i \in 1..Len(value) : IsDigit(value[i])
                                THEN [st EXCEPT !.retry = DecVal(value, 0)] ELSE st
           [] OTHER -> st

RECURSIVE Lines(_, _)
\* interpretation of a whole sequence of lines (no bytes, no line endings involved)
Lines(st, texts) == IF texts = <<>> THEN st ELSE Lines(Line(st, Head(texts)), Tail(texts))

(* ---- decoding bytes into lines, one byte at a time ---- *)
\* held: leading bytes that may still turn out to be the byte order mark (until bomdone)
Ps0 == [bomdone |-> FALSE, held |-> <<>>, cur |-> <<>>, skiplf |-> FALSE, st |-> St0]

Byte(q, b) ==
    IF q.skiplf /\ b = LF THEN [q EXCEPT !.skiplf = FALSE]
    ELSE IF b = CR THEN [q EXCEPT !.st = Line(@, q.cur), !.cur = <<>>, !.skiplf = TRUE]
    ELSE IF b = LF THEN [q EXCEPT !.st = Line(@, q.cur), !.cur = <<>>, !.skiplf = FALSE]
    ELSE [q EXCEPT !.cur = Append(@, b), !.skiplf = FALSE]

\* TLC passes operator arguments unevaluated; looking at q first keeps the evaluation of a long fold from nesting
Strict(q) == q.skiplf \in BOOLEAN
RECURSIVE Bytes(_, _)
\* (a left fold over bs, split in halves so that TLC's recursion stays shallow on long pieces)
Bytes(q, bs) == IF Strict(q) /\ bs = <<>> THEN q
                ELSE IF Len(bs) = 1 THEN Byte(q, bs[1])
                ELSE LET h == Len(bs) \div 2 IN Bytes(Bytes(q, SubSeq(bs, 1, h)), SubSeq(bs, h + 1, Len(bs)))

\* one leading byte order mark is not part of the stream
Feed(q, b) ==
    IF q.bomdone THEN Byte(q, b)
    ELSE LET h == Append(q.held, b) IN
         IF h = Bom THEN [q EXCEPT !.bomdone = TRUE, !.held = <<>>]
         ELSE IF h = SubSeq(Bom, 1, Len(h)) THEN [q EXCEPT !.held = h]
         ELSE Bytes([q EXCEPT !.bomdone = TRUE, !.held = <<>>], h)

RECURSIVE FeedAll(_, _)
FeedAll(q, bs) == IF Strict(q) /\ bs = <<>> THEN q
                  ELSE IF Len(bs) = 1 THEN Feed(q, bs[1])
                  ELSE LET h == Len(bs) \div 2 IN FeedAll(FeedAll(q, SubSeq(bs, 1, h)), SubSeq(bs, h + 1, Len(bs)))

Obs(q) == [events |-> q.st.events, retry |-> q.st.retry, leid |-> q.st.lastid]

(* ---- behaviour ---- *)
W == ScWire(sc)

Init == /\ sc \in 1..NSc
        /\ sent = 0 /\ pieces = 0 /\ seen = 0
        /\ ps = Ps0 /\ obs = Obs(Ps0)

\* environment: the next k bytes arrive (the last allowed piece brings everything that is left)
Deliver(k) == /\ seen = sent /\ pieces < MaxPieces
              /\ k \in 1..(Len(W) - sent)
              /\ (pieces = MaxPieces - 1) => (sent + k = Len(W))
              /\ sent' = sent + k /\ pieces' = pieces + 1
              /\ UNCHANGED <<sc, seen, ps, obs>>

\* the parser looks at what has arrived since it was last asked
Parse == /\ seen < sent
         /\ ps' = FeedAll(ps, SubSeq(W, seen + 1, sent))
         /\ obs' = Obs(ps')
         /\ seen' = sent
         /\ UNCHANGED <<sc, sent, pieces>>

\* asking again without news changes nothing
ParseAgain == seen = sent /\ sent > 0 /\ UNCHANGED vars

Next == \/ \E k \in 1..MaxK : Deliver(k)
        \/ Parse \/ ParseAgain
Spec == Init /\ [][Next]_vars

(* ---- properties ---- *)
\* what has been dispatched depends only on the bytes that have arrived, not on the pieces
SplitIndependent == ps = FeedAll(Ps0, SubSeq(W, 1, seen))
ObsIsFunctionOfParser == obs = Obs(ps)
=============================================================================
