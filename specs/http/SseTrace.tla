------------------------------ MODULE SseTrace ------------------------------
(* Binding B for Sse.tla: a recorded execution of a real event stream parser.                   *)
(* Header event {"ev": "Init", "wire": bytes}; then {"ev": "Deliver", "k": n} and               *)
(* {"ev": "Parse" | "ParseAgain" [, "obs": {"events": [{id, name, data}], "retry": n, "leid": b}]} *)
(* - "obs" is left out when the last byte that arrived is a CR: whether that CR is a whole line  *)
(* ending or the first half of CR LF is only known with the next byte, and a parser may wait.   *)
EXTENDS Sse, TraceBatch

VARIABLE l
tvars == <<vars, l>>

TrWire(i) == EvAt(i, 1).wire
Ev == EvAt(sc, l)

TraceInit == Init /\ l = 2

ObsOf(o) == [events |-> [i \in 1..Len(o.events) |-> [id |-> o.events[i].id, name |-> o.events[i].name, data |-> o.events[i].data]],
             retry |-> o.retry, leid |-> o.leid]
\* what the harness saw must be exactly what the specification's action produces
Logged == \/ ~HasField(Ev, "obs")
          \/ HasField(Ev, "obs") /\ obs' = ObsOf(Ev.obs)
          \/ IOEnv.VF_LENIENT = "1"     \* diagnosis only
Consume(name) == l <= TraceLen(sc) /\ Ev.ev = name /\ l' = l + 1

TraceNext ==
    \/ Consume("Deliver") /\ Deliver(Ev.k)
    \/ Consume("Parse") /\ Parse /\ Logged
    \/ Consume("ParseAgain") /\ ParseAgain /\ Logged

TraceSpec == TraceInit /\ [][TraceNext]_tvars
TraceOK == TraceConstraint(sc, l) /\ ((IOEnv.VF_LENIENT = "1") => PrintT(<<"OBS", l, obs>>))
=============================================================================
