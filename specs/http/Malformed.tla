------------------------------ MODULE Malformed ------------------------------
(* Malformed HTTP input only affects its own connection (property C32).                        *)
(*                                                                                             *)
(* kind = "server": a server holds three connections.  Each connection has a script of         *)
(* well-formed requests (HttpMsg.tla); before anything is sent the environment may tamper with *)
(* the bytes of ONE connection (actions Mut*: broken start line, header line, chunk size,      *)
(* chunk terminator, length; MutNum: a numeric field replaced by text of several byte classes; *)
(* flipped / dropped / inserted bytes; junk; truncation).  Then the                            *)
(* bytes arrive in pieces (Deliver), peers may hang up (PeerClose) and the server is serviced  *)
(* (Service = one pass of its service loop, Settle = passes until nothing changes).            *)
(* What a service pass may do to a connection:                                                 *)
(*   * untampered, peer still there: it stays open, is never marked failed, and the responses  *)
(*     it has received are a growing prefix of the echoes of its complete requests - exactly   *)
(*     what it would get if the other connections did not exist (OthersUndisturbed); after     *)
(*     Settle every complete request is answered;                                              *)
(*   * tampered (or hung up): the request parser yields a request (a response arrives), waits, *)
(*     or marks the request failed and the connection is closed; closed is final; nothing      *)
(*     received is taken back;                                                                 *)
(*   * no exception leaves the service loop (NeverRaisesOutOfService).                         *)
(* How many passes a response takes is not documented: Service is nondeterministic about it.   *)
(*                                                                                             *)
(* kind = "client": a client has sent its requests on one connection (number 1); the bytes of  *)
(* the responses - possibly tampered with - arrive in pieces.  The client records responses    *)
(* (resp: [id, err]); a malformed response is recorded with err or keeps it waiting, but       *)
(* servicing the client never raises.                                                          *)
EXTENDS HttpMsg, TLC, Json, IOUtils

CONSTANTS MaxMut,       \* at most that many tamperings
          MaxPieces,    \* pieces per connection
          MaxClose,     \* at most that many peers hang up
          KSet,         \* the piece lengths explored (besides "all that is left"); a recorded execution may use any
          MaxPos,       \* constant bound of the byte positions tampered with
          MaxDepth,     \* bound on the length of behaviours (model checking only)
          Level,        \* 1: few scripts (model checking), 2: all scripts (simulation)
          Kinds,        \* which programs are exercised: subset of {"server", "client"}
          PlanSet,      \* the sorts of tampering explored (subset of Plans)
          MinMut        \* the environment tampers at least that often before it starts

Conns == 1..3

VARIABLES kind,      \* "server" | "client"
          phase,     \* "plan" -> "mutate" -> "plan" ... -> "run"
          plan,      \* the sort of tampering chosen next
          bad,       \* the connection the environment may tamper with
          script,    \* [c -> the well-formed messages connection c carries (indices into the family)]
          wire,      \* [c -> the bytes connection c will carry, while the environment prepares them ("plan"/"mutate");
                     \*  at Start they are handed to the peers and the model keeps only their number]
          wlen,      \* [c -> number of bytes connection c carries] (set at Start)
          mutated,   \* [c -> tampered with]
          nmut,
          sent, pieces,   \* [c -> bytes delivered / number of deliveries]
          pclosed,   \* [c -> the peer has hung up]
          open,      \* [c -> the connection is still held by the program under test]
          failed,    \* [c -> the message was marked failed]
          resp,      \* [c -> the responses received (server) / recorded (client): sequence of [id, err]]
          raised     \* an exception left the service loop
vars == <<kind, phase, plan, bad, script, wire, wlen, mutated, nmut, sent, pieces, pclosed, open, failed, resp, raised>>

(* ---- the well-formed messages ---- *)
H(n, o, v) == [name |-> n, ows |-> o, value |-> v]
Host == H(<<"H", "o", "s", "t">>, <<SP>>, <<"h">>)
\* requests 1-3: the common shapes; 4-6: well-formed but rare syntax - chunk extensions with and without value (also on
\* the last chunk) and a trailer, HTTP/1.0 with keep-alive and an upper-case field name, a repeated field in two cases
E0(n) == [name |-> n, hasval |-> FALSE, val |-> <<>>]
E1(n, v) == [name |-> n, hasval |-> TRUE, val |-> v]
KeepAlive == H(<<"C", "o", "n", "n", "e", "c", "t", "i", "o", "n">>, <<SP>>, <<"k", "e", "e", "p", "-", "a", "l", "i", "v", "e">>)
ReqFam == <<
    [kind |-> "req", start |-> <<<<"G", "E", "T">>, <<"/", "a">>, Http11>>, heads |-> <<Host>>, fows |-> <<SP>>, body |-> [k |-> "none"]],
    [kind |-> "req", start |-> <<<<"P", "O", "S", "T">>, <<"/", "b">>, Http11>>, heads |-> <<Host>>, fows |-> <<SP>>,
     body |-> [k |-> "fixed", data |-> <<"x", "y", "z">>]],
    [kind |-> "req", start |-> <<<<"P", "U", "T">>, <<"/", "c">>, Http11>>, heads |-> <<>>, fows |-> <<SP>>,
     body |-> [k |-> "chunked", chunks |-> <<[data |-> <<"a", "b">>, exts |-> <<>>], [data |-> <<"c">>, exts |-> <<>>]>>,
               lastexts |-> <<>>, trailers |-> <<H(<<"T">>, <<SP>>, <<"v">>)>>]],
    [kind |-> "req", start |-> <<<<"P", "O", "S", "T">>, <<"/", "d">>, Http11>>, heads |-> <<Host>>, fows |-> <<>>,
     body |-> [k |-> "chunked", chunks |-> <<[data |-> <<"p", "q">>, exts |-> <<E0(<<"e">>)>>],
                                             [data |-> <<"r">>, exts |-> <<E1(<<"f">>, <<"v">>), E0(<<"g">>)>>]>>,
               lastexts |-> <<E1(<<"l">>, <<"1">>)>>, trailers |-> <<H(<<"T">>, <<>>, <<"w">>)>>]],
    [kind |-> "req", start |-> <<<<"G", "E", "T">>, <<"/", "e">>, Http10>>,
     heads |-> <<H(<<"H", "O", "S", "T">>, <<>>, <<"h">>), KeepAlive>>, fows |-> <<SP>>, body |-> [k |-> "none"]],
    [kind |-> "req", start |-> <<<<"P", "O", "S", "T">>, <<"/", "f">>, Http11>>,
     heads |-> <<H(<<"X", "-", "A">>, <<SP>>, <<"1">>), Host, H(<<"x", "-", "a">>, <<HT>>, <<"2">>)>>, fows |-> <<SP, SP>>,
     body |-> [k |-> "fixed", data |-> <<"u">>]] >>
Ok == <<Http11, <<"2", "0", "0">>, <<"O", "K">> >>
RespFam == <<
    [kind |-> "resp", start |-> Ok, heads |-> <<>>, fows |-> <<SP>>, body |-> [k |-> "fixed", data |-> <<"o", "k">>]],
    [kind |-> "resp", start |-> Ok, heads |-> <<H(<<"A">>, <<SP>>, <<"b">>)>>, fows |-> <<SP>>,
     body |-> [k |-> "chunked", chunks |-> <<[data |-> <<"a", "b">>, exts |-> <<>>], [data |-> <<"c">>, exts |-> <<>>]>>,
               lastexts |-> <<>>, trailers |-> <<>>]],
    [kind |-> "resp", start |-> Ok, heads |-> <<H(<<"A">>, <<SP>>, <<"b">>)>>, fows |-> <<>>, body |-> [k |-> "close", data |-> <<"x", "y">>]],
    [kind |-> "resp", start |-> Ok, heads |-> <<H(<<"A">>, <<>>, <<"b">>), H(<<"a">>, <<SP>>, <<"c">>)>>, fows |-> <<>>,
     body |-> [k |-> "chunked", chunks |-> <<[data |-> <<"p">>, exts |-> <<E0(<<"e">>)>>], [data |-> <<"q", "r">>, exts |-> <<E1(<<"f">>, <<"v">>)>>]>>,
               lastexts |-> <<E0(<<"l">>)>>, trailers |-> <<H(<<"T">>, <<SP>>, <<"v">>)>>]] >>
Fam(kd) == IF kd = "server" THEN ReqFam ELSE RespFam

ServerScripts == IF Level = 1 THEN {<<1>>, <<2, 3>>} ELSE {<<1>>, <<2>>, <<3>>, <<4>>, <<5>>, <<6>>, <<1, 2>>, <<2, 3>>, <<3, 1>>, <<4, 5>>, <<6, 4>>, <<5, 6>>}
ClientScripts == {<<1>>, <<2>>, <<4>>, <<1, 2>>, <<2, 1>>, <<4, 1>>, <<2, 4>>, <<3>>}      \* a body that runs until close comes last

WireOf(kd, s) == Cat([j \in 1..Len(s) |-> Wire(Fam(kd)[s[j]])])
\* offset of the end of the jth message of an untampered connection (tabulated once)
EndTab == TLCEval([kd \in {"server", "client"} |->
                     [s \in (IF kd = "server" THEN ServerScripts ELSE ClientScripts) |->
                        [j \in 1..Len(s) |-> Len(WireOf(kd, SubSeq(s, 1, j)))]]])
EndOf(kd, s, j) == EndTab[kd][s][j]

(* ---- tampering with the first message of a connection, by structure ---- *)
BadVersion == <<"H", "T", "T", "X", "/", "1", ".", "1">>
Redirs == {"redirnoloc", "redirbadport", "redirbadhost"}      \* a redirect the client cannot follow
MutKinds == Redirs \cup {"method", "version", "nospace", "nostart", "target", "status", "nocolon", "obsfold",
             "lennonnum", "lenneg", "lenmore", "lenless", "sizebad", "sizeempty", "termwrong", "termmiss", "trailerbad"}
Applicable(m, mu) ==
    CASE mu \in {"method", "target"} -> m.kind = "req"
      [] mu = "status" \/ mu \in Redirs -> m.kind = "resp"
      [] mu \in {"version", "nospace", "nostart"} -> TRUE
      [] mu \in {"nocolon", "obsfold"} -> AllHeads(m) # <<>>
      [] mu \in {"lennonnum", "lenneg", "lenmore", "lenless"} -> m.body.k = "fixed"
      [] mu \in {"sizebad", "sizeempty", "termwrong", "termmiss", "trailerbad"} -> m.body.k = "chunked"

XStart(m, mu) ==
    CASE mu = "method" -> <<"X", "E", "T", SP>> \o m.start[2] \o <<SP>> \o m.start[3] \o CRLF
      [] mu = "version" -> IF m.kind = "req" THEN m.start[1] \o <<SP>> \o m.start[2] \o <<SP>> \o BadVersion \o CRLF
                           ELSE BadVersion \o <<SP>> \o m.start[2] \o <<SP>> \o m.start[3] \o CRLF
      [] mu = "nospace" -> m.start[1] \o m.start[2] \o m.start[3] \o CRLF
      [] mu = "nostart" -> CRLF
      [] mu = "target" -> m.start[1] \o <<SP, "h", "t", "t", "p", ":", "/", "/", "[", SP>> \o m.start[3] \o CRLF
      [] mu = "status" -> m.start[1] \o <<SP, "2", "x", "0", SP>> \o m.start[3] \o CRLF
      [] mu \in Redirs -> m.start[1] \o <<SP, "3", "0", "2", SP, "F">> \o CRLF
      [] OTHER -> StartLine(m)
NoColon(h) == h.name \o h.ows \o h.value \o CRLF
Location == <<"L", "o", "c", "a", "t", "i", "o", "n", ":", SP>>
LenHeader(m, v) == <<[name |-> ContentLength, ows |-> m.fows, value |-> v]>>
XHeads(m, mu) ==
    CASE mu = "nocolon" -> NoColon(AllHeads(m)[1]) \o HLines(Tail(AllHeads(m)))
      \* the first field continued on a second line (obsolete line folding, RFC 7230 3.2.4: may be rejected)
      [] mu = "obsfold" -> AllHeads(m)[1].name \o <<":", SP, "a">> \o CRLF \o <<SP>> \o AllHeads(m)[1].value \o CRLF \o HLines(Tail(AllHeads(m)))
      [] mu = "redirbadport" -> Location \o <<"h", "t", "t", "p", ":", "/", "/", "h", ":", "x", "/", "p">> \o CRLF \o HLines(AllHeads(m))
      [] mu = "redirbadhost" -> Location \o <<"h", "t", "t", "p", ":", "/", "/", "[", "/", "p">> \o CRLF \o HLines(AllHeads(m))
      [] mu = "lennonnum" -> HLines(m.heads \o LenHeader(m, <<"x">>))
      [] mu = "lenneg" -> HLines(m.heads \o LenHeader(m, <<"-", "1">>))
      [] mu = "lenmore" -> HLines(m.heads \o LenHeader(m, Dec(Len(m.body.data) + 2)))
      [] mu = "lenless" -> HLines(m.heads \o LenHeader(m, Dec(Len(m.body.data) - 1)))
      [] OTHER -> HLines(AllHeads(m))
XChunk1(c, mu) ==
    CASE mu = "sizebad" -> <<"g">> \o CRLF \o c.data \o CRLF
      [] mu = "sizeempty" -> CRLF \o c.data \o CRLF
      [] mu = "termwrong" -> Hex(Len(c.data)) \o CRLF \o c.data \o <<"x", "y">>
      [] mu = "termmiss" -> Hex(Len(c.data)) \o CRLF \o c.data
      [] OTHER -> ChunkWire(c)
XBody(m, mu) ==
    IF m.body.k # "chunked" THEN BodyWire(m.body)
    ELSE XChunk1(m.body.chunks[1], mu) \o Cat([i \in 1..(Len(m.body.chunks) - 1) |-> ChunkWire(m.body.chunks[i + 1])])
         \o <<"0">> \o CRLF \o (IF mu = "trailerbad" THEN <<"T", "v">> \o CRLF ELSE HLines(m.body.trailers)) \o CRLF
MWire(m, mu) == XStart(m, mu) \o XHeads(m, mu) \o CRLF \o XBody(m, mu)

(* ---- numeric fields (Content-Length, chunk size, status code, version digit) replaced by text of several byte classes: *)
(*      ASCII non-digits, signs, blanks, forms Python's int() accepts beyond 1*DIGIT, bytes >= 0x80 that ISO-8859-1  *)
(*      decoding turns into characters counted as digits / numerics (superscripts 0xB2 0xB3 0xB9, fractions 0xBC..), *)
(*      nothing at all, overlong numbers                                                                              *)
Nines == [i \in 1..25 |-> "9"]
NumBad == << <<"x">>, <<"+", "1">>, <<"-", "2">>, <<"1", SP, "2">>, <<"1", "_", "0">>, <<"0", "x", "1", "0">>,
             <<"xB2">>, <<"1", "xB2">>, <<"xB3", "xB9">>, <<"xB9", "0">>, <<"xBC">>, <<"2", "xBD">>, <<"HI">>,
             <<>>, Nines, <<"1", ".", "5">>, <<"1", "e", "1">> >>
NumFields == {"length", "chunksize", "status", "version"}
NumApplicable(m, f) == CASE f = "length" -> m.body.k = "fixed"
                         [] f = "chunksize" -> m.body.k = "chunked"
                         [] f = "status" -> m.kind = "resp"
                         [] f = "version" -> TRUE
BadVer(v) == <<"H", "T", "T", "P", "/">> \o v \o <<".", "1">>
NWire(m, f, v) ==
    CASE f = "length" -> StartLine(m) \o HLines(m.heads \o LenHeader(m, v)) \o CRLF \o BodyWire(m.body)
      [] f = "chunksize" -> StartLine(m) \o HLines(AllHeads(m)) \o CRLF
                            \o v \o CRLF \o m.body.chunks[1].data \o CRLF
                            \o Cat([i \in 1..(Len(m.body.chunks) - 1) |-> ChunkWire(m.body.chunks[i + 1])])
                            \o <<"0">> \o CRLF \o HLines(m.body.trailers) \o CRLF
      [] f = "status" -> m.start[1] \o <<SP>> \o v \o <<SP>> \o m.start[3] \o CRLF \o HLines(AllHeads(m)) \o CRLF \o BodyWire(m.body)
      [] f = "version" -> (IF m.kind = "req" THEN m.start[1] \o <<SP>> \o m.start[2] \o <<SP>> \o BadVer(v)
                           ELSE BadVer(v) \o <<SP>> \o m.start[2] \o <<SP>> \o m.start[3])
                          \o CRLF \o HLines(AllHeads(m)) \o CRLF \o BodyWire(m.body)

(* ---- text with characters that mean something to formatting / escaping code, injected where an error report *)
(*      would echo the peer's bytes: method, target, version, a header / trailer line, a chunk-size line, status *)
MetaToks == << <<"{">>, <<"}">>, <<"{", "0", "}">>, <<"{", "x", "}">>, <<"{", "}">>, <<"%", "s">>, <<"%">>, <<"%", "(", "a", ")", "s">>,
               <<"\\">>, <<"x00">>, <<"HI">>, <<"{", "0", "!", "r", "}">>, <<"$", "{", "a", "}">> >>
TokParts == {"method", "target", "version", "header", "chunksize", "trailer", "status"}
TokApplicable(m, pt) == CASE pt \in {"method", "target"} -> m.kind = "req"
                          [] pt = "status" -> m.kind = "resp"
                          [] pt \in {"chunksize", "trailer"} -> m.body.k = "chunked"
                          [] OTHER -> TRUE
TStart(m, pt, t) ==
    CASE pt = "method" -> <<"G">> \o t \o <<SP>> \o m.start[2] \o <<SP>> \o m.start[3] \o CRLF
      [] pt = "target" -> m.start[1] \o <<SP, "h", "t", "t", "p", ":", "/", "/", "[">> \o t \o <<SP>> \o m.start[3] \o CRLF
      [] pt = "version" -> (IF m.kind = "req" THEN m.start[1] \o <<SP>> \o m.start[2] \o <<SP, "X">> \o t
                            ELSE <<"X">> \o t \o <<SP>> \o m.start[2] \o <<SP>> \o m.start[3]) \o CRLF
      [] pt = "status" -> m.start[1] \o <<SP>> \o t \o <<SP>> \o m.start[3] \o CRLF
      [] OTHER -> StartLine(m)
TWire(m, pt, t) ==
    TStart(m, pt, t)
    \o (IF pt = "header" THEN <<"B">> \o t \o CRLF ELSE <<>>) \o HLines(AllHeads(m)) \o CRLF
    \o (IF m.body.k # "chunked" THEN BodyWire(m.body)
        ELSE (IF pt = "chunksize" THEN t \o CRLF \o m.body.chunks[1].data \o CRLF ELSE ChunkWire(m.body.chunks[1]))
             \o Cat([i \in 1..(Len(m.body.chunks) - 1) |-> ChunkWire(m.body.chunks[i + 1])])
             \o <<"0">> \o CRLF \o (IF pt = "trailer" THEN <<"T">> \o t \o CRLF ELSE HLines(m.body.trailers)) \o CRLF)

FlipBytes == {CR, LF, SP, ":", ";", "HI", "0", "x", "-", "{", "}", "%", "\\", "x00"}
Junk == << <<LF, LF>>, <<CR, LF, CR, LF>>, <<"HI", "HI", ":", CR, LF, CR, LF>>, <<"G", "E", "T", CR, LF, CR, LF>>,
           <<":", CR, LF>>, <<"0", CR, LF, CR, LF>>, <<"G", "E", "T", SP, "/", SP, "H", "T", "T", "P", "/", "1", ".", "1", LF, LF>> >>

(* ---- behaviour ---- *)
UsedConns == IF kind = "server" THEN Conns ELSE {1}
Plans == {"msg", "num", "tok", "flip", "drop", "insert", "junk", "truncate"}

Init == /\ kind \in Kinds
        /\ phase = "plan" /\ plan = "none"
        /\ bad \in (IF kind = "server" THEN Conns ELSE {1})
        /\ script \in [Conns -> IF kind = "server" THEN ServerScripts ELSE ClientScripts]
        /\ (kind = "client") => (script[2] = <<1>> /\ script[3] = <<1>>)      \* unused
        /\ wire = [c \in Conns |-> WireOf(kind, script[c])]
        /\ wlen = [c \in Conns |-> 0]
        /\ mutated = [c \in Conns |-> FALSE]
        /\ nmut = 0
        /\ sent = [c \in Conns |-> 0] /\ pieces = [c \in Conns |-> 0]
        /\ pclosed = [c \in Conns |-> FALSE]
        /\ open = [c \in Conns |-> TRUE] /\ failed = [c \in Conns |-> FALSE]
        /\ resp = [c \in Conns |-> <<>>]
        /\ raised = FALSE

\* the environment first decides what sort of tampering comes next (or to start) ...
Plan(pl) == /\ phase = "plan" /\ nmut < MaxMut
            /\ pl \in PlanSet
            /\ (pl \in {"msg", "num", "tok"}) => (nmut = 0)     \* structured breakage applies to the untouched first message
            /\ phase' = "mutate" /\ plan' = pl
            /\ UNCHANGED <<kind, bad, script, wire, wlen, mutated, nmut, sent, pieces, pclosed, open, failed, resp, raised>>
\* ... then does it, on the one connection it may tamper with
Tamper(pl, c, w) == /\ phase = "mutate" /\ plan = pl /\ c = bad
                    /\ wire' = [wire EXCEPT ![c] = w]
                    /\ mutated' = [mutated EXCEPT ![c] = TRUE]
                    /\ nmut' = nmut + 1
                    /\ phase' = "plan" /\ plan' = "none"
                    /\ UNCHANGED <<kind, bad, script, wlen, sent, pieces, pclosed, open, failed, resp, raised>>

\* the first message of the connection is broken in a structured way (the rest follows untouched)
MutMsg(c, mu) == /\ Applicable(Fam(kind)[script[c][1]], mu)
                 /\ Tamper("msg", c, MWire(Fam(kind)[script[c][1]], mu) \o WireOf(kind, Tail(script[c])))
\* a numeric field of the first message is replaced by the jth piece of bad text
MutNum(c, f, j) == /\ NumApplicable(Fam(kind)[script[c][1]], f)
                   /\ Tamper("num", c, NWire(Fam(kind)[script[c][1]], f, NumBad[j]) \o WireOf(kind, Tail(script[c])))
\* a part of the first message that error reports echo gets the jth piece of awkward text
MutTok(c, pt, j) == /\ TokApplicable(Fam(kind)[script[c][1]], pt)
                    /\ Tamper("tok", c, TWire(Fam(kind)[script[c][1]], pt, MetaToks[j]) \o WireOf(kind, Tail(script[c])))
MutFlip(c, i, b) == i \in 1..Len(wire[c]) /\ wire[c][i] # b /\ Tamper("flip", c, [wire[c] EXCEPT ![i] = b])
MutDrop(c, i) == i \in 1..Len(wire[c]) /\ Len(wire[c]) > 1 /\ Tamper("drop", c, SubSeq(wire[c], 1, i - 1) \o SubSeq(wire[c], i + 1, Len(wire[c])))
MutInsert(c, i, b) == i \in 1..Len(wire[c]) /\ Tamper("insert", c, SubSeq(wire[c], 1, i - 1) \o <<b>> \o SubSeq(wire[c], i, Len(wire[c])))
MutJunk(c, j) == j \in 1..Len(Junk) /\ Tamper("junk", c, Junk[j] \o (IF j % 2 = 0 THEN wire[c] ELSE <<>>))
MutTruncate(c, i) == i \in 1..(Len(wire[c]) - 1) /\ Tamper("truncate", c, SubSeq(wire[c], 1, i))

Start == /\ phase = "plan" /\ nmut >= MinMut /\ phase' = "run"
         /\ wlen' = [c \in Conns |-> Len(wire[c])]
         /\ wire' = [c \in Conns |-> <<>>]
         /\ UNCHANGED <<kind, plan, bad, script, mutated, nmut, sent, pieces, pclosed, open, failed, resp, raised>>

\* environment: the next k bytes of connection c arrive (the last allowed piece brings the rest)
Deliver(c, k) == /\ phase = "run" /\ c \in UsedConns /\ ~pclosed[c] /\ pieces[c] < MaxPieces
                 /\ k >= 1 /\ k <= wlen[c] - sent[c]
                 /\ (pieces[c] = MaxPieces - 1) => (sent[c] + k = wlen[c])
                 /\ sent' = [sent EXCEPT ![c] = @ + k]
                 /\ pieces' = [pieces EXCEPT ![c] = @ + 1]
                 /\ UNCHANGED <<kind, phase, plan, bad, script, wire, wlen, mutated, nmut, pclosed, open, failed, resp, raised>>

DeliverRest(c) == Deliver(c, wlen[c] - sent[c])

\* environment: the peer of connection c hangs up
PeerClose(c) == /\ phase = "run" /\ c \in UsedConns /\ ~pclosed[c]
                /\ Cardinality({d \in Conns : pclosed[d]}) < MaxClose
                /\ pclosed' = [pclosed EXCEPT ![c] = TRUE]
                /\ UNCHANGED <<kind, phase, plan, bad, script, wire, wlen, mutated, nmut, sent, pieces, open, failed, resp, raised>>

(* ---- what servicing may do ---- *)
IsPre(a, b) == Len(a) <= Len(b) /\ a = SubSeq(b, 1, Len(a))
\* a message of an untampered connection is complete when its last byte has arrived
\* (a response body that runs until close: when the peer has also hung up)
Complete(c, j) == /\ sent[c] >= EndOf(kind, script[c], j)
                  /\ (Fam(kind)[script[c][j]].body.k = "close") => pclosed[c]
NComplete(c) == Cardinality({j \in 1..Len(script[c]) : Complete(c, j)})
Expect(c) == [j \in 1..NComplete(c) |-> [id |-> script[c][j], err |-> FALSE]]
\* untouched by the environment's mischief: not tampered with; the peer is still there
\* (a client's peer may hang up once it has sent everything)
Good(c) == /\ ~mutated[c]
           /\ IF kind = "server" THEN ~pclosed[c] ELSE (pclosed[c] => sent[c] = wlen[c])

\* o = what an observer sees of the connections after the pass: [c -> [open, failed, resp]]
Allowed(c, o, settle) ==
    IF Good(c)
    THEN /\ (kind = "server" \/ ~pclosed[c]) => o.open
         /\ ~o.failed
         /\ IsPre(resp[c], o.resp) /\ IsPre(o.resp, Expect(c))
         /\ settle => o.resp = Expect(c)
    ELSE /\ IsPre(resp[c], o.resp)
         \* a connection the server closed is gone for good (a client may still work off what it received before the hang-up)
         /\ (kind = "server" /\ ~open[c]) => (~o.open /\ o.resp = resp[c])
         /\ failed[c] => o.failed
         /\ o.failed => ~o.open

ServiceCore(obs, settle) ==
    /\ phase = "run"
    /\ \A c \in UsedConns : Allowed(c, obs[c], settle)
    /\ open' = [c \in Conns |-> IF c \in UsedConns THEN obs[c].open ELSE open[c]]
    /\ failed' = [c \in Conns |-> IF c \in UsedConns THEN obs[c].failed ELSE failed[c]]
    /\ resp' = [c \in Conns |-> IF c \in UsedConns THEN obs[c].resp ELSE resp[c]]
    /\ UNCHANGED <<kind, phase, plan, bad, script, wire, wlen, mutated, nmut, sent, pieces, pclosed>>

\* the observations the model offers: for a good connection any admissible progress, for the others
\* wait / one more response (id 0: "some response") with or without error / failed and closed / just closed
Some == {[id |-> 0, err |-> e] : e \in BOOLEAN}
Choices(c) ==
    IF Good(c) THEN {[open |-> TRUE, failed |-> FALSE, resp |-> SubSeq(Expect(c), 1, n)] : n \in Len(resp[c])..NComplete(c)}
    ELSE IF kind = "server" /\ ~open[c] THEN {[open |-> FALSE, failed |-> failed[c], resp |-> resp[c]]}
    ELSE IF failed[c] THEN {[open |-> FALSE, failed |-> TRUE, resp |-> resp[c]]}
    ELSE {[open |-> TRUE, failed |-> FALSE, resp |-> resp[c]], [open |-> FALSE, failed |-> TRUE, resp |-> resp[c]],
          [open |-> FALSE, failed |-> FALSE, resp |-> resp[c]]}
         \cup (IF Len(resp[c]) < 2 THEN {[open |-> op, failed |-> FALSE, resp |-> Append(resp[c], s)] : s \in Some, op \in BOOLEAN} ELSE {})

Pick(o1, o2, o3) == [c \in Conns |-> CASE c = 1 -> o1 [] c = 2 -> o2 [] c = 3 -> o3]
Service == \E o1 \in Choices(1), o2 \in Choices(2), o3 \in Choices(3) : ServiceCore(Pick(o1, o2, o3), FALSE) /\ raised' = FALSE
Settle == \E o1 \in Choices(1), o2 \in Choices(2), o3 \in Choices(3) : ServiceCore(Pick(o1, o2, o3), TRUE) /\ raised' = FALSE

Next == \/ \E pl \in Plans : Plan(pl)
        \/ \E c \in Conns, mu \in MutKinds : MutMsg(c, mu)
        \/ \E c \in Conns, f \in NumFields, j \in 1..Len(NumBad) : MutNum(c, f, j)
        \/ \E c \in Conns, pt \in TokParts, j \in 1..Len(MetaToks) : MutTok(c, pt, j)
        \/ \E c \in Conns, i \in 1..MaxPos, b \in FlipBytes : MutFlip(c, i, b)
        \/ \E c \in Conns, i \in 1..MaxPos : MutDrop(c, i)
        \/ \E c \in Conns, i \in 1..MaxPos, b \in FlipBytes : MutInsert(c, i, b)
        \/ \E c \in Conns, j \in 1..7 : MutJunk(c, j)
        \/ \E c \in Conns, i \in 1..MaxPos : MutTruncate(c, i)
        \/ Start
        \/ \E c \in Conns, k \in KSet : Deliver(c, k)
        \/ \E c \in Conns : DeliverRest(c)
        \/ \E c \in Conns : PeerClose(c)
        \/ Service \/ Settle
Spec == Init /\ [][Next]_vars

(* ---- properties ---- *)
NeverRaisesOutOfService == ~raised
\* a connection nobody tampered with and whose peer is there gets exactly the answers to its own requests, in order,
\* whatever happens on the other connections; it is never failed or closed
OthersUndisturbed == \A c \in UsedConns : Good(c) => /\ (kind = "server" => open[c]) /\ ~failed[c]
                                                     /\ IsPre(resp[c], [j \in 1..Len(script[c]) |-> [id |-> script[c][j], err |-> FALSE]])
                                                     /\ Len(resp[c]) <= NComplete(c)
FailedMeansClosed == \A c \in UsedConns : failed[c] => ~open[c]
Bounded == TLCGet("level") <= MaxDepth

\* what the harness needs to know about the well-formed messages (written when MALFORMED_TABLE names a file)
Table == [reqs |-> [i \in 1..Len(ReqFam) |-> [start |-> ReqFam[i].start, body |-> BodyData(ReqFam[i].body)]],
          resps |-> [i \in 1..Len(RespFam) |-> [start |-> RespFam[i].start, body |-> BodyData(RespFam[i].body)]]]
ASSUME (IOEnv.MALFORMED_TABLE = "") \/ JsonSerialize(IOEnv.MALFORMED_TABLE, Table)
=============================================================================
