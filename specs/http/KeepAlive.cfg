SPECIFICATION Spec
CONSTANTS
  N = 3
  Shapes = {"fixed", "stream", "empty", "bodiless"}
  MaxBlocks = 3
INVARIANT TypeOK
INVARIANT ResponsesPrefixOfRequests
INVARIANT EveryResponseDelimited
INVARIANT ConnectionReusable
INVARIANT AtQuiescenceAllAnswered
PROPERTY SettleAnswersAll
CHECK_DEADLOCK FALSE
