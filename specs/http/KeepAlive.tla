------------------------------ MODULE KeepAlive ------------------------------
(* A persistent HTTP/1.1 connection between one client and one server (property C31).          *)
(*                                                                                             *)
(* The client's user submits up to N requests (ClientRequest).  The client keeps one request   *)
(* in flight: a service pass (ClientService) puts the next submitted request on the wire when  *)
(* no response is outstanding, and hands a response to its user once the response has arrived  *)
(* completely.  The server (ServerService) presents a completely received request to the       *)
(* application and emits the application's response, possibly over several passes; how much a  *)
(* pass emits is not documented, so it is left open here (0 .. all remaining blocks).  What a  *)
(* pass of one side has written is a "block" on the wire of that direction; the network        *)
(* (Deliver) hands the receiver either the whole first block or a proper, non-empty prefix of  *)
(* it.  Settle stands for "both sides are serviced and everything is delivered until nothing   *)
(* changes any more".                                                                          *)
(*                                                                                             *)
(* Response shapes (what the WSGI application produces) and how RFC 7230 3.3.3 lets a server   *)
(* delimit them on a connection that is to stay open:                                          *)
(*   "fixed"   Content-Length given by the application          -> "length"                    *)
(*   "stream"  pieces without a length, request was HTTP/1.1    -> "chunked"                   *)
(*   "empty"   no body at all                                   -> "chunked" or "length" (0)   *)
(*   "bodiless" status 204 or 304, or the reply to a HEAD request: ends with the header section *)
(*             whatever its headers announce (a Content-Length describes the body that is not  *)
(*             sent)                                            -> "length" (0); a server that *)
(*             announces chunked coding for it and sends the empty chunked body, and a client  *)
(*             that consumes it, agree as well                  -> "chunked"                   *)
(* A shape says what the client must receive, not how the application hands it over: the body  *)
(* iterable may have one or several items, empty items anywhere (PEP 3333: "not ready yet"),   *)
(* may be a list or a generator, part of the body may go through the write() callable, an      *)
(* empty response may declare Content-Length: 0 or nothing and have no item or an empty item,  *)
(* a fixed response may offer more than it declared (the rest is dropped).  All of these are   *)
(* the same behaviour here; the harness rotates through them (STYLES in keepalive.py).         *)
(* A body that runs until the connection closes ("close") is not delimited: nothing can follow *)
(* it on the connection.                                                                       *)
(*                                                                                             *)
(* Everything in the state is visible to an observer holding the client's public queues, the   *)
(* application's call log and the bytes on the wire, so recorded states of the real programs   *)
(* can be matched against the successors this specification allows (vf/families/keepalive.py). *)
EXTENDS Integers, Sequences, FiniteSets, TLC

CONSTANTS N,          \* number of requests submitted at most
          Shapes,     \* response shapes the application may choose
          MaxBlocks   \* a response is emitted in at most that many blocks

VARIABLES shapes,     \* [1..N -> Shapes] the application's answer to request i (chosen up front: every mix)
          sub,        \* number of requests submitted to the client so far
          sent,       \* number of requests the client has written to the wire
          waited,     \* the client has a request outstanding
          responses,  \* what the client has handed to its user: sequence of [id, req, shape]
          c2s,        \* request `sent` on the wire: "none" | "whole" | "rest" (a prefix was delivered already)
          sbuf,       \* request `sent` at the server, not yet taken: "empty" | "partial" | "complete"
          served,     \* number of requests presented to the application
          emitted,    \* number of blocks of response `served` written so far (0 again once it is complete)
          done,       \* response `served` has been written completely
          delims,     \* how each response whose head was written is delimited (sequence over "length","chunked","close")
          s2c,        \* blocks of response `served` on the wire: sequence of [fin, cut]
          cbuf,       \* response at the client, not yet taken: [partial, fin] (a block arrived in part / the last block arrived)
          open        \* the connection is open (never closed by either side)
vars == <<shapes, sub, sent, waited, responses, c2s, sbuf, served, emitted, done, delims, s2c, cbuf, open>>

NoBuf == [partial |-> FALSE, fin |-> FALSE]

\* the delimitations RFC 7230 allows for a response that must leave the connection usable
Delims(shape) == CASE shape = "fixed" -> {"length"}
                   [] shape = "stream" -> {"chunked"}
                   [] shape = "empty" -> {"chunked", "length"}
                   [] shape = "bodiless" -> {"chunked", "length"}

Init == /\ shapes \in [1..N -> Shapes]
        /\ sub = 0 /\ sent = 0 /\ waited = FALSE /\ responses = <<>>
        /\ c2s = "none" /\ sbuf = "empty"
        /\ served = 0 /\ emitted = 0 /\ done = FALSE /\ delims = <<>>
        /\ s2c = <<>> /\ cbuf = NoBuf /\ open = TRUE

\* the user of the client submits one more request
ClientRequest == /\ sub < N
                 /\ sub' = sub + 1
                 /\ UNCHANGED <<shapes, sent, waited, responses, c2s, sbuf, served, emitted, done, delims, s2c, cbuf, open>>

(* ---- client service pass: send the next request if none is outstanding; take a complete response.  The order  *)
(*      of the two inside one pass is not documented: both are allowed.                                          *)
CanSend(w, s) == ~w /\ s < sub
Complete(b) == b.fin /\ ~b.partial
Resp(i) == [id |-> i, req |-> i, shape |-> shapes[i]]

ClientService ==
    \E first \in {"send", "recv"} :
        LET w1 == IF first = "send" /\ CanSend(waited, sent) THEN TRUE ELSE waited
            s1 == IF first = "send" /\ CanSend(waited, sent) THEN sent + 1 ELSE sent
            \* a request just sent cannot have been answered yet
            take == waited /\ Complete(cbuf)
            w2 == IF take THEN FALSE ELSE w1
            again == first = "recv" /\ CanSend(w2, s1)
            w3 == IF again THEN TRUE ELSE w2
            s3 == IF again THEN s1 + 1 ELSE s1 IN
        /\ waited' = w3 /\ sent' = s3
        /\ c2s' = IF s3 > sent THEN "whole" ELSE c2s
        /\ responses' = IF take THEN Append(responses, Resp(Len(responses) + 1)) ELSE responses
        /\ cbuf' = IF take THEN NoBuf ELSE cbuf
        /\ UNCHANGED <<shapes, sub, sbuf, served, emitted, done, delims, s2c, open>>

(* ---- server service pass: take a complete request (only once the previous response is written), then write   *)
(*      between nothing and everything of the response in progress                                               *)
Blocks(k, fin) == [i \in 1..k |-> [fin |-> (fin /\ i = k), cut |-> FALSE]]

ServerService ==
    LET take == sbuf = "complete" /\ (served = 0 \/ done)
        sv == IF take THEN served + 1 ELSE served
        em == IF take THEN 0 ELSE emitted
        dn == IF take THEN FALSE ELSE done IN
    /\ served' = sv
    /\ sbuf' = IF take THEN "empty" ELSE sbuf
    /\ IF sv = 0 \/ dn
       THEN /\ emitted' = em /\ done' = dn
            /\ UNCHANGED <<delims, s2c>>
       ELSE \E k \in 0..(MaxBlocks - em), fin \in BOOLEAN :
            /\ (k = 0) => ~fin
            /\ (em + k = MaxBlocks) => fin
            /\ emitted' = (IF fin THEN 0 ELSE em + k) /\ done' = fin
            /\ s2c' = s2c \o Blocks(k, fin)
            /\ IF em = 0 /\ k > 0
               THEN \E d \in Delims(shapes[sv]) : delims' = Append(delims, d)
               ELSE UNCHANGED delims
    /\ UNCHANGED <<shapes, sub, sent, waited, responses, c2s, cbuf, open>>

(* ---- the network *)
Deliver(dir, how) ==
    /\ dir \in {"c2s", "s2c"} /\ how \in {"part", "block"}
    /\ IF dir = "c2s"
       THEN /\ IF how = "part" THEN c2s = "whole" /\ c2s' = "rest" /\ sbuf' = "partial"
                               ELSE c2s \in {"whole", "rest"} /\ c2s' = "none" /\ sbuf' = "complete"
            /\ UNCHANGED <<s2c, cbuf>>
       ELSE /\ s2c # <<>>
            /\ IF how = "part"
               THEN /\ ~Head(s2c).cut
                    /\ s2c' = <<[Head(s2c) EXCEPT !.cut = TRUE]>> \o Tail(s2c)
                    /\ cbuf' = [cbuf EXCEPT !.partial = TRUE]
               ELSE /\ s2c' = Tail(s2c)
                    /\ cbuf' = [partial |-> FALSE, fin |-> Head(s2c).fin]
            /\ UNCHANGED <<c2s, sbuf>>
    /\ UNCHANGED <<shapes, sub, sent, waited, responses, served, emitted, done, delims, open>>

(* ---- both sides serviced and everything delivered until nothing changes: every submitted request answered *)
AllResp == [i \in 1..sub |-> Resp(i)]
Settle == /\ sub > 0
          /\ sent' = sub /\ waited' = FALSE /\ responses' = AllResp
          /\ c2s' = "none" /\ sbuf' = "empty" /\ served' = sub /\ done' = TRUE
          /\ emitted' = 0
          /\ delims' \in {d \in [1..sub -> {"length", "chunked"}] :
                            /\ \A i \in 1..Len(delims) : d[i] = delims[i]
                            /\ \A i \in 1..sub : d[i] \in Delims(shapes[i])}
          /\ s2c' = <<>> /\ cbuf' = NoBuf
          /\ UNCHANGED <<shapes, sub, open>>

Next == \/ ClientRequest \/ ClientService \/ ServerService \/ Settle
        \/ \E dir \in {"c2s", "s2c"}, how \in {"part", "block"} : Deliver(dir, how)
Spec == Init /\ [][Next]_vars

(* ---- properties ---- *)
\* responses come in request order, each matched to the request that caused it, never more than requests sent
ResponsesPrefixOfRequests ==
    /\ Len(responses) <= sent
    /\ \A i \in 1..Len(responses) : responses[i].id = i /\ responses[i].req = i /\ responses[i].shape = shapes[i]
\* every response is delimited by a length or by chunking
EveryResponseDelimited == \A i \in 1..Len(delims) : delims[i] \in {"length", "chunked"} /\ delims[i] \in Delims(shapes[i])
\* the connection stays usable: open, and at most one request / response in transit at a time
ConnectionReusable == /\ open
                      /\ sent - Len(responses) \in {0, 1}
                      /\ waited <=> (sent > Len(responses))
                      /\ served <= sent /\ served >= Len(responses)
\* after Settle every submitted request has its response
Quiescent == sent = sub /\ ~waited /\ c2s = "none" /\ sbuf = "empty" /\ s2c = <<>> /\ cbuf = NoBuf /\ (served = 0 \/ done) /\ served = sent
AtQuiescenceAllAnswered == Quiescent => Len(responses) = sub
SettleAnswersAll == [][(sent' = sub /\ ~waited' /\ s2c' = <<>> /\ done' /\ served' = sub) => Len(responses') = sub]_vars
TypeOK == /\ sub \in 0..N /\ sent \in 0..sub /\ served \in 0..sent
          /\ c2s \in {"none", "whole", "rest"} /\ sbuf \in {"empty", "partial", "complete"}
          /\ emitted \in 0..MaxBlocks /\ Len(s2c) <= MaxBlocks
=============================================================================
