------------------------------ MODULE HttpParse ------------------------------
(* Incremental parsing of HTTP/1.x messages (property C29): the bytes of one or more messages  *)
(* arrive in pieces (environment action Deliver(k)); after every arrival the parser is asked   *)
(* to go on (action Parse) and advances as far as the bytes it has allow:                      *)
(*                                                                                             *)
(*   line -> headers -> done                                   (request without body)          *)
(*                   -> body -> done                           (Content-Length)                *)
(*                   -> chunk-size -> chunk-data -> chunk-end -> chunk-size ...                *)
(*                                 -> trailers -> done         (Transfer-Encoding: chunked)    *)
(*                   -> close -> done                          (response body until close)     *)
(*                                                                                             *)
(* Written from RFC 7230 (3.1 start line, 3.2 header fields "name: OWS value OWS", 3.3.3       *)
(* message body length, 4.1 chunked coding with extensions and trailers), not from the code.   *)
(* When a message is complete the parser reports its content and leaves every later byte in    *)
(* the buffer; `Again` starts on the next message of a persistent connection.                  *)
(*                                                                                             *)
(* The scenarios (what bytes arrive, which parser reads them) are operator constants so that   *)
(* the same module serves model checking over a message family (HttpParseMC) and validation    *)
(* of recorded executions (HttpParseTrace).                                                    *)
EXTENDS HttpMsg, TLC

CONSTANTS NSc,          \* scenarios are numbered 1..NSc
          ScWire(_),    \* the bytes that arrive in scenario i
          ScKind(_),    \* "req" (a server reads requests) | "resp" (a client reads responses)
          ScMsgs(_),    \* number of messages in scenario i
          ScHead(_, _), \* the nth message of scenario i answers a HEAD request (responses only)
          MaxPieces,    \* the bytes arrive in at most that many pieces
          MaxK          \* no piece is longer than that (a constant bound lets TLC label Deliver(k) edges)

VARIABLES sc,       \* the scenario
          sent,     \* number of bytes delivered so far
          pieces,   \* number of deliveries so far
          closed,   \* the peer has closed the connection (after sending everything)
          fresh,    \* something happened since the parser was last asked to go on
          nth,      \* the parser is on the nth message of the connection
          p,        \* parser state
          obs       \* what an observer of the parser sees (function of p)
vars == <<sc, sent, pieces, closed, fresh, nth, p, obs>>

Min(S) == CHOOSE x \in S : \A y \in S : x <= y
Max(S) == CHOOSE x \in S : \A y \in S : x >= y
Rest(s, i) == SubSeq(s, i, Len(s))
\* position of the first byte c / the first CR LF pair in s, 0 if there is none (scans from the left, stops at the first)
RECURSIVE ScanFor(_, _, _), ScanCRLF(_, _)
ScanFor(s, c, i) == IF i > Len(s) THEN 0 ELSE IF s[i] = c THEN i ELSE ScanFor(s, c, i + 1)
ScanCRLF(s, i) == IF i >= Len(s) THEN 0 ELSE IF s[i] = CR /\ s[i + 1] = LF THEN i ELSE ScanCRLF(s, i + 1)
Find(s, c) == ScanFor(s, c, 1)
FindCRLF(s) == ScanCRLF(s, 1)
Strip(s) == LET I == {i \in 1..Len(s) : ~IsWS(s[i])} IN IF I = {} THEN <<>> ELSE SubSeq(s, Min(I), Max(I))

(* ---- the pieces of syntax ---- *)
\* "t1 SP t2 SP rest"
ParseStart(line) == LET a == Find(line, SP)
                        r == Rest(line, a + 1)
                        b == Find(r, SP) IN
                    <<SubSeq(line, 1, a - 1), SubSeq(r, 1, b - 1), Rest(r, b + 1)>>
\* "name: OWS value OWS"
ParseField(line) == LET c == Find(line, ":") IN <<LowerS(SubSeq(line, 1, c - 1)), Strip(Rest(line, c + 1))>>
\* ";name[=value]" repeated (the leading ";" already removed)
RECURSIVE ParseExts(_)
ParseExts(e) == IF e = <<>> THEN {} ELSE
    LET s == Find(e, ";")
        one == IF s = 0 THEN e ELSE SubSeq(e, 1, s - 1)
        more == IF s = 0 THEN <<>> ELSE Rest(e, s + 1)
        q == Find(one, "=") IN
    {IF q = 0 THEN <<Strip(one), <<>> >> ELSE <<Strip(SubSeq(one, 1, q - 1)), Strip(Rest(one, q + 1))>>} \cup ParseExts(more)
ChunkSize(line) == LET s == Find(line, ";") IN NumVal(Strip(IF s = 0 THEN line ELSE SubSeq(line, 1, s - 1)), 16, 0)
ChunkExts(line) == LET s == Find(line, ";") IN IF s = 0 THEN {} ELSE ParseExts(Rest(line, s + 1))

P0 == [phase |-> "line", buf |-> <<>>, start |-> <<>>, headers |-> {}, body |-> <<>>, parms |-> {}, trails |-> {}, need |-> 0]

\* RFC 7230 3.3.3: a response to HEAD and a 1xx, 204 or 304 response end at the blank line whatever their header
\* fields say (rule 1); otherwise chunked wins over Content-Length (rule 3); neither: a request has no body, a
\* response runs until close.  An interim "100 Continue" is not the answer: the parser goes on to the response proper.
Status(q) == q.start[2]
EndOfHead(q, kind, hd) ==
    LET te == {h \in q.headers : h[1] = LowerS(TransferEncoding)}
        cl == {h \in q.headers : h[1] = LowerS(ContentLength)} IN
    IF kind = "resp" /\ Status(q) = <<"1", "0", "0">> THEN [P0 EXCEPT !.buf = q.buf]
    ELSE IF kind = "resp" /\ (hd \/ Status(q) \in {<<"2", "0", "4">>, <<"3", "0", "4">>} \/ Status(q)[1] = "1")
         THEN [q EXCEPT !.phase = "done"]
    ELSE IF \E h \in te : LowerS(h[2]) = Chunked THEN [q EXCEPT !.phase = "chunk-size"]
    ELSE IF cl # {} THEN [q EXCEPT !.phase = "body", !.need = NumVal((CHOOSE h \in cl : TRUE)[2], 10, 0)]
    ELSE IF kind = "req" THEN [q EXCEPT !.phase = "done"]
    ELSE [q EXCEPT !.phase = "close"]

\* one step of the parser; returns q itself when it cannot go on with the bytes it has
Step1(q, kind, cl, hd) ==
    LET i == FindCRLF(q.buf)
        line == SubSeq(q.buf, 1, i - 1)
        after == Rest(q.buf, i + 2) IN
    CASE q.phase = "line" ->
            IF i = 0 THEN q ELSE [q EXCEPT !.phase = "headers", !.start = ParseStart(line), !.buf = after]
      [] q.phase = "headers" ->
            IF i = 0 THEN q
            ELSE IF line = <<>> THEN EndOfHead([q EXCEPT !.buf = after], kind, hd)
            ELSE [q EXCEPT !.headers = @ \cup {ParseField(line)}, !.buf = after]
      [] q.phase = "body" ->
            IF Len(q.buf) < q.need THEN q
            ELSE [q EXCEPT !.phase = "done", !.body = SubSeq(q.buf, 1, q.need), !.buf = Rest(q.buf, q.need + 1), !.need = 0]
      [] q.phase = "chunk-size" ->
            IF i = 0 THEN q
            ELSE IF ChunkSize(line) = 0 THEN [q EXCEPT !.phase = "trailers", !.parms = @ \cup ChunkExts(line), !.buf = after]
            ELSE [q EXCEPT !.phase = "chunk-data", !.need = ChunkSize(line), !.parms = @ \cup ChunkExts(line), !.buf = after]
      [] q.phase = "chunk-data" ->
            IF Len(q.buf) < q.need THEN q
            ELSE [q EXCEPT !.phase = "chunk-end", !.body = @ \o SubSeq(q.buf, 1, q.need), !.buf = Rest(q.buf, q.need + 1), !.need = 0]
      [] q.phase = "chunk-end" ->
            IF Len(q.buf) < 2 THEN q ELSE [q EXCEPT !.phase = "chunk-size", !.buf = Rest(q.buf, 3)]
      [] q.phase = "trailers" ->
            IF i = 0 THEN q
            ELSE IF line = <<>> THEN [q EXCEPT !.phase = "done", !.buf = after]
            ELSE [q EXCEPT !.trails = @ \cup {ParseField(line)}, !.buf = after]
      [] q.phase = "close" ->
            IF q.buf # <<>> THEN [q EXCEPT !.body = @ \o q.buf, !.buf = <<>>]
            ELSE IF cl THEN [q EXCEPT !.phase = "done"] ELSE q
      [] q.phase = "done" -> q

\* go on as far as possible
RECURSIVE Run(_, _, _, _)
Run(q, kind, cl, hd) == LET r == Step1(q, kind, cl, hd) IN IF r = q THEN q ELSE Run(r, kind, cl, hd)

Result(q) == [start |-> q.start, headers |-> q.headers, body |-> q.body, parms |-> q.parms, trails |-> q.trails]
\* an observer sees whether the message is complete and, if so, its content and the unconsumed bytes
Obs(q) == IF q.phase = "done" THEN [done |-> TRUE, res |-> Result(q), left |-> q.buf] ELSE [done |-> FALSE]

(* ---- behaviour ---- *)
W == ScWire(sc)

Init == /\ sc \in 1..NSc
        /\ sent = 0 /\ pieces = 0 /\ closed = FALSE /\ fresh = FALSE /\ nth = 1
        /\ p = P0 /\ obs = Obs(P0)

\* environment: the next k bytes arrive (the last allowed piece brings everything that is left)
Deliver(k) == /\ ~fresh /\ pieces < MaxPieces
              /\ k \in 1..(Len(W) - sent)
              /\ (pieces = MaxPieces - 1) => (sent + k = Len(W))
              /\ p' = [p EXCEPT !.buf = @ \o SubSeq(W, sent + 1, sent + k)]
              /\ obs' = Obs(p')
              /\ sent' = sent + k /\ pieces' = pieces + 1 /\ fresh' = TRUE
              /\ UNCHANGED <<sc, closed, nth>>

\* the parser is asked to go on
Parse == /\ fresh
         /\ p' = Run(p, ScKind(sc), closed, ScHead(sc, nth))
         /\ obs' = Obs(p')
         /\ fresh' = FALSE
         /\ UNCHANGED <<sc, sent, pieces, closed, nth>>

\* asking again without news changes nothing
ParseAgain == /\ ~fresh /\ sent > 0
              /\ UNCHANGED vars

\* environment: the peer closes after everything was sent (ends a response body that runs until close)
Close == /\ ScKind(sc) = "resp" /\ ~closed /\ ~fresh
         /\ sent = Len(W) /\ p.phase # "done"
         /\ closed' = TRUE /\ fresh' = TRUE
         /\ UNCHANGED <<sc, sent, pieces, nth, p, obs>>

\* persistent connection: a new parse starts on the bytes the previous one left
Again == /\ p.phase = "done" /\ ~fresh /\ nth < ScMsgs(sc)
         /\ p' = [P0 EXCEPT !.buf = p.buf]
         /\ obs' = Obs(p')
         /\ nth' = nth + 1 /\ fresh' = TRUE
         /\ UNCHANGED <<sc, sent, pieces, closed>>

Next == \/ \E k \in 1..MaxK : Deliver(k)
        \/ Parse \/ ParseAgain \/ Close \/ Again
Spec == Init /\ [][Next]_vars

(* ---- properties ---- *)
\* parsing everything that has arrived in one go (restarting after each complete message)
RECURSIVE Whole(_, _, _, _, _)
Whole(q, kind, cl, n, k) == LET r == Run(q, kind, cl, ScHead(sc, k)) IN
                            IF k = n THEN r ELSE Whole([P0 EXCEPT !.buf = r.buf], kind, cl, n, k + 1)
\* the parser's state depends on what has arrived, not on how it was split
SplitIndependent == ~fresh => p = Whole([P0 EXCEPT !.buf = SubSeq(W, 1, sent)], ScKind(sc), closed, nth, 1)
ObsIsFunctionOfParser == obs = Obs(p)
\* nothing is lost: consumed + reported + unconsumed bytes account for everything delivered
BufferIsSuffix == Len(p.buf) <= sent /\ p.buf = SubSeq(W, sent - Len(p.buf) + 1, sent)
=============================================================================
