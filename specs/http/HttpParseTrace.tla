---------------------------- MODULE HttpParseTrace ----------------------------
(* Binding B for HttpParse.tla: a recorded execution of a real request / response parser.      *)
(* Header event  {"ev": "Init", "kind": "req"|"resp", "n": number of messages, "wire": bytes,  *)
(*                "heads": [is the jth message the answer to a HEAD request]};                  *)
(* then          {"ev": "Deliver", "k": n, "obs": o} | {"ev": "Parse"|"ParseAgain"|"Close"|    *)
(*               "Again", "obs": o}                                                            *)
(* where o is what the harness saw of the parser after the call:                                *)
(*   {"done": false} | {"done": true, "res": {start, headers, body, parms, trails}, "left": b} *)
(* (sets are JSON arrays).  The scenario number of HttpParse is the trace number.              *)
EXTENDS HttpParse, TraceBatch

VARIABLE l
tvars == <<vars, l>>

TrWire(i) == EvAt(i, 1).wire
TrKind(i) == EvAt(i, 1).kind
TrMsgs(i) == EvAt(i, 1).n
TrHead(i, j) == EvAt(i, 1).heads[j]

Ev == EvAt(sc, l)
ToSet(s) == {s[i] : i \in 1..Len(s)}
ObsOf(o) == IF o.done
            THEN [done |-> TRUE,
                  res |-> [start |-> o.res.start, headers |-> ToSet(o.res.headers), body |-> o.res.body,
                           parms |-> ToSet(o.res.parms), trails |-> ToSet(o.res.trails)],
                  left |-> o.left]
            ELSE [done |-> FALSE]

TraceInit == Init /\ l = 2

\* what the harness saw must be exactly what the specification's action produces
Logged == \/ HasField(Ev.obs, "done") /\ ~HasField(Ev.obs, "error") /\ obs' = ObsOf(Ev.obs)
          \/ IOEnv.VF_LENIENT = "1"     \* diagnosis only: follow the trace's calls, ignore what was seen
Consume(name) == l <= TraceLen(sc) /\ Ev.ev = name /\ l' = l + 1

TraceNext ==
    \/ Consume("Deliver") /\ Deliver(Ev.k) /\ Logged
    \/ Consume("Parse") /\ Parse /\ Logged
    \/ Consume("ParseAgain") /\ ParseAgain /\ Logged
    \/ Consume("Close") /\ Close /\ Logged
    \/ Consume("Again") /\ Again /\ Logged

TraceSpec == TraceInit /\ [][TraceNext]_tvars
TraceOK == TraceConstraint(sc, l) /\ ((IOEnv.VF_LENIENT = "1") => PrintT(<<"OBS", l, obs>>))
=============================================================================
