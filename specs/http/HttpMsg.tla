------------------------------- MODULE HttpMsg -------------------------------
(* HTTP/1.x messages as abstract values and as bytes on the wire (properties C29, C32).         *)
(*                                                                                             *)
(* TLC cannot index into strings, so text is a sequence of BYTES, each byte a string: the      *)
(* control bytes are named symbolically ("CR", "LF", "SP", "HT", "HI" = some byte >= 0x80),    *)
(* every other byte is the one-character string of its ASCII character.  The harness maps      *)
(* bytes to octets and back (vf/families/httpparse.py: SYM).                                   *)
(*                                                                                             *)
(* An abstract message (RFC 7230 section 3):                                                   *)
(*   [kind  : "req" | "resp",                                                                  *)
(*    start : <<t1, t2, t3>>   request: method, target, version; response: version, status,    *)
(*                             reason phrase (may contain SP)                                  *)
(*    heads : sequence of header fields [name, ows, value]; ows = the optional whitespace put  *)
(*            after the colon on the wire (none, SP, HT ...); it is not part of the value      *)
(*    fows  : the optional whitespace of the framing header (Content-Length/Transfer-Encoding) *)
(*    body  : [k |-> "none"]                          no framing header, no body               *)
(*          | [k |-> "fixed", data]                   Content-Length: Len(data)                *)
(*          | [k |-> "chunked", chunks, lastexts, trailers]   Transfer-Encoding: chunked       *)
(*               chunks   = sequence of [data (non empty), exts]                               *)
(*               exts     = sequence of chunk extensions [name, hasval, val]                   *)
(*               trailers = sequence of header fields after the last chunk                     *)
(*          | [k |-> "close", data]                   response only: body runs until close     *)
(*          | [k |-> "bodiless", clen]                response only: 1xx, 204, 304 or the      *)
(*               answer to a HEAD request: it ends at the blank line whatever its header       *)
(*               fields say (RFC 7230 3.3.3 rule 1); clen >= 0: it nevertheless carries        *)
(*               "Content-Length: clen" (3.3.2: the size a body would have), clen = -1: none   *)
(*   ]                                                                                         *)
(* Wire(msg) is its byte sequence; Content(msg) is what a parser must report for it.           *)
EXTENDS Integers, Sequences, FiniteSets

CR == "CR"
LF == "LF"
SP == "SP"
HT == "HT"
CRLF == <<CR, LF>>

HexDigits == <<"0", "1", "2", "3", "4", "5", "6", "7", "8", "9", "a", "b", "c", "d", "e", "f">>
UpHex     == <<"0", "1", "2", "3", "4", "5", "6", "7", "8", "9", "A", "B", "C", "D", "E", "F">>
IsHex(c) == \E i \in 1..16 : HexDigits[i] = c \/ UpHex[i] = c
HexVal(c) == (CHOOSE i \in 1..16 : HexDigits[i] = c \/ UpHex[i] = c) - 1
IsDigit(c) == \E i \in 1..10 : HexDigits[i] = c
IsWS(c) == c = SP \/ c = HT

RECURSIVE Dec(_), Hex(_), NumVal(_, _, _), Cat(_)
Dec(n) == IF n < 10 THEN <<HexDigits[n + 1]>> ELSE Dec(n \div 10) \o <<HexDigits[(n % 10) + 1]>>
Hex(n) == IF n < 16 THEN <<HexDigits[n + 1]>> ELSE Hex(n \div 16) \o <<HexDigits[(n % 16) + 1]>>
\* value of the digit string s in base b (acc = value so far)
NumVal(s, b, acc) == IF s = <<>> THEN acc ELSE NumVal(Tail(s), b, acc * b + HexVal(Head(s)))
\* concatenation of a sequence of sequences
Cat(ss) == IF ss = <<>> THEN <<>> ELSE Head(ss) \o Cat(Tail(ss))

Upper  == <<"A", "B", "C", "D", "E", "F", "G", "H", "I", "J", "K", "L", "M", "N", "O", "P", "Q", "R", "S", "T", "U", "V", "W", "X", "Y", "Z">>
Lowers == <<"a", "b", "c", "d", "e", "f", "g", "h", "i", "j", "k", "l", "m", "n", "o", "p", "q", "r", "s", "t", "u", "v", "w", "x", "y", "z">>
LowerC(c) == IF \E i \in 1..26 : Upper[i] = c THEN Lowers[CHOOSE i \in 1..26 : Upper[i] = c] ELSE c
\* field names are case-insensitive: reported in lower case
LowerS(s) == [i \in 1..Len(s) |-> LowerC(s[i])]

(* ---- fixed text ---- *)
ContentLength == <<"C", "o", "n", "t", "e", "n", "t", "-", "L", "e", "n", "g", "t", "h">>
TransferEncoding == <<"T", "r", "a", "n", "s", "f", "e", "r", "-", "E", "n", "c", "o", "d", "i", "n", "g">>
Chunked == <<"c", "h", "u", "n", "k", "e", "d">>
Http11 == <<"H", "T", "T", "P", "/", "1", ".", "1">>
Http10 == <<"H", "T", "T", "P", "/", "1", ".", "0">>

(* ---- the wire ---- *)
StartLine(msg) == msg.start[1] \o <<SP>> \o msg.start[2] \o <<SP>> \o msg.start[3] \o CRLF
HLine(h) == h.name \o <<":">> \o h.ows \o h.value \o CRLF
HLines(hs) == Cat([i \in 1..Len(hs) |-> HLine(hs[i])])

BodyData(b) == CASE b.k \in {"none", "bodiless"} -> <<>>
                 [] b.k \in {"fixed", "close"} -> b.data
                 [] b.k = "chunked" -> Cat([i \in 1..Len(b.chunks) |-> b.chunks[i].data])

\* the header field that tells how the body is framed (none for "none" and "close")
Framing(msg) == CASE msg.body.k = "fixed" -> <<[name |-> ContentLength, ows |-> msg.fows, value |-> Dec(Len(msg.body.data))]>>
                  [] msg.body.k = "chunked" -> <<[name |-> TransferEncoding, ows |-> msg.fows, value |-> Chunked]>>
                  [] msg.body.k = "bodiless" /\ msg.body.clen >= 0 ->
                         <<[name |-> ContentLength, ows |-> msg.fows, value |-> Dec(msg.body.clen)]>>
                  [] OTHER -> <<>>
AllHeads(msg) == msg.heads \o Framing(msg)

ExtWire(e) == <<";">> \o e.name \o (IF e.hasval THEN <<"=">> \o e.val ELSE <<>>)
ExtsWire(es) == Cat([i \in 1..Len(es) |-> ExtWire(es[i])])
ChunkWire(c) == Hex(Len(c.data)) \o ExtsWire(c.exts) \o CRLF \o c.data \o CRLF
BodyWire(b) == CASE b.k \in {"none", "bodiless"} -> <<>>
                 [] b.k \in {"fixed", "close"} -> b.data
                 [] b.k = "chunked" -> Cat([i \in 1..Len(b.chunks) |-> ChunkWire(b.chunks[i])])
                                       \o <<"0">> \o ExtsWire(b.lastexts) \o CRLF \o HLines(b.trailers) \o CRLF

Wire(msg) == StartLine(msg) \o HLines(AllHeads(msg)) \o CRLF \o BodyWire(msg.body)

(* ---- what a parser must report: field names lower-cased, whitespace around the value gone, *)
(*      chunk data concatenated, extension parameters and trailers collected                   *)
FieldSet(hs) == {<<LowerS(hs[i].name), hs[i].value>> : i \in 1..Len(hs)}
AllExts(b) == IF b.k = "chunked" THEN Cat([i \in 1..Len(b.chunks) |-> b.chunks[i].exts]) \o b.lastexts ELSE <<>>
ExtSet(es) == {<<es[i].name, IF es[i].hasval THEN es[i].val ELSE <<>> >> : i \in 1..Len(es)}
Content(msg) == [start |-> msg.start,
                 headers |-> FieldSet(AllHeads(msg)),
                 body |-> BodyData(msg.body),
                 parms |-> ExtSet(AllExts(msg.body)),
                 trails |-> IF msg.body.k = "chunked" THEN FieldSet(msg.body.trailers) ELSE {}]

\* field names (and extension names) occur once per message in the families used
UniqueNames(msg) == /\ Cardinality({LowerS(AllHeads(msg)[i].name) : i \in 1..Len(AllHeads(msg))}) = Len(AllHeads(msg))
                    /\ Cardinality({AllExts(msg.body)[i].name : i \in 1..Len(AllExts(msg.body))}) = Len(AllExts(msg.body))
=============================================================================
