------------------------------- MODULE SseMC -------------------------------
(* Model checking Sse.tla over a family of event streams (property C33).  A stream is          *)
(*   [bom : BOOLEAN, texts : sequence of lines (no line ending), eols : their line endings]    *)
(* "rule" streams exercise the field rules (comments, data with and without space / colon /    *)
(* value, event, id and its reset, retry good and bad, unknown fields, blank lines, an         *)
(* unfinished event, a byte order mark) under uniform and mixed line endings; "ending" streams *)
(* are short and take EVERY assignment of CR / LF / CRLF to their lines.  Every scenario is    *)
(* delivered in every split into at most MaxPieces pieces.                                     *)
(* The expected events are computed from the lines alone (Lines), so the invariant Final says  *)
(* that neither the line endings chosen nor the split make a difference.                       *)
(* Each stream is followed on the wire by the comment line ":" LF, which dispatches nothing    *)
(* but lets a parser that waits for the byte after a CR (to tell CR from CR LF) finish.        *)
EXTENDS Sse, SequencesExt, Json, IOUtils

CONSTANT Level

D(x) == DataW \o <<":">> \o x
Ev(x) == EventW \o <<":">> \o x
Id(x) == IdW \o <<":">> \o x
Re(x) == RetryW \o <<":">> \o x
Blank == <<>>
Comment == <<":", "c">>

RuleTexts == {
    <<Comment, D(<<"a">>), D(<<SP, "b">>), Blank, D(<<"c">>), Blank>>,
    <<Ev(<<"e">>), Id(<<"1">>), D(<<"a">>), Blank, D(<<"b">>), Blank>>,
    <<Re(<<"7">>), <<"f", ":", "b">>, D(<<SP, SP, "a">>), Blank, Re(<<"x">>), Blank>>,
    <<Id(<<"1">>), D(<<"a">>), Blank, IdW, D(<<"b">>), Blank>>,
    <<DataW, Blank, D(<<>>), DataW, Blank, <<":">> >>,
    <<Ev(<<"e">>), Blank, D(<<"a", ":", "b">>), Blank>>,
    <<D(<<"a">>), <<"f">>, Blank, Blank, D(<<"b">>)>>,
    <<Re(<<SP, "1", "2">>), Ev(<<SP, "e">>), Id(<<SP, "i">>), D(<<"x">>), Blank>> }
EndingTexts == {<<D(<<"a">>), D(<<"b">>), Blank, Blank>>, <<Blank, D(<<"a">>), Blank>>}
                 \cup (IF Level = 1 THEN {} ELSE {<<D(<<"a">>), Blank, Comment, D(<<"b">>), Blank>>})

E3 == <<"CR", "LF", "CRLF">>
Uniform(n) == {[i \in 1..n |-> e] : e \in {"CR", "LF", "CRLF"}}
Mixed(n) == {[i \in 1..n |-> E3[((i + off) % 3) + 1]] : off \in 0..2}
AllEols(n) == [1..n -> {"CR", "LF", "CRLF"}]

Streams == {[bom |-> FALSE, texts |-> t, eols |-> e] : t \in RuleTexts, e \in Uniform(6) \cup Mixed(6)}
            \cup {[bom |-> FALSE, texts |-> t, eols |-> e] : t \in EndingTexts, e \in AllEols(5)}
            \cup {[bom |-> TRUE, texts |-> <<D(<<"a">>), Blank>>, eols |-> e] : e \in Uniform(6)}

EolBytes(e) == CASE e = "CR" -> <<CR>> [] e = "LF" -> <<LF>> [] e = "CRLF" -> <<CR, LF>>
Trailer == <<":", LF>>
RECURSIVE Cat(_)
Cat(ss) == IF ss = <<>> THEN <<>> ELSE Head(ss) \o Cat(Tail(ss))
Wire(s) == (IF s.bom THEN Bom ELSE <<>>) \o Cat([i \in 1..Len(s.texts) |-> s.texts[i] \o EolBytes(s.eols[i])]) \o Trailer
\* the patterns above are longer than some streams: only the endings actually used tell scenarios apart
Cut(s) == [s EXCEPT !.eols = SubSeq(s.eols, 1, Len(s.texts))]
Expected(s) == Obs([Ps0 EXCEPT !.st = Lines(St0, s.texts)])

\* a line ended by CR followed by an empty line ended by LF would read as ONE line ended by CR LF: not a stream of these lines
Unambiguous(s) == \A i \in 1..(Len(s.texts) - 1) : ~(s.eols[i] = "CR" /\ s.texts[i + 1] = <<>> /\ s.eols[i + 1] = "LF")
FamData == TLCEval(LET fam == SetToSeq({Cut(s) : s \in {x \in Streams : Unambiguous(x)}}) IN
    [i \in 1..Len(fam) |-> [wire |-> Wire(fam[i]), expected |-> Expected(fam[i]), eols |-> fam[i].eols, bom |-> fam[i].bom]])
FamN == Len(FamData)
FamWire(i) == FamData[i].wire
FamMaxLen == LET L == {Len(FamData[i].wire) : i \in 1..Len(FamData)} IN CHOOSE x \in L : \A y \in L : x >= y

(* ---- properties over the family ---- *)
\* when the whole stream has been seen: exactly the events (retry, last id) of its lines - whatever the endings and the split
Final == (seen = Len(W)) => obs = FamData[sc].expected
\* before that: events come out in order, none is taken back
Prefix == IsPrefix(obs.events, FamData[sc].expected.events)

Table == [i \in 1..Len(FamData) |-> [wire |-> FamData[i].wire]]
ASSUME JsonSerialize(IOEnv.TABLE_OUT, Table)
=============================================================================
