--------------------------- MODULE MalformedTrace ---------------------------
(* Binding B for Malformed.tla: a recorded execution of a real server with three connections   *)
(* (or of a real client) that was fed the - possibly tampered - bytes chosen by a simulated     *)
(* behaviour of Malformed.tla.                                                                 *)
(* Header event {"ev": "Init", "kind", "script": [s1, s2, s3], "wire": [w1, w2, w3],           *)
(*               "mutated": [b1, b2, b3]}; then                                                *)
(*   {"ev": "Deliver", "c", "k"} | {"ev": "PeerClose", "c"} |                                  *)
(*   {"ev": "Service" | "Settle", "raised": bool, "conns": [{"open", "failed", "resp": [{"id", "err"}]} x 3]} *)
(* where "conns" is what the harness saw after the pass(es).                                   *)
EXTENDS Malformed, TraceBatch

VARIABLES tid, l
tvars == <<vars, tid, l>>

Ev == EvAt(tid, l)
Hd == EvAt(tid, 1)

TraceInit == /\ tid \in 1..NTraces /\ l = 2
             /\ kind = Hd.kind /\ phase = "run" /\ plan = "none" /\ bad = 1
             /\ script = [c \in Conns |-> Hd.script[c]]
             /\ wire = [c \in Conns |-> <<>>]
             /\ wlen = [c \in Conns |-> Len(Hd.wire[c])]
             /\ mutated = [c \in Conns |-> Hd.mutated[c]]
             /\ nmut = 0
             /\ sent = [c \in Conns |-> 0] /\ pieces = [c \in Conns |-> 0]
             /\ pclosed = [c \in Conns |-> FALSE]
             /\ open = [c \in Conns |-> TRUE] /\ failed = [c \in Conns |-> FALSE]
             /\ resp = [c \in Conns |-> <<>>]
             /\ raised = FALSE

Seen == [c \in Conns |-> [open |-> Ev.conns[c].open, failed |-> Ev.conns[c].failed,
                          resp |-> [i \in 1..Len(Ev.conns[c].resp) |-> [id |-> Ev.conns[c].resp[i].id, err |-> Ev.conns[c].resp[i].err]]]]

Consume(name) == l <= TraceLen(tid) /\ Ev.ev = name /\ l' = l + 1 /\ UNCHANGED tid

TraceNext ==
    \/ Consume("Deliver") /\ Deliver(Ev.c, Ev.k)
    \/ Consume("PeerClose") /\ PeerClose(Ev.c)
    \/ Consume("Service") /\ ServiceCore(Seen, FALSE) /\ raised' = Ev.raised
    \/ Consume("Settle") /\ ServiceCore(Seen, TRUE) /\ raised' = Ev.raised

TraceSpec == TraceInit /\ [][TraceNext]_tvars
TraceOK == TraceConstraint(tid, l)
=============================================================================
