\* the configuration the quick tier model checks (vf/families/httpround.py generates it; Family = "cover" with 8 classes
\* in QC is the graph that is replayed on the real programs)
SPECIFICATION Spec
CONSTANTS
  Methods = {"GET", "HEAD", "PUT", "PATCH", "POST", "DELETE", "OPTIONS", "TRACE", "CONNECT"}
  QC = {"a", "SP", "&", "HI"}
  FC = {"a", "SP", "&", "=", "+", "%", "R", "HI"}
  JC = {"a", "SP", "DQ", "BS", "LF", "HI"}
  HC = {"a", "SP", "R", "HI"}
  PC = {"a", "SP", "R", "%", "+", "HI"}
  MaxLen = 2
  MaxItems = 2
  AllItems = 1
  BodyItems = 1
  Family = "mc"
  Cross = "some"
INVARIANT RoundTrip
INVARIANT NothingLeft
CHECK_DEADLOCK FALSE
