----------------------------- MODULE HttpParseMC -----------------------------
(* Model checking HttpParse over a family of small well-formed messages (property C29):        *)
(* requests and responses; no body / Content-Length / chunked (extensions with and without     *)
(* value, on data chunks and on the last chunk; trailers) / until close; header fields with no *)
(* whitespace, a space, two spaces or a tab after the colon; bodies containing CR LF; bytes    *)
(* after the message; two messages back to back on one connection; responses without a body   *)
(* by status (1xx, 204, 304) or request method (HEAD) with and without Content-Length; an      *)
(* interim 100 Continue in front of a response.                                                *)
(* Every split of every scenario into at most MaxPieces pieces is a behaviour.                 *)
EXTENDS HttpParse, SequencesExt, Json, IOUtils

CONSTANT Level       \* 1 = quick family, 2 = thorough family

H(n, o, v) == [name |-> n, ows |-> o, value |-> v]
E0(n) == [name |-> n, hasval |-> FALSE, val |-> <<>>]
E1(n, v) == [name |-> n, hasval |-> TRUE, val |-> v]
C(d, es) == [data |-> d, exts |-> es]
None == [k |-> "none"]
Fixed(d) == [k |-> "fixed", data |-> d]
Chunks(cs, le, tr) == [k |-> "chunked", chunks |-> cs, lastexts |-> le, trailers |-> tr]
UntilClose(d) == [k |-> "close", data |-> d]

Get == <<"G", "E", "T">>
Post == <<"P", "O", "S", "T">>
Req(method, ver, hs, fo, b) == [kind |-> "req", start |-> <<method, <<"/">>, ver>>, heads |-> hs, fows |-> fo, body |-> b]
Resp(ver, hs, fo, b) == [kind |-> "resp", start |-> <<ver, <<"2", "0", "0">>, <<"O", "K">> >>, heads |-> hs, fows |-> fo, body |-> b]
Resp404(hs, fo, b) == [kind |-> "resp", start |-> <<Http11, <<"4", "0", "4">>, <<"N", "o", "t", SP, "F", "o", "u", "n", "d">> >>,
                       heads |-> hs, fows |-> fo, body |-> b]

Ows == IF Level = 1 THEN {<<>>, <<SP>>} ELSE {<<>>, <<SP>>, <<SP, SP>>, <<HT>>}
Heads == {<<>>} \cup {<<H(<<"A">>, o, <<"b">>)>> : o \in Ows}
           \cup (IF Level = 1 THEN {} ELSE {<<H(<<"A">>, <<>>, <<"b">>), H(<<"X", "-", "y">>, <<SP>>, <<"c", SP, "d">>)>>})
Datas == IF Level = 1 THEN {<<"x">>, <<"x", CR, LF>>} ELSE {<<>>, <<"x">>, <<"x", CR, LF>>, <<"HI", "0", LF>>}
ChunkLists == {<< C(<<"x">>, <<>>) >>,
               << C(<<"x", "y">>, <<E0(<<"e">>)>>) >>,
               << C(<<CR, LF>>, <<E1(<<"e">>, <<"v">>)>>), C(<<"z">>, <<>>) >>}
                \cup (IF Level = 1 THEN {} ELSE
                      {<< C(<<"x">>, <<E0(<<"e">>), E1(<<"f">>, <<"1">>)>>) >>,
                       << C(<<"a", "b", "c", "d", "e", "f", "g", "h", "i", "j", "k">>, <<>>) >>})
LastExts == IF Level = 1 THEN {<<>>} ELSE {<<>>, <<E0(<<"l">>)>>}
Trailers == {<<>>} \cup {<<H(<<"T">>, o, <<"v">>)>> : o \in (IF Level = 1 THEN {<<SP>>} ELSE {<<>>, <<SP>>})}
Extras == IF Level = 1 THEN {<<>>, <<"Z">>} ELSE {<<>>, <<"Z">>, <<CR, LF>>}

ReqMsgs == {Req(Get, Http11, hs, <<>>, None) : hs \in Heads}
            \cup {Req(Post, Http11, <<>>, o, Fixed(d)) : o \in Ows, d \in Datas}
            \cup {Req(Post, Http11, <<>>, <<SP>>, Chunks(cs, le, tr)) : cs \in ChunkLists, le \in LastExts, tr \in Trailers}
            \cup (IF Level = 1 THEN {} ELSE {Req(Get, Http10, <<>>, <<>>, None),
                                              Req(Post, Http11, <<H(<<"A">>, <<SP>>, <<"b">>)>>, <<>>, Chunks(<< C(<<"x">>, <<>>) >>, <<>>, <<>>))})
RespMsgs == {Resp(Http11, hs, <<SP>>, Fixed(<<"x">>)) : hs \in Heads}
            \cup {Resp(Http11, <<>>, o, Fixed(d)) : o \in Ows, d \in Datas}
            \cup {Resp(Http11, <<>>, <<SP>>, Chunks(cs, le, tr)) : cs \in ChunkLists, le \in LastExts, tr \in Trailers}
            \cup (IF Level = 1 THEN {} ELSE {Resp404(<<>>, <<SP>>, Fixed(<<"x">>)), Resp(Http10, <<>>, <<SP>>, Fixed(<<"x">>))})
CloseMsgs == {Resp(Http11, <<>>, <<>>, UntilClose(d)) : d \in {<<"x", "y">>, <<"x", CR, LF, "0">>}}
              \cup (IF Level = 1 THEN {} ELSE {Resp(Http10, <<H(<<"A">>, <<SP>>, <<"b">>)>>, <<>>, UntilClose(<<"x">>))})

\* responses without a body by status or request method, with and without a Content-Length; a 1xx sample; each is
\* followed by an ordinary response on the same connection, so that what they leave behind is observed
Bodiless(st, rs, n) == [kind |-> "resp", start |-> <<Http11, st, rs>>, heads |-> <<>>, fows |-> <<SP>>, body |-> [k |-> "bodiless", clen |-> n]]
NoCont(n) == Bodiless(<<"2", "0", "4">>, <<"N", "o", SP, "C">>, n)
NotMod(n) == Bodiless(<<"3", "0", "4">>, <<"N", "M">>, n)
Proc(n) == Bodiless(<<"1", "0", "2">>, <<"P">>, n)
HeadOk(n) == Bodiless(<<"2", "0", "0">>, <<"O", "K">>, n)
Next1 == Resp(Http11, <<>>, <<>>, Fixed(<<"y">>))
Continue100(hs) == [kind |-> "resp", start |-> <<Http11, <<"1", "0", "0">>, <<"C", "o", "n", "t", "i", "n", "u", "e">> >>,
                    heads |-> hs, fows |-> <<>>, body |-> [k |-> "bodiless", clen |-> -1]]

\* a scenario: messages back to back (heads[j]: message j answers a HEAD request; pres[j]: an interim 100 Continue
\* response in front of message j), then some bytes of whatever comes next
Sc(ms, x) == [msgs |-> ms, extra |-> x, heads |-> [j \in 1..Len(ms) |-> FALSE], pres |-> [j \in 1..Len(ms) |-> <<>>]]
BodilessScenarios ==
    {Sc(<<m, Next1>>, <<>>) : m \in {NoCont(-1), NoCont(2), NotMod(0), NotMod(2), Proc(2)}
                                    \cup (IF Level = 1 THEN {} ELSE {NoCont(0), NotMod(-1), Proc(-1), NotMod(12)})}
    \cup {[Sc(<<m, Next1>>, <<>>) EXCEPT !.heads = <<TRUE, FALSE>>] : m \in {HeadOk(2), HeadOk(-1)} \cup (IF Level = 1 THEN {} ELSE {HeadOk(0), NotMod(3)})}
    \cup (IF Level = 1 THEN {} ELSE {[Sc(<<Next1, HeadOk(2)>>, <<"Z">>) EXCEPT !.heads = <<FALSE, TRUE>>]})
    \cup {[Sc(<<Resp(Http11, <<>>, <<SP>>, Fixed(<<"x">>))>>, <<>>) EXCEPT !.pres = <<Wire(Continue100(<<>>))>>]}
    \cup (IF Level = 1 THEN {} ELSE {[Sc(<<Next1, Next1>>, <<>>) EXCEPT !.pres = << <<>>, Wire(Continue100(<<H(<<"A">>, <<SP>>, <<"b">>)>>)) >>]})
Scenarios == {Sc(<<m>>, x) : m \in ReqMsgs \cup RespMsgs, x \in Extras}
              \cup {Sc(<<m>>, <<>>) : m \in CloseMsgs}
              \cup {Sc(<<Req(Get, Http11, <<>>, <<>>, None), Req(Post, Http11, <<>>, <<>>, Fixed(<<"x">>))>>, <<>>),
                    Sc(<<Resp(Http11, <<>>, <<>>, Chunks(<< C(<<"x">>, <<>>) >>, <<>>, <<>>)), Resp(Http11, <<>>, <<>>, Fixed(<<"y">>))>>, <<>>)}
              \cup BodilessScenarios

\* everything about the scenarios is computed once (TLCEval forces the lazily evaluated functions)
FamData == TLCEval(LET fam == SetToSeq(Scenarios) IN
    [i \in 1..Len(fam) |->
        LET ws == [j \in 1..Len(fam[i].msgs) |-> fam[i].pres[j] \o Wire(fam[i].msgs[j])] IN
        [msgs |-> fam[i].msgs,
         heads |-> fam[i].heads,
         wire |-> Cat(ws) \o fam[i].extra,
         ends |-> [j \in 1..Len(ws) |-> Len(Cat(SubSeq(ws, 1, j)))],   \* offset of the end of the jth message
         kind |-> fam[i].msgs[1].kind,
         n |-> Len(ws)]])
Fam == FamData
FamN == Len(FamData)
FamWire(i) == FamData[i].wire
FamKind(i) == FamData[i].kind
FamMsgs(i) == FamData[i].n
FamHead(i, j) == FamData[i].heads[j]
FamMaxLen == Max({Len(FamData[i].wire) : i \in 1..Len(FamData)})

ASSUME \A i \in 1..Len(Fam) : \A j \in 1..Len(Fam[i].msgs) : UniqueNames(Fam[i].msgs[j])

(* ---- properties over the family ---- *)
Cur == Fam[sc].msgs[nth]
\* a complete message is reported with exactly its content; the bytes after it stay in the buffer
DoneRight == p.phase = "done" => /\ Result(p) = Content(Cur)
                                 /\ p.buf = SubSeq(W, Fam[sc].ends[nth] + 1, sent)
\* the message is complete as soon as its last byte has arrived (and, for a body that runs until close, the peer closed)
DoneIffComplete == ~fresh => ((p.phase = "done") <=> (sent >= Fam[sc].ends[nth] /\ (Cur.body.k = "close" => closed)))

(* ---- the scenarios' bytes for the harness ---- *)
Table == [i \in 1..Len(Fam) |-> [wire |-> Fam[i].wire, kind |-> Fam[i].kind, n |-> Fam[i].n, ends |-> Fam[i].ends, heads |-> Fam[i].heads]]
ASSUME JsonSerialize(IOEnv.TABLE_OUT, Table)
=============================================================================
