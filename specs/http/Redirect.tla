------------------------------- MODULE Redirect -------------------------------
(* Following HTTP redirects (property C34).                                                    *)
(*                                                                                             *)
(* Origins are (scheme, host, port class); every origin has a server.  The client issues a     *)
(* GET for a start URL.  The server holding the outstanding request answers either with a      *)
(* final response (Final) or with 3xx and a Location header (Redirect).  The Location is a URI *)
(* reference of one of the shapes                                                              *)
(*     "abs"        scheme://host[:port]/path[?query]                                          *)
(*     "absroot"    scheme://host[:port]          (no path: the root, RFC 3986 6.2.3, RFC 7230 5.3.1) *)
(*     "schemerel"  //host[:port]/path[?query]                                                 *)
(*     "pathabs"    /path[?query]                                                              *)
(*     "pathrel"    seg | ../seg   [?query]                                                    *)
(* and is resolved against the URL of the request it answers as RFC 3986 section 5.2 says      *)
(* (restricted to these shapes: 5.2.2 transform, 5.2.3 merge, 5.2.4 remove dot segments).  The *)
(* client then reissues the request for the resolved URL: on the connection it has when scheme,*)
(* host and port are the same, on a new connection otherwise; it never goes from https to      *)
(* http (such a redirect is refused: no request is sent).  The final response is delivered     *)
(* once and carries the redirect responses in the order received.                              *)
(*                                                                                             *)
(* The query of a Location is opaque text for the client: the reissued request must carry a   *)
(* query that means the same, i.e. decodes (application/x-www-form-urlencoded) to the same     *)
(* name/value pairs.  Queries are abstract values [kind, hop]; the kind says what the values    *)
(* contain: "plain" unreserved characters only, "amp" / "plus" / "hash" / "pct" a percent-      *)
(* encoded "&" / "+" / "#" / "%" (e.g. q=rock%26roll): decoding such a query once more, or not *)
(* at all, names other pairs.  The hop number tells the queries of different hops apart.       *)
(*                                                                                             *)
(* A port class is "std" (the scheme's default port, not written in a Location) or "alt" (an   *)
(* explicit other port).  Hosts are distinct names with distinct addresses.                    *)
EXTENDS Integers, Sequences, FiniteSets, TLC

CONSTANTS Schemes,     \* subset of {"http", "https"}
          Hosts,
          PortClasses, \* subset of {"std", "alt"}
          Statuses,    \* redirect status codes offered by servers
          QKinds,      \* kinds of query a Location may carry: subset of {"plain", "amp", "plus", "hash", "pct"}
          StartKinds,  \* the start URL's query: subset of {"none", "start"}
          MaxHops,     \* longest chain of redirects
          Rounds       \* requests the user issues one after the other on the same client

VARIABLES phase,      \* "idle" | "sent" (a request is outstanding) | "final" | "refused"
          url,        \* URL of the request outstanding / last sent: [o, path, query]
          hosthdr,    \* authority the Host header of that request must name: <<host, port number>>
          wrapped,    \* that request travelled over TLS
          chain,      \* statuses of the redirect responses received so far, in order
          conns,      \* connections opened by the client so far
          reqs,       \* requests sent by the client so far
          delivered,  \* final responses handed to the user
          res,        \* the final response: [status, redirects] (NoRes before)
          round       \* which of the user's requests is being served; conns, reqs, delivered, chain, res count per request
vars == <<phase, url, hosthdr, wrapped, chain, conns, reqs, delivered, res, round>>

Origins == [s : Schemes, h : Hosts, p : PortClasses]
PortNum(s, p) == IF p = "std" THEN (IF s = "https" THEN 443 ELSE 80) ELSE (IF s = "https" THEN 8443 ELSE 8080)
NoRes == [status |-> 0, redirects |-> <<>>]

(* ---- paths: "/a/b" = <<"a","b">>, "/d/" = <<"d","">>, "/" = <<"">> *)
StartPaths == {<<"a">>, <<"d", "b">>, <<"d", "">>}
AbsPaths == {<<"t">>, <<"d", "u">>}
RelPaths == {<<"c">>, <<"..", "c">>}
NoQ == [kind |-> "none", hop |-> 0]
StartQueries == {[kind |-> k, hop |-> 0] : k \in StartKinds}

Front(s) == SubSeq(s, 1, Len(s) - 1)
RECURSIVE Dots(_, _)
\* RFC 3986 5.2.4: "." is dropped, ".." removes the segment before it (never above the root)
Dots(in, out) == IF in = <<>> THEN out
                 ELSE IF Head(in) = "." THEN Dots(Tail(in), out)
                 ELSE IF Head(in) = ".." THEN Dots(Tail(in), IF out = <<>> THEN out ELSE Front(out))
                 ELSE Dots(Tail(in), Append(out, Head(in)))
\* RFC 3986 5.2.3: everything of the base path up to its last "/" followed by the reference
Merge(base, ref) == Dots(Front(base) \o ref, <<>>)

(* ---- Location values: fields that a shape does not write are fixed to a dummy *)
Loc(shape, s, h, p, path, q) == [shape |-> shape, s |-> s, h |-> h, p |-> p, path |-> path, q |-> q]
Queries == {NoQ} \cup {[kind |-> k, hop |-> i] : k \in QKinds, i \in 1..MaxHops}
Locs == LET Q == Queries IN
    {Loc("abs", s, h, p, path, q) : s \in Schemes, h \in Hosts, p \in PortClasses, path \in AbsPaths, q \in Q}
    \cup {Loc("absroot", s, h, p, <<"">>, NoQ) : s \in Schemes, h \in Hosts, p \in PortClasses}
    \cup {Loc("schemerel", "", h, p, path, q) : h \in Hosts, p \in PortClasses, path \in AbsPaths, q \in Q}
    \cup {Loc("pathabs", "", "", "", path, q) : path \in AbsPaths, q \in Q}
    \cup {Loc("pathrel", "", "", "", path, q) : path \in RelPaths, q \in Q}

\* RFC 3986 5.2.2 for these shapes: the query of the base is never inherited (the reference has a path)
Resolve(base, loc) ==
    CASE loc.shape \in {"abs", "absroot"} -> [o |-> [s |-> loc.s, h |-> loc.h, p |-> loc.p], path |-> loc.path, query |-> loc.q]
      [] loc.shape = "schemerel" -> [o |-> [s |-> base.o.s, h |-> loc.h, p |-> loc.p], path |-> loc.path, query |-> loc.q]
      [] loc.shape = "pathabs" -> [o |-> base.o, path |-> loc.path, query |-> loc.q]
      [] loc.shape = "pathrel" -> [o |-> base.o, path |-> Merge(base.path, loc.path), query |-> loc.q]

HostHdr(u) == <<u.o.h, PortNum(u.o.s, u.o.p)>>

Init == /\ phase = "idle"
        /\ url \in [o : Origins, path : StartPaths, query : StartQueries]
        /\ hosthdr = HostHdr(url) /\ wrapped = (url.o.s = "https")
        /\ chain = <<>> /\ conns = 0 /\ reqs = 0 /\ delivered = 0 /\ res = NoRes /\ round = 1

\* the user asks for the start URL: one connection, one request
Issue == /\ phase = "idle"
         /\ phase' = "sent" /\ conns' = 1 /\ reqs' = 1
         /\ UNCHANGED <<url, hosthdr, wrapped, chain, delivered, res, round>>

\* the server answers 3xx + Location; the client follows (or refuses a downgrade)
Redirect(st, loc) ==
    /\ phase = "sent" /\ Len(chain) < MaxHops
    /\ loc.q = NoQ \/ loc.q.hop = Len(chain) + 1      \* a query that tells the hops apart
    /\ LET t == Resolve(url, loc) IN
       /\ t.o \in Origins
       /\ chain' = Append(chain, st) /\ UNCHANGED round
       /\ IF url.o.s = "https" /\ t.o.s # "https"
          THEN /\ phase' = "refused"
               /\ UNCHANGED <<url, hosthdr, wrapped, conns, reqs, delivered, res>>
          ELSE /\ phase' = "sent" /\ url' = t /\ hosthdr' = HostHdr(t) /\ wrapped' = (t.o.s = "https")
               /\ reqs' = reqs + 1
               /\ conns' = IF t.o = url.o THEN conns ELSE conns + 1
               /\ UNCHANGED <<delivered, res>>

\* the server answers with a final response: delivered once, with the chain
Final == /\ phase = "sent"
         /\ phase' = "final" /\ delivered' = 1
         /\ res' = [status |-> 200, redirects |-> chain]
         /\ UNCHANGED <<url, hosthdr, wrapped, chain, conns, reqs, round>>

\* after a final response the user issues a further request on the same client, to the origin the client is connected
\* to: it travels on the connection that is open, starts a chain of its own and gets a final response of its own
Again(path, q) == /\ phase = "final" /\ round < Rounds
                  /\ round' = round + 1 /\ phase' = "sent"
                  /\ url' = [o |-> url.o, path |-> path, query |-> q]
                  /\ hosthdr' = HostHdr(url') /\ UNCHANGED wrapped
                  /\ chain' = <<>> /\ conns' = 0 /\ reqs' = 1 /\ delivered' = 0 /\ res' = NoRes

\* further service passes after the end change nothing
Idle == /\ phase \in {"final", "refused"}
        /\ UNCHANGED vars

Next == \/ Issue \/ Final \/ Idle
        \/ \E path \in StartPaths, q \in StartQueries : Again(path, q)
        \/ \E st \in Statuses, loc \in Locs : Redirect(st, loc)
Spec == Init /\ [][Next]_vars

(* ---- properties ---- *)
NeverDowngrade == [][(reqs' > reqs /\ reqs > 0 /\ url.o.s = "https") => url'.o.s = "https"]_vars
WrappedIffHttps == wrapped = (url.o.s = "https")
ReconnectIffTargetDiffers ==
    [][(reqs' > reqs /\ reqs > 0) => /\ (url'.o # url.o) => conns' = conns + 1
                                     /\ (url'.o = url.o) => conns' = conns]_vars
ChainInOrder == /\ [][chain' = chain \/ (\E st \in Statuses : chain' = Append(chain, st)) \/ (round' > round /\ chain' = <<>>)]_vars
ChainDelivered == (phase = "final") => res.redirects = chain
ExactlyOneFinalResponse == /\ delivered \in {0, 1}
                           /\ (delivered = 1) <=> (phase = "final")
                           /\ (phase # "final") => res = NoRes
NothingAfterTheEnd == [][(phase \in {"final", "refused"} /\ round' = round) => UNCHANGED vars]_vars
RequestsCountHops == (phase \in {"sent", "final"}) => reqs = Len(chain) + 1
=============================================================================
