SPECIFICATION Spec
CONSTANTS
  Schemes = {"http", "https"}
  Hosts = {"h1", "h2"}
  PortClasses = {"std", "alt"}
  Statuses = {302, 307}
  QKinds = {"plain", "amp", "plus", "hash", "pct"}
  StartKinds = {"none", "start"}
  MaxHops = 3
  Rounds = 2
INVARIANT WrappedIffHttps
INVARIANT ChainDelivered
INVARIANT ExactlyOneFinalResponse
INVARIANT RequestsCountHops
PROPERTY NeverDowngrade
PROPERTY ReconnectIffTargetDiffers
PROPERTY ChainInOrder
PROPERTY NothingAfterTheEnd
CHECK_DEADLOCK FALSE
