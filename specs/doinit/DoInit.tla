------------------------------- MODULE DoInit -------------------------------
(* How the io data inits ("ioinits") of a `do` behaviour are resolved (extra check X-doinit).    *)
(*                                                                                               *)
(* Written from the documentation:                                                               *)
(*  - docstring of Actor._initio (an ioinit value is a path string or a mapping with optional    *)
(*    ipath / ival / iown; None = "use default"; anything else is a ValueError "Bad ioinit";     *)
(*    missing ipath = the key; leading dot = absolute, otherwise relative to the inode; trailing *)
(*    dot = a node "and remaining init values are ignored"; the five cases of ival: not provided *)
(*    = the share is not changed, empty mapping / non-string iterable = a shallow copy goes to   *)
(*    share.value, non-empty mapping = its items are the fields, otherwise share.value = ival;   *)
(*    iown truthy = update (overwrite), otherwise create = "change if not exist");               *)
(*  - docstring of Act (share path resolution: "act.resolve aggregates ioinits from registry,    *)
(*    act.ioinits, and act.prerefs", calls ._initio, resolves every ioi with .resolvePath "and    *)
(*    then assigns share/node to attribute/parameter of .actor"), the comments of Act.resolve     *)
(*    ("'do per', 'via inode'", "restore registry ival iown defaults ... replace old ipath with   *)
(*    new", "ensure node not share path", "Nonstring inode", the two ResolveErrors "Parm and Ioi  *)
(*    with same name" / "Attribute and Ioi with same name"), the docstrings of Doer ("defaults to *)
(*    converting iois into attributes") and DoerParam ("Iois are converted to parms");            *)
(*  - docstring of Act.resolvePath (empty ipath = the inode node; the default inode              *)
(*    framer.me.frame.me.actor.me when act, frame and framer inode are all empty; me = framer     *)
(*    inode relative) and of Builder.buildDo ("via argument takes precedence over others");       *)
(*  - ChangeLog: "Do verb per clause now overrides for clause", "do verb via connective now       *)
(*    supports paths that end with dot or not", "do verb by/from, for, qua, now all use all the   *)
(*    fields in the source if a field list is not provided", "The inode on an actor may be set    *)
(*    explicitly in the Ioinit class variable or in the actify (doify) decorator or by the via    *)
(*    clause"; example plans testViaDoClausePer / testViaDoClauseFor (the source of a for clause  *)
(*    is itself addressed relative to the inode);                                                 *)
(*  - docstrings of Share.create / Share.update.                                                  *)
(*                                                                                               *)
(* A case is one `do` line in the program                                                        *)
(*     house vfh                                                                                 *)
(*     init <pre-existing content of the target share>      (pre)                                *)
(*     init <source share of the for clause>                (F)                                  *)
(*     framer fa be active first f0 [via .fi]               (fi)                                 *)
(*        frame f0                                                                               *)
(*           do <kind> at enter [via ..] [per K path] [for [K in] src] [with K 1]                *)
(* where <kind> is a Doer (par = FALSE) or DoerParam (par = TRUE) class whose registry Ioinits   *)
(* hold the entry R under key K and possibly an `inode` item (ci).  The specification gives the  *)
(* outcome of the build, the node the inode resolves to, whether / where K is bound, the share or *)
(* node it resolves to and the fields of that share after the build.                             *)
(*                                                                                               *)
(* Paths are sequences of segments: a leading "" = leading dot (absolute), a trailing "" =       *)
(* trailing dot (node).  Values are tokens the harness maps to Python values ("five" = 5 ..).    *)
(* The interplay of `via` with frame / framer / clone inodes and all relative address forms is   *)
(* the subject of Paths.tla (C13); here only the framer inode is varied (none / absolute).       *)
EXTENDS Integers, Sequences, FiniteSets, SequencesExt, TLC, Json, IOUtils

CONSTANTS Pars,        \* subset of BOOLEAN: Doer (FALSE) / DoerParam (TRUE) classes of the value and error groups
          PPars,       \* the same for the path group
          VIvals,      \* ival forms of the value group
          VPaths,      \* ipath forms of mapping entries in the value group
          VOvers,      \* overrides in the value group: subset of {"none", "per", "for"}
          PCis, PVias, PFis,   \* class inode / via / framer inode forms of the path group
          PPers, PFors,        \* per / for forms of the path group
          PPaths               \* ipath forms of the path group

\* ---------------------------------------------------------------- texts
IPathText(n) ==
    CASE n = "key"     -> <<>>                      \* "" : default to the key
      [] n = "rel"     -> <<"p">>
      [] n = "rel2"    -> <<"p", "q">>
      [] n = "abs"     -> <<"", "a", "p">>
      [] n = "me"      -> <<"me", "p">>
      [] n = "framer"  -> <<"framer", "me", "p">>
      [] n = "node"    -> <<"nd", "">>
      [] n = "absnode" -> <<"", "a", "nd", "">>
CInodeText(n) ==
    CASE n = "none" -> <<>>
      [] n = "rel"  -> <<"ci">>
      [] n = "dot"  -> <<"ci", "">>                 \* written with the trailing dot
      [] n = "abs"  -> <<"", "ca">>
      [] n = "me"   -> <<"me", "ci">>
      [] OTHER      -> <<>>
ViaText(n) ==
    CASE n = "none" -> <<>>
      [] n = "rel"  -> <<"vi">>
      [] n = "dot"  -> <<"vi", "">>
      [] n = "abs"  -> <<"", "va">>
      [] n = "me"   -> <<"me", "vi">>
FiText(n) == IF n = "abs" THEN <<"", "fi">> ELSE <<>>
PerText(n) ==
    CASE n = "rel" -> <<"zz">>
      [] n = "abs" -> <<"", "b", "zz">>
      [] n = "me"  -> <<"me", "zz">>
      [] OTHER     -> <<>>
ForText(n) ==                                       \* the path text held by the field of the source share
    CASE n \in {"has", "all", "relsrc"} -> <<"yy">>
      [] n = "hasabs"                   -> <<"", "c", "yy">>
      [] OTHER                          -> <<>>
ForSrcText(n) == IF n = "relsrc" THEN <<"src">> ELSE <<"", "src">>

\* ---------------------------------------------------------------- entries
\* R = [t, hp, p, iv, io]: t in absent / none / str / map / num;  hp: the mapping has an ipath item;  p: ipath form;
\* iv: ival form ("absent" = no ival item);  io in absent / false / true
Entry(t, hp, p, iv, io) == [t |-> t, hp |-> hp, p |-> p, iv |-> iv, io |-> io]
RAbsent == Entry("absent", FALSE, "key", "absent", "absent")
RNone == Entry("none", FALSE, "key", "absent", "absent")
RNum == Entry("num", FALSE, "key", "absent", "absent")
RStr(p) == Entry("str", TRUE, p, "absent", "absent")
RMap(hp, p, iv, io) == Entry("map", hp, p, iv, io)

\* ival forms: what the documentation distinguishes
IvalClass(iv) ==
    CASE iv = "absent" -> "absent"
      [] iv \in {"emap"} -> "emptymap"
      [] iv \in {"list", "tuple", "elist"} -> "iterable"
      [] iv \in {"mapxy", "mapvalue", "mapxvalue"} -> "map"
      [] OTHER -> "scalar"                         \* five zero false str estr none
\* the fields an ival writes: field -> value token
Writes(iv) ==
    CASE IvalClass(iv) = "absent" -> <<>>
      [] iv = "mapxy"     -> [f \in {"x", "y"} |-> IF f = "x" THEN "one" ELSE "two"]
      [] iv = "mapvalue"  -> [f \in {"value"} |-> "seven"]
      [] iv = "mapxvalue" -> [f \in {"x", "value"} |-> IF f = "x" THEN "one" ELSE "seven"]
      [] OTHER            -> [f \in {"value"} |-> iv]   \* scalar, (copy of) empty mapping, (copy of) iterable
Copied(iv) == IvalClass(iv) \in {"emptymap", "iterable"}

PreFields(pre) ==
    CASE pre = "value" -> [f \in {"value"} |-> "nine"]
      [] pre = "x"     -> [f \in {"x"} |-> "nine"]
      [] OTHER         -> <<>>

\* Share.update overwrites, Share.create only adds the fields that do not exist yet
After(pre, w, own) ==
    [f \in (DOMAIN pre) \cup (DOMAIN w) |->
        IF f \in DOMAIN w /\ (own \/ f \notin DOMAIN pre) THEN w[f] ELSE pre[f]]

\* ---------------------------------------------------------------- the effective ioinit of key K
\* the path a script clause gives for K, or <<"-">> when no clause gives one
NoOver == <<"-">>
ForGives(c) == c.F \in {"has", "hasabs", "all", "relsrc"}      \* "lacks": the source share has no field K
Over(c) == IF c.P # "none" /\ c.P # "num" THEN PerText(c.P)      \* per overrides for
           ELSE IF ForGives(c) THEN ForText(c.F)
           ELSE NoOver
HasIoi(c) == c.R.t # "absent" \/ Over(c) # NoOver
\* ipath / ival / iown after the aggregation: a path string given by the script replaces only the ipath of a registry mapping
EffPath(c) == IF Over(c) # NoOver THEN Over(c)
              ELSE IF c.R.t \in {"str", "map"} /\ c.R.hp THEN IPathText(c.R.p) ELSE <<>>
EffIval(c) == IF c.R.t = "map" THEN c.R.iv ELSE "absent"
EffOwn(c) == c.R.t = "map" /\ c.R.io = "true"
\* the inode: via, else the registry's inode item, else empty; with or without trailing dot
Body(p) == IF p # <<>> /\ Last(p) = "" THEN Front(p) ELSE p
EffInode(c) == Body(IF c.via # "none" THEN ViaText(c.via) ELSE CInodeText(c.ci))

\* ---------------------------------------------------------------- path resolution (no frame inodes, no clones: see Paths.tla)
IsNodePath(p) == p = <<>> \/ Last(p) = ""
Anchored(p) == p # <<>> /\ p[1] \in {"", "framer"}
DefaultInode == <<"framer", "me", "frame", "me", "actor", "me">>
Substitute(p) ==
    IF p = <<>> \/ p[1] # "framer" THEN p
    ELSE [i \in DOMAIN p |->
            IF p[i] # "me" THEN p[i]
            ELSE IF i = 2 THEN "fa"
            ELSE IF i = 4 /\ p[3] = "frame" THEN "f0"
            ELSE IF (i = 4 /\ p[3] = "actor") \/ (i = 6 /\ p[3] = "frame" /\ p[5] = "actor") THEN "@actor"
            ELSE p[i]]
\* store path (no leading dot) of the share / node that ipath resolves to for an act with inode `ino` under framer inode `f`
Resolve(f, ino, ipath) ==
    LET parts == Body(ipath)
        fp == Body(f)
        p1 == IF parts # <<>> /\ parts[1] = "" THEN parts
              ELSE LET withI == IF parts # <<>> /\ parts[1] \in {"framer", "me"} THEN parts
                                ELSE (IF ino = <<>> /\ fp = <<>> THEN DefaultInode ELSE ino) \o parts
                   IN IF Anchored(withI) THEN withI
                      ELSE LET q == IF withI # <<>> /\ withI[1] = "me" THEN Tail(withI) ELSE withI
                           IN IF Anchored(q) THEN q ELSE fp \o q
        p2 == Substitute(p1)
    IN IF p2 # <<>> /\ p2[1] = "" THEN Tail(p2) ELSE p2

\* ---------------------------------------------------------------- the cases
Case(g, par, key, R, ci, via, P, F, fi, pre, with) ==
    [g |-> g, par |-> par, key |-> key, R |-> R, ci |-> ci, via |-> via, P |-> P, F |-> F, fi |-> fi, pre |-> pre, with |-> with]

IsNodeCase(c) == IsNodePath(EffPath(c)) /\ EffPath(c) # <<>>
Pres == {"none", "value", "x"}

\* value group: every mapping entry x pre-existing content x (no override / per / for); inode fixed
ValueCases ==
    {Case("value", par, "k", RMap(p # "nopath", IF p = "nopath" THEN "key" ELSE p, iv, io), "none", "none",
          IF o = "per" THEN "rel" ELSE "none", IF o = "for" THEN "has" ELSE "none", "abs", pre, FALSE) :
        par \in Pars, p \in VPaths, iv \in VIvals, io \in {"absent", "false", "true"}, o \in VOvers, pre \in Pres}
\* path group: where the reference goes and which source wins
PathEntries == {RAbsent, RNone} \cup {RStr(p) : p \in PPaths}
               \cup {RMap(p # "nopath", IF p = "nopath" THEN "key" ELSE p, iv, "absent") : p \in {"nopath", "rel", "abs"} \cap (PPaths \cup {"nopath"}),
                                                                                   iv \in {"absent", "five"}}
PathCases ==
    {Case("path", par, "k", R, ci, via, P, F, fi, "none", FALSE) :
        par \in PPars, R \in PathEntries, ci \in PCis, via \in PVias, P \in PPers, F \in PFors, fi \in PFis}
\* error group
ErrorCases ==
    {Case("error", TRUE, "k", RStr("rel"), "none", "none", P, "none", "abs", "none", TRUE) : P \in {"none", "rel"}}      \* parm and ioi of one name
    \cup {Case("error", FALSE, "name", R, "none", "none", "none", "none", "abs", "none", FALSE) : R \in {RStr("rel"), RNone}} \* attribute and ioi of one name
    \cup {Case("error", par, "k", RNum, "none", "none", "none", "none", "abs", "none", FALSE) : par \in Pars}            \* bad registry entry
    \cup {Case("error", par, "k", R, "none", "none", "num", "none", "abs", "none", FALSE) :
             par \in Pars, R \in {RAbsent, RStr("rel"), RMap(TRUE, "rel", "five", "absent"), RMap(FALSE, "key", "absent", "true")}} \* per K 5
    \cup {Case("error", par, "k", RStr("rel"), "num", "none", "none", "none", "abs", "none", FALSE) : par \in Pars}                        \* inode = 5
    \* (whether a via clause makes a non-string registry inode harmless is not documented: not enumerated)
    \cup {Case("error", par, "k", R, "none", "none", P, "num", "abs", "none", FALSE) :
             par \in Pars, R \in {RAbsent, RMap(TRUE, "rel", "five", "absent")}, P \in {"none", "rel"}}                              \* for K in src, the field holds 5
Cases == {c \in ValueCases \cup PathCases : (IsNodeCase(c) => c.pre = "none") /\ (HasIoi(c) \/ c.pre = "none")} \cup ErrorCases

\* ---------------------------------------------------------------- what the documentation promises for a case
Outcome(c) ==
    IF c.ci = "num" THEN "ValueError"                                    \* Nonstring inode
    ELSE IF c.P = "num" \/ (c.P = "none" /\ c.F = "num") THEN "ValueError"   \* Bad ioinit: neither string nor mapping
    ELSE IF c.R.t = "num" THEN "ValueError"
    ELSE IF HasIoi(c) /\ c.par /\ c.with THEN "refused"                  \* ResolveError: Parm and Ioi with same name
    ELSE IF HasIoi(c) /\ ~c.par /\ c.key = "name" THEN "refused"         \* ResolveError: Attribute and Ioi with same name
    ELSE "built"

KeyPath(c) == IF EffPath(c) = <<>> THEN <<c.key>> ELSE EffPath(c)
Target(c) == Resolve(FiText(c.fi), EffInode(c), KeyPath(c))
InodeNode(c) == Resolve(FiText(c.fi), EffInode(c), <<>>)
Fields(c) == IF IsNodeCase(c) THEN <<>>
             ELSE After(PreFields(c.pre), Writes(EffIval(c)), EffOwn(c))
ForSrc(c) == Resolve(FiText(c.fi), EffInode(c), ForSrcText(c.F))

Pairs(f) == LET ks == SetToSeq(DOMAIN f) IN [i \in DOMAIN ks |-> <<ks[i], f[ks[i]]>>]
Expect(c) ==
    [outcome |-> Outcome(c),
     anyio   |-> HasIoi(c) \/ c.ci # "none" \/ c.via # "none",   \* some ioinit exists: the actor knows its inode
     inode   |-> InodeNode(c),
     bound   |-> HasIoi(c),
     node    |-> IsNodeCase(c),
     path    |-> Target(c),
     fields  |-> Pairs(Fields(c)),
     written |-> IF IsNodeCase(c) THEN <<>> ELSE Pairs(Writes(EffIval(c))),
     copied  |-> ~IsNodeCase(c) /\ Copied(EffIval(c)),
     pre     |-> Pairs(PreFields(c.pre)),
     forsrc  |-> ForSrc(c),
     fortext |-> ForText(c.F),
     texts   |-> [ipath |-> IPathText(c.R.p), ci |-> CInodeText(c.ci), via |-> ViaText(c.via), per |-> PerText(c.P), fi |-> FiText(c.fi),
                  forsrc |-> ForSrcText(c.F)]]

\* ---------------------------------------------------------------- the other data inits: action parameters and constructor arguments
\* The registry holds the defaults (class attributes Parms / Inits, doify(parms=.., inits=..)): q = 3; a source share named by
\* `from` (parms) / `qua` (inits) holds q = 4 or lacks the field ("only update if src has field"; without a field list all the
\* fields of the source are taken); `with` / `cum` give q = 5 directly.  ChangeLog: "with clause now overrides from clause,
\* cum clause now overrides qua clause"; Act.resolve: "'do cum' overrides qua", "'do with' overrides from".
SideCases == {[g |-> grp, par |-> par, reg |-> reg, src |-> src, direct |-> d] :
                 grp \in {"parm", "init"}, par \in Pars, reg \in {"absent", "three"}, src \in {"none", "has", "lacks", "all"}, d \in {"none", "five"}}
SideValue(c) == IF c.direct # "none" THEN "five"
                ELSE IF c.src \in {"has", "all"} THEN "four"
                ELSE IF c.reg # "absent" THEN "three" ELSE "unset"
SideTable == SetToSeq({[case |-> c, value |-> SideValue(c)] : c \in SideCases})

\* ---------------------------------------------------------------- doify
\* "converts the decorated function into an Actor sub class with .action method and with class name name and registers the new
\* subclass in the registry under name. If base is provided then register as subclass of base. Default base is Doer"; a base
\* that is not a Doer is a RegisterError; "The parameters registry, parametric, inits, ioinits, and parms if provided, are used
\* to create the class attributes"; Doer "defaults to converting iois into attributes", DoerParam "Iois are converted to parms";
\* a name can be registered once (RegisterType.__register__).  deeding.py: "Backwards compatibility module": deedify = doify,
\* Deed / DeedParam / DeedLapse / DeedSince are the Doer classes under their old names.
DoifyCases == {[base |-> b, parametric |-> p] : b \in {"default", "doer", "param", "lapse", "since", "deed", "deedparam", "actor", "object"},
                                                 p \in {"absent", "false", "true"}}
DoifyExpect(c) ==
    IF c.base \in {"actor", "object"} THEN [outcome |-> "RegisterError", parametric |-> FALSE]
    ELSE [outcome |-> "registered", parametric |-> IF c.parametric # "absent" THEN c.parametric = "true" ELSE c.base \in {"param", "deedparam"}]
DoifyTable == SetToSeq({[case |-> c, expect |-> DoifyExpect(c)] : c \in DoifyCases})

\* ---------------------------------------------------------------- model: one case per behaviour
VARIABLE case
NoCase == [g |-> "none"]
Init == \E g \in {"value", "path", "error", "parm", "init"}, par \in BOOLEAN : case = [g |-> "pick", grp |-> g, par |-> par]
Pick == /\ case.g = "pick"
        /\ \E c \in Cases \cup SideCases : c.g = case.grp /\ c.par = case.par /\ case' = c
Next == Pick
Spec == Init /\ [][Next]_case
Chosen == case.g \in {"value", "path", "error"}

\* ---------------------------------------------------------------- properties of the documented rules
\* an owner's init overwrites, anybody else's only fills in what is missing
OwnerOverwrites ==
    (Chosen /\ Outcome(case) = "built" /\ ~IsNodeCase(case) /\ EffOwn(case)) =>
        \A f \in DOMAIN Writes(EffIval(case)) : Fields(case)[f] = Writes(EffIval(case))[f]
NonOwnerPreserves ==
    (Chosen /\ Outcome(case) = "built" /\ ~IsNodeCase(case) /\ ~EffOwn(case)) =>
        /\ \A f \in DOMAIN PreFields(case.pre) : Fields(case)[f] = PreFields(case.pre)[f]
        /\ \A f \in DOMAIN Writes(EffIval(case)) : f \notin DOMAIN PreFields(case.pre) => Fields(case)[f] = Writes(EffIval(case))[f]
NoIvalNoChange ==
    (Chosen /\ Outcome(case) = "built" /\ EffIval(case) = "absent") => Fields(case) = PreFields(case.pre)
\* nothing is invented: the share holds pre-existing fields and the fields of the ival only
OnlyThose ==
    (Chosen /\ Outcome(case) = "built") => DOMAIN Fields(case) \subseteq (DOMAIN PreFields(case.pre)) \cup {"value", "x", "y"}
\* a node takes no value
NodeIgnoresValue == (Chosen /\ IsNodeCase(case)) => Fields(case) = <<>>
\* an absolute ipath does not depend on any inode
AbsoluteIgnoresInode ==
    (Chosen /\ KeyPath(case) # <<>> /\ KeyPath(case)[1] = "") => Target(case) = Body(Tail(KeyPath(case)))
\* a plain relative ipath lies under the node the inode resolves to
RelativeUnderInode ==
    (Chosen /\ KeyPath(case)[1] \notin {"", "me", "framer"}) =>
        LET n == InodeNode(case) IN Len(Target(case)) > Len(n) /\ SubSeq(Target(case), 1, Len(n)) = n
\* precedence: via over the registry's inode; per over for over the registry's path; the override keeps ival and iown of the registry
ViaWins == (Chosen /\ case.via # "none") => EffInode(case) = Body(ViaText(case.via))
PerWins == (Chosen /\ case.P \notin {"none", "num"}) => KeyPath(case) = PerText(case.P)
ForWins == (Chosen /\ case.P = "none" /\ ForGives(case)) => KeyPath(case) = ForText(case.F)
OverrideKeepsValue ==
    (Chosen /\ Over(case) # NoOver /\ case.R.t = "map") => EffIval(case) = case.R.iv /\ EffOwn(case) = (case.R.io = "true")
\* results are well formed store paths
WellFormed ==
    (Chosen /\ Outcome(case) = "built") =>
        /\ Target(case) # <<>> /\ InodeNode(case) # <<>>
        /\ \A i \in DOMAIN Target(case) : Target(case)[i] \notin {"", "me"}
        /\ \A i \in DOMAIN InodeNode(case) : InodeNode(case)[i] \notin {"", "me"}

\* what the script says directly beats what it fetches from a share, which beats the default of the registry
SidePrecedence ==
    (case.g \in {"parm", "init"}) =>
        /\ (case.direct # "none") => SideValue(case) = "five"
        /\ (case.direct = "none" /\ SideValue(case) = "three") => (case.reg = "three" /\ case.src \in {"none", "lacks"})
        /\ (SideValue(case) = "unset") <=> (case.direct = "none" /\ case.reg = "absent" /\ case.src \in {"none", "lacks"})

\* ---------------------------------------------------------------- table for the harness (binding C)
\* (one pass over the set: an indexed `cs[i]` would re-evaluate SetToSeq for every row)
Table == SetToSeq({[case |-> c, expect |-> Expect(c)] : c \in Cases})
ASSUME JsonSerialize(IOEnv.TABLE_OUT, [rows |-> Table, side |-> SideTable, doify |-> DoifyTable])
=============================================================================
