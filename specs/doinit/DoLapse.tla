------------------------------- MODULE DoLapse -------------------------------
(* Life cycle of the time keeping Doer base classes (extra check X-doinit, part 2).             *)
(*                                                                                               *)
(* Written from the docstrings of ioflo.base.doing:                                              *)
(*   DoerSince  ".stamp = current time of doer evaluation", action "Should call this on          *)
(*              superclass as first step of subclass action method";                             *)
(*   DoerLapse  ".stamp = current time stamp of doer evaluation, .lapse = elapsed time between   *)
(*              current and previous evaluation", "has restart method when resuming after        *)
(*              noncontiguous time interruption; builder creates implicit entry action of        *)
(*              restarter for Doer", restart "Override in subclass. This is called by restarter  *)
(*              action in enter context", updateLapse "lapse must not be negative ... if stamp   *)
(*              is None ... lapse = 0", _resolve "need to insert restartAct before self._act so  *)
(*              restartAct runs first";                                                          *)
(* and of Store (".stamp = global time stamp for store").  The frame semantics used (an entered  *)
(* frame runs its enter actions, then every run of the framer the recur actions of the active    *)
(* outline; a transition exits the near frames and enters the far ones, a transition among the   *)
(* frames under a common over frame does not enter the over frame again; start enters the first  *)
(* outline, stop exits everything) are those of Flo.tla (C05 - C08).                             *)
(*                                                                                               *)
(* One doer lives in the framer                                                                  *)
(*     framer fa first a                                                                         *)
(*        frame top                      <- the doer of kind "lapseover" (recur)                 *)
(*           frame a in top              <- the doer of every other kind                         *)
(*              go b if cmd == 1;  go a if cmd == 2    (leave / forced re-entry)                 *)
(*           frame b in top                                                                      *)
(*              go a if cmd == 3                       (back)                                    *)
(* kinds: "lapse" DoerLapse subclass at recur (restart not overridden), "lapsereset" its restart *)
(* does what every DoerLapse in ioflo.trim does (stamp = store stamp, lapse = 0), "lapseenter"   *)
(* the doer itself is an enter action, "lapseover" in the over frame, "since" DoerSince at recur.*)
(* Environment: the store's time stamp (any reading, also backwards) and the command share.      *)
EXTENDS Integers, Sequences, TLC

CONSTANTS MaxT,     \* store stamps 0..MaxT (time quanta)
          Kinds     \* kinds enumerated

None == 0 - 1       \* the doer's stamp before its first evaluation (Python None)
AllKinds == {"lapse", "lapsereset", "lapseenter", "lapseover", "since"}
ASSUME Kinds \subseteq AllKinds /\ MaxT \in Nat

VARIABLES kind,     \* constant through a behaviour
          now,      \* store stamp
          where,    \* "off" (framer stopped), "a", "b" (active frame)
          stamp,    \* doer's .stamp
          lapse,    \* doer's .lapse (0 for DoerSince, which has none)
          log       \* what the doer was asked to do during the last step: sequence of "restart" / "action"
vars == <<kind, now, where, stamp, lapse, log>>

Max(a, b) == IF a >= b THEN a ELSE b
Lapsing == kind # "since"

\* ---------------------------------------------------------------- what the doer does (s = [stamp, lapse, log])
DoRestart(s) ==
    LET t == [s EXCEPT !.log = Append(@, "restart")] IN
    IF kind = "lapsereset" THEN [t EXCEPT !.stamp = now, !.lapse = 0] ELSE t
DoAction(s) ==
    LET t == [s EXCEPT !.log = Append(@, "action"), !.stamp = now] IN
    IF Lapsing THEN [t EXCEPT !.lapse = IF s.stamp = None THEN 0 ELSE Max(0, now - s.stamp)] ELSE t

\* the doer's own frame is entered: the implicit restarter first, then the doer when it is an enter action itself
EnterOwn(s) ==
    IF ~Lapsing THEN s
    ELSE IF kind = "lapseenter" THEN DoAction(DoRestart(s)) ELSE DoRestart(s)
\* the doer's own frame recurs
RecurOwn(s) == IF kind = "lapseenter" THEN s ELSE DoAction(s)
Cur == [stamp |-> stamp, lapse |-> lapse, log |-> <<>>]
Set(s) == stamp' = s.stamp /\ lapse' = s.lapse /\ log' = s.log

\* ---------------------------------------------------------------- actions
\* environment: the store's stamp is set (the skedder advances it, a replayed mission may set it back)
Clock(t) ==
    /\ t # now
    /\ now' = t
    /\ log' = <<>>
    /\ UNCHANGED <<kind, where, stamp, lapse>>

\* the framer is started: the first outline top > a is entered and recurs once
Start ==
    /\ where = "off"
    /\ where' = "a"
    /\ Set(RecurOwn(EnterOwn(Cur)))
    /\ UNCHANGED <<kind, now>>

\* the environment writes the command share, then the framer runs once: transitions first, then recur
Run(c) ==
    /\ where \in {"a", "b"}
    /\ c \in (IF where = "a" THEN {"stay", "self", "leave"} ELSE {"stay", "back"})
    /\ where' = (IF c = "leave" THEN "b" ELSE IF c = "back" THEN "a" ELSE where)
    /\ IF kind = "lapseover" THEN Set(RecurOwn(Cur))                    \* top stays active whatever happens below it
       ELSE IF where' = "b" THEN Set(Cur)                               \* the doer's frame is not active
       ELSE IF c \in {"self", "back"} THEN Set(RecurOwn(EnterOwn(Cur))) \* (re-)entered, then recurs in the same run
       ELSE Set(RecurOwn(Cur))
    /\ UNCHANGED <<kind, now>>

\* the framer is stopped: everything is exited, the doer is not asked anything
Stop ==
    /\ where # "off"
    /\ where' = "off"
    /\ log' = <<>>
    /\ UNCHANGED <<kind, now, stamp, lapse>>

Init == /\ kind \in Kinds
        /\ now = 0 /\ where = "off" /\ stamp = None /\ lapse = 0 /\ log = <<>>
Next == \/ \E t \in 0..MaxT : Clock(t)
        \/ Start
        \/ \E c \in {"stay", "self", "leave", "back"} : Run(c)
        \/ Stop
Spec == Init /\ [][Next]_vars

\* ---------------------------------------------------------------- properties
TypeOK == /\ now \in 0..MaxT /\ where \in {"off", "a", "b"}
          /\ stamp \in {None} \cup (0..MaxT) /\ lapse \in 0..MaxT
          /\ \A i \in DOMAIN log : log[i] \in {"restart", "action"}
\* "lapse must not be negative", whatever the clock does
NonNegative == lapse >= 0
\* the stamp is the time of the current evaluation
StampOfEvaluation == (log # <<>> /\ log[Len(log)] = "action") => stamp = now
\* the restarter runs first whenever the doer's frame is entered, and only then
RestartFirst == \A i \in DOMAIN log : log[i] = "restart" => i = 1
RestartOnEntry ==
    [][(Lapsing /\ where' = "a" /\ (where = "off" \/ (where = "b" /\ kind # "lapseover")))
        => (log' # <<>> /\ log'[1] = "restart")]_vars
\* lapse = time between the current and the previous evaluation (previous = as left by the restarter)
LapseIsGap ==
    [][(Lapsing /\ kind # "lapsereset" /\ log' # <<>> /\ log'[Len(log')] = "action")
        => lapse' = (IF stamp = None THEN 0 ELSE Max(0, now - stamp))]_vars
\* a restart that resets the stamp hides the interruption: the first evaluation after entry reports no lapse
ResetHidesGap == (kind = "lapsereset" /\ Len(log) = 2) => lapse = 0
\* DoerSince keeps no lapse and has no restarter
SinceIsPlain == (kind = "since") => (lapse = 0 /\ \A i \in DOMAIN log : log[i] = "action")
\* without evaluation nothing changes
Quiet == [][(log' = <<>>) => (stamp' = stamp /\ lapse' = lapse)]_vars
=============================================================================
