\* Reference configuration = quick tier of vf/families/doinit.py
SPECIFICATION Spec
CONSTANTS
  MaxT = 3
  Kinds = {"lapse", "lapsereset", "lapseenter", "lapseover", "since"}
INVARIANT TypeOK
INVARIANT NonNegative
INVARIANT StampOfEvaluation
INVARIANT RestartFirst
INVARIANT ResetHidesGap
INVARIANT SinceIsPlain
PROPERTY RestartOnEntry
PROPERTY LapseIsGap
PROPERTY Quiet
CHECK_DEADLOCK FALSE
