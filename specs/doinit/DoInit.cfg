\* Reference configuration = quick tier of vf/families/doinit.py; TABLE_OUT (table file) comes from the environment.
SPECIFICATION Spec
CONSTANTS
  Pars = {FALSE, TRUE}
  PPars = {FALSE}
  VIvals = {"absent", "five", "zero", "false", "str", "estr", "none", "emap", "list", "elist", "tuple", "mapxy", "mapvalue", "mapxvalue"}
  VPaths = {"nopath", "rel"}
  VOvers = {"none", "per"}
  PCis = {"none", "dot"}
  PVias = {"none", "rel", "me"}
  PFis = {"none", "abs"}
  PPers = {"none", "rel"}
  PFors = {"none", "has", "lacks", "relsrc"}
  PPaths = {"key", "rel", "abs", "node"}
INVARIANT OwnerOverwrites
INVARIANT NonOwnerPreserves
INVARIANT NoIvalNoChange
INVARIANT OnlyThose
INVARIANT NodeIgnoresValue
INVARIANT AbsoluteIgnoresInode
INVARIANT RelativeUnderInode
INVARIANT ViaWins
INVARIANT PerWins
INVARIANT ForWins
INVARIANT OverrideKeepsValue
INVARIANT WellFormed
INVARIANT SidePrecedence
CHECK_DEADLOCK FALSE
