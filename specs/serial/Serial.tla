------------------------------- MODULE Serial -------------------------------
(* Non blocking serial io of ioflo.aio.serial.serialing (extra check X-serial): ConsoleNb,      *)
(* DeviceNb, SerialNb and Driver.  Written from the docstrings:                                 *)
(*   ConsoleNb.open      "Opens fd on terminal console in non blocking mode ... Default is      *)
(*                        canonical mode so no characters available until newline" (the caller  *)
(*                        base.monitoring.Monitor.reopen relies on the True / False result)     *)
(*   ConsoleNb.close     "Closes fd"                                                            *)
(*   ConsoleNb.getLine   "Gets nonblocking line from console up to bs characters including      *)
(*                        newline.  Returns empty string if no characters available else        *)
(*                        returns line.  In canonical mode no chars available until newline is  *)
(*                        entered"                                                              *)
(*   ConsoleNb.put       "Writes data string to console"                                        *)
(*   DeviceNb / SerialNb "Class to manage non blocking IO on serial device port"                *)
(*     .open             "Opens fd on serial port in non blocking mode"                         *)
(*     .reopen           "Idempotently open serial device port"                                 *)
(*     .close            "Closes fd" / "Closes .serial"                                         *)
(*     .receive          "Reads nonblocking characters from serial device up to bs characters.  *)
(*                        Returns empty bytes if no characters available else returns all       *)
(*                        available"                                                            *)
(*     .send             "Writes data bytes to serial device port.  Returns number of bytes     *)
(*                        sent" (a full device buffer, EAGAIN, counts as 0 bytes sent)          *)
(*   Driver              "Nonblocking Serial Device Port Driver"; "server = serial port device  *)
(*                        server if any" (without one: SerialNb when pyserial can be imported,  *)
(*                        DeviceNb otherwise); "txes = deque of data bytes to send"; "rxbs =    *)
(*                        bytearray of data bytes received"                                     *)
(*     .serviceReceives  "Service receives until no more";  .serviceReceiveOnce "Retrieve from  *)
(*                        server only one reception";  .clearRxbs "Clear .rxbs"                 *)
(*     .scan             "Returns offset of given start byte in self.rxbs.  Returns None if     *)
(*                        ... not found"                                                        *)
(*     .tx               "Queue data onto .txes";  .serviceTxes "Service txes data" (the unsent  *)
(*                        portion of a partial write is put back);  .serviceTxOnce "Service one *)
(*                        data on the .txes deque to send through device"                       *)
(*                                                                                              *)
(* The port (a tty, a serial device) is the environment.  Its input side is the sequence `src`  *)
(* of bytes the far side produced; `landed` of them reached the port's input queue (a real pty  *)
(* delivers with a latency, a scripted double at once), `nread` of them were taken by reads.    *)
(* In canonical mode (the console) a read yields nothing before a newline landed and never      *)
(* crosses a newline.  What a read / write call is answered is an environment choice carried    *)
(* by the action: data | eagain | empty | error for reads; full | part(n) | zero | eagain |     *)
(* error for writes.  Where the documentation is silent the specification is too: a failing     *)
(* put, calls on a closed device object and the fate of the message in flight when the device   *)
(* raises out of a Driver transmit pass (kept or dropped: the answer record says which, the     *)
(* harness reads it off the queue) are not constrained.                                         *)
(* A message may be empty: it contributes nothing to the wire and must not hold up the queue -  *)
(* whatever the device answers to its (zero length) write short of an error, all of its bytes   *)
(* are sent and it leaves the queue in the pass that reaches it (same reading as TxStream.tla). *)
(* Bytes are integers; the harness maps them to byte values (0 is the newline of the console).  *)
EXTENDS Integers, Sequences, FiniteSets, TLC

CONSTANTS Subjects,   \* subset of {"console", "device", "serial", "drvdevice", "drvserial"}
          BsSet,      \* read buffer sizes (bs) tried
          MaxTyped,   \* bytes the far side produces during a behaviour of the model
          MaxMsgs,    \* messages offered for sending during a behaviour of the model
          MaxLen,     \* bytes per message
          Modes,      \* subset of {"rx", "tx", "both"}: which side a behaviour of the model exercises
          Lag         \* TRUE: produced bytes land later (real pty); FALSE: at once (doubles)

VARIABLES subject,    \* the class under test (fixed in the initial state)
          mode,       \* bounds of the model's exploration (fixed in the initial state; no action depends on it)
          bs,         \* its read buffer size (fixed; the console passes a size with every getLine)
          src,        \* bytes produced by the far side and not discarded by the port, in order
          ntyped,     \* how many bytes the far side produced so far (bound of the model)
          landed,     \* how many bytes of src reached the port's input queue
          nread,      \* how many bytes of src were taken out of the port by reads
          wire,       \* bytes the port accepted from writes, in order
          nopen,      \* handles on the port held by the process (opens minus closes)
          opened,     \* the object says it is open (.opened; console: .fd is set)
          txes,       \* Driver: messages still to send, head first
          nq,         \* how many messages were offered for sending (bound of the model)
          rxbs,       \* Driver: receive buffer
          got,        \* history: every byte the object handed up (results of receive / getLine; appended to rxbs)
          res,        \* result of the last operation
          act         \* the last operation and the environment's answers to it (TLC labels steps whose parameters
                      \* range over state dependent sets "Next", so the replay harness reads the step from here)
vars == <<subject, mode, bs, src, ntyped, landed, nread, wire, nopen, opened, txes, nq, rxbs, got, res, act>>

NL == 0
IsConsole == subject = "console"
IsNb == subject \in {"device", "serial"}
IsDriver == subject \in {"drvdevice", "drvserial"}
IsPySerial == subject \in {"serial", "drvserial"}
Same == UNCHANGED <<subject, mode, bs>>

Min(a, b) == IF a < b THEN a ELSE b
R(k, n) == [k |-> k, n |-> n]
Act(a, m, k, n, s, fl) == [a |-> a, m |-> m, k |-> k, n |-> n, s |-> s, fl |-> fl]
None == [t |-> "none"]
Ok == [t |-> "ok"]
Fail == [t |-> "fail"]
Err == [t |-> "err"]
IntR(v) == [t |-> "int", v |-> v]
Bytes(v) == [t |-> "bytes", v |-> v]

RECURSIVE Flat(_)
Flat(q) == IF q = <<>> THEN <<>> ELSE Head(q) \o Flat(Tail(q))

Start == /\ src = <<>> /\ ntyped = 0 /\ landed = 0 /\ nread = 0 /\ wire = <<>> /\ nopen = 0 /\ opened = FALSE
         /\ txes = <<>> /\ nq = 0 /\ rxbs = <<>> /\ got = <<>> /\ res = None
         /\ act = Act("Init", <<>>, "", 0, <<>>, FALSE)
Init == subject \in Subjects /\ mode \in Modes /\ bs \in BsSet /\ Start

(* ---------------- the port ---------------- *)
\* ld = how many produced bytes have landed when a call reads the port (landed <= ld <= Len(src))
Lands(ld) == ld \in landed..Len(src)
Unread(ld) == SubSeq(src, nread + 1, ld)
FirstNL(s) == IF \E i \in 1..Len(s) : s[i] = NL THEN CHOOSE i \in 1..Len(s) : s[i] = NL /\ \A j \in 1..(i - 1) : s[j] # NL ELSE 0
\* what one read could take now: canonical mode hands out complete lines only, one at a time
Readable(ld) == IF IsConsole THEN SubSeq(Unread(ld), 1, FirstNL(Unread(ld))) ELSE Unread(ld)
Take(ld, n) == SubSeq(Readable(ld), 1, Min(n, Len(Readable(ld))))

\* the far side produces one byte (only while somebody holds the port open)
Type(c) == /\ nopen > 0
           /\ src' = Append(src, c) /\ ntyped' = ntyped + 1
           /\ landed' = IF Lag THEN landed ELSE Len(src')
           /\ res' = None /\ act' = Act("Type", <<c>>, "", 0, <<>>, FALSE) /\ Same
           /\ UNCHANGED <<nread, wire, nopen, opened, txes, nq, rxbs, got>>

\* the port discards the input nobody read yet
FlushedSrc == SubSeq(src, 1, nread)

(* ---------------- open / close / reopen ---------------- *)
\* k = what opening the port answers: "ok" | "fail" (no such device, busy, ...)
\* pyserial objects reset the input buffer when opened (ChangeLog: "Added buffer flushes to pyserial")
OpenEffect(k, wasopen, fl) ==
    /\ opened' = (k = "ok")
    /\ nopen' = nopen - (IF wasopen THEN 1 ELSE 0) + (IF k = "ok" THEN 1 ELSE 0)
    /\ IF fl \/ (k = "ok" /\ IsPySerial) THEN src' = FlushedSrc /\ landed' = nread ELSE UNCHANGED <<src, landed>>
    /\ res' = IF k = "ok" THEN Ok ELSE Fail

Open(k) == /\ ~opened /\ k \in {"ok", "fail"}
           /\ OpenEffect(k, FALSE, FALSE)
           /\ act' = Act("Open", <<>>, k, 0, <<>>, FALSE) /\ Same
           /\ UNCHANGED <<ntyped, nread, wire, txes, nq, rxbs, got>>

\* fl = the port dropped its unread input when its last handle was closed (environment choice)
Close(fl) == /\ (fl => opened)
             /\ opened' = FALSE /\ nopen' = nopen - (IF opened THEN 1 ELSE 0)
             /\ IF fl THEN src' = FlushedSrc /\ landed' = nread ELSE UNCHANGED <<src, landed>>
             /\ res' = None /\ act' = Act("Close", <<>>, "", 0, <<>>, fl) /\ Same
             /\ UNCHANGED <<ntyped, nread, wire, txes, nq, rxbs, got>>

\* "Idempotently open": whatever the state before, exactly one handle afterwards (none when opening failed)
Reopen(fl, k) == /\ ~IsConsole /\ k \in {"ok", "fail"} /\ (fl => opened)
                 /\ OpenEffect(k, opened, fl)
                 /\ act' = Act("Reopen", <<>>, k, 0, <<>>, fl) /\ Same
                 /\ UNCHANGED <<ntyped, nread, wire, txes, nq, rxbs, got>>

(* ---------------- reading ---------------- *)
\* one read of at most n bytes answered k; d = the bytes it yields
ReadOk(k, n, ld, d) ==
    CASE k = "data" -> Readable(ld) # <<>> /\ d = Take(ld, n)
      [] k \in {"eagain", "empty"} -> Readable(ld) = <<>> /\ d = <<>>
      [] k = "error" -> d = <<>>
      [] OTHER -> FALSE

Receive(k, ld) ==
    /\ IsNb /\ opened /\ Lands(ld)
    /\ \E d \in {Take(ld, bs), <<>>} :
          /\ ReadOk(k, bs, ld, d)
          /\ nread' = nread + Len(d) /\ got' = got \o d
          /\ res' = IF k = "error" THEN Err ELSE Bytes(d)
    /\ landed' = ld
    /\ act' = Act("Receive", <<>>, k, 0, <<>>, FALSE) /\ Same
    /\ UNCHANGED <<src, ntyped, wire, nopen, opened, txes, nq, rxbs>>

\* getLine(b): b is given with every call
GetLine(b, k, ld) ==
    /\ IsConsole /\ opened /\ Lands(ld) /\ b > 0
    /\ \E d \in {Take(ld, b), <<>>} :
          /\ ReadOk(k, b, ld, d)
          /\ nread' = nread + Len(d) /\ got' = got \o d
          /\ res' = IF k = "error" THEN Err ELSE Bytes(d)
    /\ landed' = ld
    /\ act' = Act("GetLine", <<>>, k, b, <<>>, FALSE) /\ Same
    /\ UNCHANGED <<src, ntyped, wire, nopen, opened, txes, nq, rxbs>>

(* ---------------- writing ---------------- *)
\* one write of message m answered r: how many bytes the port accepts
Accepts(m, r) == CASE r.k = "full" -> Len(m)
                   [] r.k = "part" -> r.n
                   [] OTHER -> 0
WriteOk(m, r) == /\ r.k \in {"full", "part", "zero", "eagain", "error"}
                 /\ r.k = "part" => (r.n > 0 /\ r.n < Len(m))

Send(m, r) ==
    /\ IsNb /\ opened /\ WriteOk(m, r)
    /\ wire' = wire \o SubSeq(m, 1, Accepts(m, r))
    /\ res' = IF r.k = "error" THEN Err ELSE IntR(Accepts(m, r))
    /\ act' = Act("Send", m, r.k, r.n, <<>>, FALSE) /\ Same /\ nq' = nq + 1
    /\ UNCHANGED <<src, ntyped, landed, nread, nopen, opened, txes, rxbs, got>>

\* put: the documentation promises the write, nothing about its result or about a console that refuses
Put(m, r) ==
    /\ IsConsole /\ opened /\ WriteOk(m, r) /\ r.k \in {"full", "part", "zero"}
    /\ wire' = wire \o SubSeq(m, 1, Accepts(m, r))
    /\ res' = None
    /\ act' = Act("Put", m, r.k, r.n, <<>>, FALSE) /\ Same /\ nq' = nq + 1
    /\ UNCHANGED <<src, ntyped, landed, nread, nopen, opened, txes, rxbs, got>>

(* ---------------- Driver: transmit ---------------- *)
\* (m may be empty)
Queue(m) == /\ IsDriver
            /\ txes' = Append(txes, m) /\ nq' = nq + 1
            /\ res' = None /\ act' = Act("Queue", m, "", 0, <<>>, FALSE) /\ Same
            /\ UNCHANGED <<src, ntyped, landed, nread, wire, nopen, opened, rxbs, got>>

\* One pass over queue q answered by script s (one answer per write).  ok: s is exactly what such a pass consumes.
\* An "error" answer raises out of the pass; n = 1 says the driver dropped the message in flight, n = 0 that it kept it.
RECURSIVE Pass(_, _)
Pass(q, s) ==
    IF q = <<>> THEN [q |-> q, out |-> <<>>, err |-> FALSE, ok |-> (s = <<>>)]
    ELSE IF s = <<>> THEN [q |-> q, out |-> <<>>, err |-> FALSE, ok |-> FALSE]
    ELSE LET r == Head(s)
             m == Head(q)
             last == (Tail(s) = <<>>) IN
         IF m = <<>> THEN
             \* an empty message: whatever the device answers short of an error, all (zero) of its bytes are sent and
             \* the pass goes on with the next message
             CASE r.k \in {"full", "zero", "eagain"} ->
                     LET p == Pass(Tail(q), Tail(s)) IN [q |-> p.q, out |-> p.out, err |-> p.err, ok |-> p.ok]
               [] r.k = "error" -> [q |-> IF r.n = 1 THEN Tail(q) ELSE q, out |-> <<>>, err |-> TRUE, ok |-> last /\ r.n \in {0, 1}]
               [] OTHER -> [q |-> q, out |-> <<>>, err |-> FALSE, ok |-> FALSE]
         ELSE
         CASE r.k = "full" ->
                 LET p == Pass(Tail(q), Tail(s)) IN [q |-> p.q, out |-> m \o p.out, err |-> p.err, ok |-> p.ok]
           [] r.k = "part" ->
                 LET good == r.n > 0 /\ r.n < Len(m) IN
                 [q |-> IF good THEN <<SubSeq(m, r.n + 1, Len(m))>> \o Tail(q) ELSE q,
                  out |-> IF good THEN SubSeq(m, 1, r.n) ELSE <<>>, err |-> FALSE, ok |-> last /\ good]
           [] r.k \in {"zero", "eagain"} -> [q |-> q, out |-> <<>>, err |-> FALSE, ok |-> last]
           [] r.k = "error" -> [q |-> IF r.n = 1 THEN Tail(q) ELSE q, out |-> <<>>, err |-> TRUE, ok |-> last /\ r.n \in {0, 1}]
           [] OTHER -> [q |-> q, out |-> <<>>, err |-> FALSE, ok |-> FALSE]

ServiceTx(s) ==
    /\ IsDriver
    /\ IF opened
       THEN LET p == Pass(txes, s) IN
            /\ p.ok
            /\ txes' = p.q /\ wire' = wire \o p.out
            /\ res' = IF p.err THEN Err ELSE None
       ELSE s = <<>> /\ UNCHANGED <<txes, wire>> /\ res' = None
    /\ act' = Act("ServiceTx", <<>>, "", 0, s, FALSE) /\ Same
    /\ UNCHANGED <<src, ntyped, landed, nread, nopen, opened, nq, rxbs, got>>

ServiceTxOnce(s) ==
    /\ IsDriver
    /\ IF opened /\ txes # <<>>
       THEN /\ Len(s) = 1
            /\ LET p == Pass(<<Head(txes)>>, s) IN
               /\ p.ok
               /\ txes' = p.q \o Tail(txes) /\ wire' = wire \o p.out
               /\ res' = IF p.err THEN Err ELSE None
       ELSE s = <<>> /\ UNCHANGED <<txes, wire>> /\ res' = None
    /\ act' = Act("ServiceTxOnce", <<>>, "", 0, s, FALSE) /\ Same
    /\ UNCHANGED <<src, ntyped, landed, nread, nopen, opened, nq, rxbs, got>>

(* ---------------- Driver: receive ---------------- *)
\* serviceReceives: receptions of at most bs bytes each are appended until one yields nothing (k = "eagain" | "empty")
\* or the device raises (k = "error", after j receptions); while the server is closed nothing is read (k = "closed").
Chunks(n) == (n + bs - 1) \div bs
ServiceRx(k, j, ld) ==
    /\ IsDriver /\ Lands(ld)
    /\ IF opened
       THEN /\ k \in {"eagain", "empty", "error"}
            /\ LET u == Unread(ld)
                   d == IF k = "error" THEN SubSeq(u, 1, Min(j * bs, Len(u))) ELSE u IN
               /\ Len(d) <= j * bs
               /\ Lag \/ j = (IF k = "error" THEN Min(j, Chunks(Len(u))) ELSE Chunks(Len(u)))
               /\ rxbs' = rxbs \o d /\ got' = got \o d /\ nread' = nread + Len(d)
               /\ res' = IF k = "error" THEN Err ELSE None
            /\ landed' = ld
       ELSE k = "closed" /\ j = 0 /\ ld = landed /\ UNCHANGED <<rxbs, got, nread, landed>> /\ res' = None
    /\ act' = Act("ServiceRx", <<>>, k, j, <<>>, FALSE) /\ Same
    /\ UNCHANGED <<src, ntyped, wire, nopen, opened, txes, nq>>

\* serviceReceiveOnce: exactly one reception
ServiceRxOnce(k, ld) ==
    /\ IsDriver /\ Lands(ld)
    /\ IF opened
       THEN /\ \E d \in {Take(ld, bs), <<>>} :
                 /\ ReadOk(k, bs, ld, d)
                 /\ rxbs' = rxbs \o d /\ got' = got \o d /\ nread' = nread + Len(d)
            /\ res' = IF k = "error" THEN Err ELSE None
            /\ landed' = ld
       ELSE k = "closed" /\ ld = landed /\ UNCHANGED <<rxbs, got, nread, landed>> /\ res' = None
    /\ act' = Act("ServiceRxOnce", <<>>, k, 0, <<>>, FALSE) /\ Same
    /\ UNCHANGED <<src, ntyped, wire, nopen, opened, txes, nq>>

Clear == /\ IsDriver
         /\ rxbs' = <<>> /\ res' = None /\ act' = Act("Clear", <<>>, "", 0, <<>>, FALSE) /\ Same
         /\ UNCHANGED <<src, ntyped, landed, nread, wire, nopen, opened, txes, nq, got>>

\* scan(start): offset (from 0) of the first occurrence of the byte, None when there is none
Scan(c) == /\ IsDriver
           /\ res' = IF \E i \in 1..Len(rxbs) : rxbs[i] = c
                     THEN IntR((CHOOSE i \in 1..Len(rxbs) : rxbs[i] = c /\ \A h \in 1..(i - 1) : rxbs[h] # c) - 1)
                     ELSE None
           /\ act' = Act("Scan", <<c>>, "", 0, <<>>, FALSE) /\ Same
           /\ UNCHANGED <<src, ntyped, landed, nread, wire, nopen, opened, txes, nq, rxbs, got>>

(* ---------------- the model's choice of environment answers ---------------- *)
\* bounds: the two directions are independent, so they are explored deeply one at a time and together with small bounds
BTyped == CASE mode = "rx" -> MaxTyped [] mode = "tx" -> 0 [] OTHER -> Min(1, MaxTyped)
BMsgs == CASE mode = "tx" -> MaxMsgs [] mode = "rx" -> 0 [] OTHER -> Min(1, MaxMsgs)
BLen == CASE mode = "tx" -> MaxLen [] mode = "rx" -> 0 [] OTHER -> Min(2, MaxLen)
RxSide == mode # "tx"
TxSide == mode # "rx"
Alphabet == IF IsConsole THEN {NL, 1, 2} ELSE {ntyped + 1}
NextMsg(n) == [i \in 1..n |-> 10 * (nq + 1) + i]
Fulls(h) == [i \in 1..h |-> R("full", 0)]
TxTerminals(m) == {R("zero", 0), R("eagain", 0)} \cup {R("part", h) : h \in 1..(Len(m) - 1)}
\* (an "error" terminal is left to the recorded executions: see the remark on the message in flight above)
RECURSIVE TxScripts(_)
TxScripts(q) ==
    IF q = <<>> THEN {<<>>}
    ELSE IF Head(q) = <<>>
         THEN {<<a>> \o t : a \in {R("full", 0), R("eagain", 0)}, t \in TxScripts(Tail(q))}
         ELSE {<<R("full", 0)>> \o t : t \in TxScripts(Tail(q))} \cup {<<t>> : t \in TxTerminals(Head(q))}
WriteAnswers(m) == {R("full", 0), R("zero", 0), R("eagain", 0), R("error", 0)} \cup {R("part", h) : h \in 1..(Len(m) - 1)}
ReadKinds == {"data", "eagain", "empty", "error"}
Now == Len(src)
\* a flush is only a choice of its own when there is unread input to drop
Flushes == IF opened /\ nread < Len(src) THEN BOOLEAN ELSE {FALSE}
\* bytes worth scanning for: those in the buffer and one that is not
ScanSet == {rxbs[i] : i \in 1..Len(rxbs)} \cup {99}

Next == \/ \E c \in Alphabet : ntyped < BTyped /\ Type(c)
        \/ \E k \in {"ok", "fail"} : Open(k)
        \/ \E fl \in Flushes : Close(fl)
        \/ \E fl \in Flushes, k \in {"ok", "fail"} : Reopen(fl, k)
        \/ RxSide /\ \E k \in ReadKinds : Receive(k, Now)
        \/ RxSide /\ \E b \in BsSet, k \in ReadKinds : GetLine(b, k, Now)
        \/ \E n \in 0..BLen : nq < BMsgs /\ \E r \in WriteAnswers(NextMsg(n)) : Send(NextMsg(n), r) \/ Put(NextMsg(n), r)
        \/ \E n \in 0..BLen : nq < BMsgs /\ Queue(NextMsg(n))
        \/ TxSide /\ \E s \in (IF opened THEN TxScripts(txes) ELSE {<<>>}) : ServiceTx(s)
        \/ TxSide /\ \E s \in (IF opened /\ txes # <<>> THEN TxScripts(<<Head(txes)>>) ELSE {<<>>}) : ServiceTxOnce(s)
        \/ RxSide /\ \E k \in {"eagain", "empty", "error", "closed"}, j \in 0..MaxTyped : ServiceRx(k, j, Now)
        \/ RxSide /\ \E k \in ReadKinds \cup {"closed"} : ServiceRxOnce(k, Now)
        \/ RxSide /\ Clear
        \/ RxSide /\ \E c \in ScanSet : rxbs # <<>> /\ Scan(c)
Spec == Init /\ [][Next]_vars

(* ---------------- properties ---------------- *)
\* what was handed up is exactly the bytes taken out of the port, in order: nothing lost, repeated, reordered or invented
RxPrefix == got = SubSeq(src, 1, nread) /\ nread <= landed /\ landed <= Len(src)
\* the Driver's buffer only ever loses bytes by clearRxbs: it is a suffix of what was handed up
RxbsSuffix == IsDriver => (Len(rxbs) <= Len(got) /\ rxbs = SubSeq(got, Len(got) - Len(rxbs) + 1, Len(got)))
\* an object that says it is open holds exactly one handle on the port, a closed one holds none (reopen does not leak)
OneHandle == nopen = IF opened THEN 1 ELSE 0
\* no reception is larger than the buffer size asked for
BoundedRead == res.t = "bytes" => Len(res.v) <= (IF IsConsole THEN (IF act.a = "GetLine" THEN act.n ELSE 0) ELSE bs)
\* getLine returns complete lines only: nothing before the newline landed, never across a newline, and short of the
\* newline only when the line is longer than bs (the remainder stays for the next call)
WholeLines == (act.a = "GetLine" /\ res.t = "bytes" /\ res.v # <<>>) =>
                  LET n == Len(res.v) IN
                  /\ \A i \in 1..(n - 1) : res.v[i] # NL
                  /\ res.v[n] = NL \/ n = act.n
                  /\ \E i \in (nread - n + 1)..landed : src[i] = NL
\* no pass leaves an empty message behind that was not queued as one (a partial write never leaves an empty residue,
\* an empty message never stays once a pass reached it)
Empties(q) == Cardinality({i \in 1..Len(q) : q[i] = <<>>})
NoEmptyResidue == [][(act'.a # "Queue") => Empties(txes') <= Empties(txes)]_vars
\* transmit conservation, step by step: what is on the wire followed by what is queued only grows by what was queued
\* (exception: the message in flight when the device raised)
TxConserved == [][\/ act'.a = "Queue" /\ wire' \o Flat(txes') = wire \o Flat(txes) \o act'.m
                  \/ act'.a \in {"Send", "Put"} /\ \E h \in 0..Len(act'.m) : wire' = wire \o SubSeq(act'.m, 1, h)
                  \/ res'.t = "err" /\ wire' = wire /\ (txes' = txes \/ (txes # <<>> /\ txes' = Tail(txes)))
                  \/ wire' \o Flat(txes') = wire \o Flat(txes)]_vars
\* a closed object does not touch the port
ClosedIsQuiet == [][(~opened /\ ~opened') => (wire' = wire /\ nread' = nread)]_vars
=============================================================================
