---------------------------- MODULE SerialTrace ----------------------------
(* Binding B for Serial.tla: a recorded execution of a real ConsoleNb / DeviceNb / SerialNb /    *)
(* Driver, over the scripted port double (Lag = FALSE) or over a real pty (Lag = TRUE), is a     *)
(* sequence of events                                                                           *)
(*   {"ev": action, its parameters ("c" byte typed, "k" answer kind, "fl" flush, "b" size,      *)
(*    "m" message, "r" write answer, "s" write answers of a pass, "j" receptions before error), *)
(*    "res": result, "opened", "sent": bytes the call added to the wire, "rx": bytes the call    *)
(*    handed up, "rxbs", "txes" (Driver), and for the double "nopen", "nread", "src"}            *)
(* preceded by a header event {"ev": "Init", "subject", "bs"}.                                   *)
(* Over a pty the harness cannot see when a typed byte lands in the port's input queue nor       *)
(* whether a close dropped unread input: TLC chooses (ld, fl), so kernel latency can never       *)
(* reject a trace, while bytes that are lost, repeated, reordered or invented still do.          *)
EXTENDS Serial, TraceBatch

VARIABLES tid, l
tvars == <<vars, tid, l>>

Ev == EvAt(tid, l)

TraceInit == /\ tid \in 1..NTraces
             /\ l = 2
             /\ Start /\ mode = "both"
             /\ subject = EvAt(tid, 1).subject
             /\ bs = EvAt(tid, 1).bs

\* what the real object showed after the call must be exactly what the specification's action yields
Logged == /\ opened' = Ev.opened
          /\ res' = Ev.res
          /\ wire' = wire \o Ev.sent
          /\ got' = got \o Ev.rx
          /\ IsDriver => (rxbs' = Ev.rxbs /\ txes' = Ev.txes)
          /\ Lag \/ (nopen' = Ev.nopen /\ nread' = Ev.nread /\ src' = Ev.src)

Consume(name) == l <= TraceLen(tid) /\ Ev.ev = name /\ l' = l + 1 /\ UNCHANGED tid
Lds == landed..Len(src)
Fls == IF Lag THEN BOOLEAN ELSE {Ev.fl}

TraceNext ==
    \/ Consume("Type") /\ Type(Ev.c) /\ Logged
    \/ Consume("Open") /\ Open(Ev.k) /\ Logged
    \/ Consume("Close") /\ (\E fl \in Fls : Close(fl)) /\ Logged
    \/ Consume("Reopen") /\ (\E fl \in Fls : Reopen(fl, Ev.k)) /\ Logged
    \/ Consume("Receive") /\ (\E ld \in Lds : Receive(Ev.k, ld)) /\ Logged
    \/ Consume("GetLine") /\ (\E ld \in Lds : GetLine(Ev.b, Ev.k, ld)) /\ Logged
    \/ Consume("Send") /\ Send(Ev.m, Ev.r) /\ Logged
    \/ Consume("Put") /\ Put(Ev.m, Ev.r) /\ Logged
    \/ Consume("Queue") /\ Queue(Ev.m) /\ Logged
    \/ Consume("ServiceTx") /\ ServiceTx(Ev.s) /\ Logged
    \/ Consume("ServiceTxOnce") /\ ServiceTxOnce(Ev.s) /\ Logged
    \/ Consume("ServiceRx") /\ (\E ld \in Lds : ServiceRx(Ev.k, Ev.j, ld)) /\ Logged
    \/ Consume("ServiceRxOnce") /\ (\E ld \in Lds : ServiceRxOnce(Ev.k, ld)) /\ Logged
    \/ Consume("Clear") /\ Clear /\ Logged
    \/ Consume("Scan") /\ Scan(Ev.c) /\ Logged

TraceSpec == TraceInit /\ [][TraceNext]_tvars
TraceOK == TraceConstraint(tid, l)
=============================================================================
