---------------------------- MODULE SkedRealTrace ----------------------------
(* Binding B for SkedReal.tla: a recorded run of the real Skedder under a scripted wall clock.  *)
(* Events: header {"ev":"Init", real, retro, s0, stamp, rt}; {"ev":"Work", d, more, wall,       *)
(* stamp, ranu}; {"ev":"Sleep", a, req, wall}; {"ev":"SleepIntr", req}; {"ev":"Tick", stamp,    *)
(* tshare, rt}; last {"ev":"End", out, stamp}.  d and a are the environment's choices (what    *)
(* the doubles did), everything else is what the skedder was observed to do.                    *)
EXTENDS SkedReal, TraceBatch

VARIABLES tid, l
tvars == <<vars, tid, l>>

Ev == EvAt(tid, l)

TraceInit == /\ tid \in 1..NTraces
             /\ l = 2
             /\ LET h == EvAt(tid, 1) IN
                /\ mode = [real |-> h.real, retro |-> h.retro, s0 |-> h.s0]
                /\ h.stamp = h.s0 /\ h.tshare = h.s0 /\ h.rt = Wall0
             /\ wall = Wall0 /\ tstop = Wall0 + P
             /\ stamp = mode.s0 /\ k = 0 /\ pc = "work"
             /\ mono = 0 /\ req = 0 /\ out = "running" /\ ranu = FALSE
             /\ budget = <<MaxJumps, MaxShort>>

Consume(name) == l <= TraceLen(tid) /\ Ev.ev = name /\ l' = l + 1 /\ UNCHANGED tid

TraceNext ==
    \/ Consume("Work") /\ Work(Ev.d, Ev.more) /\ wall' = Ev.wall /\ stamp = Ev.stamp /\ ranu' = Ev.ranu
    \/ Consume("Sleep") /\ Sleep(Ev.a) /\ req' = Ev.req /\ wall' = Ev.wall
    \/ Consume("SleepIntr") /\ SleepIntr /\ req' = Ev.req
    \/ Consume("Tick") /\ Tick /\ stamp' = Ev.stamp /\ Ev.tshare = Ev.stamp /\ Ev.rt = wall
    \/ Consume("End") /\ pc = "done" /\ out = Ev.out /\ stamp = Ev.stamp /\ UNCHANGED vars

TraceSpec == TraceInit /\ [][TraceNext]_tvars
TraceOK == TraceConstraint(tid, l)
=============================================================================
