------------------------------- MODULE SkedReal -------------------------------
(* Pacing of ioflo.base.skedding.Skedder.run against the wall clock (extra check X-skedreal,   *)
(* part a).  Written from the docstrings of Skedder (.period = time between iterations,        *)
(* .stamp = current iteration time, .real = real time if True else simulated time, .timer =    *)
(* timer to time loops in real time, retro = shift timers if a retrograded system clock is     *)
(* detected), of ioflo.aid.timing.MonoTimer (expired <=> the clock reached .stop; remaining =   *)
(* stop - clock; repeat() restarts the timer at the last .stop "so no time lost"; a clock that  *)
(* went back since the last look shifts start and stop back by the same amount when retro,      *)
(* otherwise TimerRetroError is raised; a clock moved forward cannot be detected) and of        *)
(* Store (.timeShr = copy of the stamp, .realTimeShr = real time when the stamp is updated).    *)
(*                                                                                             *)
(* The wall clock is the ENVIRONMENT.  It changes only while the taskers of a tick run          *)
(* (Work(d, more): the tick's work takes d quanta, possibly more than the period = overrun,     *)
(* possibly net negative = the system clock was set back meanwhile) and while the skedder       *)
(* sleeps (Sleep(a): the sleep the skedder asked for, `req`, lets a quanta of wall time pass:   *)
(* exactly req, more, less (a sleep cut short), or net negative (clock set back while           *)
(* sleeping); SleepIntr: the sleep is interrupted from the keyboard).  The skedder's own        *)
(* bookkeeping takes no time, so the timer is looked at after every change of the clock:        *)
(* a monotonic timer with retro compensation then simply moves its stop back with the clock.    *)
(*                                                                                             *)
(*   stamp  store stamp (all houses)                k      number of the current tick           *)
(*   tstop  expiry of the pacing timer (wall time)  req    what the last step asked sleep for   *)
(*   mono   GHOST: time that passed as a monotonic timer measures it (forward movement of the   *)
(*          clock counts, a backward jump counts as no time)                                    *)
(*   ranu   whether the slower tasker (period UPer ticks) was due in the tick just worked       *)
EXTENDS Integers, TLC

CONSTANTS P,         \* skedder period (quanta)
          MaxTicks,  \* the run is ended by the taskers after at most this many ticks
          UPer,      \* the second tasker's period is UPer * P
          MaxJumps,  \* the clock is set back at most this often in one run
          MaxShort,  \* at most this many sleeps are cut short in one run
          Free       \* TRUE in trace validation: any duration / advance is accepted

Wall0 == 100
StampChoices == {0, 3}
Works == {0, 1, P, P + 1, 2 * P + 1} \cup {-1, -(P + 1)}
WorkSet == (-(P + 1))..(2 * P + 1)
AdvSet == (-1)..(4 * P + 2)
\* advances offered for a sleep of r quanta: exact, a little / a lot too long, cut short, clock set back
Allowed(r) == {r, r + 1, r + 2 * P + 1, -1} \cup (IF r >= 2 THEN {r - 1} ELSE {})

VARIABLES mode,     \* [real, retro, s0]: immutable parameters of the run
          wall, tstop, stamp, k, pc, mono, req, out, ranu,
          budget    \* <<backward jumps, short sleeps>> the environment may still produce (bounds the model only)
vars == <<mode, wall, tstop, stamp, k, pc, mono, req, out, ranu, budget>>

Min(a, b) == IF a < b THEN a ELSE b
Max(a, b) == IF a > b THEN a ELSE b

Init == /\ mode \in [real : BOOLEAN, retro : BOOLEAN, s0 : StampChoices]
        /\ wall = Wall0 /\ tstop = Wall0 + P      \* run() restarts the timer: it expires one period from now
        /\ stamp = mode.s0 /\ k = 0 /\ pc = "work"
        /\ mono = 0 /\ req = 0 /\ out = "running" /\ ranu = FALSE
        /\ budget = <<MaxJumps, MaxShort>>

\* the clock moved by d while nobody looked; what a (compensating) monotonic timer makes of it
Moved(d) == /\ wall' = wall + d
            /\ d < 0 => budget[1] > 0
            /\ mono' = mono + Max(d, 0)
            /\ tstop' = tstop + Min(d, 0)

\* the taskers due in tick k run (environment: how long it takes, and whether any tasker stays started/running)
Work(d, more) ==
    /\ pc = "work"
    /\ Free \/ d \in Works
    /\ more => k < MaxTicks
    \* the documentation is silent about a clock set back when nobody paces by it (simulated time) or
    \* when the run is ending anyway: only explored where a look at the pacing timer must follow
    /\ (d < 0 /\ ~mode.retro) => (mode.real /\ more)
    /\ Moved(d)
    /\ budget' = IF d < 0 THEN <<budget[1] - 1, budget[2]>> ELSE budget
    /\ ranu' = (k % UPer = 0)
    /\ req' = 0
    /\ UNCHANGED <<mode, stamp, k>>
    /\ IF d < 0 /\ ~mode.retro THEN pc' = "done" /\ out' = "retroerror"
       ELSE IF ~more THEN pc' = "done" /\ out' = "ended"
       ELSE pc' = "pace" /\ out' = out

\* real time only: the period is not over yet; the skedder sleeps, never for longer than the time remaining.
\* (Model checking explores the request for exactly the remaining time; an implementation may as well ask for less
\* and sleep again: the replay and recorded runs accept any request from 1 up to the remaining time.)
Sleep(a) ==
    /\ pc = "pace" /\ mode.real /\ wall < tstop
    /\ Free \/ a \in Allowed(tstop - wall)
    /\ IF Free THEN req' \in 1..(tstop - wall) ELSE req' = tstop - wall
    /\ Moved(a)
    /\ (0 <= a /\ a < tstop - wall) => budget[2] > 0
    /\ budget' = IF a < 0 THEN <<budget[1] - 1, budget[2]>>
                 ELSE IF a < tstop - wall THEN <<budget[1], budget[2] - 1>> ELSE budget
    /\ UNCHANGED <<mode, stamp, k, ranu>>
    /\ IF a < 0 /\ ~mode.retro THEN pc' = "done" /\ out' = "retroerror"
       ELSE pc' = "pace" /\ out' = out

\* cntl-c while sleeping ends the run
SleepIntr ==
    /\ pc = "pace" /\ mode.real /\ wall < tstop
    /\ IF Free THEN req' \in 1..(tstop - wall) ELSE req' = tstop - wall
    /\ pc' = "done" /\ out' = "ended"
    /\ UNCHANGED <<mode, wall, tstop, stamp, k, mono, ranu, budget>>

\* next iteration: the stamp of every store advances by exactly one period; the timer is repeated
\* (restarted at its last stop), in simulated time at once, in real time as soon as the timer has expired
Tick ==
    /\ pc = "pace"
    /\ mode.real => wall >= tstop
    /\ stamp' = stamp + P /\ k' = k + 1
    /\ tstop' = tstop + P
    /\ pc' = "work" /\ req' = 0
    /\ UNCHANGED <<mode, wall, mono, out, ranu, budget>>

Next == \/ \E d \in WorkSet, more \in BOOLEAN : Work(d, more)
        \/ \E a \in AdvSet : Sleep(a)
        \/ SleepIntr
        \/ Tick
Spec == Init /\ [][Next]_vars

(* ---------------------------------- properties ---------------------------------- *)
TypeOK == /\ pc \in {"work", "pace", "done"} /\ out \in {"running", "ended", "retroerror"}
          /\ (pc = "done") = (out # "running")
\* the stamp advances by exactly one period per tick whatever the wall clock does
StampExact == stamp = mode.s0 + k * P
\* real time: tick k does not begin before k periods have passed (as a monotonic clock measures them) ...
NoEarlyTick == (mode.real /\ pc = "work") => mono >= k * P
\* ... in particular not before wall start + k * period when the clock was never set back
NoEarlyTickWall == (mode.real /\ pc = "work" /\ wall - Wall0 = mono) => wall >= Wall0 + k * P
\* no drift: the pacing timer always expires (k + 1) periods after the start, overruns and oversleeps are not added
NoDrift == (mode.real /\ pc # "done") => tstop - wall = (k + 1) * P - mono
\* sleeps only while the timer has not expired, and never for longer than the time remaining
SleepBounded == [][req' > 0 => (req' <= (k + 1) * P - mono /\ pc = "pace" /\ mode.real)]_vars
SleepPositive == req >= 0 /\ (~mode.real => req = 0)
\* after an overrun the skedder catches up: it goes on to the next tick without sleeping
CatchUp == [][(pc = "pace" /\ mono >= (k + 1) * P) => (k' = k + 1 /\ req' = 0)]_vars
\* without compensation a clock set back ends the run with TimerRetroError, with compensation never
RetroOnlyUncompensated == out = "retroerror" => ~mode.retro
=============================================================================
