------------------------------ MODULE TaskerProto ------------------------------
(* The generator protocol of a tasker that is not a framer (extra check X-skedreal, part b):    *)
(* ioflo.base.tasking.Tasker (the base class "for weightless threads"), ioflo.base.serving      *)
(* .Server, ioflo.base.logging.Logger.  Sources: the docstrings of Tasker (.status operational  *)
(* status, .desire desired control next time the tasker is iterated, .done completion state     *)
(* "reset on restart", .stamp time the tasker last ran - Server: "last ran successfully not     *)
(* interrupted by exception"), of Skedder ("Skedder runs tasker and sends it a control, tasker  *)
(* runs using control and yields its status"; "generator returned instead of yielded" = gone),  *)
(* the comments and console messages of the runners ("Need to Start Tasker", "not started or    *)
(* running", "catch exceptions to close socket / log files before exiting generator", "bad      *)
(* control ... break out of while loop. this will cause stopIteration"), Logger.prepare         *)
(* ("called in runner on control = START"), reopen ("closes if open then opens", true if        *)
(* successful) and the comment in Skedder.run that stopped or aborted taskers have already      *)
(* released their resources.                                                                    *)
(*                                                                                             *)
(* One action per control sent; the environment decides whether opening the resources works     *)
(* (Start(ok)) and whether the tasker's work raises (Run(crash)).  Where the classes differ and *)
(* nothing is documented the specification allows either outcome:                               *)
(*   ready   - whether .desire becomes start (Tasker, Server) or stays (Logger, Framer)         *)
(*   abort   - whether .done is set, whether the generator stays alive or returns               *)
(*   bad     - whether the generator returns (Tasker, Server: documented) or stays (Logger)     *)
(*   start   - a Logger does not maintain .done; a failed reopen may leave resources open       *)
EXTENDS Integers, Sequences, TLC

CONSTANTS Kind,     \* "plain" | "server" | "logger"
          MaxNow    \* the store stamp runs 0 .. MaxNow

Statuses == {"stopped", "readied", "started", "running", "aborted"}
Controls == {"stop", "start", "run", "abort", "ready"}
HasRes == Kind # "plain"
Active(s) == s \in {"started", "running"}

VARIABLES status, desire, done, alive, open, now, tstamp, calls, res
vars == <<status, desire, done, alive, open, now, tstamp, calls, res>>

Init == /\ status = "stopped" /\ desire = "stop" /\ done = TRUE /\ alive = TRUE /\ open = FALSE
        /\ now = 0 /\ tstamp = 0 /\ calls = <<>> /\ res = "none"

\* hooks per kind
OnStartOk == IF Kind = "server" THEN <<"reopen">> ELSE IF Kind = "logger" THEN <<"reopen", "prepare", "log">> ELSE <<>>
OnStartFail == IF HasRes THEN <<"reopen">> ELSE <<>>
OnRun == IF Kind = "server" THEN <<"service">> ELSE IF Kind = "logger" THEN <<"log">> ELSE <<>>
OnStop == IF Kind = "server" THEN <<"close">> ELSE IF Kind = "logger" THEN <<"log", "close">> ELSE <<>>
OnClose == IF HasRes THEN <<"close">> ELSE <<>>

\* environment: the store's stamp advances
Advance == /\ now < MaxNow /\ now' = now + 1
           /\ calls' = <<>> /\ res' = "none"
           /\ UNCHANGED <<status, desire, done, alive, open, tstamp>>

\* a control sent to a generator that has returned
Gone(c) == /\ ~alive /\ c \in Controls \cup {"bad"}
           /\ res' = "StopIteration" /\ calls' = <<>>
           /\ UNCHANGED <<status, desire, done, alive, open, now, tstamp>>

Ready == /\ alive
         /\ status' = "readied" /\ desire' \in {desire, "start"}
         /\ res' = "readied" /\ calls' = <<>> /\ tstamp' = now
         /\ UNCHANGED <<done, alive, open, now>>

Start(ok) == /\ alive
             /\ ok \/ HasRes          \* a plain tasker has nothing to open
             /\ tstamp' = now /\ UNCHANGED <<alive, now>>
             /\ IF ok THEN /\ status' = "started" /\ desire' = "run" /\ res' = "started"
                           /\ done' \in (IF Kind = "logger" THEN {FALSE, done} ELSE {FALSE})
                           /\ open' = HasRes /\ calls' = OnStartOk
                      ELSE /\ status' = "stopped" /\ desire' = "stop" /\ res' = "stopped"
                           /\ done' = TRUE
                           /\ open' \in BOOLEAN /\ calls' = OnStartFail

Run(crash) == /\ alive
              /\ crash => (HasRes /\ Active(status))
              /\ UNCHANGED now
              /\ IF ~Active(status)
                 THEN /\ desire' = "start" /\ res' = status /\ calls' = <<>> /\ tstamp' = now
                      /\ UNCHANGED <<status, done, alive, open>>
                 ELSE IF ~crash
                 THEN /\ status' = "running" /\ res' = "running" /\ calls' = OnRun /\ tstamp' = now
                      /\ UNCHANGED <<desire, done, alive, open>>
                 ELSE \* the work raised: resources closed, tasker aborted, generator gone, exception passed on
                      /\ status' = "aborted" /\ desire' = "abort" /\ alive' = FALSE /\ open' = FALSE
                      /\ res' = "exception" /\ calls' = OnRun \o OnClose
                      /\ UNCHANGED <<done, tstamp>>

Stop == /\ alive /\ tstamp' = now /\ UNCHANGED <<alive, now>>
        /\ IF Active(status)
           THEN /\ status' = "stopped" /\ desire' = "stop" /\ done' = TRUE /\ open' = FALSE
                /\ res' = "stopped" /\ calls' = OnStop
           ELSE /\ res' = status /\ calls' = <<>> /\ UNCHANGED <<status, desire, done, open>>

Abort == /\ alive /\ UNCHANGED now
         /\ status' = "aborted" /\ desire' = "abort" /\ open' = FALSE /\ calls' = OnClose
         /\ done' \in {done, TRUE}
         /\ tstamp' = now
         /\ \/ alive' = TRUE /\ res' = "aborted"
            \/ alive' = FALSE /\ res' = "StopIteration"

Bad == /\ alive /\ UNCHANGED now
       /\ status' = "aborted" /\ desire' = "abort" /\ open' = FALSE /\ calls' = OnClose
       /\ done' \in {done, TRUE}
       /\ tstamp' \in {tstamp, now}
       /\ \/ alive' = FALSE /\ res' = "StopIteration"
          \/ Kind = "logger" /\ alive' = TRUE /\ res' = "aborted"

Next == \/ Advance
        \/ \E c \in Controls \cup {"bad"} : Gone(c)
        \/ Ready \/ Stop \/ Abort \/ Bad
        \/ \E ok \in BOOLEAN : Start(ok)
        \/ \E crash \in BOOLEAN : Run(crash)
Spec == Init /\ [][Next]_vars

(* ---------------------------------- properties ---------------------------------- *)
TypeOK == status \in Statuses /\ desire \in Controls /\ res \in Statuses \cup {"none", "StopIteration", "exception"}
\* a tasker yields its status
YieldsStatus == res \in Statuses => res = status
\* a generator that has returned leaves an aborted tasker with nothing open
GoneIsAborted == ~alive => (status = "aborted" /\ desire = "abort" /\ ~open)
\* started / running taskers hold their resources; they are released whenever such a tasker stops or aborts
ActiveIsOpen == (HasRes /\ Active(status)) => (open /\ alive)
\* (a restart whose reopen fails is the case the documentation leaves open)
ReleasedOnStop == [][(Active(status) /\ status' \in {"stopped", "aborted"} /\ (calls' = <<>> \/ calls'[1] # "reopen"))
                      => ~open']_vars
\* running is only reached from started or running; anything else asks for a start first
RunNeedsStart == [][(status' = "running") => Active(status)]_vars
\* the work of the tasker is only done while it is started or running
WorkOnlyActive == [][(calls' # <<>> /\ calls'[1] \in {"log", "service"}) => Active(status)]_vars
=============================================================================
