------------------------------ MODULE HouseOrder ------------------------------
(* Which taskers of a house the skedder schedules, and in which order (extra check X-skedreal,  *)
(* part c).  Sources: the docstring of housing.House (.taskers all taskers; .framers all        *)
(* framers; .fronts / .mids / .backs taskables to go in front / middle / back; .taskables =     *)
(* active and inactive taskers (fronts + mids + backs); .auxes aux framers; .slaves slave       *)
(* taskers; .moots moot framers), the docstrings of Builder.buildFramer / buildServer /         *)
(* buildLogger (`be` scheduled, `in` order: front, mid, back), the ChangeLog ("all tasks that   *)
(* are taskable (active, inactive) including loggers servers framers" go into the ready list    *)
(* in house order, "when put active task in ready list set .desire to start, when put inactive  *)
(* task in ready list set .desire to stop"; "aux and slaves must be explicitly defined"; "when  *)
(* moot, house builder does not call resolveLinks on the framer"), and Skedder ("ready = deque  *)
(* of taskers in run order").                                                                   *)
(*                                                                                             *)
(* A case is a sequence of declarations <<verb, be, in>> ("none" = clause left out) of one      *)
(* house; the function Place gives the lists of the house (as indices into the case) and the    *)
(* controls the skedder sends in the first tick.  TLC checks the algebra below on every case    *)
(* and writes the table for the harness to replay with the real Builder and Skedder.            *)
EXTENDS Integers, Sequences, FiniteSets, SequencesExt, TLC, Json, IOUtils

CONSTANTS MaxDecl,       \* cases have 1 .. MaxDecl declarations
          WithDefaults   \* whether declarations may leave the be / in clause out

Verbs == {"framer", "server", "logger"}
Bes(v) == (IF v = "framer" THEN {"active", "inactive", "aux", "slave", "moot"} ELSE {"active", "inactive", "slave"})
            \cup (IF WithDefaults THEN {"none"} ELSE {})
Ins == {"front", "mid", "back"} \cup (IF WithDefaults THEN {"none"} ELSE {})
Alphabet == UNION {{<<v, b, o>> : b \in Bes(v), o \in Ins} : v \in Verbs}
Cases == UNION {[1..n -> Alphabet] : n \in 1..MaxDecl}

\* a clause left out: framers are inactive unless told otherwise, servers and loggers active; order is mid
Sched(d) == IF d[2] = "none" THEN (IF d[1] = "framer" THEN "inactive" ELSE "active") ELSE d[2]
Order(d) == IF d[3] = "none" THEN "mid" ELSE d[3]
Taskable(d) == Sched(d) \in {"active", "inactive"}

Idx(ds) == [i \in 1..Len(ds) |-> i]
Pick(ds, P(_)) == SelectSeq(Idx(ds), LAMBDA i : P(ds[i]))

Fronts(ds) == Pick(ds, LAMBDA d : Taskable(d) /\ Order(d) = "front")
Mids(ds) == Pick(ds, LAMBDA d : Taskable(d) /\ Order(d) = "mid")
Backs(ds) == Pick(ds, LAMBDA d : Taskable(d) /\ Order(d) = "back")
Taskables(ds) == Fronts(ds) \o Mids(ds) \o Backs(ds)
Slaves(ds) == Pick(ds, LAMBDA d : Sched(d) = "slave")
Auxes(ds) == Pick(ds, LAMBDA d : Sched(d) = "aux")
Moots(ds) == Pick(ds, LAMBDA d : Sched(d) = "moot")
Framers(ds) == Pick(ds, LAMBDA d : d[1] = "framer")
Resolved(ds) == Pick(ds, LAMBDA d : d[1] = "framer" /\ Sched(d) # "moot")
\* first tick of a run: every taskable is sent its initial desire, in house order; nobody else is sent anything
Sends(ds) == LET t == Taskables(ds) IN
             [j \in 1..Len(t) |-> <<t[j], IF Sched(ds[t[j]]) = "active" THEN "start" ELSE "stop">>]

Place(ds) == [decls |-> ds, taskables |-> Taskables(ds), slaves |-> Slaves(ds), auxes |-> Auxes(ds),
              moots |-> Moots(ds), framers |-> Framers(ds), resolved |-> Resolved(ds), sends |-> Sends(ds)]

VARIABLE c
Init == c \in Cases
Next == UNCHANGED c
Spec == Init /\ [][Next]_c

Rng(s) == {s[i] : i \in 1..Len(s)}
NoDup(s) == Cardinality(Rng(s)) = Len(s)
Pos(s, x) == CHOOSE i \in 1..Len(s) : s[i] = x
Rank(d) == IF Order(d) = "front" THEN 1 ELSE IF Order(d) = "mid" THEN 2 ELSE 3

\* every tasker is in exactly one of the four lists
Partition == LET t == Taskables(c) s == Slaves(c) a == Auxes(c) m == Moots(c) IN
    /\ NoDup(t \o s \o a \o m)
    /\ Rng(t \o s \o a \o m) = 1..Len(c)
\* front before mid before back; declaration order within each
Ordered == LET t == Taskables(c) IN
    \A i, j \in 1..Len(t) : i < j =>
        \/ Rank(c[t[i]]) < Rank(c[t[j]])
        \/ Rank(c[t[i]]) = Rank(c[t[j]]) /\ t[i] < t[j]
\* a clause left out means the same as the default written out
DefaultsExplicit == LET e == [i \in 1..Len(c) |-> <<c[i][1], Sched(c[i]), Order(c[i])>>] IN
    /\ Taskables(e) = Taskables(c) /\ Slaves(e) = Slaves(c) /\ Auxes(e) = Auxes(c) /\ Moots(e) = Moots(c)
    /\ Sends(e) = Sends(c)
\* only aux and moot are reserved to framers; the order clause does not matter for what is not taskable
OnlyFramers == Rng(Auxes(c)) \cup Rng(Moots(c)) \subseteq Rng(Framers(c))
\* the first tick sends exactly the taskables their controls, started ones are the active ones
SendsTaskables == LET s == Sends(c) IN
    /\ [j \in 1..Len(s) |-> s[j][1]] = Taskables(c)
    /\ \A j \in 1..Len(s) : (s[j][2] = "start") = (c[s[j][1]][2] = "active" \/ (c[s[j][1]][2] = "none" /\ c[s[j][1]][1] # "framer"))

Table == LET s == SetToSeq(Cases) IN [i \in 1..Len(s) |-> Place(s[i])]
ASSUME JsonSerialize(IOEnv.TABLE_OUT, Table)
=============================================================================
