--------------------------- MODULE TraceBatch ---------------------------
(* Bookkeeping shared by every *Trace.tla module (binding B: recorded executions of the real   *)
(* code are checked to be behaviours of the specification).                                    *)
(*                                                                                             *)
(* The harness writes one JSON file holding a sequence of traces; each trace is a sequence of  *)
(* event records {"ev": <action name>, ...arguments..., ...projected state...}.  The file name *)
(* arrives through the environment (TRACE_FILE).  A trace module declares VARIABLES tid, l,    *)
(* picks tid in its initial predicate, consumes one event per step, and uses TraceConstraint   *)
(* as a CONSTRAINT: it prints <<"ACCEPT", tid>> when a trace was consumed to its end, and,     *)
(* when VF_PROGRESS = "1" (diagnosis of a rejected trace), <<"AT", tid, l>> for every state.   *)
EXTENDS Naturals, Sequences, TLC, Json, IOUtils

Traces == JsonDeserialize(IOEnv.TRACE_FILE)
NTraces == Len(Traces)
TraceLen(t) == Len(Traces[t])
EvAt(t, i) == Traces[t][i]
HasField(r, f) == f \in DOMAIN r

TraceConstraint(t, i) ==
    /\ (i = TraceLen(t) + 1) => PrintT(<<"ACCEPT", t>>)
    /\ (IOEnv.VF_PROGRESS = "1") => PrintT(<<"AT", t, i>>)
=============================================================================
