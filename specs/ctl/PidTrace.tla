------------------------------ MODULE PidTrace ------------------------------
(* Binding B for Pid.tla: a recorded run of the real ControllerPid deed is a sequence of events *)
(*   {"ev": "Init", e, er, es, prsp, out}                      header: the shares after creation *)
(*   {"ev": "Update", p: parameters, in: inputs, e, er, es, prsp, out}   one action of the deed   *)
(*   {"ev": "Restart", es}                                                the deed's restart      *)
(* numbers as {"k": "fin" | "inf" | "ninf" | "nan", "v": scaled integer}.  Every recorded share  *)
(* must be what the specification's action admits; the properties of Pid.tla are checked on     *)
(* every recorded step.                                                                          *)
EXTENDS Pid, TraceBatch

VARIABLES tid, l
tvars == <<vars, n, tid, l>>

Ev == EvAt(tid, l)

TraceInit == /\ tid \in 1..NTraces
             /\ l = 2 /\ n = 0
             /\ LET h == EvAt(tid, 1) IN
                /\ e = h.e /\ er = h.er /\ es = h.es /\ prsp = h.prsp /\ out = h.out
                /\ obs = [kind |-> "init", p |-> h.p, in |-> h.in, chg |-> FALSE, diff |-> Zero, ae |-> Zero]

Consume(name) == l <= TraceLen(tid) /\ Ev.ev = name /\ l' = l + 1 /\ UNCHANGED <<tid, n>>

TraceNext ==
    \/ /\ Consume("Update") /\ Update(Ev.p, Ev.in, Ev.e, Ev.es, Ev.out)
       /\ er' = Ev.er /\ prsp' = Ev.prsp          \* e, es, out are bound by Update itself
    \/ Consume("Restart") /\ Restart /\ es' = Ev.es

TraceSpec == TraceInit /\ [][TraceNext]_tvars
TraceOK == TraceConstraint(tid, l)
=============================================================================
