------------------------------ MODULE Arbiter ------------------------------
(* The arbiter deeds of ioflo.base.arbiting (property C45), written from the class and method  *)
(* docstrings and the property statement - not from the loops of the implementation.           *)
(*                                                                                             *)
(* An arbiter has an ordered list of inputs; every input has a selection, a truth (confidence),*)
(* an importance and a value; the arbiter has a default (value, truth).                        *)
(*   selection  : the input takes part iff its selection is logically true                     *)
(*   truth      : None, a Boolean or a number; FixTruth makes it a number in [0, 1]:            *)
(*                None -> 1, True -> 1, False -> 0, numbers are hard limited to [0, 1]         *)
(*   sufficient : FixTruth(truth) > default truth                                              *)
(*   switch     : the first selected input                                                     *)
(*   priority   : the first of the most important among the selected sufficient inputs         *)
(*   trusted    : among the selected sufficient inputs those of highest confidence, among them *)
(*                the most important, among them the first                                     *)
(*   weighted   : over the selected inputs  conf = Sum(imp*cnf)/Sum(imp),                      *)
(*                value = Sum(imp*cnf*value)/Sum(imp*cnf); taken when conf > default truth;    *)
(*                a value that is not a number makes the arbiter use the default               *)
(*   otherwise the output is the default's value and truth.  Updating never raises.            *)
(* Where the text leaves a choice the specification admits every reading:                      *)
(*   - "output's value/truth is found input's value/truth": the truth written may be the       *)
(*     input's own truth or its fixed form (the text of the weighted arbiter says "fixed")     *)
(*   - a value that is not a number on an input that is NOT selected may or may not make the   *)
(*     weighted arbiter fall back to the default.                                              *)
(* Numbers are exact: truths in units of 1/U, results of the weighted arbiter as fractions.    *)
(* A state of the model is one case (default truth, list of inputs); TLC checks the lemmas on   *)
(* every case and writes, shard by shard, the table of admissible outputs that the harness     *)
(* replays on the real deeds (binding C).                                                      *)
EXTENDS Integers, FiniteSets, Sequences, SequencesExt, TLC, Json, IOUtils

CONSTANTS Grid,        \* "full" | "reduced": which value sets the inputs are built from
          MaxIn,       \* up to this many inputs
          DefTruths,   \* default truths offered, in units of 1/U (numbers in [0, U])
          NShards, Only,  \* the cases are dealt into shards; this run works on the shards in Only
          Deep         \* TRUE: also check the costly lemmas OrderFree and Ignored

VARIABLE case          \* a marker [shard |-> k] or a table row (declared first: nothing may shadow it)

U == 4                 \* truths are multiples of 1/4
DefVal == 7            \* the default's value (no input has it)

(* ---------------------------------------------------------------- values *)
None == [k |-> "none", n |-> 0]
Bool(b) == [k |-> "bool", n |-> IF b THEN 1 ELSE 0]
Num(n) == [k |-> "num", n |-> n]          \* as a truth: n/U; as a value or importance: n
NotNumber == [k |-> "str", n |-> 0]       \* a value that is not a number

FixTruth(t) == IF t.k = "none" THEN U
               ELSE IF t.k = "bool" THEN t.n * U
               ELSE IF t.n < 0 THEN 0 ELSE IF t.n > U THEN U ELSE t.n

Truths == IF Grid = "full"
          THEN {None, Bool(TRUE), Bool(FALSE), Num(-2), Num(0), Num(1), Num(2), Num(4), Num(6)}   \* -1/2 0 1/4 1/2 1 3/2
          ELSE {None, Bool(FALSE), Num(2), Num(4)}
Imps == {0, 1, 2}
Values == IF Grid = "full" THEN {Num(-1), Num(0), Num(2), NotNumber} ELSE {Num(0), Num(2)}
\* every rule ignores the truth, importance and value of an input that is not selected (lemma Ignored checks
\* it on all of them), so two representatives stand for the unselected inputs in the table
Selected == [sel : {TRUE}, truth : Truths, imp : Imps, val : Values]
Unselected == {[sel |-> FALSE, truth |-> None, imp |-> 2, val |-> NotNumber],
               [sel |-> FALSE, truth |-> Num(4), imp |-> 2, val |-> Num(2)]}
Inputs == Selected \cup Unselected

(* ---------------------------------------------------------------- the four rules *)
SetMax(S) == CHOOSE x \in S : \A y \in S : y <= x
SetMin(S) == CHOOSE x \in S : \A y \in S : x <= y
RECURSIVE Sum(_, _)
Sum(f, S) == IF S = {} THEN 0 ELSE LET x == CHOOSE x \in S : TRUE IN f[x] + Sum(f, S \ {x})

\* an output: value (a fraction num/den, or the not-a-number token) and truth (None, Boolean, or fraction)
Frac(n, d) == [k |-> "num", n |-> n, d |-> d]
OutVal(v) == IF v.k = "num" THEN Frac(v.n, 1) ELSE [k |-> "str", n |-> 0, d |-> 1]
OutTruth(t) == IF t.k = "num" THEN Frac(t.n, U) ELSE [k |-> t.k, n |-> t.n, d |-> 1]
Default(dt) == {[val |-> Frac(DefVal, 1), truth |-> Frac(dt, U)]}
\* the outputs admitted when input i is the one found: its value with its own or its fixed truth
Found(ins, i) == {[val |-> OutVal(ins[i].val), truth |-> OutTruth(ins[i].truth)],
                  [val |-> OutVal(ins[i].val), truth |-> Frac(FixTruth(ins[i].truth), U)]}

Sel(ins) == {i \in 1..Len(ins) : ins[i].sel}
Suff(ins, dt) == {i \in Sel(ins) : FixTruth(ins[i].truth) > dt}

Switch(dt, ins) == IF Sel(ins) = {} THEN Default(dt) ELSE Found(ins, SetMin(Sel(ins)))

PriorityPick(dt, ins) == LET s == Suff(ins, dt)
                             m == SetMax({ins[i].imp : i \in s}) IN SetMin({i \in s : ins[i].imp = m})
Priority(dt, ins) == IF Suff(ins, dt) = {} THEN Default(dt) ELSE Found(ins, PriorityPick(dt, ins))

TrustedPick(dt, ins) == LET s == Suff(ins, dt)
                            t == SetMax({FixTruth(ins[i].truth) : i \in s})
                            s2 == {i \in s : FixTruth(ins[i].truth) = t}
                            m == SetMax({ins[i].imp : i \in s2}) IN SetMin({i \in s2 : ins[i].imp = m})
Trusted(dt, ins) == IF Suff(ins, dt) = {} THEN Default(dt) ELSE Found(ins, TrustedPick(dt, ins))

\* weights in units of 1/U:  W = Sum(imp), C = U * Sum(imp*cnf), V = U * Sum(imp*cnf*value)
Wgt(ins) == LET s == Sel(ins) IN
    [w |-> Sum([i \in s |-> ins[i].imp], s),
     c |-> Sum([i \in s |-> ins[i].imp * FixTruth(ins[i].truth)], s),
     v |-> Sum([i \in s |-> ins[i].imp * FixTruth(ins[i].truth) * (IF ins[i].val.k = "num" THEN ins[i].val.n ELSE 0)], s)]
Average(dt, ins) == LET g == Wgt(ins) IN
    IF g.w = 0 \/ g.c = 0 THEN Default(dt)                   \* no average exists
    ELSE IF g.c > dt * g.w                                    \* conf = c/(U*w) > dt/U
         THEN {[val |-> Frac(g.v, g.c), truth |-> Frac(g.c, U * g.w)]}
         ELSE Default(dt)
Weighted(dt, ins) ==
    IF \E i \in Sel(ins) : ins[i].val.k # "num" THEN Default(dt)
    ELSE IF \E i \in 1..Len(ins) : ins[i].val.k # "num" THEN Default(dt) \cup Average(dt, ins)
    ELSE Average(dt, ins)

Row(dt, ins) == [dt |-> dt, ins |-> ins, switch |-> SetToSeq(Switch(dt, ins)), priority |-> SetToSeq(Priority(dt, ins)),
                 trusted |-> SetToSeq(Trusted(dt, ins)), weighted |-> SetToSeq(Weighted(dt, ins))]

(* ---------------------------------------------------------------- cases, shards, the table *)
InputSeq == SetToSeq(Inputs)
\* shard (k, n): the lists of n inputs whose first input is the j-th input with j % NShards = k (the empty list: (0, 0)).
\* The model starts in one marker state per shard; the single step Emit computes the rows of that shard, writes them
\* as JSON for the harness and moves to each of them, so that TLC's workers share the work and every row is a state.
Firsts(k) == {InputSeq[j] : j \in {j \in 1..Len(InputSeq) : j % NShards = k}}
ShardRows(k, n) == IF n = 0 THEN (IF k = 0 THEN {Row(dt, <<>>) : dt \in DefTruths} ELSE {})
                   ELSE {Row(dt, <<a>> \o r) : dt \in DefTruths, a \in Firsts(k), r \in [1..(n - 1) -> Inputs]}

\* compact form of a row for the JSON table (arrays of integers; kinds: none 0, Boolean 1, number 2, not a number 3):
\*   <<dt, inputs, switch, priority, trusted, weighted>>, input = <<sel, truth kind, truth n, imp, value kind, value n>>,
\*   every arbiter a list of admitted outputs <<value kind, num, den, truth kind, num, den>>
KCode(k) == CASE k = "none" -> 0 [] k = "bool" -> 1 [] k = "num" -> 2 [] k = "str" -> 3
EncIn(i) == <<IF i.sel THEN 1 ELSE 0, KCode(i.truth.k), i.truth.n, i.imp, KCode(i.val.k), i.val.n>>
EncOut(o) == <<KCode(o.val.k), o.val.n, o.val.d, KCode(o.truth.k), o.truth.n, o.truth.d>>
EncOuts(s) == [i \in 1..Len(s) |-> EncOut(s[i])]
EncRow(r) == <<r.dt, [i \in 1..Len(r.ins) |-> EncIn(r.ins[i])], EncOuts(r.switch), EncOuts(r.priority), EncOuts(r.trusted), EncOuts(r.weighted)>>

IsRow == "ins" \in DOMAIN case
Init == case \in {[shard |-> k, n |-> n] : k \in Only, n \in 0..MaxIn}
Emit == /\ ~IsRow
        /\ LET rs == ShardRows(case.shard, case.n) IN
           /\ JsonSerialize(IOEnv.TABLE_OUT \o "-" \o ToString(case.shard) \o "-" \o ToString(case.n) \o ".json",
                            LET q == SetToSeq(rs) IN [i \in 1..Len(q) |-> EncRow(q[i])])
           /\ case' \in rs
Next == Emit
Spec == Init /\ [][Next]_case

(* ---------------------------------------------------------------- lemmas checked on every case *)
Outs(r) == {r.switch, r.priority, r.trusted, r.weighted}
AsSet(s) == {s[i] : i \in 1..Len(s)}
Vals(ins, S) == {OutVal(ins[i].val) : i \in S}
IsDefault(s, dt) == AsSet(s) = Default(dt)

\* the rules are total: there is always an admitted output (never raises), and never more than two
Total == IsRow => \A s \in Outs(case) : Len(s) \in {1, 2}
\* switch / priority / trusted pass on the value of a selected input or the default; weighted never passes a non number
FromSelected == IsRow => LET ins == case.ins  dt == case.dt IN
    /\ \A s \in {case.switch, case.priority, case.trusted} :
          IsDefault(s, dt) \/ \A o \in AsSet(s) : o.val \in Vals(ins, Sel(ins))
    /\ \A o \in AsSet(case.weighted) : o.val.k = "num"
\* the default is used exactly when nothing qualifies
DefaultIff == IsRow => LET ins == case.ins  dt == case.dt IN
    /\ IsDefault(case.switch, dt) = (Sel(ins) = {})
    /\ IsDefault(case.priority, dt) = (Suff(ins, dt) = {})
    /\ IsDefault(case.trusted, dt) = (Suff(ins, dt) = {})
\* priority: no sufficient input is more important than the one found, none equally important comes earlier;
\* trusted: none has a higher confidence, none of equal confidence is more important, none equal in both comes earlier
Dominates == IsRow => LET ins == case.ins  dt == case.dt  s == Suff(ins, dt) IN s # {} =>
    /\ LET p == PriorityPick(dt, ins) IN
         p \in s /\ \A j \in s : ins[j].imp <= ins[p].imp /\ (ins[j].imp = ins[p].imp => p <= j)
    /\ LET t == TrustedPick(dt, ins)  F(i) == FixTruth(ins[i].truth) IN
         t \in s /\ \A j \in s : /\ F(j) <= F(t)
                                  /\ (F(j) = F(t) => ins[j].imp <= ins[t].imp)
                                  /\ (F(j) = F(t) /\ ins[j].imp = ins[t].imp => t <= j)
\* the weighted output is a convex combination: its value lies between the smallest and largest value of the selected
\* inputs with positive weight, its truth in (default, 1] and not above the highest confidence
Convex == IsRow => LET ins == case.ins  dt == case.dt
                       pos == {i \in Sel(ins) : ins[i].imp * FixTruth(ins[i].truth) > 0} IN
    \A o \in AsSet(case.weighted) : {o} # Default(dt) =>
        /\ pos # {} /\ o.val.d > 0 /\ o.truth.d > 0
        /\ \A i \in pos : ins[i].val.k = "num"
        /\ SetMin({ins[i].val.n : i \in pos}) * o.val.d <= o.val.n
        /\ o.val.n <= SetMax({ins[i].val.n : i \in pos}) * o.val.d
        /\ o.truth.n * U > dt * o.truth.d /\ o.truth.n <= o.truth.d
        /\ o.truth.n * U <= SetMax({FixTruth(ins[i].truth) : i \in pos}) * o.truth.d
\* the weighted average does not depend on the order of the inputs
OrderFree == (IsRow /\ Deep) => AsSet(case.weighted) = Weighted(case.dt, Reverse(case.ins))
\* one selected input of positive importance: all four arbiters pass its value exactly when it is sufficient
Single == IsRow => LET ins == case.ins  dt == case.dt  s == Sel(ins) IN
    (Cardinality(s) = 1 /\ \A i \in s : ins[i].imp > 0 /\ ins[i].val.k = "num" /\ \A j \in 1..Len(ins) : ins[j].val.k = "num") =>
        LET i == CHOOSE i \in s : TRUE IN
        /\ IsDefault(case.priority, dt) = IsDefault(case.weighted, dt) /\ IsDefault(case.trusted, dt) = IsDefault(case.weighted, dt)
        /\ ~IsDefault(case.weighted, dt) => \A o \in AsSet(case.weighted) :
              o.val.n = ins[i].val.n * o.val.d /\ o.truth.n * U = FixTruth(ins[i].truth) * o.truth.d
\* whatever an unselected input carries is ignored (this is what licenses two representatives in the table)
AnyUnselected == [sel : {FALSE}, truth : Truths, imp : Imps, val : Values \ {NotNumber}]
Ignored == (IsRow /\ Deep) => LET ins == case.ins  dt == case.dt IN
    \A i \in 1..Len(ins) : ~ins[i].sel =>
        \A u \in AnyUnselected :
            LET ins2 == [ins EXCEPT ![i] = [u EXCEPT !.val = IF ins[i].val.k = "num" THEN u.val ELSE ins[i].val]]
                drop == SubSeq(ins, 1, i - 1) \o SubSeq(ins, i + 1, Len(ins)) IN
            /\ Switch(dt, ins2) = AsSet(case.switch) /\ Priority(dt, ins2) = AsSet(case.priority)
            /\ Trusted(dt, ins2) = AsSet(case.trusted) /\ Weighted(dt, ins2) = AsSet(case.weighted)
            /\ Priority(dt, drop) = AsSet(case.priority) /\ Trusted(dt, drop) = AsSet(case.trusted)
            /\ Switch(dt, drop) = AsSet(case.switch)
=============================================================================
