SPECIFICATION Spec
CONSTANTS
  Depth = 1
INVARIANT OutWithinLimits
INVARIANT SumWithinLimits
INVARIANT ErrorIsShortestWrap
INVARIANT BigSetpointChangeResetsIntegrator
INVARIANT Representable
