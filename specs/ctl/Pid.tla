-------------------------------- MODULE Pid --------------------------------
(* The PID controller deed ControllerPid (ioflo.trim.interior.plain.controlling), property C46. *)
(* Written from the docstring of the deed (the fields of group.parm and the group's shares),    *)
(* the property statement and the textbook PID form; the blending of the integrator update      *)
(* (ioflo.aid.blending) is NOT specified: the property says nothing about it, so the amount     *)
(* added to the error sum is any fraction in [0, 1] of the average error over the lapse.        *)
(*                                                                                             *)
(*   parameters  wrap (set point wraps at +-wrap, 0 = no wrap), drsp (a set point change must  *)
(*               exceed it to count), calcRate / ger (error rate from the time difference or   *)
(*               from the rate sensor), gains gff gpe gde gie, limits esmin <= esmax of the     *)
(*               error sum and ovmin <= ovmax of the output                                     *)
(*   state       e (error), er (error rate), es (error sum), prsp (set point in effect), out    *)
(*   one update with inputs (input, rate, rsp, lapse):                                          *)
(*     lapse not positive: nothing is evaluated                                                 *)
(*     |rsp - prsp| > drsp : the set point changed: prsp := rsp and the integrator restarts     *)
(*                           from 0; otherwise the old set point stays in effect                *)
(*     e  := shortest wrapped difference input - set point  (navigating.wrap2 contract: a       *)
(*           representative modulo 2*wrap within [-wrap, wrap]; wrap = 0: the plain difference) *)
(*     er := (e - previous e) / lapse,  or  ger * rate                                          *)
(*     es := limit(esmin, esmax, es + f * lapse * (e + previous e) / 2)   for some f in [0, 1]   *)
(*           (f is blended from the average error and er: no demand on f when one is nan)       *)
(*     out:= limit(ovmin, ovmax, gff*setpoint + gpe*e + gde*er + gie*es)                        *)
(*   restart: es := 0                                                                           *)
(*                                                                                             *)
(* Numbers are EXACT: dyadic rationals scaled to integers (S for signals, Q for gains and the    *)
(* lapse) plus the tagged non-finite values inf, ninf, nan with IEEE / Python semantics spelled  *)
(* out (nan compares false with everything; inf - inf = 0 * inf = nan; Python's max(a, b) is    *)
(* `b if b > a else a`).  Where non-finite operands leave the result to the order of evaluation *)
(* (a nan sum passed through min/max, a nan average error blended) the specification only        *)
(* demands what the property demands: the result lies within the limits.                         *)
EXTENDS Integers, FiniteSets, Sequences, TLC

VARIABLES e, er, es, prsp, out,   \* the controller's shares (extended numbers, scale S)
          obs                      \* what the last action was and saw (for stating the properties)
vars == <<e, er, es, prsp, out, obs>>

S == 4096      \* signals: value = v / S
Q == 8         \* gains and lapse: value = v / Q

(* ---------------------------------------------------------------- extended numbers *)
Fin(v) == [k |-> "fin", v |-> v]
Inf == [k |-> "inf", v |-> 0]
NInf == [k |-> "ninf", v |-> 0]
NaN == [k |-> "nan", v |-> 0]
Unrep == [k |-> "unrep", v |-> 0]      \* a product that is not on the grid: never equal to a recorded value
Zero == Fin(0)

IsFin(a) == a.k = "fin"
IsNan(a) == a.k \notin {"fin", "inf", "ninf"}
Sgn(a) == IF a.k = "inf" THEN 1 ELSE IF a.k = "ninf" THEN -1 ELSE IF a.v > 0 THEN 1 ELSE IF a.v < 0 THEN -1 ELSE 0
OfSign(s) == IF s > 0 THEN Inf ELSE IF s < 0 THEN NInf ELSE NaN
Neg(a) == IF IsFin(a) THEN Fin(-a.v) ELSE IF a.k = "inf" THEN NInf ELSE IF a.k = "ninf" THEN Inf ELSE a
Abs(a) == IF IsFin(a) THEN Fin(IF a.v < 0 THEN -a.v ELSE a.v) ELSE IF IsNan(a) THEN a ELSE Inf
Add(a, b) == IF IsNan(a) \/ IsNan(b) THEN NaN
             ELSE IF IsFin(a) /\ IsFin(b) THEN Fin(a.v + b.v)
             ELSE IF IsFin(a) THEN b ELSE IF IsFin(b) THEN a
             ELSE IF a.k = b.k THEN a ELSE NaN                         \* inf + -inf
Sub(a, b) == Add(a, Neg(b))
\* comparisons are false as soon as a nan is involved (operands of the same scale)
Le(a, b) == ~IsNan(a) /\ ~IsNan(b) /\ (a.k = "ninf" \/ b.k = "inf" \/ (IsFin(a) /\ IsFin(b) /\ a.v <= b.v))
Lt(a, b) == Le(a, b) /\ ~Le(b, a)
Gt(a, b) == Lt(b, a)
\* signal (scale S) times gain (scale Q)
MulQ(a, g) == IF IsNan(a) \/ IsNan(g) THEN NaN
              ELSE IF IsFin(a) /\ IsFin(g) THEN (IF (a.v * g.v) % Q = 0 THEN Fin((a.v * g.v) \div Q) ELSE Unrep)
              ELSE OfSign(Sgn(a) * Sgn(g))                              \* 0 * inf = nan
\* signal divided by a POSITIVE quantity of scale Q (the lapse)
DivQ(a, g) == IF IsNan(a) \/ IsNan(g) THEN NaN
              ELSE IF IsFin(g) /\ g.v <= 0 THEN NaN                       \* (never asked for: the lapse is positive)
              ELSE IF IsFin(g) THEN (IF IsFin(a) THEN (IF (a.v * Q) % g.v = 0 THEN Fin((a.v * Q) \div g.v) ELSE Unrep) ELSE a)
              ELSE IF IsFin(a) THEN Zero ELSE NaN                       \* x / inf = 0, inf / inf = nan
Half(a) == IF IsFin(a) THEN (IF a.v % 2 = 0 THEN Fin(a.v \div 2) ELSE Unrep) ELSE a

\* Python's built-ins on two arguments, and the limiter min(hi, max(lo, x)) of the deed
PyMax(a, b) == IF Gt(b, a) THEN b ELSE a
PyMin(a, b) == IF Lt(b, a) THEN b ELSE a
\* limiting a number that is not nan between ordered limits
Limit(lo, hi, x) == IF Lt(x, lo) THEN lo ELSE IF Gt(x, hi) THEN hi ELSE x
Within(lo, hi, x) == Le(lo, x) /\ Le(x, hi)

(* ---------------------------------------------------------------- one update, as a relation *)
\* the navigating.wrap2 contract (property C43) on exact numbers
ErrorOk(wrap, diff, e2) ==
    IF IsFin(wrap) /\ wrap.v = 0 THEN e2 = diff
    ELSE IF IsFin(wrap) /\ IsFin(diff)
         THEN LET w == IF wrap.v < 0 THEN -wrap.v ELSE wrap.v IN
              IsFin(e2) /\ -w <= e2.v /\ e2.v <= w /\ (diff.v - e2.v) % (2 * w) = 0
         ELSE TRUE                       \* wrapping an infinite difference, or at infinity: not specified
\* the error sum moves from es0 by some fraction in [0, 1] of the average error ae, then is limited; the fraction
\* is blended from the average error and the error rate: when one of them is nan (or the sum is already infinite)
\* nothing but the limits is demanded
SumOk(p, es0, ae, er2, es2) ==
    IF IsFin(es0) /\ IsFin(ae) /\ ~IsNan(er2)
    THEN LET b == Add(es0, ae)
             lo == IF Lt(b, es0) THEN b ELSE es0
             hi == IF Lt(b, es0) THEN es0 ELSE b IN
         Within(Limit(p.esmin, p.esmax, lo), Limit(p.esmin, p.esmax, hi), es2)
    ELSE Within(p.esmin, p.esmax, es2)
OutOk(p, sum, out2) == IF IsNan(sum) THEN Within(p.ovmin, p.ovmax, out2) ELSE out2 = Limit(p.ovmin, p.ovmax, sum)

Changed(p, in) == Gt(Abs(Sub(in.rsp, prsp)), p.drsp)
SetPoint(p, in) == IF Changed(p, in) THEN in.rsp ELSE prsp
Diff(p, in) == Sub(in.input, SetPoint(p, in))
AvgErr(in, e2) == Half(MulQ(Add(e2, e), in.lapse))
Rate(p, in, e2) == IF p.calcRate THEN DivQ(Sub(e2, e), in.lapse) ELSE MulQ(in.rate, p.ger)
PidSum(p, in, e2, er2, es2) ==
    Add(Add(Add(MulQ(SetPoint(p, in), p.gff), MulQ(e2, p.gpe)), MulQ(er2, p.gde)), MulQ(es2, p.gie))

\* Update(p, in, e2, es2, out2): the deed's action with parameters p and inputs in leaves e2, es2, out2 in the shares
Update(p, in, e2, es2, out2) ==
    IF ~Gt(in.lapse, Zero)
    THEN /\ e2 = e /\ es2 = es /\ out2 = out
         /\ UNCHANGED <<e, er, es, prsp, out>>
         /\ obs' = [kind |-> "skip", p |-> p, in |-> in, chg |-> FALSE, diff |-> Zero, ae |-> Zero]
    ELSE /\ ErrorOk(p.wrap, Diff(p, in), e2)
         /\ SumOk(p, IF Changed(p, in) THEN Zero ELSE es, AvgErr(in, e2), Rate(p, in, e2), es2)
         /\ OutOk(p, PidSum(p, in, e2, Rate(p, in, e2), es2), out2)
         /\ e' = e2 /\ er' = Rate(p, in, e2) /\ es' = es2 /\ out' = out2 /\ prsp' = SetPoint(p, in)
         /\ obs' = [kind |-> "step", p |-> p, in |-> in, chg |-> Changed(p, in), diff |-> Diff(p, in), ae |-> AvgErr(in, e2)]
Restart == /\ es' = Zero /\ UNCHANGED <<e, er, prsp, out>>
           /\ obs' = [kind |-> "restart", p |-> obs.p, in |-> obs.in, chg |-> FALSE, diff |-> Zero, ae |-> Zero]

(* ---------------------------------------------------------------- the properties *)
Stepped == obs.kind = "step"
OutWithinLimits == Stepped => Within(obs.p.ovmin, obs.p.ovmax, out)
SumWithinLimits == Stepped => Within(obs.p.esmin, obs.p.esmax, es)
ErrorIsShortestWrap == (Stepped /\ IsFin(obs.p.wrap) /\ IsFin(obs.diff)) =>
    LET w == IF obs.p.wrap.v < 0 THEN -obs.p.wrap.v ELSE obs.p.wrap.v IN
    IF w = 0 THEN e = obs.diff
    ELSE IsFin(e) /\ -w <= e.v /\ e.v <= w /\ (obs.diff.v - e.v) % (2 * w) = 0
\* after a set point change beyond the threshold the set point is in effect and the error sum is what an
\* integrator restarted from zero can hold: nothing of the old sum survives
BigSetpointChangeResetsIntegrator == (Stepped /\ obs.chg) =>
    /\ prsp = obs.in.rsp
    /\ (IsFin(obs.ae) /\ ~IsNan(er)) =>
         LET lo == IF Lt(obs.ae, Zero) THEN obs.ae ELSE Zero
             hi == IF Lt(obs.ae, Zero) THEN Zero ELSE obs.ae IN
         Within(Limit(obs.p.esmin, obs.p.esmax, lo), Limit(obs.p.esmin, obs.p.esmax, hi), es)
\* the grid keeps every product representable
Representable == \A x \in {e, er, es, prsp, out} : x.k # "unrep"

(* ---------------------------------------------------------------- a small closed model of it *)
CONSTANTS Depth        \* number of actions explored
VARIABLE n

T(k) == Fin(k * 3072)              \* k * 3/4: set points, inputs and wrap live on this grid
G(k) == Fin(k)                     \* k / 8 as a gain or lapse
Signals == {T(-8), T(-1), T(0), T(2), T(9), Inf, NInf, NaN}
Rates == {Fin(0), Fin(-1024), Fin(2048), Inf, NaN}      \* 0, -1/4, 1/2
Lapses == {G(0), G(2), G(8), Inf}                        \* 0, 1/4, 1, inf
Blends == {G(0), G(4), G(8)}                             \* 0, 1/2, 1
Parms == {
  \* plain PI controller
  [wrap |-> T(0), drsp |-> Fin(512), calcRate |-> TRUE, ger |-> G(8), gff |-> G(0), gpe |-> G(16), gde |-> G(0), gie |-> G(8),
   esmin |-> T(-4), esmax |-> T(4), ovmin |-> T(-12), ovmax |-> T(12)],
  \* heading like: wraps at 6 (= 8 * 3/4), PD on the rate sensor with feed forward, integrator shut
  [wrap |-> T(8), drsp |-> T(1), calcRate |-> FALSE, ger |-> G(-8), gff |-> G(4), gpe |-> G(24), gde |-> G(8), gie |-> G(4),
   esmin |-> T(0), esmax |-> T(0), ovmin |-> T(-20), ovmax |-> T(20)],
  \* one sided and unbounded limits
  [wrap |-> T(0), drsp |-> T(0), calcRate |-> TRUE, ger |-> G(8), gff |-> G(8), gpe |-> G(8), gde |-> G(4), gie |-> G(16),
   esmin |-> NInf, esmax |-> T(2), ovmin |-> T(1), ovmax |-> Inf],
  \* non finite gains and thresholds, limits that exclude zero
  [wrap |-> T(8), drsp |-> NaN, calcRate |-> TRUE, ger |-> G(8), gff |-> NaN, gpe |-> Inf, gde |-> G(0), gie |-> NInf,
   esmin |-> T(1), esmax |-> T(3), ovmin |-> T(-2), ovmax |-> T(-1)],
  [wrap |-> T(0), drsp |-> Fin(-4096), calcRate |-> FALSE, ger |-> Inf, gff |-> G(0), gpe |-> G(8), gde |-> G(8), gie |-> G(8),
   esmin |-> NInf, esmax |-> Inf, ovmin |-> NInf, ovmax |-> Inf]}
Inputs == [input : Signals, rate : Rates, rsp : Signals, lapse : Lapses]

\* candidate results: every reading the relation admits on this grid
WrapCands(p, in) ==
    LET d == Diff(p, in) IN
    IF IsFin(p.wrap) /\ p.wrap.v # 0 /\ IsFin(d)
    THEN LET w == p.wrap.v  r == ((d.v + w) % (2 * w)) - w IN {Fin(r)} \cup (IF r = -w THEN {Fin(w)} ELSE {})
    ELSE IF IsFin(p.wrap) /\ p.wrap.v = 0 THEN {d} ELSE {NaN, Zero}
SumCands(p, in, e2) ==
    LET es0 == IF Changed(p, in) THEN Zero ELSE es  ae == AvgErr(in, e2) IN
    IF IsFin(es0) /\ IsFin(ae) /\ ~IsNan(Rate(p, in, e2)) THEN {Limit(p.esmin, p.esmax, Add(es0, MulQ(ae, b))) : b \in Blends}
    ELSE {p.esmin, p.esmax}
OutCands(p, in, e2, es2) ==
    LET s == PidSum(p, in, e2, Rate(p, in, e2), es2) IN
    IF IsNan(s) THEN {p.ovmin, p.ovmax} ELSE {Limit(p.ovmin, p.ovmax, s)}

Init == /\ e = Zero /\ er = Zero /\ es = Zero /\ prsp = Zero /\ out = Zero /\ n = 0
        /\ obs \in {[kind |-> "init", p |-> p, in |-> [input |-> Zero, rate |-> Zero, rsp |-> Zero, lapse |-> G(0)],
                     chg |-> FALSE, diff |-> Zero, ae |-> Zero] : p \in Parms}
Step == \E in \in Inputs :
            IF ~Gt(in.lapse, Zero) THEN Update(obs.p, in, e, es, out)
            ELSE \E e2 \in WrapCands(obs.p, in) : \E es2 \in SumCands(obs.p, in, e2) :
                    \E out2 \in OutCands(obs.p, in, e2, es2) : Update(obs.p, in, e2, es2, out2)
DoStep == n < Depth /\ n' = n + 1 /\ Step
DoRestart == n < Depth /\ n' = n + 1 /\ Restart
Next == DoStep \/ DoRestart
Spec == Init /\ [][Next]_<<vars, n>>

\* the deed's limiter min(hi, max(lo, x)) is Limit for every number that is not nan and ordered limits,
\* and leaves a nan at the lower limit
LimiterLemma == \A p \in Parms : \A x \in Signals \cup {T(-30), T(30)} :
    /\ ~IsNan(x) => PyMin(p.ovmax, PyMax(p.ovmin, x)) = Limit(p.ovmin, p.ovmax, x)
    /\ IsNan(x) => PyMin(p.esmax, PyMax(p.esmin, x)) = p.esmin
ASSUME LimiterLemma
ASSUME \A p \in Parms : Le(p.esmin, p.esmax) /\ Le(p.ovmin, p.ovmax)
=============================================================================
