\* Reference configuration (the harness vf/families/imports.py generates the same text with other constants).
\* Needs IMPORTS_JSON (constants derived from the tree), EDGE_DIR (where Emit writes the Boot edges) and
\* CLOSURE_JSON (for OrderIndependent: the Boot edges of an earlier MaxImports = 1 run) in the environment.
SPECIFICATION Spec
CONSTANTS
  MaxImports = 2
  Atomic = TRUE
INVARIANT NoFailure
INVARIANT OrderIndependent
CHECK_DEADLOCK FALSE
