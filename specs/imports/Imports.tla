------------------------------ MODULE Imports ------------------------------
(* Importing ioflo modules into a fresh interpreter (property C01).                              *)
(*                                                                                               *)
(* The model is Python's import system as documented in the language reference ("The import      *)
(* system"): `import a.b.c` imports a, then a.b, then a.b.c; a module is entered into            *)
(* sys.modules BEFORE its body runs (so circular imports find it there); the body runs           *)
(* statement by statement, loading what it imports depth first; when a submodule has been        *)
(* loaded it is bound as an attribute on its parent package; an attribute reference              *)
(* `pkg.sub.X` in a body raises AttributeError when `sub` has not been bound on `pkg` by then;   *)
(* `from P import n` raises ImportError when P (still running its body) has not defined n yet.   *)
(*                                                                                               *)
(* What the bodies contain is NOT written here: it is derived from the tree under test at check  *)
(* time (vf/families/imports.py, with `ast`) and read as JSON:                                   *)
(*   mods        the ioflo modules                                                               *)
(*   toplevel    those of them that have no parent package                                       *)
(*   chain[m]    m's ancestors followed by m                                                     *)
(*   body[m]     the ordered statements of m that matter:                                        *)
(*                 load  chain   import the modules of chain in order                            *)
(*                 use   chain   dotted reference: every module of chain must be bound           *)
(*                 from  mod, name, at   `from mod import name` (name is not a submodule): mod    *)
(*                        defines name once `at` of its statements have completed (-1: never)    *)
(*                 fail  why, tp a statement that raises whatever the order (missing module or   *)
(*                        name outside any try/except ImportError; tp: the missing module is an  *)
(*                        optional third-party package)                                          *)
(*   ext, clo, clobound   non-ioflo import targets with the modules they load / bind (measured   *)
(*                        in a bare interpreter; they are the environment)                       *)
(*   boot, bootbound      sys.modules / bound submodules of a bare interpreter                   *)
(*   candidates           the modules the environment may ask for in this run                    *)
(*                                                                                               *)
(* State: loaded (sys.modules minus boot), bound (submodules bound on their parent, minus boot), *)
(* order (the ioflo modules entered into sys.modules by the current import, in that order),      *)
(* stack (modules whose body is running, with the index of the current statement), req (the      *)
(* top-level imports asked so far), res / why (outcome of the last one).                         *)
(*                                                                                               *)
(* One step of the interpreter is the function StepOf on the record of these variables; the      *)
(* small-step actions Start / LoadExt / Finish / Done / Fail apply it once (what an observer of  *)
(* sys.modules can distinguish); with Atomic = TRUE a whole top-level import is one action       *)
(* (StepOf iterated until the import returns) so that all orders of several imports fit in TLC.  *)
EXTENDS Integers, Sequences, FiniteSets, SequencesExt, TLC, Json, IOUtils

CONSTANTS MaxImports,    \* how many top-level imports the host performs
          Atomic         \* TRUE: a top-level import is a single action

D == JsonDeserialize(IOEnv.IMPORTS_JSON)
Module == ToSet(D.mods)
TopLevel == ToSet(D.toplevel)
Candidates == ToSet(D.candidates)
Ext == ToSet(D.ext)
Boot == ToSet(D.boot)
BootBound == ToSet(D.bootbound)
Body(m) == D.body[m]
Clo(x) == ToSet(D.clo[x])
CloBound(x) == ToSet(D.clobound[x])
MaxSteps == 2 * (Cardinality(Module) + Cardinality(Ext)) + 4    \* no import takes more steps than that

VARIABLES loaded, bound, order, stack, req, res, why
vars == <<loaded, bound, order, stack, req, res, why>>

Req == "<request>"    \* pseudo module at the bottom of the stack: the statement `import m` typed by the host

--------------------------------------------------------------------------------
\* the interpreter as a function on records s = [loaded, bound, order, stack, res, why]; rq = requests so far

Stmts(f, rq) == IF f.m = Req
                THEN <<[k |-> "load", chain |-> D.chain[rq[Len(rq)]], mod |-> "", name |-> "", at |-> 0, why |-> "", tp |-> FALSE]>>
                ELSE Body(f.m)

IsLoaded(x, ld) == x \in ld \/ x \in Boot
IsBound(x, bd) == x \in bd \/ x \in BootBound

RECURSIVE FirstUnloaded(_, _, _)
FirstUnloaded(chain, i, ld) == IF i > Len(chain) THEN 0 ELSE IF ~IsLoaded(chain[i], ld) THEN i ELSE FirstUnloaded(chain, i + 1, ld)
RECURSIVE FirstUnbound(_, _, _)
FirstUnbound(chain, i, bd) == IF i > Len(chain) THEN 0 ELSE IF ~IsBound(chain[i], bd) THEN i ELSE FirstUnbound(chain, i + 1, bd)

\* `from P import n`: fine when P has finished, or has got past the statement that defines n
RECURSIVE PcOf(_, _, _)
PcOf(p, stk, i) == IF i > Len(stk) THEN 0 ELSE IF stk[i].m = p THEN stk[i].pc ELSE PcOf(p, stk, i + 1)
Defined(st, stk) == st.at >= 0 /\ (LET pc == PcOf(st.mod, stk, 1) IN pc = 0 \/ pc > st.at)

\* does statement st do anything (load something, or raise) in the given state?
Effective(st, ld, bd, stk) ==
    CASE st.k = "load" -> FirstUnloaded(st.chain, 1, ld) # 0
      [] st.k = "use"  -> FirstUnbound(st.chain, 1, bd) # 0
      [] st.k = "from" -> ~Defined(st, stk)
      [] OTHER         -> TRUE

\* statements without effect are passed over: the program counter of the running body always rests on the next
\* statement that loads or raises, or behind the last statement
RECURSIVE NextEffective(_, _, _, _, _)
NextEffective(ss, i, ld, bd, stk) ==
    IF i > Len(ss) THEN i ELSE IF Effective(ss[i], ld, bd, stk) THEN i ELSE NextEffective(ss, i + 1, ld, bd, stk)

Settle(stk, ld, bd, rq) ==
    IF stk = <<>> THEN stk
    ELSE LET n == Len(stk) IN [stk EXCEPT ![n].pc = NextEffective(Stmts(stk[n], rq), stk[n].pc, ld, bd, stk)]

Quiet(s) == s.stack = <<>>
TopOf(s) == s.stack[Len(s.stack)]
Ended(s, rq) == TopOf(s).pc > Len(Stmts(TopOf(s), rq))
CurOf(s, rq) == Stmts(TopOf(s), rq)[TopOf(s).pc]
NextToLoad(s, rq) == LET c == CurOf(s, rq).chain IN c[FirstUnloaded(c, 1, s.loaded)]

\* what happens next, and to which module
Kind(s, rq) == IF Ended(s, rq) THEN (IF TopOf(s).m = Req THEN "Done" ELSE "Finish")
               ELSE IF CurOf(s, rq).k = "load" THEN (IF NextToLoad(s, rq) \in Module THEN "Start" ELSE "LoadExt")
               ELSE "Fail"
Subject(s, rq) == IF Ended(s, rq) THEN TopOf(s).m ELSE IF CurOf(s, rq).k = "load" THEN NextToLoad(s, rq) ELSE TopOf(s).m

StepOf(s, rq) ==
    LET f == TopOf(s)
        ss == Stmts(f, rq)
        ended == f.pc > Len(ss)
        cur == ss[f.pc]
        x == IF ended THEN f.m ELSE IF cur.k = "load" THEN cur.chain[FirstUnloaded(cur.chain, 1, s.loaded)] ELSE f.m
    IN IF ended THEN
           IF x = Req THEN
               \* Done: the requested import is complete
               [s EXCEPT !.stack = <<>>, !.res = "ok"]
           ELSE
               \* Finish: the body of x has run to its end: x is bound on its parent, the importer continues
               LET bd == IF x \in TopLevel THEN s.bound ELSE s.bound \cup {x} IN
               [s EXCEPT !.bound = bd, !.stack = Settle(SubSeq(s.stack, 1, Len(s.stack) - 1), s.loaded, bd, rq)]
       ELSE IF cur.k = "load" THEN
           IF x \in Module THEN
               \* Start: an ioflo module starts loading: entered into sys.modules, then its body begins
               LET ld == s.loaded \cup {x} IN
               [s EXCEPT !.loaded = ld, !.order = Append(@, x), !.stack = Settle(Append(s.stack, [m |-> x, pc |-> 1]), ld, s.bound, rq)]
           ELSE
               \* LoadExt: a non-ioflo module is imported: everything it loads and binds arrives at once
               LET ld == s.loaded \cup Clo(x)
                   bd == s.bound \cup CloBound(x) IN
               [s EXCEPT !.loaded = ld, !.bound = bd, !.stack = Settle(s.stack, ld, bd, rq)]
       ELSE
           \* Fail: the current statement raises: the exception unwinds every running body
           [s EXCEPT !.stack = <<>>,
                     !.res = IF cur.k = "fail" /\ cur.tp THEN "skip" ELSE "fail",
                     !.why = CASE cur.k = "use" -> "AttributeError: submodule not bound: " \o cur.chain[FirstUnbound(cur.chain, 1, s.bound)]
                               [] cur.k = "from" -> "ImportError: cannot import name " \o cur.name \o " from " \o cur.mod
                               [] OTHER -> cur.why]

\* the host asks for module m (rq already ends with m)
Ask(s, rq) == [s EXCEPT !.stack = Settle(<<[m |-> Req, pc |-> 1]>>, s.loaded, s.bound, rq), !.order = <<>>, !.res = "", !.why = ""]

\* a whole import: steps until it returns or raises
RunOf(s, rq) == FoldLeft(LAMBDA acc, i : IF Quiet(acc) THEN acc ELSE StepOf(acc, rq), s, [i \in 1..MaxSteps |-> i])

--------------------------------------------------------------------------------
St == [loaded |-> loaded, bound |-> bound, order |-> order, stack |-> stack, res |-> res, why |-> why]
Becomes(s) == /\ loaded' = s.loaded /\ bound' = s.bound /\ order' = s.order
              /\ stack' = s.stack /\ res' = s.res /\ why' = s.why

Init == /\ loaded = {} /\ bound = {} /\ order = <<>> /\ stack = <<>> /\ req = <<>> /\ res = "" /\ why = ""

MayAsk(m) == /\ stack = <<>> /\ res \in {"", "ok"} /\ Len(req) < MaxImports
             /\ m \in Candidates /\ m \notin ToSet(req)

\* the host program asks for a module
Import(m) == /\ ~Atomic /\ MayAsk(m)
             /\ req' = Append(req, m)
             /\ Becomes(Ask(St, req'))

\* (Moving only narrows the quantifiers to the one module that can move: the body on top of the stack)
Moving == IF Quiet(St) THEN {} ELSE {Subject(St, req)}

Micro(kind, x) == /\ ~Quiet(St) /\ Kind(St, req) = kind /\ Subject(St, req) = x
                  /\ Becomes(StepOf(St, req))
                  /\ UNCHANGED req
StartOf(x) == Micro("Start", x)
LoadExtOf(x) == Micro("LoadExt", x)
FinishOf(x) == Micro("Finish", x)
Start == \E x \in Moving \cap Module : StartOf(x)
LoadExt == \E x \in Moving \cap Ext : LoadExtOf(x)
Finish == \E x \in Moving \cap Module : FinishOf(x)
Done == ~Quiet(St) /\ Micro("Done", Req)
Fail == \E x \in Moving \cap Module : Micro("Fail", x)

\* ... or the whole import at once
ImportAll(m) == /\ Atomic /\ MayAsk(m)
                /\ req' = Append(req, m)
                /\ Becomes(RunOf(Ask(St, req'), req'))

Next == \/ \E m \in Candidates : Import(m)
        \/ \E m \in Candidates : ImportAll(m)
        \/ Start
        \/ LoadExt
        \/ Finish
        \/ Done
        \/ Fail

Spec == Init /\ [][Next]_vars

--------------------------------------------------------------------------------
\* C01, first sentence: no import fails ("skip" = a missing optional third-party package, judged by the harness)
NoFailure == res # "fail"

\* C01, second sentence: what an import leaves behind does not depend on what was imported before it: after any
\* sequence of imports the interpreter holds exactly the union of what each module loads / binds when imported alone
\* (closure[m]: the Boot --Import(m)--> edges, computed by the run with MaxImports = 1)
Closure == JsonDeserialize(IOEnv.CLOSURE_JSON).closure
OrderIndependent ==
    (stack = <<>> /\ res = "ok") =>
        /\ loaded = UNION {ToSet(Closure[req[i]].loaded) : i \in DOMAIN req}
        /\ bound = UNION {ToSet(Closure[req[i]].bound) : i \in DOMAIN req}

\* structural sanity of the interpreter state
WellFormed ==
    /\ \A i \in DOMAIN stack : stack[i].m = Req <=> i = 1
    /\ \A i \in DOMAIN stack : i > 1 => stack[i].m \in loaded
    /\ \A x \in bound \cap Module : x \in loaded /\ \A i \in DOMAIN stack : stack[i].m # x
    /\ \A i \in DOMAIN order : order[i] \in loaded
    /\ stack # <<>> => res = ""

\* the Boot --Import(m)--> edges are written out for the harness to replay in bare interpreters (binding A)
Emit == (stack = <<>> /\ Len(req) = 1 /\ res # "") =>
            JsonSerialize(IOEnv.EDGE_DIR \o "/" \o req[1] \o ".json",
                          [m |-> req[1], res |-> res, why |-> why, order |-> order,
                           loaded |-> SetToSeq(loaded), bound |-> SetToSeq(bound)])
=============================================================================
