------------------------------ MODULE Imports ------------------------------
(* Importing ioflo modules into a fresh interpreter (property C01).                              *)
(*                                                                                               *)
(* The model is Python's import system as documented in the language reference ("The import      *)
(* system"): `import a.b.c` imports a, then a.b, then a.b.c; a module is entered into            *)
(* sys.modules BEFORE its body runs (so circular imports find it there); the body runs           *)
(* statement by statement, loading what it imports depth first; when a submodule has been        *)
(* loaded it is bound as an attribute on its parent package; an attribute reference              *)
(* `pkg.sub.X` in a body raises AttributeError when `sub` has not been bound on `pkg` by then;   *)
(* `from P import n` raises ImportError when P (still running its body) has not defined n yet.   *)
(*                                                                                               *)
(* What the bodies contain is NOT written here: it is derived from the tree under test at check  *)
(* time (vf/families/imports.py, with `ast`) and read as JSON:                                   *)
(*   mods        the ioflo modules                                                               *)
(*   toplevel    those of them that have no parent package                                       *)
(*   chain[m]    m's ancestors followed by m                                                     *)
(*   body[m]     the ordered statements of m that matter:                                        *)
(*                 load  chain   import the modules of chain in order                            *)
(*                 use   chain   dotted reference: every module of chain must be bound           *)
(*                 from  mod, name, at   `from mod import name` (name is not a submodule): mod    *)
(*                        defines name once `at` of its statements have completed (-1: never)    *)
(*                 fail  why, tp a statement that raises whatever the order (missing module or   *)
(*                        name outside any try/except ImportError; tp: the missing module is an  *)
(*                        optional third-party package)                                          *)
(*   ext, clo, clobound   non-ioflo import targets with the modules they load / bind (measured   *)
(*                        in a bare interpreter; they are the environment)                       *)
(*   boot, bootbound      sys.modules / bound submodules of a bare interpreter                   *)
(*   candidates           the modules the environment may ask for in this run                    *)
(*                                                                                               *)
(* State: loaded (sys.modules minus boot), bound (submodules bound on their parent, minus boot), *)
(* stack (modules whose body is running, with the index of the current statement), req (the      *)
(* top-level imports asked so far), res (outcome of the last one).                               *)
EXTENDS Integers, Sequences, FiniteSets, SequencesExt, TLC, Json, IOUtils

CONSTANTS MaxImports

D == JsonDeserialize(IOEnv.IMPORTS_JSON)
Module == ToSet(D.mods)
Candidates == ToSet(D.candidates)
TopLevel == ToSet(D.toplevel)     \* modules without a parent package: nothing to bind them on
Ext == ToSet(D.ext)
Boot == ToSet(D.boot)
BootBound == ToSet(D.bootbound)
Body(m) == D.body[m]
Clo(x) == ToSet(D.clo[x])
CloBound(x) == ToSet(D.clobound[x])

VARIABLES loaded, bound, stack, req, res, why
vars == <<loaded, bound, stack, req, res, why>>

Req == "<request>"    \* pseudo module at the bottom of the stack: the statement `import m` typed by the host
MinOf(S) == CHOOSE i \in S : \A j \in S : i <= j

\* statements of a frame
Stmts(f, rq) == IF f.m = Req
                THEN <<[k |-> "load", chain |-> D.chain[rq[Len(rq)]], mod |-> "", name |-> "", at |-> 0, why |-> "", tp |-> FALSE]>>
                ELSE Body(f.m)

IsLoaded(x, ld) == x \in ld \/ x \in Boot
IsBound(x, bd) == x \in bd \/ x \in BootBound
FirstUnloaded(chain, ld) == LET I == {i \in DOMAIN chain : ~IsLoaded(chain[i], ld)} IN IF I = {} THEN 0 ELSE MinOf(I)

\* `from P import n`: fine when P has finished, or has got past the statement that defines n
PcOf(p, stk) == LET F == {i \in DOMAIN stk : stk[i].m = p} IN IF F = {} THEN 0 ELSE stk[MinOf(F)].pc
Defined(st, stk) == st.at >= 0 /\ (PcOf(st.mod, stk) = 0 \/ PcOf(st.mod, stk) > st.at)

\* does statement st do anything (load something, or raise) in the given state?
Effective(st, ld, bd, stk) ==
    CASE st.k = "load" -> FirstUnloaded(st.chain, ld) # 0
      [] st.k = "use"  -> \E i \in DOMAIN st.chain : ~IsBound(st.chain[i], bd)
      [] st.k = "from" -> ~Defined(st, stk)
      [] OTHER         -> TRUE

\* statements without effect are passed over: the program counter of the running body always rests on the next
\* statement that loads or raises, or behind the last statement
Settle(stk, ld, bd, rq) ==
    IF stk = <<>> THEN stk
    ELSE LET n == Len(stk)
             f == stk[n]
             ss == Stmts(f, rq)
             I == {i \in f.pc..Len(ss) : Effective(ss[i], ld, bd, stk)}
             pc == IF I = {} THEN Len(ss) + 1 ELSE MinOf(I)
         IN [stk EXCEPT ![n].pc = pc]

Top == stack[Len(stack)]
TopStmts == Stmts(Top, req)
Running == stack # <<>> /\ Top.pc <= Len(TopStmts)
Cur == TopStmts[Top.pc]
NextToLoad == Cur.chain[FirstUnloaded(Cur.chain, loaded)]

Init == /\ loaded = {} /\ bound = {} /\ stack = <<>> /\ req = <<>> /\ res = "" /\ why = ""

\* the host program asks for a module
Import(m) ==
    /\ stack = <<>> /\ res \in {"", "ok"} /\ Len(req) < MaxImports
    /\ m \in Candidates /\ m \notin ToSet(req)
    /\ req' = Append(req, m)
    /\ stack' = Settle(<<[m |-> Req, pc |-> 1]>>, loaded, bound, req')
    /\ res' = "" /\ why' = ""
    /\ UNCHANGED <<loaded, bound>>

\* an ioflo module starts loading: entered into sys.modules, then its body begins
Start(x) ==
    /\ Running /\ Cur.k = "load" /\ x = NextToLoad /\ x \in Module
    /\ loaded' = loaded \cup {x}
    /\ stack' = Settle(Append(stack, [m |-> x, pc |-> 1]), loaded', bound, req)
    /\ UNCHANGED <<bound, req, res, why>>

\* a non-ioflo module is imported: everything it loads and binds arrives at once
LoadExt(x) ==
    /\ Running /\ Cur.k = "load" /\ x = NextToLoad /\ x \in Ext
    /\ loaded' = loaded \cup Clo(x)
    /\ bound' = bound \cup CloBound(x)
    /\ stack' = Settle(stack, loaded', bound', req)
    /\ UNCHANGED <<req, res, why>>

\* the body of x has run to its end: x is bound on its parent, the importer continues
Finish(x) ==
    /\ stack # <<>> /\ ~Running /\ Top.m = x /\ x # Req
    /\ bound' = (IF x \in TopLevel THEN bound ELSE bound \cup {x})
    /\ stack' = Settle(SubSeq(stack, 1, Len(stack) - 1), loaded, bound', req)
    /\ UNCHANGED <<loaded, req, res, why>>

\* the requested import is complete
Done ==
    /\ stack # <<>> /\ ~Running /\ Top.m = Req
    /\ stack' = <<>> /\ res' = "ok"
    /\ UNCHANGED <<loaded, bound, req, why>>

\* the current statement raises: the exception unwinds every running body
Fail ==
    /\ Running /\ Cur.k # "load"
    /\ stack' = <<>>
    /\ why' = (CASE Cur.k = "use" -> "AttributeError: submodule not bound: " \o Cur.chain[MinOf({i \in DOMAIN Cur.chain : ~IsBound(Cur.chain[i], bound)})]
                 [] Cur.k = "from" -> "ImportError: cannot import name " \o Cur.name \o " from " \o Cur.mod
                 [] OTHER -> Cur.why)
    /\ res' = (IF Cur.k = "fail" /\ Cur.tp THEN "skip" ELSE "fail")
    /\ UNCHANGED <<loaded, bound, req>>

Next == \/ \E m \in Candidates : Import(m)
        \/ \E x \in Module : Start(x) \/ Finish(x)
        \/ \E x \in Ext : LoadExt(x)
        \/ Done
        \/ Fail

Spec == Init /\ [][Next]_vars

--------------------------------------------------------------------------------
\* C01, first sentence: no import fails ("skip" = a missing optional third-party package, judged by the harness)
NoFailure == res # "fail"

\* C01, second sentence: what an import leaves behind does not depend on what was imported before it: after any
\* sequence of imports the interpreter holds exactly the union of what each module loads / binds when imported alone
\* (closure[m]: the Boot --Import(m)--> edges, computed by the run with MaxImports = 1)
Closure == JsonDeserialize(IOEnv.CLOSURE_JSON).closure
OrderIndependent ==
    (stack = <<>> /\ res = "ok") =>
        /\ loaded = UNION {ToSet(Closure[req[i]].loaded) : i \in DOMAIN req}
        /\ bound = UNION {ToSet(Closure[req[i]].bound) : i \in DOMAIN req}

\* structural sanity of the interpreter state
WellFormed ==
    /\ \A i \in DOMAIN stack : stack[i].m = Req <=> i = 1
    /\ \A i \in DOMAIN stack : i > 1 => stack[i].m \in loaded
    /\ \A x \in bound \cap Module : x \in loaded /\ \A i \in DOMAIN stack : stack[i].m # x

\* the Boot --Import(m)--> edges are written out for the harness to replay in bare interpreters (binding A)
Emit == (stack = <<>> /\ Len(req) = 1 /\ res # "") =>
            JsonSerialize(IOEnv.EDGE_DIR \o "/" \o req[1] \o ".json",
                          [m |-> req[1], res |-> res, why |-> why, loaded |-> SetToSeq(loaded), bound |-> SetToSeq(bound)])
=============================================================================
