\* Reference configuration for trace validation (binding B); TRACE_FILE and IMPORTS_JSON come from the environment.
SPECIFICATION TraceSpec
CONSTANTS
  MaxImports = 1000
  Atomic = FALSE
CONSTRAINT TraceOK
CHECK_DEADLOCK FALSE
