--------------------------- MODULE ImportsTrace ---------------------------
(* Binding B for Imports.tla: a bare child imports a sequence of modules and logs                *)
(*   {"ev":"Boot"}                                header                                          *)
(* small-step recording (Atomic = FALSE)                                                          *)
(*   {"ev":"Import","m":m}                        the host asks for m                             *)
(*   {"ev":"Start","x":x}                         the import system starts looking for / loading  *)
(*                                                the ioflo module x (sys.meta_path observer)     *)
(*   {"ev":"Done","loaded":[..],"bound":[..]}     the import returned; sys.modules and the bound  *)
(*                                                submodules, minus those of the bare interpreter *)
(*   Loads of non-ioflo modules and the end of a module body are not logged: they are internal   *)
(*   steps of the specification here.                                                             *)
(* atomic recording (Atomic = TRUE)                                                               *)
(*   {"ev":"ImportAll","m":m,"order":[..],"loaded":[..],"bound":[..]}  one event per import       *)
(*   {"ev":"ImportMore","m":m,"order":[..],"dl":[..],"db":[..]}  the same in a long chain of      *)
(*                                                imports: only what this import added            *)
(* The recorded execution must be a behaviour of Imports.tla with the constants derived from the *)
(* tree: same ioflo modules started in the same order, same loaded and bound sets whenever an    *)
(* import returns.                                                                                *)
EXTENDS Imports, TraceBatch

VARIABLES tid, l
tvars == <<vars, tid, l>>

Ev == EvAt(tid, l)

TraceInit == /\ Init
             /\ tid \in 1..NTraces
             /\ l = 2

Consume(name) == l <= TraceLen(tid) /\ Ev.ev = name /\ l' = l + 1 /\ UNCHANGED tid
Silent == UNCHANGED <<tid, l>>

TraceNext ==
    \/ Consume("Import") /\ Import(Ev.m)
    \/ Consume("Start") /\ StartOf(Ev.x)
    \/ Consume("Done") /\ Done /\ loaded = ToSet(Ev.loaded) /\ bound = ToSet(Ev.bound)
    \/ Consume("ImportAll") /\ ImportAll(Ev.m) /\ res' = "ok"
                            /\ order' = Ev.order /\ loaded' = ToSet(Ev.loaded) /\ bound' = ToSet(Ev.bound)
    \/ Consume("ImportMore") /\ ImportAll(Ev.m) /\ res' = "ok"
                             /\ order' = Ev.order /\ loaded' = loaded \cup ToSet(Ev.dl) /\ bound' = bound \cup ToSet(Ev.db)
    \/ Silent /\ LoadExt
    \/ Silent /\ Finish

TraceSpec == TraceInit /\ [][TraceNext]_tvars
TraceOK == TraceConstraint(tid, l)
=============================================================================
