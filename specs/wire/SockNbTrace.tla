---------------------------- MODULE SockNbTrace ----------------------------
(* Binding B for SockNb.tla: a recorded execution of a real SocketUxdNb (bound to a file in a scratch      *)
(* directory, talking to another one through the kernel) is a behaviour of the specification.               *)
(* header  {"ev": "Init", "umask": bool, "bcast": bool, "log": "none"|"split"|"same", "dirok": bool}        *)
(* events  {"ev": name, arguments..., "opened", "file", "dirok", "pumask", "sopts", "res", "wrx", "wtx"}     *)
(*   file = something exists at the address; wrx / wtx = the records of the wire log per direction.         *)
(* What the kernel answered is part of the event (b, k, r, d, p, s), so validation is linear.               *)
EXTENDS SockNb, TraceBatch

VARIABLES tid, l
tvars == <<vars, tid, l>>

Ev == EvAt(tid, l)

TraceInit == /\ tid \in 1..NTraces
             /\ l = 2
             /\ LET h == EvAt(tid, 1) IN
                /\ cfg = [umask |-> h.umask, bcast |-> h.bcast, log |-> h.log]
                /\ dirok = h.dirok
             /\ opened = FALSE /\ bound = FALSE /\ addr = "free"
             /\ pumask = "orig" /\ sopts = NoOpts
             /\ wopen = FALSE /\ wlog = <<>> /\ accepted = <<>> /\ delivered = <<>>
             /\ res = <<"none">>

\* what was observed after the call is exactly what the specification's action produces
Logged == /\ opened' = Ev.opened
          /\ (addr' # "free") = Ev.file
          /\ dirok' = Ev.dirok
          /\ pumask' = Ev.pumask
          /\ sopts' = Ev.sopts
          /\ res' = Ev.res
          /\ Rx(wlog') = Ev.wrx /\ Tx(wlog') = Ev.wtx

Consume(name) == l <= TraceLen(tid) /\ Ev.ev = name /\ l' = l + 1 /\ UNCHANGED tid

TraceNext ==
    \/ Consume("Open") /\ Open(Ev.b, Ev.k) /\ Logged
    \/ Consume("Reopen") /\ Reopen(Ev.b, Ev.k) /\ Logged
    \/ Consume("Close") /\ Close /\ Logged
    \/ Consume("Stale") /\ Stale /\ Logged
    \/ Consume("LogOpen") /\ LogOpen /\ Logged
    \/ Consume("LogClose") /\ LogClose /\ Logged
    \/ Consume("ReceiveNone") /\ ReceiveNone(Ev.r) /\ Logged
    \/ Consume("Receive") /\ Receive(Ev.d, Ev.p) /\ Logged
    \/ Consume("Send") /\ Send(Ev.d, Ev.p, Ev.s) /\ Logged

TraceSpec == TraceInit /\ [][TraceNext]_tvars
TraceOK == TraceConstraint(tid, l)
=============================================================================
