------------------------------- MODULE SockNb -------------------------------
(* One non blocking datagram socket object of ioflo: aio.uxd.uxding.SocketUxdNb (= PeerUxd) or     *)
(* aio.udp.udping.SocketUdpNb (= PeerUdp), with an optional WireLog attached (extra check           *)
(* X-uxdwire, part a).                                                                             *)
(*                                                                                                 *)
(* Written from the docstrings of uxding.py / udping.py, ChangeLog.md and the pinned tests:         *)
(*   class    "Class to manage non blocking io on UXD (unix domain) socket. Use instance method     *)
(*             .close() to close socket" / "... non blocking I/O on UDP socket"                     *)
(*   __init__ "ha = uxd file name; umask = umask for uxd file; bufsize = buffer size" /             *)
(*            "ha = host address duple (host, port); wlog = WireLog reference for debug logging of  *)
(*             over the wire tx and rx; bcast = Flag if True enables sending to broadcast           *)
(*             addresses on socket"                                                                 *)
(*   open     "Opens socket in non blocking mode.  if socket not closed properly, binding socket    *)
(*             gets error socket.error: (48, 'Address already in use')"; the tests: the result is   *)
(*             True and .opened is True after a successful (re)open, .opened is False before and    *)
(*             after close(), .ha is the address that was bound                                     *)
(*   reopen   "Idempotently open socket by closing first if need be"                                *)
(*   close    "Closes socket" (and, uxd, removes the file of the socket)                            *)
(*   receive  "Perform non blocking receive on socket.  Returns tuple of form (data, sa).  If no    *)
(*             data then returns (b'', None) but always returns a tuple with two elements";         *)
(*             errors other than EAGAIN / EWOULDBLOCK are raised again                              *)
(*   send     "Perform non blocking send on socket" - returns the number of bytes sent, raises the  *)
(*             socket's error otherwise                                                             *)
(*   ChangeLog "Resizes socket buffers if too small for non blocking UDP and UXD servers",          *)
(*             "Added umask to SocketUxdNb", "Added check for missing directory path"               *)
(*   WireLog  writeRx "bytes data received from source address", writeTx "bytes data transmitted    *)
(*             to destination address"                                                              *)
(*                                                                                                 *)
(* The environment is explicit: what bind answers (address free / in use / refused, the directory   *)
(* of a uxd file missing), what the kernel's buffer sizes are, what recvfrom and sendto answer, a   *)
(* stale uxd file left by a process that died, another process holding the udp port, the            *)
(* application opening and closing the wire log.                                                    *)
(*                                                                                                 *)
(* Where the documentation is silent the model does not go: open() on an object that is open,       *)
(* send / receive on an object that is not open, an address refused while the directory is missing. *)
EXTENDS Integers, Sequences, FiniteSets, TLC

CONSTANTS Flavor,        \* "uxd" | "udp"
          Umasks,        \* uxd: is a umask given?  (set of booleans chosen from initially; udp: {FALSE})
          Bcasts,        \* udp: bcast flag         (uxd: {FALSE})
          Logs,          \* subset of {"none", "split", "same"}: no wire log / separate rx and tx logs / one log for both
          DirOks,        \* uxd: does the directory of the file exist initially (udp: {TRUE})
          Peers,         \* addresses of the other side
          SendData,      \* payloads the application sends
          RecvData,      \* payloads that arrive
          SendEnv,       \* answers of sendto: "full", "short" (one byte less than offered), or the name of an errno
          RecvEnv,       \* answers of recvfrom other than a datagram: "block" (EAGAIN / EWOULDBLOCK) or the name of an errno
          KBufs,         \* kernel's default buffer size: "small" (less than bufsize) | "big"
          MaxIo          \* datagrams moved during a behaviour (bound of the model)

\* payload names -> length in bytes; the receive buffer (bufsize) is 8 bytes; "e" is the empty datagram
PayLen == [e |-> 0, s |-> 5, l |-> 12, sp |-> 4, lp |-> 11, lt |-> 8]
BufSize == 8
Cut(d) == IF PayLen[d] > BufSize THEN "lt" ELSE d        \* what recvfrom(bufsize) hands out of datagram d
Short(d) == IF d = "s" THEN "sp" ELSE IF d = "l" THEN "lp" ELSE d

VARIABLES cfg,        \* [umask, bcast, log]   (never changes)
          opened,     \* the .opened flag
          bound,      \* the object holds a live socket bound to its address
          addr,       \* the address: "free" | "ours" | "stale" (uxd: a file nobody is bound to) | "taken" (udp: someone else's)
          dirok,      \* uxd: the directory of the file exists
          pumask,     \* the umask of the process: "orig" | "sock"
          sopts,      \* NoOpts when not open, else [nonblock, bcast, bufok, um]: options of the live socket; um = umask
                      \* under which the uxd file was made ("sock" = the one given, "orig" = the process's own)
          wopen,      \* the wire log is open
          wlog,       \* records of the wire log(s) in call order: <<"RX"|"TX", peer, payload>>
          accepted,   \* datagrams the socket accepted: <<payload, peer, logged>>
          delivered,  \* datagrams the socket handed out: <<payload, peer, logged>>
          res         \* result of the last call: <<"none">> <<"bool", b>> <<"nodata">> <<"data", payload, peer>>
                      \* <<"sent", bytes>> <<"raise", errno name>>
vars == <<cfg, opened, bound, addr, dirok, pumask, sopts, wopen, wlog, accepted, delivered, res>>

Uxd == Flavor = "uxd"
Logging == cfg.log # "none" /\ wopen
Moved == Len(accepted) + Len(delivered)
NoOpts == [nonblock |-> FALSE, bcast |-> FALSE, bufok |-> FALSE, um |-> "na"]
OpenOpts == [nonblock |-> TRUE, bcast |-> cfg.bcast, bufok |-> TRUE,
             um |-> IF Uxd /\ cfg.umask THEN "sock" ELSE "orig"]

Init == /\ cfg \in [umask : Umasks, bcast : Bcasts, log : Logs]
        /\ opened = FALSE /\ bound = FALSE /\ addr = "free"
        /\ dirok \in DirOks
        /\ pumask = "orig" /\ sopts = NoOpts
        /\ wopen = FALSE /\ wlog = <<>> /\ accepted = <<>> /\ delivered = <<>>
        /\ res = <<"none">>

(* ---- open / reopen / close.  b is bind's answer on a free address ("ok" | "deny"), k the kernel's buffers ---- *)
\* the address as close() leaves it: the uxd file is removed whoever made it; a udp port is released when it was ours
Closed(a) == IF Uxd THEN "free" ELSE IF a = "ours" THEN "free" ELSE a

Bind(a, b, k) ==
    /\ b = "deny" => dirok
    /\ IF b = "ok" /\ a = "free"
       THEN /\ opened' = TRUE /\ bound' = TRUE /\ addr' = "ours" /\ sopts' = OpenOpts
            /\ dirok' = TRUE                        \* a missing directory is made
            /\ res' = <<"bool", TRUE>>
       ELSE /\ opened' = FALSE /\ bound' = FALSE /\ addr' = a /\ sopts' = NoOpts
            /\ dirok' = dirok
            /\ res' = <<"bool", FALSE>>
    /\ pumask' = "orig"                             \* the umask is for the uxd file only

Open(b, k) == /\ ~opened
              /\ Bind(addr, b, k)
              /\ UNCHANGED <<cfg, wopen, wlog, accepted, delivered>>

Reopen(b, k) == /\ Bind(Closed(addr), b, k)
                /\ UNCHANGED <<cfg, wopen, wlog, accepted, delivered>>

Close == /\ opened' = FALSE /\ bound' = FALSE /\ sopts' = NoOpts
         /\ addr' = Closed(addr)
         /\ pumask' = "orig"
         /\ res' = <<"none">>
         /\ UNCHANGED <<cfg, dirok, wopen, wlog, accepted, delivered>>

(* ---- the environment around the address ---- *)
Stale == /\ Uxd /\ addr = "free" /\ dirok           \* a process that was bound to the file died
         /\ addr' = "stale"
         /\ UNCHANGED <<cfg, opened, bound, dirok, pumask, sopts, wopen, wlog, accepted, delivered, res>>
Take == /\ ~Uxd /\ addr = "free"                    \* another process binds the port
        /\ addr' = "taken"
        /\ UNCHANGED <<cfg, opened, bound, dirok, pumask, sopts, wopen, wlog, accepted, delivered, res>>
Release == /\ ~Uxd /\ addr = "taken"
           /\ addr' = "free"
           /\ UNCHANGED <<cfg, opened, bound, dirok, pumask, sopts, wopen, wlog, accepted, delivered, res>>

(* ---- the application opens / closes the attached wire log ---- *)
LogOpen == /\ cfg.log # "none" /\ ~wopen /\ wopen' = TRUE
           /\ UNCHANGED <<cfg, opened, bound, addr, dirok, pumask, sopts, wlog, accepted, delivered, res>>
LogClose == /\ cfg.log # "none" /\ wopen /\ wopen' = FALSE
            /\ UNCHANGED <<cfg, opened, bound, addr, dirok, pumask, sopts, wlog, accepted, delivered, res>>

(* ---- receive(): r is what recvfrom answers ---- *)
ReceiveNone(r) ==
    /\ opened
    /\ res' = (IF r = "block" THEN <<"nodata">> ELSE <<"raise", r>>)
    /\ UNCHANGED <<cfg, opened, bound, addr, dirok, pumask, sopts, wopen, wlog, accepted, delivered>>

Receive(d, p) ==
    /\ opened /\ Moved < MaxIo
    /\ delivered' = Append(delivered, <<Cut(d), p, Logging>>)
    /\ wlog' = (IF Logging THEN Append(wlog, <<"RX", p, Cut(d)>>) ELSE wlog)
    /\ res' = <<"data", Cut(d), p>>
    /\ UNCHANGED <<cfg, opened, bound, addr, dirok, pumask, sopts, wopen, accepted>>

(* ---- send(data, da): s is what sendto answers ---- *)
Send(d, p, s) ==
    /\ opened
    /\ s = "short" => PayLen[d] > 0
    /\ IF s \in {"full", "short"}
       THEN LET t == IF s = "full" THEN d ELSE Short(d) IN
            /\ Moved < MaxIo
            /\ accepted' = Append(accepted, <<t, p, Logging>>)
            /\ wlog' = (IF Logging THEN Append(wlog, <<"TX", p, t>>) ELSE wlog)
            /\ res' = <<"sent", PayLen[t]>>
       ELSE /\ res' = <<"raise", s>>
            /\ UNCHANGED <<accepted, wlog>>
    /\ UNCHANGED <<cfg, opened, bound, addr, dirok, pumask, sopts, wopen, delivered>>

Next == \/ \E b \in {"ok", "deny"}, k \in KBufs : Open(b, k)
        \/ \E b \in {"ok", "deny"}, k \in KBufs : Reopen(b, k)
        \/ Close
        \/ Stale \/ Take \/ Release
        \/ LogOpen \/ LogClose
        \/ \E r \in RecvEnv : ReceiveNone(r)
        \/ \E d \in RecvData, p \in Peers : Receive(d, p)
        \/ \E d \in SendData, p \in Peers, s \in SendEnv : Send(d, p, s)
Spec == Init /\ [][Next]_vars

(* ------------------------------- properties ------------------------------- *)
\* .opened says exactly whether the object holds its address
OpenedIffBound == (opened <=> bound) /\ (opened <=> addr = "ours")
\* the umask given for the uxd file never stays with the process
UmaskRestored == pumask = "orig"
\* an open socket is non blocking, has buffers of at least bufsize, broadcasts exactly when asked to, and (uxd) its
\* file was made under the umask given
Options == (opened => sopts = OpenOpts) /\ (~opened => sopts = NoOpts)
\* the wire log holds exactly the datagrams that were moved while it was open, per direction in order
Tx(s) == SelectSeq(s, LAMBDA x : x[1] = "TX")
Rx(s) == SelectSeq(s, LAMBDA x : x[1] = "RX")
LoggedOf(s, tag) == LET m == SelectSeq(s, LAMBDA x : x[3]) IN [i \in 1..Len(m) |-> <<tag, m[i][2], m[i][1]>>]
LogMatchesWire == Tx(wlog) = LoggedOf(accepted, "TX") /\ Rx(wlog) = LoggedOf(delivered, "RX")
NoLogNoRecords == (cfg.log = "none") => wlog = <<>>
\* a call that moved nothing (would block, error) leaves no trace
FailedIoSilent == [][res'[1] \in {"nodata", "raise"} => UNCHANGED <<wlog, accepted, delivered>>]_vars
\* nothing is handed out longer than the buffer
NeverLonger == \A i \in 1..Len(delivered) : PayLen[delivered[i][1]] <= BufSize
=============================================================================
