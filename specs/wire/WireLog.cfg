\* default configuration for manual runs; vf/families/uxdwire.py generates its own
SPECIFICATION Spec
CONSTANTS
  RxSet = {TRUE, FALSE}
  TxSet = {TRUE, FALSE}
  SameSet = {TRUE, FALSE}
  BufSet = {TRUE, FALSE}
  CtorPres = {""}
  CtorMids = {""}
  DirArgs = {"", "d2", "nd"}
  PreArgs = {"", "p"}
  MidArgs = {"", "m"}
  ArgCombos = "some"
  Addrs = {"ip"}
  Datas = {"a", "n"}
  MaxClock = 2
  MaxWrites = 2
  MaxObjs = 3
INVARIANT TypeOK
INVARIANT OnlyWanted
INVARIANT SameShares
INVARIANT HandlesOpen
INVARIANT Medium
INVARIANT DistinctFiles
INVARIANT Kinds
INVARIANT ExactLog
INVARIANT Separated
INVARIANT GetOnlyBuffers
PROPERTY ClosedIsFinal
PROPERTY AppendOnly
PROPERTY NothingWhenClosed
CHECK_DEADLOCK FALSE
