\* default configuration for manual runs (uxd); vf/families/uxdwire.py generates its own
SPECIFICATION Spec
CONSTANTS
  Flavor = "uxd"
  Umasks = {TRUE, FALSE}
  Bcasts = {FALSE}
  Logs = {"none", "split", "same"}
  DirOks = {TRUE, FALSE}
  Peers = {"p1", "p2"}
  SendData = {"s", "e"}
  RecvData = {"s", "l"}
  SendEnv = {"full", "short", "EAGAIN", "ECONNREFUSED"}
  RecvEnv = {"block", "ECONNREFUSED"}
  KBufs = {"small", "big"}
  MaxIo = 2
INVARIANT OpenedIffBound
INVARIANT UmaskRestored
INVARIANT Options
INVARIANT LogMatchesWire
INVARIANT NoLogNoRecords
INVARIANT NeverLonger
PROPERTY FailedIoSilent
CHECK_DEADLOCK FALSE
