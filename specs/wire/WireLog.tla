------------------------------ MODULE WireLog ------------------------------
(* History model of ioflo.aio.wiring.WireLog (extra check X-uxdwire, part b).                      *)
(*                                                                                                 *)
(* Written from the docstrings of ioflo/aio/wiring.py and from what the pinned tests                *)
(* (ioflo/aio/test/test_wiring.py, tcp/test/test_tcping.py) assert about the format:                *)
(*   class      "Provides log files for logging 'over the wire' network tx and rx for non blocking  *)
(*               transports for debugging purposes"                                                 *)
(*   __init__   "path = directory for log files; prefix = prefix to include in log name if          *)
(*               provided; midfix = another more prefix for log name if provided; rx / tx = create  *)
(*               rx / tx log file if True; same = use same log file for both rx and tx;             *)
(*               buffify = use BytesIO in memory buffer instead of File object"                     *)
(*   reopen     "Close and then open log files on path if given otherwise self.path"                *)
(*   close      "Close log files"                                                                   *)
(*   getRx/Tx   "Returns rx / tx string buffer value if .buffify else None"                         *)
(*   writeRx    "Write bytes data received from source address sa"                                  *)
(*   writeTx    "Write bytes data transmitted to destination address da"                            *)
(*   tests      a record is  b"RX <sa>\n" + data + b"\n"  (b"TX <da>\n" + data + b"\n"); file names *)
(*              contain "<prefix>_<midfix>_" and end in "_rx.txt" / "_tx.txt" (".txt" for same) ;    *)
(*              with same the rx log and the tx log are one object.                                 *)
(* and from the statement of the check: a log holds exactly the bytes received / sent, in order,    *)
(* with its direction / address header, in the right file; nothing is written while the log is      *)
(* closed (or was never opened); buffify keeps everything in memory.                                *)
(*                                                                                                 *)
(* A *log object* is a file (named by directory, prefix, midfix, the time stamp of the reopen and   *)
(* its kind "rx" | "tx" | "" for a shared file) or a memory buffer; its content is the sequence of  *)
(* records written to it.  objs is the history of every log object ever made; rxl / txl point to    *)
(* the object that is the open rx / tx log (0: there is none - never opened, closed, or the         *)
(* directory could not be written).  The clock is an action of the environment: the stamp in a file *)
(* name has a resolution of one second and the documentation says nothing about two reopens within  *)
(* the same second (the second would find the first one's file), so the model reopens a file log at *)
(* most once per second.                                                                            *)
EXTENDS Integers, Sequences, FiniteSets, TLC

CONSTANTS RxSet, TxSet, SameSet, BufSet,   \* the configurations explored (sets of booleans): chosen initially
          CtorPres, CtorMids,              \* constructor arguments prefix / midfix explored (path is directory "d1")
          DirArgs, PreArgs, MidArgs,       \* arguments given to reopen ("" = not given)
          ArgCombos,                       \* "full" | "some"
          Addrs, Datas,                    \* address / payload alphabets (opaque to the model)
          MaxClock, MaxWrites, MaxObjs     \* bounds: seconds, records written, log objects made

GoodDirs == {"d1", "d2"}          \* directories that exist; any other name cannot be written to
\* the argument combinations of reopen that are explored: every one ("full") or those that give at most one argument,
\* plus all three at once ("some")
ReArgs == IF ArgCombos = "full" THEN DirArgs \X PreArgs \X MidArgs
          ELSE {t \in DirArgs \X PreArgs \X MidArgs :
                    \/ Cardinality({i \in 1..3 : t[i] # ""}) <= 1
                    \/ (\A i \in 1..3 : t[i] # "") /\ t[1] \in GoodDirs}
NoKey == [dir |-> "", pre |-> "", mid |-> "", stamp |-> 0, kind |-> "mem"]

VARIABLES mode,      \* [rx, tx, same, buf]                       (never changes)
          cur,       \* [dir, pre, mid]: where and under which name the next reopen makes its files
          clock,     \* seconds (environment)
          lastopen,  \* clock of the last reopen
          objs,      \* sequence of [file, key, recs, open]
          rxl, txl,  \* index into objs of the open rx / tx log, 0 = none
          hist,      \* history: every record written, in call order, with the object it went to: <<dir, addr, data, obj>>
          res        \* [r, grx, gtx]: result of the last call, and what getRx() / getTx() answer now
vars == <<mode, cur, clock, lastopen, objs, rxl, txl, hist, res>>

Get(os, l, buf) == IF buf /\ l # 0 THEN <<"val", os[l].recs>> ELSE <<"none">>
Res(r) == res' = [r |-> r, grx |-> Get(objs', rxl', mode.buf), gtx |-> Get(objs', txl', mode.buf)]

Init == /\ mode \in [rx : RxSet, tx : TxSet, same : SameSet, buf : BufSet]
        /\ \E p \in CtorPres, m \in CtorMids : cur = [dir |-> "d1", pre |-> p, mid |-> m]
        /\ clock = 1 /\ lastopen = 0
        /\ objs = <<>> /\ rxl = 0 /\ txl = 0 /\ hist = <<>>
        /\ res = [r |-> "none", grx |-> <<"none">>, gtx |-> <<"none">>]

Tick == /\ clock < MaxClock
        /\ clock' = clock + 1
        /\ UNCHANGED <<mode, cur, lastopen, objs, rxl, txl, hist, res>>

AllClosed == [i \in DOMAIN objs |-> [objs[i] EXCEPT !.open = FALSE]]

\* reopen(path=d, prefix=p, midfix=m): close what is open, remember the names given, open new logs
Reopen(d, p, m) ==
    /\ Len(objs) < MaxObjs
    /\ <<d, p, m>> \in ReArgs
    /\ IF mode.buf THEN TRUE ELSE clock > lastopen
    /\ LET c2 == [dir |-> IF d = "" THEN cur.dir ELSE d,
                  pre |-> IF p = "" THEN cur.pre ELSE p,
                  mid |-> IF m = "" THEN cur.mid ELSE m]
           wanted == mode.rx \/ mode.tx
           usable == mode.buf \/ c2.dir \in GoodDirs
           Mk(kind) == [file |-> ~mode.buf,
                        key |-> IF mode.buf THEN NoKey
                                ELSE [dir |-> c2.dir, pre |-> c2.pre, mid |-> c2.mid, stamp |-> clock, kind |-> kind],
                        recs |-> <<>>, open |-> TRUE]
           k == Len(objs)
       IN /\ cur' = c2
          /\ IF wanted /\ ~usable
             THEN objs' = AllClosed /\ rxl' = 0 /\ txl' = 0 /\ Res(FALSE)
             ELSE IF mode.same /\ wanted
             THEN /\ objs' = Append(AllClosed, Mk(""))
                  /\ rxl' = (IF mode.rx THEN k + 1 ELSE 0)
                  /\ txl' = (IF mode.tx THEN k + 1 ELSE 0)
                  /\ Res(TRUE)
             ELSE /\ objs' = AllClosed \o (IF mode.rx THEN <<Mk("rx")>> ELSE <<>>) \o (IF mode.tx THEN <<Mk("tx")>> ELSE <<>>)
                  /\ rxl' = (IF mode.rx THEN k + 1 ELSE 0)
                  /\ txl' = (IF mode.tx THEN (IF mode.rx THEN k + 2 ELSE k + 1) ELSE 0)
                  /\ Res(TRUE)
    /\ lastopen' = clock
    /\ UNCHANGED <<mode, clock, hist>>

Close == /\ objs' = AllClosed /\ rxl' = 0 /\ txl' = 0
         /\ Res("none")
         /\ UNCHANGED <<mode, cur, clock, lastopen, hist>>

\* writeRx(sa, data): one record appended to the open rx log; nothing happens when there is none
WriteRx(a, x) ==
    /\ Len(hist) < MaxWrites
    /\ IF mode.rx /\ rxl # 0
       THEN /\ objs' = [objs EXCEPT ![rxl].recs = Append(@, <<"RX", a, x>>)]
            /\ hist' = Append(hist, <<"RX", a, x, rxl>>)
       ELSE UNCHANGED <<objs, hist>>
    /\ UNCHANGED <<rxl, txl>>
    /\ Res("none")
    /\ UNCHANGED <<mode, cur, clock, lastopen>>

\* writeTx(da, data)
WriteTx(a, x) ==
    /\ Len(hist) < MaxWrites
    /\ IF mode.tx /\ txl # 0
       THEN /\ objs' = [objs EXCEPT ![txl].recs = Append(@, <<"TX", a, x>>)]
            /\ hist' = Append(hist, <<"TX", a, x, txl>>)
       ELSE UNCHANGED <<objs, hist>>
    /\ UNCHANGED <<rxl, txl>>
    /\ Res("none")
    /\ UNCHANGED <<mode, cur, clock, lastopen>>

Next == \/ Tick
        \/ \E d \in DirArgs, p \in PreArgs, m \in MidArgs : Reopen(d, p, m)
        \/ Close
        \/ \E a \in Addrs, x \in Datas : WriteRx(a, x)
        \/ \E a \in Addrs, x \in Datas : WriteTx(a, x)
Spec == Init /\ [][Next]_vars

(* ------------------------------- properties ------------------------------- *)
Idx == DOMAIN objs
IsPrefix(s, t) == Len(s) <= Len(t) /\ \A i \in 1..Len(s) : s[i] = t[i]

TypeOK == /\ rxl \in 0..Len(objs) /\ txl \in 0..Len(objs)
          /\ \A i \in Idx : objs[i].open \in BOOLEAN /\ objs[i].file \in BOOLEAN

\* the log handles are what the configuration says: only wanted directions, one shared object exactly when `same`
OnlyWanted == (~mode.rx => rxl = 0) /\ (~mode.tx => txl = 0)
SameShares == (rxl # 0 /\ txl # 0) => ((rxl = txl) <=> mode.same)
\* a handle points to an open object and every open object is reachable through a handle (close() closes everything)
HandlesOpen == /\ (rxl # 0 => objs[rxl].open) /\ (txl # 0 => objs[txl].open)
               /\ \A i \in Idx : objs[i].open => i \in {rxl, txl}
\* buffify: nothing ever goes to a file; otherwise everything does
Medium == \A i \in Idx : objs[i].file = ~mode.buf
\* files of different reopens / directions never share a name; the name says which direction the file holds
DistinctFiles == \A i, j \in Idx : (i # j /\ objs[i].file /\ objs[j].file) => objs[i].key # objs[j].key
Kinds == /\ (rxl # 0 /\ objs[rxl].file) => objs[rxl].key.kind = (IF mode.same THEN "" ELSE "rx")
         /\ (txl # 0 /\ objs[txl].file) => objs[txl].key.kind = (IF mode.same THEN "" ELSE "tx")
\* a log holds exactly what was written to it, in call order (rx and tx interleaved in call order in a shared log)
ExactLog == \A i \in Idx :
               LET mine == SelectSeq(hist, LAMBDA h : h[4] = i)
               IN objs[i].recs = [j \in 1..Len(mine) |-> <<mine[j][1], mine[j][2], mine[j][3]>>]
\* separate logs hold one direction only
Separated == ~mode.same => \A i \in Idx : \A j \in 1..Len(objs[i].recs) :
                               objs[i].recs[j][1] = (IF objs[i].file THEN (IF objs[i].key.kind = "rx" THEN "RX" ELSE "TX")
                                                     ELSE objs[i].recs[1][1])
\* getRx / getTx answer None unless buffify and the log is open
GetOnlyBuffers == (~mode.buf => res.grx = <<"none">> /\ res.gtx = <<"none">>)

\* a closed log never changes again and is never reopened; logs are append-only; a write changes at most one log
ClosedIsFinal == [][\A i \in Idx : ~objs[i].open => objs'[i] = objs[i]]_vars
AppendOnly == [][\A i \in Idx : IsPrefix(objs[i].recs, objs'[i].recs)]_vars
NothingWhenClosed == [][(rxl = 0 /\ txl = 0 /\ rxl' = 0 /\ txl' = 0) => \A i \in Idx : objs'[i].recs = objs[i].recs]_vars
=============================================================================
