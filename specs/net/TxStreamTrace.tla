---------------------------- MODULE TxStreamTrace ----------------------------
(* Binding B for TxStream.tla: a recorded execution of a real transport over a scripted socket  *)
(* double (seeded random answers) is a sequence of events                                       *)
(*   {"ev": action, "m": message | "s": answers the double gave during the call | "c","h",      *)
(*    "txes": queue after the call, "sent"/"wl"/"rl"/"dl": what the call added to the bytes      *)
(*    accepted by the socket / to the wire log (tx, rx) / to the bytes handed out by the socket, *)
(*    "rxbs": receive buffer after the call, "cutoff", "connected", "accepted", "res",           *)
(*    "intact": the buffers handed to tx() so far still hold what the caller put in them}        *)
(* preceded by a header event {"ev": "Init", "flavor": transport class}.                        *)
EXTENDS TxStream, TraceBatch

VARIABLES tid, l
tvars == <<vars, tid, l>>

Ev == EvAt(tid, l)

TraceInit == /\ tid \in 1..NTraces
             /\ l = 2
             /\ Init
             /\ flavor = EvAt(tid, 1).flavor

\* what the real object showed after the call must be exactly what the specification's action yields
\* (Ev.intact: no buffer the caller handed to tx() was modified by the transport)
Logged == /\ txes' = Ev.txes
          /\ Ev.intact
          /\ wire' = wire \o Ev.sent
          /\ rxbs' = Ev.rxbs
          /\ delivered' = delivered \o Ev.dl
          /\ res' = Ev.res
          /\ IsSerial \/ (wlog' = wlog \o Ev.wl /\ rlog' = rlog \o Ev.rl /\ cutoff' = Ev.cutoff)
          /\ IsClient => (connected' = Ev.connected /\ accepted' = Ev.accepted)

Consume(name) == l <= TraceLen(tid) /\ Ev.ev = name /\ l' = l + 1 /\ UNCHANGED tid

TraceNext ==
    \/ Consume("Queue") /\ Queue(Ev.m) /\ Logged
    \/ Consume("ServiceTx") /\ ServiceTx(Ev.s) /\ Logged
    \/ Consume("ServiceTxOnce") /\ ServiceTxOnce(Ev.s) /\ Logged
    \/ Consume("ServiceRx") /\ ServiceRx(Ev.s) /\ Logged
    \/ Consume("ServiceRxOnce") /\ ServiceRxOnce(Ev.s) /\ Logged
    \/ Consume("Cat") /\ Cat /\ Logged
    \/ Consume("Clear") /\ Clear /\ Logged
    \/ Consume("Connect") /\ Connect(Ev.c, Ev.h) /\ Logged

TraceSpec == TraceInit /\ [][TraceNext]_tvars
TraceOK == TraceConstraint(tid, l)
=============================================================================
