\* default configuration for manual runs; vf/families/idle.py generates its configurations
SPECIFICATION Spec
CONSTANTS
  NConns = 1
  Timeout = 2
  MaxAdv = 2
  MaxFrag = 1
  MaxReq = 2
  MaxSteps = 0
  Bodies = TRUE
  Porter = FALSE
INVARIANT TypeOK
INVARIANT PersistentNeverIdleDropped
INVARIANT ClosedForAReason
INVARIANT HeadOfPersistentExempts
PROPERTY NoEarlyDrop
PROPERTY ActivityRestarts
CHECK_DEADLOCK FALSE
