------------------------------- MODULE SockErr -------------------------------
(* Classification of transport errors (property C25) for the stream transports tcp.Client,      *)
(* ClientTls, Incomer, IncomerTls, the datagram socket udp.SocketUdpNb and the datagram stack   *)
(* proto.UdpStack (GramStack).  The expected-effect table is the property statement:            *)
(*   - a connection-loss error (reset, network / host unreachable or down, timed out, refused,  *)
(*     TLS EOF) marks the connection cut off and yields no data, without raising;               *)
(*   - a would-block result never changes connection state (flags, and the socket itself: a     *)
(*     connect that is still pending keeps its socket);                                         *)
(*   - any other error propagates;                                                              *)
(*   - datagram stacks treat transient destination errors on send and receive as retryable.     *)
(* together with the docstrings: receive "If no data then returns None.  If connection closed   *)
(* then returns empty"; send "Return number of bytes sent"; connect "Returns True if successful *)
(* False if not so try again later"; udp receive "if no data then returns (b'', None)".          *)
(*                                                                                              *)
(* Action Fail(op, via, e): socket operation op, reached through entry point via, fails with    *)
(* error e.  Action Ok(op, via): it succeeds (2 bytes / 1 datagram sent, 1 byte / 1 datagram    *)
(* received).  Behaviours are sequences of up to MaxSteps such steps, so the complete graph is  *)
(* the table (class x operation x entry point x error) and all sequences of MaxSteps steps.     *)
EXTENDS Integers, Sequences, TLC

CONSTANTS Classes,   \* subset of {"client", "clienttls", "incomer", "incomertls", "udp", "udpstack"}
          MaxSteps

VARIABLES cls,        \* transport class (fixed)
          accepted,   \* TCP connection established (clients; TRUE otherwise)
          connected,  \* usable: plain = accepted, TLS = handshake done, datagram = socket open
          cutoff,     \* connection marked cut off
          txq,        \* messages / packets waiting to be sent
          wire,       \* bytes / datagrams the socket accepted
          rxn,        \* bytes in the receive buffer / packets received
          gen,        \* how many times the transport replaced its socket by a fresh one (reopen)
          live,       \* the transport holds an open socket
          res,        \* result of the last operation
          act,        \* the last step
          n           \* steps so far
vars == <<cls, accepted, connected, cutoff, txq, wire, rxn, gen, live, res, act, n>>

Loss == {"ECONNRESET", "ENETRESET", "ENETUNREACH", "EHOSTUNREACH", "ENETDOWN", "EHOSTDOWN", "ETIMEDOUT", "ECONNREFUSED"}
TlsEof == {"TLSEOF"}
Block == {"EAGAIN", "EWOULDBLOCK"}
TlsBlock == {"WANTREAD", "WANTWRITE"}
\* connect_ex codes meaning "not yet": the first call of a nonblocking connect answers EINPROGRESS, every later call on
\* the same socket EALREADY while the connection is still being established (EAGAIN = EWOULDBLOCK on some platforms)
ConnBlock == {"EINPROGRESS", "EALREADY", "EWOULDBLOCK", "EAGAIN"}
\* connect_ex codes meaning "server not listening": Client.accept "must reopen" its socket and try again later
ConnRefused == {"EINVAL", "ECONNREFUSED"}
Other == {"EPIPE", "EBADF", "ENOMEM", "EINVAL"}

IsTls == cls \in {"clienttls", "incomertls"}
IsClient == cls \in {"client", "clienttls"}
IsStream == cls \in {"client", "clienttls", "incomer", "incomertls"}
IsGram == cls \in {"udp", "udpstack"}

\* the error class of e for socket operation op on this transport class; "na" = the statement says nothing
Kind(op, via, e) ==
    CASE op = "connect" /\ via = "rc" -> IF e \in ConnBlock THEN "block" ELSE IF e \in ConnRefused THEN "refused"
                                         ELSE IF e \in Loss THEN "loss" ELSE "na"
      [] op = "connect" /\ via = "raise" -> IF e \in Other THEN "other" ELSE "na"
      [] op = "handshake" -> IF e \in TlsBlock THEN "block" ELSE IF e \in Loss \cup TlsEof THEN "loss"
                             ELSE IF e \in Other THEN "other" ELSE "na"
      [] op \in {"send", "recv"} ->
             IF IsTls THEN (IF e \in TlsBlock THEN "block" ELSE IF e \in Loss \cup TlsEof THEN "loss"
                            ELSE IF e \in Other THEN "other" ELSE "na")
             ELSE (IF e \in Block THEN "block" ELSE IF e \in Loss THEN "loss" ELSE IF e \in Other THEN "other" ELSE "na")
      [] op = "recvfrom" -> IF e \in Block THEN "block"
                            ELSE IF e \in Loss THEN (IF cls = "udpstack" THEN "loss" ELSE "na")
                            ELSE IF e \in Other THEN "other" ELSE "na"
      [] op = "sendto" -> IF e \in Loss THEN (IF cls = "udpstack" THEN "loss" ELSE "na")
                          ELSE IF e \in Other THEN "other" ELSE "na"
      [] OTHER -> "na"

Errors == Loss \cup TlsEof \cup Block \cup TlsBlock \cup ConnBlock \cup Other

\* entry points through which the code under test reaches each socket operation
Vias(op) ==
    CASE op \in {"send", "recv"} -> IF op = "send" THEN {"direct", "service"} ELSE {"direct", "service", "once"}
      [] op = "connect" -> {"rc", "raise", "isconn"}
      [] op = "handshake" -> {"service"}
      [] op \in {"sendto", "recvfrom"} -> IF cls = "udp" THEN {"direct"} ELSE {"service", "once"}
      [] OTHER -> {}
Ops == IF IsStream THEN {"send", "recv", "connect", "handshake"} ELSE {"sendto", "recvfrom"}

\* does the entry point reach the socket in this state? (service loops do nothing when cut off / not connected / idle)
Reaches(op, via) ==
    CASE op = "send" /\ via = "direct" -> connected
      [] op = "send" /\ via = "service" -> connected /\ ~cutoff /\ txq > 0
      [] op = "recv" /\ via = "direct" -> connected
      [] op = "recv" -> connected /\ ~cutoff
      [] op = "connect" -> IsClient /\ ~accepted
      [] op = "handshake" -> IsTls /\ accepted /\ ~connected
      [] op = "sendto" /\ cls = "udp" -> TRUE
      [] op = "sendto" -> txq > 0
      [] op = "recvfrom" -> TRUE
      [] OTHER -> FALSE

None == [t |-> "none"]
Num(v) == [t |-> "int", v |-> v]
Bool(b) == [t |-> "bool", v |-> b]
EmptyBytes == [t |-> "bytes", v |-> 0]
Bytes(k) == [t |-> "bytes", v |-> k]
NoDgram == [t |-> "dgram", v |-> 0]
Dgram(k) == [t |-> "dgram", v |-> k]
Raise(e) == [t |-> "raise", e |-> e]
Act(a, op, via, e) == [a |-> a, op |-> op, via |-> via, e |-> e]

Init == /\ cls \in Classes
        /\ \E a \in BOOLEAN, c \in BOOLEAN :
              /\ accepted = a /\ connected = c
              /\ CASE cls = "client" -> a = c
                   [] cls = "clienttls" -> c => a
                   [] cls = "incomer" -> a /\ c
                   [] cls = "incomertls" -> a
                   [] OTHER -> a /\ c
        /\ cutoff = FALSE /\ txq = 1 /\ wire = 0 /\ rxn = 0 /\ gen = 0 /\ live = TRUE
        /\ res = None /\ act = Act("Init", "", "", "") /\ n = 0

\* last: the behaviour ends here (what happens after an exception propagated, or after a failed connection attempt
\* left the transport in a state the statement does not describe, is outside the property)
Step(a, op, via, e, last) == act' = Act(a, op, via, e) /\ n' = (IF last THEN MaxSteps ELSE n + 1) /\ UNCHANGED cls

\* value a *direct* call returns when the operation yields nothing
Nothing(op) == CASE op = "send" -> Num(0) [] op = "recv" -> None [] op = "recvfrom" -> NoDgram [] OTHER -> None

Fail(op, via, e) ==
    /\ op \in Ops /\ via \in Vias(op) /\ Reaches(op, via)
    /\ LET k == Kind(op, via, e) IN
       /\ k # "na"
       /\ via # "isconn"
       /\ Step("Fail", op, via, e, k = "other" \/ (k = "loss" /\ op \in {"connect", "handshake"}))
       /\ CASE k = "block" ->      \* would-block never changes connection state: same flags, same open socket
                 /\ UNCHANGED <<accepted, connected, cutoff, txq, wire, rxn, gen, live>>
                 /\ res' = IF op \in {"connect", "handshake"} THEN Bool(FALSE)
                           ELSE IF via = "direct" THEN Nothing(op) ELSE None
            [] k = "refused" ->     \* server not listening: not connected, the socket is replaced by a fresh one; no exception
                 /\ connected' = FALSE /\ accepted' = FALSE /\ gen' = gen + 1 /\ live' = TRUE
                 /\ UNCHANGED <<cutoff, txq, wire, rxn>>
                 /\ res' = Bool(FALSE)
            [] k = "loss" /\ op \in {"send", "recv"} ->     \* cut off, no data, no exception, nothing lost from the queue
                 /\ cutoff' = TRUE
                 /\ UNCHANGED <<accepted, connected, txq, wire, rxn, gen, live>>
                 /\ res' = IF via = "direct" THEN (IF op = "send" THEN Num(0) ELSE EmptyBytes) ELSE None
            [] k = "loss" /\ op = "connect" ->   \* not connected, try again later; no exception
                 /\ connected' = FALSE
                 /\ UNCHANGED <<accepted, cutoff, txq, wire, rxn, gen, live>>     \* accepted, cutoff, socket: not specified, not compared
                 /\ res' = Bool(FALSE)
            [] k = "loss" /\ op = "handshake" ->   \* the connection is marked cut off; not connected; no exception
                 /\ connected' = FALSE /\ cutoff' = TRUE
                 /\ UNCHANGED <<accepted, txq, wire, rxn, gen, live>>  \* accepted, socket: not specified, not compared
                 /\ res' = Bool(FALSE)
            [] k = "loss" /\ op \in {"sendto", "recvfrom"} ->     \* retryable: the packet stays queued / nothing is reported
                 /\ UNCHANGED <<accepted, connected, cutoff, txq, wire, rxn, gen, live>>
                 /\ res' = None
            [] k = "other" ->       \* propagates; what state is left behind is not specified
                 /\ res' = Raise(e)
                 /\ UNCHANGED <<accepted, connected, cutoff, txq, wire, rxn, gen, live>>    \* not specified, not compared

Ok(op, via) ==
    /\ op \in Ops /\ via \in Vias(op) /\ via # "raise" /\ Reaches(op, via)
    /\ Step("Ok", op, via, "", FALSE)
    /\ UNCHANGED <<gen, live>>
    /\ CASE op = "send" /\ via = "direct" -> res' = Num(2) /\ wire' = wire + 2 /\ UNCHANGED <<accepted, connected, cutoff, txq, rxn>>
         [] op = "send" -> res' = None /\ wire' = wire + 2 /\ txq' = txq - 1 /\ UNCHANGED <<accepted, connected, cutoff, rxn>>
         [] op = "recv" /\ via = "direct" -> res' = Bytes(1) /\ UNCHANGED <<accepted, connected, cutoff, txq, wire, rxn>>
         [] op = "recv" -> res' = None /\ rxn' = rxn + 1 /\ UNCHANGED <<accepted, connected, cutoff, txq, wire>>
         [] op = "connect" -> /\ accepted' = TRUE /\ connected' = ~IsTls /\ res' = Bool(~IsTls)
                              /\ cutoff' = FALSE /\ UNCHANGED <<txq, wire, rxn>>
         [] op = "handshake" -> connected' = TRUE /\ res' = Bool(TRUE) /\ UNCHANGED <<accepted, cutoff, txq, wire, rxn>>
         [] op = "sendto" /\ via = "direct" -> res' = Num(2) /\ wire' = wire + 1 /\ UNCHANGED <<accepted, connected, cutoff, txq, rxn>>
         [] op = "sendto" -> res' = None /\ wire' = wire + 1 /\ txq' = txq - 1 /\ UNCHANGED <<accepted, connected, cutoff, rxn>>
         [] op = "recvfrom" /\ via = "direct" -> res' = Dgram(1) /\ UNCHANGED <<accepted, connected, cutoff, txq, wire, rxn>>
         [] op = "recvfrom" -> res' = None /\ rxn' = rxn + 1 /\ UNCHANGED <<accepted, connected, cutoff, txq, wire>>

AllOps == {"send", "recv", "connect", "handshake", "sendto", "recvfrom"}
AllVias == {"direct", "service", "once", "rc", "raise", "isconn"}
Next == /\ n < MaxSteps
        /\ \/ \E op \in AllOps, via \in AllVias, e \in Errors : Fail(op, via, e)
           \/ \E op \in AllOps, via \in AllVias : Ok(op, via)
Spec == Init /\ [][Next]_vars

(* ---------------- the property, as statements about the table ---------------- *)
LastKind == Kind(act.op, act.via, act.e)
\* connection loss on a stream transport: cut off, no data, no exception
LossCutsOff == (act.a = "Fail" /\ LastKind = "loss" /\ act.op \in {"send", "recv", "handshake"}) =>
                   (cutoff /\ res.t # "raise" /\ (res.t \in {"int", "bytes"} => res.v = 0))
\* connection loss never raises, whatever the operation
LossNeverRaises == (act.a = "Fail" /\ LastKind = "loss") => res.t # "raise"
\* would-block never changes connection state, never raises
BlockKeepsState == [][(act'.a = "Fail" /\ Kind(act'.op, act'.via, act'.e) = "block") =>
                        (cutoff' = cutoff /\ connected' = connected /\ accepted' = accepted /\ txq' = txq /\ wire' = wire
                         /\ gen' = gen /\ live' = live
                         /\ rxn' = rxn /\ res'.t # "raise")]_vars
\* any other error propagates - and only those
OtherPropagates == (act.a = "Fail") => (res.t = "raise" <=> LastKind = "other")
\* a refused connect (server not listening) replaces the socket and stays unconnected, without raising
RefusedReopens == [][(act'.a = "Fail" /\ Kind(act'.op, act'.via, act'.e) = "refused") =>
                       (gen' = gen + 1 /\ live' /\ ~connected' /\ ~accepted' /\ res'.t # "raise")]_vars
\* datagram stacks: a transient destination error keeps the packet queued and reports nothing
DatagramRetry == [][(act'.a = "Fail" /\ cls = "udpstack" /\ Kind(act'.op, act'.via, act'.e) = "loss") =>
                      (txq' = txq /\ wire' = wire /\ rxn' = rxn /\ res'.t # "raise")]_vars
=============================================================================
