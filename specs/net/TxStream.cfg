SPECIFICATION Spec
CONSTANTS
  Flavor = "client"
  MaxMsgs = 2
  MaxLen = 2
  MaxRx = 3
  MaxChunks = 2
INVARIANT Conservation
INVARIANT WlogEqualsWire
INVARIANT RxInOrder
INVARIANT NoEmptyResidue
INVARIANT NoTxBeforeConnect
PROPERTY CutoffStops
