----------------------------- MODULE ConnServer -----------------------------
(* Establishment of the server side connections of tcp.Server / tcp.ServerTls (extra check     *)
(* X-tlsconn): each connection is a small state machine                                         *)
(*    new -> waiting (at the listen socket) -> shaking (accepted, TLS handshake pending)        *)
(*        -> ready (in the table of usable connections) -> removed                              *)
(*    shaking -> lost (connection lost during the handshake) | failed (handshake failed)        *)
(* From the docstrings of ioflo/aio/tcp/serving.py:                                             *)
(*   serviceAxes     "For each newly accepted connection in .axes create Incomer and add to     *)
(*                    .ixes keyed by ca"; TLS: "create IncomerTLS and add to .cxes.  Not         *)
(*                    Handshaked"                                                                *)
(*   serviceCxes     "Service handshakes for every incomer in .cxes.  If successful move to     *)
(*                    .ixes"                                                                     *)
(*   serviceConnects "Service accept and handshake attempts ... For each successful handshaked  *)
(*                    add to .ixes"                                                              *)
(*   handshake       "Attempt nonblocking ssl handshake.  Returns True if successful.  Returns  *)
(*                    False if not so try again later"                                          *)
(*   .ixes           "ready to rx tx incoming connections"; .cxes "accepted incoming            *)
(*                    connections" (handshake pending)                                           *)
(*   transmitIx / closeIx / removeIx(ca)  act on "incomer given by connection address ca" and   *)
(*                    raise ValueError("Invalid connection address") for an address that has no *)
(*                    ready connection                                                           *)
(*   serviceReceivesAllIx / serviceTxesAllIx  "for all incomers in .ixes"                       *)
(*   closeAll        "Close all sockets"                                                        *)
(* from the statement of C25 (a connection lost during an operation is cut off without raising, *)
(* any other error propagates) and from the statement of this extra:                            *)
(*   - no application byte is sent or received on a connection before it is ready (TLS: before  *)
(*     its handshake completed);                                                                 *)
(*   - a pending handshake never blocks other connections;                                       *)
(*   - a lost or failed handshake removes exactly its own entry (and closes its socket), in the *)
(*     call that meets it, and later calls are not affected by it.                              *)
(*                                                                                              *)
(* Every connection comes from its own peer address (repeated addresses are the subject of C26).*)
(* The answers of the TLS layer are the environment: ServiceConnects(h, served) takes the       *)
(* answer h[i] to the handshake of every connection i that can be shaken in this call           *)
(*   "ok" | "want" (not yet) | "lost" (connection lost) | "fatal" (handshake failed: the error  *)
(*   propagates out of the call) | "na" (no handshake)                                          *)
(* and served, the connections whose handshake was actually attempted: all of them, unless an   *)
(* error propagated - then the documentation does not say which of the others were still        *)
(* reached (exactly one failing handshake was).                                                 *)
EXTENDS Integers, FiniteSets, TLC

CONSTANTS Kinds,   \* subset of {"plain", "tls"}
          N,       \* connections arriving during a behaviour
          Anss,    \* handshake answers explored (subset of {"ok", "want", "lost", "fatal"})
          MaxQ     \* messages queued per connection during a behaviour

Conns == 1..N
VARIABLES kind,        \* "plain": Server, "tls": ServerTls (fixed)
          st,          \* connection -> "new" | "waiting" | "shaking" | "ready" | "lost" | "failed" | "removed"
          closed,      \* connections whose socket the server closed
          peerclosed,  \* ready connections whose peer closed
          cut,         \* ready connections the server has seen to be cut off
          txq,         \* connection -> messages queued and not sent yet
          sent,        \* connection -> messages the socket accepted
          over,        \* closeAll() was called (the behaviour ends there)
          res,         \* "none" | "served" | "ok" | "ValueError" | "raise"
          hsd,         \* connections whose handshake was attempted during the last step
          io           \* connections whose socket was asked to send or receive during the last step
vars == <<kind, st, closed, peerclosed, cut, txq, sent, over, res, hsd, io>>

Ans == {"ok", "want", "lost", "fatal", "na"}
ASSUME Anss \subseteq Ans \ {"na"} /\ Kinds \subseteq {"plain", "tls"}
NoH == [i \in Conns |-> "na"]
In(s) == {i \in Conns : st[i] = s}

Init == /\ kind \in Kinds
        /\ st = [i \in Conns |-> "new"]
        /\ closed = {} /\ peerclosed = {} /\ cut = {}
        /\ txq = [i \in Conns |-> 0] /\ sent = [i \in Conns |-> 0]
        /\ over = FALSE /\ res = "none" /\ hsd = {} /\ io = {}

Env == res' = "none" /\ hsd' = {} /\ io' = {}

(* ---------------- environment ---------------- *)
\* the next connection arrives at the listen socket
Arrive(i) == /\ ~over /\ st[i] = "new" /\ \A j \in Conns : j < i => st[j] # "new"
             /\ st' = [st EXCEPT ![i] = "waiting"]
             /\ Env /\ UNCHANGED <<kind, closed, peerclosed, cut, txq, sent, over>>

\* the peer of a ready connection closes it
PeerClose(i) == /\ ~over /\ st[i] = "ready" /\ i \notin peerclosed /\ i \notin closed
                /\ peerclosed' = peerclosed \cup {i}
                /\ Env /\ UNCHANGED <<kind, st, closed, cut, txq, sent, over>>

(* ---------------- serviceConnects ---------------- *)
ServiceConnects(h, served) ==
    /\ ~over
    /\ IF kind = "plain"
       THEN \* accepted connections are ready at once
            /\ h = NoH /\ served = {}
            /\ st' = [i \in Conns |-> IF st[i] = "waiting" THEN "ready" ELSE st[i]]
            /\ res' = "served"
            /\ UNCHANGED closed
       ELSE LET C == In("waiting") \cup In("shaking")      \* every one of them can be shaken in this call
                F == {i \in C : h[i] = "fatal"} IN
            /\ \A i \in Conns : IF i \in C THEN h[i] \in Anss ELSE h[i] = "na"
            /\ IF F = {} THEN served = C ELSE (served \subseteq C /\ Cardinality(served \cap F) = 1)
            /\ st' = [i \in Conns |->
                        IF i \in served
                        THEN CASE h[i] = "ok" -> "ready" [] h[i] = "want" -> "shaking" [] h[i] = "lost" -> "lost" [] OTHER -> "failed"
                        ELSE IF st[i] = "waiting" THEN "shaking" ELSE st[i]]
            /\ closed' = closed \cup {i \in served : h[i] \in {"lost", "fatal"}}
            /\ res' = IF F = {} THEN "served" ELSE "raise"
    /\ hsd' = served /\ io' = {}
    /\ UNCHANGED <<kind, peerclosed, cut, txq, sent, over>>

(* ---------------- application data ---------------- *)
\* transmitIx(data, ca)
Transmit(i) ==
    /\ ~over
    /\ IF st[i] = "ready"
       THEN /\ txq[i] + sent[i] < MaxQ
            /\ txq' = [txq EXCEPT ![i] = @ + 1] /\ res' = "ok"
       ELSE /\ res' = "ValueError" /\ UNCHANGED txq
    /\ hsd' = {} /\ io' = {}
    /\ UNCHANGED <<kind, st, closed, peerclosed, cut, sent, over>>

\* serviceReceivesAllIx() then serviceTxesAllIx(): only ready connections that are not cut off are touched.  (What
\* servicing does to an entry whose socket the application closed with closeIx but left in the table is not documented:
\* the model does not take this step then.)
ServiceIo ==
    /\ ~over /\ \A i \in Conns : st[i] = "ready" => i \notin closed
    /\ LET R == {i \in Conns : st[i] = "ready" /\ i \notin cut}
           S == R \ peerclosed IN
       /\ io' = R
       /\ cut' = cut \cup (R \cap peerclosed)
       /\ sent' = [i \in Conns |-> IF i \in S THEN sent[i] + txq[i] ELSE sent[i]]
       /\ txq' = [i \in Conns |-> IF i \in S THEN 0 ELSE txq[i]]
    /\ res' = "served" /\ hsd' = {}
    /\ UNCHANGED <<kind, st, closed, peerclosed, over>>

(* ---------------- operations on entries ---------------- *)
Invalid == res' = "ValueError" /\ UNCHANGED <<st, closed>>
CloseIx(i) == /\ ~over
              /\ IF st[i] = "ready" THEN closed' = closed \cup {i} /\ res' = "ok" /\ UNCHANGED st ELSE Invalid
              /\ hsd' = {} /\ io' = {}
              /\ UNCHANGED <<kind, peerclosed, cut, txq, sent, over>>
RemoveIx(i) == /\ ~over
               /\ IF st[i] = "ready" THEN closed' = closed \cup {i} /\ st' = [st EXCEPT ![i] = "removed"] /\ res' = "ok" ELSE Invalid
               /\ hsd' = {} /\ io' = {}
               /\ UNCHANGED <<kind, peerclosed, cut, txq, sent, over>>

\* closeAll(): "Close all sockets": the listen socket and every accepted connection, ready or not
CloseAll == /\ ~over /\ over' = TRUE
            /\ closed' = closed \cup In("shaking") \cup In("ready")
            /\ res' = "ok" /\ hsd' = {} /\ io' = {}
            /\ UNCHANGED <<kind, st, peerclosed, cut, txq, sent>>

Next == \/ \E i \in Conns : Arrive(i)
        \/ \E i \in Conns : PeerClose(i)
        \/ \E h \in [Conns -> Ans], served \in SUBSET Conns : ServiceConnects(h, served)
        \/ \E i \in Conns : Transmit(i)
        \/ ServiceIo
        \/ \E i \in Conns : CloseIx(i)
        \/ \E i \in Conns : RemoveIx(i)
        \/ CloseAll
Spec == Init /\ [][Next]_vars

(* ---------------- properties ---------------- *)
TypeOK == /\ st \in [Conns -> {"new", "waiting", "shaking", "ready", "lost", "failed", "removed"}]
          /\ closed \subseteq Conns /\ cut \subseteq Conns /\ hsd \subseteq Conns /\ io \subseteq Conns
\* no application byte before the connection is ready
NoIoBeforeReady == /\ io \subseteq In("ready")
                   /\ \A i \in Conns : (txq[i] + sent[i] > 0) => st[i] \in {"ready", "removed"}
\* a pending handshake never blocks another connection: in a call that returns normally every connection whose handshake
\* is answered "ok" becomes ready, whatever the others answer
PendingNeverBlocks == [][(res' = "served" /\ hsd' # {}) => \A i \in hsd' : st'[i] \in {"ready", "shaking", "lost"}]_vars
\* an error propagates only out of a call that met a failing handshake, and that call drops exactly that connection
OnlyOwnEntry == [][/\ (res' = "raise") <=> (In("failed")' # In("failed"))
                   /\ Cardinality(In("failed")' \ In("failed")) <= 1
                   /\ \A i \in Conns : (st[i] = "ready" /\ st'[i] # "ready") => st'[i] = "removed"]_vars
\* sockets: what the server dropped it closed; what it has not accepted or still serves it has not closed by itself
ClosedConsistent == /\ In("lost") \cup In("failed") \cup In("removed") \subseteq closed
                    /\ (In("new") \cup In("waiting")) \cap closed = {}
                    /\ ~over => In("shaking") \cap closed = {}
AllClosedWhenOver == over => (In("shaking") \cup In("ready")) \subseteq closed
=============================================================================
