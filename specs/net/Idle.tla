-------------------------------- MODULE Idle --------------------------------
(* Idle timeouts of server side HTTP connections: http.Valet over tcp.Server / tcp.ServerTls   *)
(* and their Incomer / IncomerTls connections (property C28).                                  *)
(*                                                                                              *)
(* From the docstrings:                                                                         *)
(*   Valet(timeout = "timeout in seconds for dropping idle connections", store = "Datastore     *)
(*         for timers")                                                                         *)
(*   Valet.serviceConnects  "Service new incoming connections.  Create requestants.  Timeout    *)
(*                           stale connections"                                                 *)
(*   Incomer(timeout = "timeout for .timer", refreshable = "True if tx/rx activity refreshes    *)
(*           timer"), refresh "Restart timer"                                                   *)
(*   Requestant.checkPersisted "Checks headers to determine if connection should be kept open   *)
(*                           until client closes it"; "override timeout so server never         *)
(*                           timesout"                                                          *)
(* and the property statement: a connection is closed for idleness only after no bytes were     *)
(* sent or received on it for at least the timeout, plain and TLS alike; activity always        *)
(* restarts the idle period; connections kept alive by HTTP persistence are not dropped by the  *)
(* idle timer.                                                                                  *)
(*                                                                                              *)
(* Time is counted in quanta; idle[c] is the time since the server last received or sent a byte *)
(* on connection c (or accepted it), saturating at Timeout.  Environment: connections arrive,   *)
(* the peer sends a fragment of a request ("frag": bytes, but no complete request), a complete  *)
(* persistent request ("P": HTTP/1.1) or a complete non persistent one ("N": Connection: close),*)
(* or the first request in pieces: its head announcing a body, later parts / the rest of the   *)
(* body, with the clock free to advance in between;                                             *)
(* the peer closes; the clock advances; the socket takes all, some or none of the bytes queued  *)
(* (b); the application yields a piece of the response body, an empty piece (nothing to send    *)
(* yet) or ends the response (y).  The server's steps are the public service methods of Valet:  *)
(* serviceConnects, receiving + serviceReqs, serviceReps, transmitting, and serviceAll (= the   *)
(* four in this order).  When a finished non persistent connection is closed is not specified   *)
(* beyond "after its response": the implementation chooses the call (z).                        *)
EXTENDS Integers, Sequences, FiniteSets, TLC

CONSTANTS NConns,     \* connections 1..NConns
          Timeout,    \* idle timeout in quanta (0: none)
          MaxAdv,     \* the clock advances by 1..MaxAdv
          MaxFrag,    \* request fragments a peer sends per connection
          MaxReq,     \* complete requests a peer sends per connection
          MaxSteps,   \* length of a behaviour (0: unbounded)
          Bodies,     \* BOOLEAN: the first request of a connection may carry a body that arrives after its head
          Porter      \* BOOLEAN: the server is http.Porter (answers a request at once with a complete response) instead of
                      \* http.Valet; only persistent requests and no peer close are explored then (what Porter does with a
                      \* finished non persistent or a cut off connection is not part of this property)

Conns == 1..NConns

VARIABLES st,      \* "none" | "wait" (at the listening socket) | "open" | "closed"
          idle,    \* time since the last byte received / sent (or since it was accepted)
          pers,    \* a persistent request has been parsed on the connection: no idle timeout any more
          cur,     \* "P" / "N": kind of the request being answered; "-" none yet
          inb,     \* unread input at the socket: "none" | "frag" | "P" | "N" | "headP" | "headN" | "bpart" | "body"
          eof,     \* the peer has closed
          cut,     \* the server has noticed that the peer closed
          nfrag, nreq,   \* fragments / requests sent by the peer so far
          owed,    \* peer side: "P" / "N": the head of such a request was sent and its body is not complete yet; "-"
          nbp,     \* peer side: partial body pieces sent
          half,    \* server side: "P" / "N": the head of such a request has been received, the body has not; "-"
          resp,    \* "none" | "active" (the application is producing the response) | "ended"
          out,     \* response bytes are queued on the connection
          why,     \* why the server closed it: "-" | "idle" | "done" | "cut"
          steps
vars == <<st, idle, pers, cur, inb, eof, cut, nfrag, nreq, owed, nbp, half, resp, out, why, steps>>

Min(a, b) == IF a < b THEN a ELSE b
Tick == steps' = IF MaxSteps = 0 THEN 0 ELSE steps + 1
More == MaxSteps = 0 \/ steps < MaxSteps

Init == /\ st = [c \in Conns |-> "none"] /\ idle = [c \in Conns |-> 0] /\ pers = [c \in Conns |-> FALSE]
        /\ cur = [c \in Conns |-> "-"] /\ inb = [c \in Conns |-> "none"] /\ eof = [c \in Conns |-> FALSE]
        /\ cut = [c \in Conns |-> FALSE] /\ nfrag = [c \in Conns |-> 0] /\ nreq = [c \in Conns |-> 0]
        /\ owed = [c \in Conns |-> "-"] /\ nbp = [c \in Conns |-> 0] /\ half = [c \in Conns |-> "-"]
        /\ resp = [c \in Conns |-> "none"] /\ out = [c \in Conns |-> FALSE] /\ why = [c \in Conns |-> "-"]
        /\ steps = 0

(* ---------------- environment ---------------- *)
Arrive(c) == /\ More /\ st[c] = "none" /\ st' = [st EXCEPT ![c] = "wait"] /\ Tick
             /\ UNCHANGED <<idle, pers, cur, inb, eof, cut, nfrag, nreq, owed, nbp, half, resp, out, why>>
\* the peer sends k: a fragment of a request, or (the rest of) a complete request; one request at a time
PeerSend(c, k) ==
    /\ More /\ st[c] \in {"wait", "open"} /\ ~eof[c] /\ inb[c] \in {"none", "frag"} /\ resp[c] \in {"none", "ended"}
    /\ owed[c] = "-" /\ (Porter => k # "N")
    /\ IF k = "frag" THEN nfrag[c] < MaxFrag /\ inb[c] = "none" ELSE nreq[c] < MaxReq
    /\ (cur[c] = "N" => FALSE)            \* after a non persistent request the peer sends nothing more
    /\ inb' = [inb EXCEPT ![c] = k]
    /\ nfrag' = [nfrag EXCEPT ![c] = IF k = "frag" THEN @ + 1 ELSE @]
    /\ nreq' = [nreq EXCEPT ![c] = IF k = "frag" THEN @ ELSE @ + 1]
    /\ Tick /\ UNCHANGED <<st, idle, pers, cur, eof, cut, owed, nbp, half, resp, out, why>>
\* the first request of a connection arrives in pieces: the complete head of a persistent / non persistent request that
\* announces a body (Content-Length), ...
PeerSendHead(c, k) ==
    /\ Bodies /\ (Porter => k # "N") /\ More /\ st[c] \in {"wait", "open"} /\ ~eof[c] /\ inb[c] \in {"none", "frag"}
    /\ nreq[c] = 0 /\ nreq[c] < MaxReq /\ owed[c] = "-"
    /\ inb' = [inb EXCEPT ![c] = IF k = "P" THEN "headP" ELSE "headN"]
    /\ owed' = [owed EXCEPT ![c] = k]
    /\ nreq' = [nreq EXCEPT ![c] = @ + 1]
    /\ Tick /\ UNCHANGED <<st, idle, pers, cur, eof, cut, nfrag, nbp, half, resp, out, why>>
\* ... then, after the server has read the head, a part of the body (k = "bpart") or all that is left of it (k = "body")
PeerSendBody(c, k) ==
    /\ More /\ st[c] = "open" /\ ~eof[c] /\ inb[c] = "none" /\ owed[c] # "-"
    /\ IF k = "bpart" THEN nbp[c] < 1 ELSE TRUE
    /\ inb' = [inb EXCEPT ![c] = k]
    /\ nbp' = [nbp EXCEPT ![c] = IF k = "bpart" THEN @ + 1 ELSE @]
    /\ owed' = [owed EXCEPT ![c] = IF k = "body" THEN "-" ELSE @]
    /\ Tick /\ UNCHANGED <<st, idle, pers, cur, eof, cut, nfrag, nreq, half, resp, out, why>>
PeerClose(c) == /\ ~Porter /\ More /\ st[c] = "open" /\ ~eof[c] /\ inb[c] = "none" /\ eof' = [eof EXCEPT ![c] = TRUE] /\ Tick
                /\ UNCHANGED <<st, idle, pers, cur, inb, cut, nfrag, nreq, owed, nbp, half, resp, out, why>>
Advance(dt) == /\ More /\ \E c \in Conns : st[c] = "open" /\ idle[c] < Timeout
               /\ idle' = [c \in Conns |-> IF st[c] = "open" THEN Min(Timeout, idle[c] + dt) ELSE idle[c]]
               /\ Tick /\ UNCHANGED <<st, pers, cur, inb, eof, cut, nfrag, nreq, owed, nbp, half, resp, out, why>>

(* ---------------- the server's steps, as functions on a state record ---------------- *)
State == [st |-> st, idle |-> idle, pers |-> pers, cur |-> cur, inb |-> inb, cut |-> cut, half |-> half, resp |-> resp, out |-> out, why |-> why]

\* serviceConnects: accept what waits; drop what the peer closed; drop what has been idle for the timeout
Due(s, c) == s.st[c] = "open" /\ Timeout > 0 /\ ~s.pers[c] /\ s.idle[c] >= Timeout
Connects(s) ==
    LET drop(c) == s.st[c] = "open" /\ (s.cut[c] \/ Due(s, c)) IN
    [s EXCEPT !.st = [c \in Conns |-> IF s.st[c] = "wait" THEN "open" ELSE IF drop(c) THEN "closed" ELSE s.st[c]],
              !.idle = [c \in Conns |-> IF s.st[c] = "wait" THEN 0 ELSE s.idle[c]],
              !.why = [c \in Conns |-> IF drop(c) THEN (IF s.cut[c] THEN "cut" ELSE "idle") ELSE s.why[c]]]

\* receiving and parsing: bytes read restart the idle period; a complete request starts a response; reading the end of
\* the stream is no activity.  checkPersisted "Checks headers to determine if connection should be kept open until client
\* closes it": persistence is a matter of the head, so from the moment the head of a persistent request has been
\* received the connection is exempt from the idle timer, whether or not its body has arrived
Receives(s) ==
    LET got(c) == s.st[c] = "open" /\ s.inb[c] # "none"
        req(c) == got(c) /\ s.inb[c] \in {"P", "N"}                  \* a complete request without body
        hd(c) == got(c) /\ s.inb[c] \in {"headP", "headN"}           \* the head of a request with a body
        bd(c) == got(c) /\ s.inb[c] = "body"                          \* the rest of the body: the request is complete
        kind(c) == IF s.inb[c] \in {"P", "headP"} THEN "P" ELSE "N" IN
    [s EXCEPT !.idle = [c \in Conns |-> IF got(c) THEN 0 ELSE s.idle[c]],
              !.inb = [c \in Conns |-> IF got(c) THEN "none" ELSE s.inb[c]],
              !.cur = [c \in Conns |-> IF req(c) THEN s.inb[c] ELSE IF bd(c) THEN s.half[c] ELSE s.cur[c]],
              !.pers = [c \in Conns |-> s.pers[c] \/ ((req(c) \/ hd(c)) /\ kind(c) = "P")],
              !.half = [c \in Conns |-> IF hd(c) THEN kind(c) ELSE IF bd(c) THEN "-" ELSE s.half[c]],
              !.resp = [c \in Conns |-> IF req(c) \/ bd(c) THEN (IF Porter THEN "ended" ELSE "active") ELSE s.resp[c]],
              !.out = [c \in Conns |-> s.out[c] \/ (Porter /\ (req(c) \/ bd(c)))],
              !.cut = [c \in Conns |-> s.cut[c] \/ (s.st[c] = "open" /\ ~got(c) /\ eof[c])]]

\* serviceReps: the application yields y[c] for every response in progress; z[c]: a finished non persistent connection
\* whose bytes are all sent is closed now
Reps(s, y, z) ==
    LET act(c) == s.st[c] = "open" /\ s.resp[c] = "active"
        fin(c) == s.st[c] = "open" /\ s.resp[c] = "ended" /\ s.cur[c] = "N" /\ ~s.out[c] /\ z[c] IN
    [s EXCEPT !.out = [c \in Conns |-> s.out[c] \/ (act(c) /\ y[c] \in {"data", "end"})],
              !.resp = [c \in Conns |-> IF act(c) /\ y[c] = "end" THEN "ended" ELSE s.resp[c]],
              !.st = [c \in Conns |-> IF fin(c) THEN "closed" ELSE s.st[c]],
              !.why = [c \in Conns |-> IF fin(c) THEN "done" ELSE s.why[c]]]
RepsOK(s, y, z) ==
    /\ \A c \in Conns : IF s.st[c] = "open" /\ s.resp[c] = "active" THEN y[c] \in {"data", "empty", "end"} ELSE y[c] = "na"
    /\ \A c \in Conns : z[c] => (s.st[c] = "open" /\ s.resp[c] = "ended" /\ s.cur[c] = "N" /\ ~s.out[c])

\* transmitting: the socket takes all / some / none of the queued bytes; bytes sent restart the idle period; nothing is
\* sent on a connection known to be cut off
Sendable(s, c) == s.st[c] = "open" /\ s.out[c] /\ ~s.cut[c]
Transmits(s, b) ==
    LET snd(c) == Sendable(s, c) /\ b[c] \in {"all", "some"} IN
    [s EXCEPT !.idle = [c \in Conns |-> IF snd(c) THEN 0 ELSE s.idle[c]],
              !.out = [c \in Conns |-> IF snd(c) THEN b[c] = "some" ELSE s.out[c]]]
TransmitsOK(s, b) == \A c \in Conns : IF Sendable(s, c) THEN b[c] \in {"all", "some", "none"} ELSE b[c] = "na"

Set(s) == /\ st' = s.st /\ idle' = s.idle /\ pers' = s.pers /\ cur' = s.cur /\ inb' = s.inb /\ cut' = s.cut
          /\ half' = s.half /\ resp' = s.resp /\ out' = s.out /\ why' = s.why
          /\ Tick /\ UNCHANGED <<eof, nfrag, nreq, owed, nbp>>

Ys == [Conns -> {"data", "empty", "end", "na"}]
Bs == [Conns -> {"all", "some", "none", "na"}]
Zs == [Conns -> BOOLEAN]

ServiceConnects == More /\ Set(Connects(State))
ServiceReceives == More /\ Set(Receives(State))
ServiceReps(y, z) == More /\ RepsOK(State, y, z) /\ Set(Reps(State, y, z))
ServiceTransmits(b) == More /\ TransmitsOK(State, b) /\ Set(Transmits(State, b))
\* serviceAll = serviceConnects, receive, serviceReqs, serviceReps, transmit
ServiceAll(y, b, z) ==
    LET s1 == Receives(Connects(State))
        s2 == Reps(s1, y, z) IN
    More /\ RepsOK(s1, y, z) /\ TransmitsOK(s2, b) /\ Set(Transmits(s2, b))

Next == \/ \E c \in Conns : Arrive(c)
        \/ \E c \in Conns, k \in {"frag", "P", "N"} : PeerSend(c, k)
        \/ \E c \in Conns, k \in {"P", "N"} : PeerSendHead(c, k)
        \/ \E c \in Conns, k \in {"bpart", "body"} : PeerSendBody(c, k)
        \/ \E c \in Conns : PeerClose(c)
        \/ \E dt \in 1..MaxAdv : Advance(dt)
        \/ ServiceConnects \/ ServiceReceives
        \/ \E y \in Ys, z \in Zs : ServiceReps(y, z)
        \/ \E b \in Bs : ServiceTransmits(b)
        \/ \E y \in Ys, b \in Bs, z \in Zs : ServiceAll(y, b, z)
Spec == Init /\ [][Next]_vars

(* ---------------- properties ---------------- *)
TypeOK == \A c \in Conns : idle[c] \in 0..Timeout /\ st[c] \in {"none", "wait", "open", "closed"}
\* closed for idleness only when nothing was sent or received for at least the timeout, and never when persistent
NoEarlyDrop == [][\A c \in Conns : (st[c] = "open" /\ st'[c] = "closed" /\ why'[c] = "idle")
                                      => (Timeout > 0 /\ idle[c] >= Timeout /\ ~pers[c])]_vars
PersistentNeverIdleDropped == \A c \in Conns : pers[c] => why[c] # "idle"
\* in particular while the body of a persistent request is still outstanding
HeadOfPersistentExempts == \A c \in Conns : half[c] = "P" => (pers[c] /\ why[c] # "idle")
\* a connection is only ever closed for a reason
ClosedForAReason == \A c \in Conns : st[c] = "closed" <=> why[c] # "-"
\* activity restarts the idle period: whenever input is consumed or queued bytes leave, idle is 0 afterwards
ActivityRestarts == [][\A c \in Conns : (st'[c] = "open" /\ ((inb[c] # "none" /\ inb'[c] = "none") \/ (out[c] /\ ~out'[c])))
                                           => idle'[c] = 0]_vars
=============================================================================
