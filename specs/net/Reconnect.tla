------------------------------ MODULE Reconnect ------------------------------
(* Connecting and reconnecting of tcp.Client and of what uses one: http.Patron, proto.         *)
(* TcpClientStack (property C27).                                                               *)
(*                                                                                              *)
(* From the docstrings (ioflo/aio/tcp/clienting.py):                                            *)
(*   Client(timeout = "auto reconnect timeout", reconnectable = "Boolean auto reconnect if      *)
(*          timed out", store = "store reference": the clock of the timer)                      *)
(*   accept / connect  "Attempt nonblocking ... connect to .ha.  Returns True if successful,    *)
(*                      False if not so try again later"; "server not listening so must reopen" *)
(*   serviceConnect    "Service connection attempt.  If not already connected make a            *)
(*                      nonblocking attempt.  Returns .connected"                               *)
(*   .cutoff           "True when detect connection closed on far side"; "this signals need to  *)
(*                      close/reopen connection"                                                *)
(*   after connecting: "self.ca = resolved local connection address", ".ha = resolved remote    *)
(*                      connection address"                                                     *)
(* and the property statement: a reconnectable client that loses or fails its connection is     *)
(* connected again within a bounded number of service calls after its reconnect timeout once    *)
(* the server listens, and then reports the live socket's addresses; a client that is not       *)
(* reconnectable never reopens on its own after a cut off.                                      *)
(*                                                                                              *)
(* Time is counted in quanta on the client's clock (a store stamp the environment advances);    *)
(* the reconnect timer is represented by the time left on it (rem, 0 = expired).                *)
(* The environment owns the server (up), the state of the client's live socket in the kernel    *)
(* (sk) and the answer r to a connection attempt made during a service call:                    *)
(*     "ok"       connect_ex returns 0 / EISCONN                                                *)
(*     "prog"     EINPROGRESS / EALREADY: not yet; towards a server that does not listen the    *)
(*                attempt is lost for good (sk = "stuck": only a new socket can connect)        *)
(*     "refused"  ECONNREFUSED / EINVAL: the client must open a new socket                      *)
(*     "na"       no attempt can be made in this state                                          *)
(* One service call (Service) is, in this order: recovery from a cut off when the timer has     *)
(* expired (new socket, timer restarted); an attempt when not connected; a new socket and a     *)
(* restarted timer when still not connected and the timer has expired; noticing that the far    *)
(* side closed.  Whether recovery and the first attempt on the new socket happen in the same    *)
(* call is not documented: the implementation may stop after recovery (lazy).                   *)
EXTENDS Integers, TLC

CONSTANTS Reconnectable,   \* BOOLEAN: auto reconnect
          Timeout,         \* reconnect timeout in quanta (0: no timer)
          MaxAdv,          \* the clock advances by 1..MaxAdv quanta at a time
          P                \* a connection attempt towards a listening server is answered "prog" at most P times in a row

VARIABLES up,       \* the server listens
          sk,       \* live socket: "idle" (no attempt yet) | "prog" | "stuck" | "estab" | "reset" (far side closed it)
          pc,       \* "prog" answers given in a row on the live socket
          refuse,   \* the next attempt is refused although the server listens (transient)
          alive,    \* the client is connected and not cut off
          cutoff,   \* the client has noticed that the far side closed the connection
          rem,      \* time left on the reconnect timer
          rep,      \* "live": the client reports (ca, ha) of its live socket; "other": anything else
          opens,    \* observation: sockets opened by the client itself during the last step
          tries     \* observation: connection attempts made during the last step
vars == <<up, sk, pc, refuse, alive, cutoff, rem, rep, opens, tries>>

CanAuto == Reconnectable /\ Timeout > 0
Max(a, b) == IF a > b THEN a ELSE b

Init == /\ up \in BOOLEAN /\ sk = "idle" /\ pc = 0 /\ refuse = FALSE
        /\ alive = FALSE /\ cutoff = FALSE /\ rem = Timeout /\ rep = "other"
        /\ opens = 0 /\ tries = 0

(* ---------------- environment ---------------- *)
Env == opens' = 0 /\ tries' = 0
\* the clock may also run on while the timer has already expired (a pause in servicing of several timeouts): nothing the
\* specification keeps changes then, but the implementation's timer falls further behind, which the binding exercises
Advance(dt) == /\ Timeout > 0 /\ rem' = Max(0, rem - dt) /\ Env
               /\ UNCHANGED <<up, sk, pc, refuse, alive, cutoff, rep>>
ServerUp == /\ ~up /\ up' = TRUE /\ Env
            /\ UNCHANGED <<sk, pc, refuse, alive, cutoff, rem, rep>>
ServerDown == /\ up /\ up' = FALSE /\ refuse' = FALSE /\ Env
              /\ UNCHANGED <<sk, pc, alive, cutoff, rem, rep>>
\* the established connection ends on the far side.  kind: "close" = orderly close (recv returns no bytes), "abort" = the
\* peer aborts or the path dies (recv raises ECONNRESET / ETIMEDOUT / EHOSTUNREACH / ENETRESET), "send" = the loss shows
\* when the client next sends queued data (send raises such an error).  All are the one way into the cut off state:
\* "this signals need to close/reopen connection" - what follows is the same whichever way the loss showed
ResetKinds == {"close", "abort", "send"}
Reset(kind) == /\ kind \in ResetKinds /\ sk = "estab" /\ sk' = "reset" /\ Env
               /\ UNCHANGED <<up, pc, refuse, alive, cutoff, rem, rep>>
\* the listening server will refuse the next attempt (backlog full ...)
Refuse == /\ up /\ ~refuse /\ ~alive /\ refuse' = TRUE /\ Env
          /\ UNCHANGED <<up, sk, pc, alive, cutoff, rem, rep>>
\* the application reopens the client itself (always allowed)
UserReopen == /\ sk' = "idle" /\ pc' = 0 /\ alive' = FALSE /\ cutoff' = FALSE /\ rep' = "other"
              /\ opens' = 0 /\ tries' = 0
              /\ UNCHANGED <<up, refuse, rem>>

(* ---------------- a service call ---------------- *)
\* what the environment may answer to an attempt on a socket in state s
Answers(s) ==
    IF refuse THEN {"refused"}
    ELSE CASE s = "idle" -> IF up THEN {"ok", "prog"} ELSE {"refused", "prog"}
           [] s = "prog" -> IF up THEN {"ok"} \cup (IF pc < P THEN {"prog"} ELSE {}) ELSE {"refused", "prog"}
           [] s = "stuck" -> {"prog"}
           [] OTHER -> {}

Service(r, lazy) ==
    LET rec == cutoff /\ CanAuto /\ rem = 0                       \* recovery from a cut off is due
        sk1 == IF rec THEN "idle" ELSE sk
        pc1 == IF rec THEN 0 ELSE pc
        cut1 == IF rec THEN FALSE ELSE cutoff
        rem1 == IF rec THEN Timeout ELSE rem
        att == ~alive /\ ~cut1 /\ ~lazy                            \* an attempt is made
        ok == att /\ r = "ok"
        again == att /\ r = "refused"                              \* refused: new socket at once
        sk2 == IF ~att THEN sk1
               ELSE IF ok THEN "estab"
               ELSE IF again THEN "idle"
               ELSE IF sk1 = "stuck" \/ ~up THEN "stuck" ELSE "prog"
        pc2 == IF ~att THEN pc1 ELSE IF r = "prog" /\ sk2 = "prog" THEN pc1 + 1 ELSE 0   \* counted on healthy sockets only
        exp == att /\ ~ok /\ CanAuto /\ rem1 = 0                   \* still not connected and the timer has expired
        sk3 == IF exp THEN "idle" ELSE sk2
        det == (alive \/ ok) /\ sk3 = "reset"                      \* the far side closed: noticed when receiving
    IN
    /\ lazy => rec
    /\ IF ~alive /\ ~cut1 THEN r \in Answers(sk1) ELSE r = "na"  \* the answer the environment holds ready
    /\ sk' = sk3
    /\ pc' = IF exp THEN 0 ELSE pc2
    /\ refuse' = IF att THEN FALSE ELSE refuse
    /\ alive' = ((alive \/ ok) /\ ~det)
    /\ cutoff' = (cut1 \/ det)
    /\ rem' = IF exp THEN Timeout ELSE rem1
    /\ rep' = IF ok THEN "live" ELSE IF rec \/ again \/ exp THEN "other" ELSE rep
    /\ opens' = (IF rec THEN 1 ELSE 0) + (IF again THEN 1 ELSE 0) + (IF exp THEN 1 ELSE 0)
    /\ tries' = IF att THEN 1 ELSE 0
    /\ UNCHANGED up

AnyService == \E r \in {"ok", "prog", "refused", "na"}, lazy \in BOOLEAN : Service(r, lazy)
OkService == \E lazy \in BOOLEAN : Service("ok", lazy)

Next == \/ \E dt \in 1..MaxAdv : Advance(dt)
        \/ ServerUp \/ ServerDown \/ (\E kind \in ResetKinds : Reset(kind)) \/ Refuse \/ UserReopen
        \/ \E r \in {"ok", "prog", "refused", "na"}, lazy \in BOOLEAN : Service(r, lazy)
Spec == Init /\ [][Next]_vars

(* ---------------- safety ---------------- *)
TypeOK == /\ sk \in {"idle", "prog", "stuck", "estab", "reset"} /\ rem \in 0..Timeout /\ pc \in 0..(P + 1)
          /\ opens \in 0..3 /\ tries \in 0..1
\* connected means connected to something: the live socket is (or was until the far side closed it) established
ConnectedIsEstablished == alive => sk \in {"estab", "reset"}
NeverBoth == ~(alive /\ cutoff)
\* a connected client reports the addresses of its live socket
AddressesMatchLiveSocket == alive => rep = "live"
\* a client that is not reconnectable never opens a socket on its own after a cut off
NonReconnectableNeverReopens == [][(cutoff /\ ~CanAuto) => opens' = 0]_vars
\* nobody but the application reopens an established connection that is not cut off
KeepsLiveConnection == [][(alive /\ alive') => opens' = 0]_vars

(* ---------------- liveness (configuration *_live: no constraint needed, the state space is finite) ---------------- *)
\* service calls keep coming, the clock keeps running, and a listening server eventually accepts
LiveSpec == Spec /\ WF_vars(AnyService) /\ WF_vars(\E dt \in 1..MaxAdv : Advance(dt)) /\ SF_vars(OkService)
\* the same without the assumption that a listening server eventually accepts: here the property must fail (a clock that
\* lets the whole timeout pass between any two service calls makes the client abandon every attempt); used as a guard
\* against a vacuous liveness check
WeakLiveSpec == Spec /\ WF_vars(AnyService) /\ WF_vars(\E dt \in 1..MaxAdv : Advance(dt))
\* if from some time on the server listens, a reconnectable client is connected again and again (whatever is reset,
\* refused or reopened in between)
Reconnects == CanAuto => (<>[]up => []<>alive)
=============================================================================
