----------------------------- MODULE ServerTable -----------------------------
(* The table of accepted connections of tcp.Server / tcp.ServerTls (property C26).              *)
(* From the docstrings of ioflo/aio/tcp/serving.py:                                             *)
(*   serviceAxes    "For each newly accepted connection in .axes create Incomer and add to      *)
(*                   .ixes keyed by ca"; TLS: "create IncomerTLS and add to .cxes.  Not          *)
(*                   Handshaked"; serviceCxes "Service handshakes for every incomer in .cxes.    *)
(*                   If successful move to .ixes"                                               *)
(*   shutdownIx(ca) "Shutdown incomer given by connection address ca"                           *)
(*   closeIx(ca)    "Shutdown and close incomer given by connection address ca"                 *)
(*   removeIx(ca)   "Remove incomer given by connection address ca" (shutclose = True)          *)
(*   each of them raises ValueError for an address that is not in the table                     *)
(*   serviceAll     "Service connects and service receives and txes for all ix"                 *)
(* and the property statement: exactly one entry per connected peer address; a new connection   *)
(* from an address that still has a stale entry shuts the stale connection down and replaces it *)
(* without raising; removing an entry closes its socket.                                        *)
(*                                                                                              *)
(* Connections are numbered 1, 2, ... in order of arrival; 0 stands for "no entry".  Arrivals,  *)
(* the peer closing, and the answers of the TLS handshake are actions / parameters chosen by    *)
(* the environment (all parameters range over constant sets, so TLC labels every step).        *)
EXTENDS Integers, Sequences, FiniteSets, TLC

CONSTANTS Kinds,      \* subset of {"plain", "tls"}
          Addrs,      \* peer addresses
          MaxConns    \* connections arriving during a behaviour

VARIABLES kind,        \* "plain": Server, "tls": ServerTls (fixed)
          pending,     \* <<id, address>> of connections waiting at the listen socket
          nconn,       \* connections arrived so far
          ixes,        \* address -> connection in the table of ready connections (0: none)
          cxes,        \* address -> connection whose TLS handshake is still going on (0: none)
          down,        \* connections whose socket the server shut down (the shutdown reached the socket, whatever it
                       \* answered) or closed
          closed,      \* connections whose socket was closed by closeIx / removeIx / after a lost handshake
          peerclosed,  \* connections whose peer closed
          cut,         \* connections the server has seen to be cut off (a service call read the end of stream)
          removed,     \* history: connections taken out of the table by removeIx
          replaced,    \* history: stale connections that lost their entry to a newer connection from the same address
          lost,        \* history: connections given up because the connection was lost during the TLS handshake
          res          \* result of the last operation: "none" (environment step), "ok" / "ValueError" (operation on an
                       \* entry), "served" (a service call returned normally)
vars == <<kind, pending, nconn, ixes, cxes, down, closed, peerclosed, cut, removed, replaced, lost, res>>

\* What the socket of a connection answers when the server shuts it down: a stale connection's socket often refuses
\* (the far side is gone, the descriptor is bad, ...).  The statement's promises - a repeated address replaces the stale
\* entry without raising, removing closes - hold whatever that answer is ("noerrno": a socket.error without errno).
ShutAnswers == {"ok", "ENOTCONN", "EBADF", "ECONNRESET", "EPIPE", "noerrno"}
NoH == [x \in Addrs |-> "na"]
Answers == [Addrs -> {"ok", "want", "lost", "na"}]

Init == /\ kind \in Kinds
        /\ pending = <<>> /\ nconn = 0
        /\ ixes = [a \in Addrs |-> 0] /\ cxes = [a \in Addrs |-> 0]
        /\ down = {} /\ closed = {} /\ peerclosed = {} /\ cut = {} /\ removed = {} /\ replaced = {} /\ lost = {}
        /\ res = "none"

(* ---------------- environment ---------------- *)
\* a connection from address ca arrives at the listen socket (the same address may come again)
Arrive(ca) ==
    /\ nconn < MaxConns
    /\ nconn' = nconn + 1 /\ pending' = Append(pending, <<nconn + 1, ca>>)
    /\ res' = "none"
    /\ UNCHANGED <<kind, ixes, cxes, down, closed, peerclosed, cut, removed, replaced, lost>>

\* the peer of the ready connection from ca closes it
PeerClose(ca) ==
    /\ ixes[ca] # 0 /\ ixes[ca] \notin peerclosed /\ ixes[ca] \notin closed
    /\ peerclosed' = peerclosed \cup {ixes[ca]}
    /\ res' = "none"
    /\ UNCHANGED <<kind, pending, nconn, ixes, cxes, down, closed, cut, removed, replaced, lost>>

(* ---------------- accepting ---------------- *)
\* enter the waiting connections one after the other into table tab; a stale entry of the same address is dropped
RECURSIVE AcceptAll(_, _, _)
AcceptAll(p, tab, drop) ==
    IF p = <<>> THEN [tab |-> tab, drop |-> drop]
    ELSE LET id == p[1][1]
             ca == p[1][2]
             old == tab[ca] IN
         AcceptAll(Tail(p), [tab EXCEPT ![ca] = id], IF old # 0 THEN drop \cup {old} ELSE drop)

\* h: the answer of the TLS handshake of the connection from each address during this call: "ok", "want" (not yet),
\* "lost" (the connection is lost during the handshake: the server closes it and gives it up), "na" (no handshake)
Accepting(h) ==
    IF kind = "plain"
    THEN LET r == AcceptAll(pending, ixes, {}) IN
         /\ h = NoH
         /\ ixes' = r.tab /\ cxes' = cxes
         /\ replaced' = replaced \cup r.drop /\ down' = down \cup r.drop
         /\ UNCHANGED <<closed, lost>>
    ELSE LET r == AcceptAll(pending, cxes, {})
             done == {a \in Addrs : r.tab[a] # 0 /\ h[a] = "ok"}
             gone == {a \in Addrs : r.tab[a] # 0 /\ h[a] = "lost"}
             stale == {ixes[a] : a \in {b \in done : ixes[b] # 0}}
             dead == {r.tab[a] : a \in gone} IN
         /\ h \in Answers /\ \A a \in Addrs : (r.tab[a] = 0) <=> (h[a] = "na")
         /\ ixes' = [a \in Addrs |-> IF a \in done THEN r.tab[a] ELSE ixes[a]]
         /\ cxes' = [a \in Addrs |-> IF a \in done \cup gone THEN 0 ELSE r.tab[a]]
         /\ replaced' = replaced \cup r.drop \cup stale /\ down' = down \cup r.drop \cup stale \cup dead
         /\ closed' = closed \cup dead /\ lost' = lost \cup dead

\* the connections a service call with handshake answers h drops from the tables in favour of newer ones
DropSet(h) ==
    IF kind = "plain" THEN AcceptAll(pending, ixes, {}).drop
    ELSE LET r == AcceptAll(pending, cxes, {}) IN
         r.drop \cup {ixes[a] : a \in {b \in Addrs : r.tab[b] # 0 /\ h[b] = "ok" /\ ixes[b] # 0}}
\* sd: what the sockets of the dropped connections answer to shutdown ("ok" when nothing open is dropped in this call)
ShutChoice(h, sd) == sd = "ok" \/ (DropSet(h) \ closed) # {}

\* serviceConnects(): accept everything that waits (TLS: and service the handshakes); never raises
ServiceConnects(h, sd) ==
    /\ ShutChoice(h, sd)
    /\ Accepting(h)
    /\ pending' = <<>>
    /\ res' = "served"
    /\ UNCHANGED <<kind, nconn, peerclosed, cut, removed>>

\* serviceAll(): serviceConnects, then receive and transmit on every ready connection: a connection whose peer closed is
\* seen to be cut off.  (What servicing does to an entry whose socket the application closed with closeIx but left in the
\* table is not documented: the model does not take this step then.)
ServiceAll(h, sd) ==
    /\ \A a \in Addrs : ixes[a] \notin closed
    /\ ShutChoice(h, sd)
    /\ Accepting(h)
    /\ pending' = <<>>
    /\ cut' = cut \cup {ixes'[a] : a \in {b \in Addrs : ixes'[b] \in peerclosed}}
    /\ res' = "served"
    /\ UNCHANGED <<kind, nconn, peerclosed, removed>>

(* ---------------- operations on entries ---------------- *)
Same == UNCHANGED <<kind, pending, nconn, cxes, peerclosed, cut, replaced, lost>>
Invalid == res' = "ValueError" /\ UNCHANGED <<ixes, down, closed, removed>>

ShutdownIx(ca) == /\ IF ixes[ca] = 0 THEN Invalid
                     ELSE /\ down' = down \cup {ixes[ca]}
                          /\ res' = "ok"
                          /\ UNCHANGED <<ixes, closed, removed>>
                  /\ Same

CloseIx(ca) == /\ IF ixes[ca] = 0 THEN Invalid
                  ELSE /\ down' = down \cup {ixes[ca]} /\ closed' = closed \cup {ixes[ca]}
                       /\ res' = "ok"
                       /\ UNCHANGED <<ixes, removed>>
               /\ Same

\* sd: the answer of the entry's socket to the shutdown that precedes its close ("ok" when there is nothing to shut down)
Remove(ca, sd) ==
    /\ sd = "ok" \/ (ixes[ca] # 0 /\ ixes[ca] \notin closed)
    /\ IF ixes[ca] = 0 THEN Invalid
       ELSE /\ down' = down \cup {ixes[ca]} /\ closed' = closed \cup {ixes[ca]} /\ removed' = removed \cup {ixes[ca]}
            /\ ixes' = [ixes EXCEPT ![ca] = 0]
            /\ res' = "ok"
    /\ Same

Next == \/ \E ca \in Addrs : Arrive(ca)
        \/ \E ca \in Addrs : PeerClose(ca)
        \/ \E ca \in Addrs : ShutdownIx(ca)
        \/ \E ca \in Addrs : CloseIx(ca)
        \/ \E ca \in Addrs, sd \in ShutAnswers : Remove(ca, sd)
        \/ \E h \in Answers \cup {NoH}, sd \in ShutAnswers : ServiceConnects(h, sd)
        \/ \E h \in Answers \cup {NoH}, sd \in ShutAnswers : ServiceAll(h, sd)
Spec == Init /\ [][Next]_vars

(* ---------------- properties ---------------- *)
Waiting == {pending[i][1] : i \in 1..Len(pending)}
Ready == {ixes[a] : a \in Addrs} \ {0}
Staged == {cxes[a] : a \in Addrs} \ {0}
\* exactly one entry per connected peer address: every accepted connection that was neither removed, nor replaced by a
\* newer one from its address, nor lost during its handshake has an entry, no connection has two entries, and nothing else has one
OnePerAddress == /\ Ready \cup Staged = (1..nconn) \ (Waiting \cup removed \cup replaced \cup lost)
                 /\ Ready \cap Staged = {}
                 /\ Cardinality(Ready) = Cardinality({a \in Addrs : ixes[a] # 0})
\* a stale connection that lost its entry was shut down
ReplacedIsShutDown == replaced \subseteq down
\* removing closes
RemoveCloses == removed \subseteq closed /\ lost \subseteq closed /\ closed \subseteq down
\* accepting (also from a repeated address) and servicing never raise
NeverRaises == [][(pending # <<>> /\ pending' = <<>>) => res' = "served"]_vars
=============================================================================
