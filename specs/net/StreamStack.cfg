\* default configuration for manual runs; vf/families/streamstack.py generates its configurations
SPECIFICATION Spec
CONSTANTS
  NPeers = 1
  MaxUp = 2
  MaxDown = 0
  Sizes = {2, 3}
  Chunks = {1, 9}
  MaxSvc = 5
  MaxB = 6
INVARIANT PeerGetsExactBytesInOrder
INVARIANT EveryRxByteInExactlyOnePacket
PROPERTY Progress
CHECK_DEADLOCK FALSE
