\* graph / safety configuration for manual runs; vf/families/reconnect.py generates its configurations
SPECIFICATION Spec
CONSTANTS
  Reconnectable = TRUE
  Timeout = 2
  MaxAdv = 2
  P = 1
INVARIANT TypeOK
INVARIANT ConnectedIsEstablished
INVARIANT NeverBoth
INVARIANT AddressesMatchLiveSocket
PROPERTY NonReconnectableNeverReopens
PROPERTY KeepsLiveConnection
CHECK_DEADLOCK FALSE
