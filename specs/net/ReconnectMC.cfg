\* bounded response: connected within K + 1 = P + 2 service calls once a connection is due
SPECIFICATION MCSpec
CONSTANTS
  Reconnectable = TRUE
  Timeout = 2
  MaxAdv = 2
  P = 1
  K = 2
INVARIANT BoundedResponse
INVARIANT AddressesMatchLiveSocket
PROPERTY NonReconnectableNeverReopens
CHECK_DEADLOCK FALSE
