\* default configuration for manual runs; vf/families/gram.py generates its configurations (quick: 5 packets, thorough: 6)
SPECIFICATION Spec
CONSTANTS
  NDests = 3
  MaxPkts = 4
  MaxPasses = 3
INVARIANT ExactlyOnce
INVARIANT PerDestinationFifo
PROPERTY NoCrossBlocking
PROPERTY NothingInvented
CHECK_DEADLOCK FALSE
