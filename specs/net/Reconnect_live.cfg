\* liveness: no state constraint (the reconnect timer is "time left", the state space is finite)
SPECIFICATION LiveSpec
CONSTANTS
  Reconnectable = TRUE
  Timeout = 2
  MaxAdv = 2
  P = 1
PROPERTY Reconnects
CHECK_DEADLOCK FALSE
