-------------------------- MODULE ConnServerTrace --------------------------
(* Binding B for ConnServer.tla: a recorded execution of a real tcp.Server / tcp.ServerTls over *)
(* scripted socket doubles (seeded random arrivals, handshake answers, peer closes) is a        *)
(* sequence of events                                                                           *)
(*   {"ev": action, "i": connection | "h": the handshake answers offered, "st", "closed",       *)
(*    "cut", "txq", "sent", "res", "hsd", "io"}  (sets as sorted arrays, functions as arrays)   *)
(* preceded by a header event {"ev": "Init", "kind": "plain" | "tls"}.  Which handshakes a call *)
(* that raised still reached (served) is taken from what the doubles saw (hsd).                 *)
EXTENDS ConnServer, TraceBatch

VARIABLES tid, l
tvars == <<vars, tid, l>>

Ev == EvAt(tid, l)
SetOf(s) == {s[k] : k \in DOMAIN s}

TraceInit == /\ tid \in 1..NTraces
             /\ l = 2
             /\ Init
             /\ kind = EvAt(tid, 1).kind

Logged == /\ HasField(Ev, "st") => st' = Ev.st        \* (absent after closeAll: what stays in the tables is not documented)
          /\ closed' = SetOf(Ev.closed) /\ cut' = SetOf(Ev.cut)
          /\ txq' = Ev.txq /\ sent' = Ev.sent
          /\ res' = Ev.res /\ hsd' = SetOf(Ev.hsd) /\ io' = SetOf(Ev.io)

Consume(name) == l <= TraceLen(tid) /\ Ev.ev = name /\ l' = l + 1 /\ UNCHANGED tid

TraceNext ==
    \/ Consume("Arrive") /\ Arrive(Ev.i) /\ Logged
    \/ Consume("PeerClose") /\ PeerClose(Ev.i) /\ Logged
    \/ Consume("ServiceConnects") /\ ServiceConnects(Ev.h, SetOf(Ev.hsd)) /\ Logged
    \/ Consume("Transmit") /\ Transmit(Ev.i) /\ Logged
    \/ Consume("ServiceIo") /\ ServiceIo /\ Logged
    \/ Consume("CloseIx") /\ CloseIx(Ev.i) /\ Logged
    \/ Consume("RemoveIx") /\ RemoveIx(Ev.i) /\ Logged
    \/ Consume("CloseAll") /\ CloseAll /\ Logged

TraceSpec == TraceInit /\ [][TraceNext]_tvars
TraceOK == TraceConstraint(tid, l)
=============================================================================
