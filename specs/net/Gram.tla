-------------------------------- MODULE Gram --------------------------------
(* Transmit side of the datagram stacks proto.GramStack / proto.UdpStack (property C35).        *)
(*                                                                                              *)
(* From the docstrings of ioflo/aio/proto/stacking.py:                                          *)
(*   transmit(pkt, ha)   "Pack and Append (pkt, ha) duple to .txPkts deque"                     *)
(*   GramStack(txPkts =  "deque of duples to hold packet to be transmitted and destination ha   *)
(*                        if any", likewise rxPkts, txMsgs, rxMsgs): queues supplied by the caller *)
(*   serviceTxPkts       "Service the .txPkts deque to send packets through server"             *)
(*   serviceTxPktsOnce   "Service .txPkts deque once (one pkt)"                                 *)
(*   _serviceOneTxPkt    "laters is deque of packed packets to try again later; blockeds is     *)
(*                        list of ha destinations that have already blocked on this pass";      *)
(*                        a packet to a destination that already blocked is kept ("keep         *)
(*                        sequential"); a transient send error means "save it for later"        *)
(* and from the property statement: every queued packet is sent exactly once; packets to the    *)
(* same destination are sent in the order they were queued whichever destinations transiently   *)
(* fail; a failing destination never reorders or blocks packets to other destinations.          *)
(*                                                                                              *)
(* Packets are numbered 1, 2, ... in the order they are queued (dst[i] is the destination of    *)
(* packet i).  A service pass is one action; the environment's choice for the pass is the       *)
(* failure pattern F: F[d] = how many datagrams to destination d the socket accepts during this *)
(* pass before a send to d fails with a transient error (F[d] = number of packets waiting for d *)
(* means no send to d fails).  After a failed send the stack must not send anything else to     *)
(* that destination during the pass (else a later packet would overtake the failed one).        *)
(* Payloads are not modelled; the binding makes every third packet a datagram of length 0 (a    *)
(* legal datagram, for which the socket reports 0 bytes sent).                                  *)
(* The order in which packets to *different* destinations stay in the queue or reach the socket *)
(* is not part of the statement: the binding compares per-destination projections only.         *)
EXTENDS Integers, Sequences, FiniteSets, TLC

CONSTANTS NDests,      \* destinations are 1..NDests
          MaxPkts,     \* packets queued during a behaviour
          MaxPasses    \* service calls (passes and single services) during a behaviour

Dests == 1..NDests

VARIABLES dst,      \* history: dst[i] = destination of packet i (in queueing order)
          queue,    \* packets waiting in the stack (sequence of packet numbers, queue order)
          sent,     \* packets accepted by the socket, in the order they were accepted
          passes,   \* service calls so far
          last      \* the last step: [a |-> "Init" | "Transmit" | "Pass" | "Once", ...]
vars == <<dst, queue, sent, passes, last>>

Init == /\ dst = <<>> /\ queue = <<>> /\ sent = <<>> /\ passes = 0
        /\ last = [a |-> "Init"]

\* the application queues one more packet for destination d.  via: through the stack's transmit(pkt, ha), or by appending
\* the (pkt, ha) duple to the deque the application handed to the constructor as txPkts ("txPkts is deque of duples to
\* hold packet to be transmitted and destination ha if any": the stack uses that very deque, so the application may go on
\* sharing it).  The statement does not care which reference is used: both are the same action.
Vias == {"stack", "deque"}
Transmit(d, via) ==
    /\ via \in Vias
    /\ Len(dst) < MaxPkts
    /\ dst' = Append(dst, d)
    /\ queue' = Append(queue, Len(dst) + 1)
    /\ last' = [a |-> "Transmit", d |-> d]
    /\ UNCHANGED <<sent, passes>>

\* packets waiting for destination d
Waiting(q, d) == Cardinality({i \in 1..Len(q) : dst[q[i]] = d})
\* position of the i-th queued packet among the packets to its own destination
Rank(q, i) == Cardinality({j \in 1..i : dst[q[j]] = dst[q[i]]})
\* the elements of q at the positions in S, in order
RECURSIVE Pick(_, _, _)
Pick(q, S, i) == IF i > Len(q) THEN <<>>
                 ELSE (IF i \in S THEN <<q[i]>> ELSE <<>>) \o Pick(q, S, i + 1)

\* one complete service pass (serviceTxPkts) under failure pattern F
Pass(F) ==
    /\ passes < MaxPasses
    /\ F \in [Dests -> 0..MaxPkts]
    /\ \A d \in Dests : F[d] <= Waiting(queue, d)          \* normal form of the pattern
    /\ LET go == {i \in 1..Len(queue) : Rank(queue, i) <= F[dst[queue[i]]]} IN
       /\ sent' = sent \o Pick(queue, go, 1)
       /\ queue' = Pick(queue, (1..Len(queue)) \ go, 1)
    /\ passes' = passes + 1
    /\ last' = [a |-> "Pass", f |-> F]
    /\ UNCHANGED dst

\* service exactly one packet (serviceTxPktsOnce): the packet at the head of the queue is offered to the socket once;
\* when the send fails transiently the packet stays queued ahead of every later packet to its destination
Once(ok) ==
    /\ passes < MaxPasses
    /\ queue # <<>>
    /\ IF ok THEN sent' = Append(sent, Head(queue)) /\ queue' = Tail(queue)
             ELSE UNCHANGED <<sent, queue>>
    /\ passes' = passes + 1
    /\ last' = [a |-> "Once", ok |-> ok]
    /\ UNCHANGED dst

Next == \/ \E d \in Dests, via \in Vias : Transmit(d, via)
        \/ \E F \in [Dests -> 0..MaxPkts] : Pass(F)
        \/ \E ok \in BOOLEAN : Once(ok)
Spec == Init /\ [][Next]_vars

(* ---------------- properties ---------------- *)
Range(s) == {s[i] : i \in 1..Len(s)}
\* the packets of sequence s that go to destination d, in order
Proj(s, d) == Pick(s, {i \in 1..Len(s) : dst[s[i]] = d}, 1)
\* all packets ever queued for d, in queueing order
Queued(d) == Pick([i \in 1..Len(dst) |-> i], {i \in 1..Len(dst) : dst[i] = d}, 1)

\* every queued packet is either still waiting or was sent, never both, never twice
ExactlyOnce == /\ Range(queue) \cup Range(sent) = 1..Len(dst)
               /\ Len(queue) + Len(sent) = Len(dst)
\* per destination: what was sent followed by what waits is exactly what was queued, in queueing order
PerDestinationFifo == \A d \in Dests : Proj(sent, d) \o Proj(queue, d) = Queued(d)
\* a pass sends every packet that waited for a destination without a failed send in this pass, and, for a failing
\* destination, everything queued before the packet whose send failed
NoCrossBlocking ==
    [][last'.a = "Pass" =>
         \A i \in 1..Len(queue) :
             Rank(queue, i) <= last'.f[dst[queue[i]]] => queue[i] \in Range(sent') \ Range(sent)]_vars
\* nothing is sent that was not waiting, and a pass with nothing failing empties the queue
NothingInvented == [][Range(sent') \ Range(sent) \subseteq Range(queue)]_vars
=============================================================================
