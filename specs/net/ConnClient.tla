----------------------------- MODULE ConnClient -----------------------------
(* Connection establishment of tcp.Client / tcp.ClientTls (extra check X-tlsconn): the phase   *)
(* that C24-C28 abstract to "the connection attempt succeeds or is pending".                   *)
(*                                                                                              *)
(* From the docstrings of ioflo/aio/tcp/clienting.py:                                           *)
(*   open()            "Opens connection socket in non blocking mode"                          *)
(*   reopen()          "Idempotently opens socket"                                             *)
(*   close()           "Shutdown and close connected socket .cs"                               *)
(*   accept()/connect()"Attempt nonblocking [acceptance] connect to .ha.  Returns True if      *)
(*                      successful.  Returns False if not so try again later.  For non-TLS tcp *)
(*                      connect is done when accepted"; TLS: "Connected when both accepted     *)
(*                      connection and TLS handshake complete"                                 *)
(*   handshake()       "Attempt nonblocking ssl handshake to .ha.  Returns True if successful. *)
(*                      Returns False if not so try again later"                               *)
(*   serviceConnect()  "Service connection attempt ... If not already connected make a         *)
(*                      nonblocking attempt.  Returns .connected"                              *)
(*   .connected        "Non-tls tcp is connected when accepted" / "TLS tcp is connected when   *)
(*                      accepted and handshake completed"                                      *)
(*   .cutoff           "True when detect connection closed on far side"                        *)
(*   send / receive    "Perform non blocking send / receive on connected socket .cs"           *)
(*   tx(data)          "Queue data onto .txes"; serviceTxes: "If partial send reattach"        *)
(* from the statements of C25 (a connection-loss error marks the connection cut off without    *)
(* raising, would-block never changes connection state, any other error propagates) and from  *)
(* the statement of this extra:                                                                 *)
(*   - no application byte is sent or received before the connection is established (TLS:      *)
(*     before the handshake completed);                                                         *)
(*   - connected becomes true only after the kernel reported success on the live socket;       *)
(*   - a refused / failed attempt leaves the object re-openable, with consistent flags and     *)
(*     without a leaked socket; an attempt that is merely pending keeps its socket;            *)
(*   - the send queue survives the connecting phase and goes out in order once connected.      *)
(*                                                                                              *)
(* The client is NOT reconnectable (the reconnect timer is the subject of C27).  The answers   *)
(* of the kernel to connect_ex and of the TLS layer to do_handshake are the environment:       *)
(*   rc:  "OK" "EISCONN" (success) | "EINPROGRESS" "EALREADY" "EWOULDBLOCK" (not yet) |        *)
(*        "ECONNREFUSED" "EINVAL" "ETIMEDOUT" "EHOSTUNREACH" "ENETUNREACH" (failed) |          *)
(*        "RAISE" (connect_ex raises) | "na" (no attempt in this call)                         *)
(*   hs:  "ok" | "wantread" "wantwrite" (not yet) | "eof" "loss" (connection lost) |           *)
(*        "sslerror" "oserror" (handshake failed) | "na" (no handshake in this call)           *)
(* Where the documentation leaves the implementation a choice the action has a parameter alt:  *)
(*   after a failed attempt the client may keep its socket ("keep"), replace it ("fresh") or   *)
(*   close itself ("closed"), and may or may not mark itself cut off ("keepcut", "closedcut");*)
(*   a closed client that is marked cut off may stay closed ("idle": C27 says a client that is *)
(*   not reconnectable never reopens on its own after a cut off) or try again;                 *)
(*   an explicit close / reopen by the application may or may not drop the queue ("flush").    *)
(* Bytes are the integers 1, 2, ... in the order they were queued / delivered.                 *)
EXTENDS Integers, Sequences, TLC

CONSTANTS Kinds,      \* subset of {"plain", "tls"}
          Rcs,        \* the connect_ex answers explored (without "na")
          Hss,        \* the handshake answers explored (without "na")
          MaxSocks,   \* sockets created during a behaviour
          MaxMsgs,    \* messages (of two bytes) queued during a behaviour
          MaxRx       \* bytes the peer delivers during a behaviour

VARIABLES kind,       \* "plain": Client, "tls": ClientTls (fixed)
          sock,       \* "none" | "open": the client holds an open socket (.cs, .opened)
          gen,        \* sockets created so far; the live socket is number gen; all earlier ones are closed
          accepted,   \* .accepted
          connected,  \* .connected
          cutoff,     \* .cutoff
          estab,      \* history: the kernel reported success for the live socket
          shook,      \* history: the TLS handshake completed on the live socket
          txes,       \* queue of messages still to send (head first)
          wire,       \* every byte any socket of the client accepted, in order
          queued,     \* history: every byte ever queued and not dropped by an explicit close
          nq,         \* history: number of bytes ever queued (the next message is <<nq + 1, nq + 2>>)
          rxbs,       \* receive buffer
          res,        \* result of the last operation
          obs         \* what the last operation did to the socket layer: c = connect_ex called, h = do_handshake called,
                      \* io = send or recv called; rk, hk = the class of the answers connect_ex / do_handshake gave
vars == <<kind, sock, gen, accepted, connected, cutoff, estab, shook, txes, wire, queued, nq, rxbs, res, obs>>

RcOk == {"OK", "EISCONN"}
RcPend == {"EINPROGRESS", "EALREADY", "EWOULDBLOCK"}
RcHard == {"ECONNREFUSED", "EINVAL", "ETIMEDOUT", "EHOSTUNREACH", "ENETUNREACH"}
RcRaise == {"RAISE"}
AllRcs == RcOk \cup RcPend \cup RcHard \cup RcRaise
HsOk == {"ok"}
HsWant == {"wantread", "wantwrite"}
HsLoss == {"eof", "loss"}
HsFatal == {"sslerror", "oserror"}
AllHss == HsOk \cup HsWant \cup HsLoss \cup HsFatal
Alts == {"keep", "keepcut", "fresh", "closed", "closedcut", "idle", "flush"}
Vias == {"service", "connect"}

ASSUME Rcs \subseteq AllRcs /\ Hss \subseteq AllHss /\ Kinds \subseteq {"plain", "tls"}

None == [t |-> "none"]
Bool(b) == [t |-> "bool", v |-> b]
Raise == [t |-> "raise"]
Obs(c, h, io, rk, hk) == [c |-> c, h |-> h, io |-> io, rk |-> rk, hk |-> hk]
Quiet == Obs(0, 0, FALSE, "na", "na")
Io(b) == Obs(0, 0, b, "na", "na")
RcClass(rc) == IF rc \in RcOk THEN "ok" ELSE IF rc \in RcPend THEN "pend" ELSE IF rc \in RcHard THEN "hard"
               ELSE IF rc \in RcRaise THEN "raise" ELSE "na"
HsClass(hs) == IF hs \in HsOk THEN "ok" ELSE IF hs \in HsWant THEN "want" ELSE IF hs \in HsLoss THEN "loss"
               ELSE IF hs \in HsFatal THEN "fatal" ELSE "na"

RECURSIVE Flat(_)
Flat(q) == IF q = <<>> THEN <<>> ELSE Head(q) \o Flat(Tail(q))

IsTls == kind = "tls"

Init == /\ kind \in Kinds
        /\ sock = "none" /\ gen = 0
        /\ accepted = FALSE /\ connected = FALSE /\ cutoff = FALSE /\ estab = FALSE /\ shook = FALSE
        /\ txes = <<>> /\ wire = <<>> /\ queued = <<>> /\ nq = 0 /\ rxbs = <<>>
        /\ res = None /\ obs = Quiet

(* ---------------- opening and closing (the application) ---------------- *)
\* a new socket: nothing is known about it yet
NewSock == /\ sock' = "open" /\ gen' = gen + 1
           /\ accepted' = FALSE /\ connected' = FALSE /\ cutoff' = FALSE /\ estab' = FALSE /\ shook' = FALSE

\* an explicit close / reopen may drop what is still queued (not documented either way)
Flush(alt) == /\ alt \in {"keep", "flush"}
              /\ IF alt = "flush" THEN txes' = <<>> /\ queued' = wire ELSE UNCHANGED <<txes, queued>>
              /\ UNCHANGED <<wire, nq, rxbs>>

\* open() of a closed client
Open == /\ sock = "none" /\ gen < MaxSocks
        /\ NewSock
        /\ res' = Bool(TRUE) /\ obs' = Quiet
        /\ UNCHANGED <<kind, txes, wire, queued, nq, rxbs>>

\* reopen(): "Idempotently opens socket": whatever the state, the old socket is closed and a new one is opened
Reopen(alt) == /\ gen < MaxSocks
               /\ NewSock /\ Flush(alt)
               /\ res' = Bool(TRUE) /\ obs' = Quiet
               /\ UNCHANGED kind

\* close(): the socket is shut down and closed, nothing stays accepted or connected (cutoff is left alone)
Close(alt) == /\ sock' = "none" /\ accepted' = FALSE /\ connected' = FALSE /\ estab' = FALSE /\ shook' = FALSE
              /\ Flush(alt)
              /\ res' = None /\ obs' = Quiet
              /\ UNCHANGED <<kind, gen, cutoff>>

(* ---------------- a connection attempt ---------------- *)
\* sockets a call with these answers may create: one when the client is closed, one more when the attempt fails
Needs(rc) == (IF sock = "none" THEN 1 ELSE 0) + (IF rc \in RcHard THEN 1 ELSE 0)

\* serviceConnect() (via = "service") or connect() (via = "connect", only documented while not connected)
Connect(via, rc, hs, alt) ==
    /\ via \in Vias /\ (via = "connect" => ~connected)
    /\ UNCHANGED <<kind, txes, wire, queued, nq, rxbs>>
    /\ IF connected
       THEN \* already connected: no attempt, nothing changes
            /\ rc = "na" /\ hs = "na" /\ alt = "keep"
            /\ res' = Bool(TRUE) /\ obs' = Quiet
            /\ UNCHANGED <<sock, gen, accepted, connected, cutoff, estab, shook>>
       ELSE
       LET auto == sock = "none"                         \* a socket is opened first ("make a nonblocking attempt")
           g1 == IF auto THEN gen + 1 ELSE gen
           acc1 == IF auto THEN FALSE ELSE accepted
           cut1 == IF auto THEN FALSE ELSE cutoff
           est1 == IF auto THEN FALSE ELSE estab
           try == ~acc1                                   \* the TCP connection is attempted
           ok == try /\ rc \in RcOk
           acc2 == acc1 \/ ok
           shake == IsTls /\ acc2                         \* the handshake is attempted
       IN
       /\ gen + Needs(rc) <= MaxSocks
       /\ IF try THEN rc \in Rcs ELSE rc = "na"
       /\ IF shake THEN hs \in Hss ELSE hs = "na"
       /\ IF alt = "idle"
          THEN \* closed and cut off: the client may leave it to the application to reopen (the answers stay unused)
               /\ sock = "none" /\ cutoff
               /\ res' = Bool(FALSE) /\ obs' = Quiet
               /\ UNCHANGED <<sock, gen, accepted, connected, cutoff, estab, shook>>
          ELSE
              /\ obs' = Obs(IF try THEN 1 ELSE 0, IF shake THEN 1 ELSE 0, FALSE, RcClass(rc), HsClass(hs))
              /\ IF try /\ rc \in RcPend
                 THEN \* not yet: the attempt goes on on the same socket
                      /\ alt = "keep"
                      /\ sock' = "open" /\ gen' = g1 /\ accepted' = FALSE /\ connected' = FALSE /\ cutoff' = cut1
                      /\ estab' = est1 /\ shook' = FALSE
                      /\ res' = Bool(FALSE)
                 ELSE IF try /\ rc \in RcHard
                 THEN \* failed: not connected, try again later; socket kept, replaced or closed
                      /\ alt \in {"keep", "keepcut", "fresh", "closed", "closedcut"}
                      /\ sock' = IF alt \in {"closed", "closedcut"} THEN "none" ELSE "open"
                      /\ gen' = IF alt = "fresh" THEN g1 + 1 ELSE g1
                      /\ accepted' = FALSE /\ connected' = FALSE /\ estab' = FALSE /\ shook' = FALSE
                      /\ cutoff' = IF alt \in {"keepcut", "closedcut"} THEN TRUE ELSE IF alt = "fresh" THEN FALSE ELSE cut1
                      /\ res' = Bool(FALSE)
                 ELSE IF try /\ rc \in RcRaise
                 THEN \* the error propagates; the client is left as it was, or closed
                      /\ alt \in {"keep", "closed"}
                      /\ sock' = IF alt = "closed" THEN "none" ELSE "open"
                      /\ gen' = g1 /\ accepted' = FALSE /\ connected' = FALSE /\ estab' = FALSE /\ shook' = FALSE /\ cutoff' = cut1
                      /\ res' = Raise
                 ELSE \* the TCP connection stands (since this call or an earlier one)
                      /\ alt = "keep"
                      /\ gen' = g1
                      /\ IF ~shake
                         THEN \* plain: connected when accepted
                              /\ sock' = "open" /\ accepted' = TRUE /\ connected' = TRUE /\ estab' = TRUE /\ shook' = FALSE
                              /\ cutoff' = FALSE /\ res' = Bool(TRUE)
                         ELSE CASE hs \in HsOk ->
                                     /\ sock' = "open" /\ accepted' = TRUE /\ connected' = TRUE /\ estab' = TRUE /\ shook' = TRUE
                                     /\ cutoff' = (IF ok THEN FALSE ELSE cut1) /\ res' = Bool(TRUE)
                                [] hs \in HsWant ->
                                     /\ sock' = "open" /\ accepted' = TRUE /\ connected' = FALSE /\ estab' = TRUE /\ shook' = FALSE
                                     /\ cutoff' = (IF ok THEN FALSE ELSE cut1) /\ res' = Bool(FALSE)
                                [] hs \in HsLoss ->   \* lost during the handshake: closed and marked cut off, no exception
                                     /\ sock' = "none" /\ accepted' = FALSE /\ connected' = FALSE /\ estab' = FALSE /\ shook' = FALSE
                                     /\ cutoff' = TRUE /\ res' = Bool(FALSE)
                                [] hs \in HsFatal ->  \* the handshake failed: the error propagates, the client is closed
                                     /\ sock' = "none" /\ accepted' = FALSE /\ connected' = FALSE /\ estab' = FALSE /\ shook' = FALSE
                                     /\ cutoff' = (IF ok THEN FALSE ELSE cut1) /\ res' = Raise

(* ---------------- application data ---------------- *)
NextMsg == <<nq + 1, nq + 2>>
\* tx(data): in any state, also while closed or connecting
Queue == /\ nq < 2 * MaxMsgs
         /\ txes' = Append(txes, NextMsg) /\ queued' = queued \o NextMsg /\ nq' = nq + 2
         /\ res' = None /\ obs' = Quiet
         /\ UNCHANGED <<kind, sock, gen, accepted, connected, cutoff, estab, shook, wire, rxbs>>

\* the transport only touches its socket while connected and not cut off
CanIo == connected /\ ~cutoff

\* serviceTxes(); a: what the socket does with the bytes offered during this call:
\*   "all" accepts everything, "one" accepts one byte and then would block, "block" would block at once, "loss" fails with
\*   a connection-loss error, "na" the socket is not asked
ServiceTx(a) ==
    /\ IF CanIo /\ txes # <<>> THEN a \in {"all", "one", "block", "loss"} ELSE a = "na"
    /\ CASE a = "all" -> wire' = wire \o Flat(txes) /\ txes' = <<>> /\ UNCHANGED cutoff
         [] a = "one" -> /\ wire' = Append(wire, Head(Head(txes)))
                         /\ txes' = IF Len(Head(txes)) = 1 THEN Tail(txes) ELSE <<Tail(Head(txes))>> \o Tail(txes)
                         /\ UNCHANGED cutoff
         [] a = "block" -> UNCHANGED <<wire, txes, cutoff>>
         [] a = "loss" -> cutoff' = TRUE /\ UNCHANGED <<wire, txes>>
         [] OTHER -> UNCHANGED <<wire, txes, cutoff>>
    /\ res' = None /\ obs' = Io(a # "na")
    /\ UNCHANGED <<kind, sock, gen, accepted, connected, estab, shook, queued, nq, rxbs>>

\* serviceReceives(); a: "data" one new byte then would block, "block", "closed" the far side closed, "loss", "na"
ServiceRx(a) ==
    /\ IF CanIo THEN a \in {"data", "block", "closed", "loss"} ELSE a = "na"
    /\ a = "data" => Len(rxbs) < MaxRx
    /\ rxbs' = IF a = "data" THEN Append(rxbs, Len(rxbs) + 1) ELSE rxbs
    /\ cutoff' = (cutoff \/ a \in {"closed", "loss"})
    /\ res' = None /\ obs' = Io(a # "na")
    /\ UNCHANGED <<kind, sock, gen, accepted, connected, estab, shook, txes, wire, queued, nq>>

Next == \/ Open
        \/ \E alt \in Alts : Reopen(alt)
        \/ \E alt \in Alts : Close(alt)
        \/ \E via \in Vias, rc \in AllRcs \cup {"na"}, hs \in AllHss \cup {"na"}, alt \in Alts : Connect(via, rc, hs, alt)
        \/ Queue
        \/ \E a \in {"all", "one", "block", "loss", "na"} : ServiceTx(a)
        \/ \E a \in {"data", "block", "closed", "loss", "na"} : ServiceRx(a)
Spec == Init /\ [][Next]_vars

(* ---------------- properties ---------------- *)
TypeOK == /\ sock \in {"none", "open"} /\ gen \in 0..MaxSocks
          /\ accepted \in BOOLEAN /\ connected \in BOOLEAN /\ cutoff \in BOOLEAN
\* the flags agree with each other and with the socket: a closed client is neither accepted nor connected; connected
\* implies accepted; without TLS the two are the same
FlagsConsistent == /\ (sock = "none") => (~accepted /\ ~connected)
                   /\ connected => accepted
                   /\ ~IsTls => (connected = accepted)
\* connected only after the kernel reported success on the live socket (TLS: and the handshake completed on it)
ConnectedOnlyAfterSuccess == /\ accepted => estab
                             /\ (connected /\ IsTls) => shook
                             /\ (estab \/ shook) => sock = "open"
\* no application byte moves before the connection is established
NoDataBeforeEstablished == [][(wire' # wire \/ rxbs' # rxbs) =>
                                (connected /\ estab /\ (IsTls => shook) /\ ~cutoff /\ obs'.io)]_vars
\* the socket is not asked to send or receive unless the client is connected and not cut off
NoIoUnlessConnected == [][obs'.io => (connected /\ ~cutoff)]_vars
\* nothing queued is lost, repeated or reordered, whatever happens while connecting
QueueSurvives == wire \o Flat(txes) = queued
\* an attempt that is merely pending is not abandoned: same socket (a new one only when the client was closed), no flag set
PendingKeepsSocket == [][(obs'.rk = "pend") => (/\ sock' = "open" /\ gen' = (IF sock = "none" THEN gen + 1 ELSE gen)
                                                 /\ ~accepted' /\ ~connected' /\ res' = Bool(FALSE))]_vars
WantKeepsSocket == [][(obs'.hk = "want") => (/\ sock' = "open" /\ gen' = (IF sock = "none" THEN gen + 1 ELSE gen)
                                              /\ accepted' /\ ~connected' /\ res' = Bool(FALSE))]_vars
\* a connection lost during the handshake: closed, marked cut off, no exception; a failed handshake or a raising
\* connect_ex propagates - and nothing else does
LossCutsOff == (obs.hk = "loss") => (cutoff /\ sock = "none" /\ res = Bool(FALSE))
OnlyFailuresRaise == (res = Raise) <=> (obs.hk = "fatal" \/ obs.rk = "raise")
\* whatever failed, the client holds at most the live socket and its flags are consistent (FlagsConsistent), so that the
\* application - or the next attempt - can open again: a failed attempt never leaves it connected or accepted
FailedIsNotConnected == (obs.rk \in {"pend", "hard", "raise"} \/ obs.hk \in {"loss", "fatal"}) => (~connected /\ ~accepted)
=============================================================================
