----------------------------- MODULE StreamStack -----------------------------
(* Packet streams between proto.TcpClientStack peers and one proto.TcpServerStack (property    *)
(* C36): every packet queued on a stack for a connected peer reaches that peer byte-for-byte   *)
(* in queue order, and every byte received on a connection is delivered in exactly one         *)
(* received packet, in order.                                                                  *)
(*                                                                                             *)
(* From the docstrings of ioflo/aio/proto/stacking.py and ioflo/aio/tcp:                       *)
(*   transmit(pkt[, ha])  "Pack and append pkt to .txPkts deque"                               *)
(*   serviceAll           "Service all Rx and Tx" (client); "Service request response" (server)*)
(*   serviceTxPkts        "Service the .txPkts deque to send packets through server"           *)
(*   serviceTxes          "For each tx if all bytes sent then keep sending until partial send  *)
(*                         or no more to send.  If partial send reattach and return"           *)
(*   serviceReceives      "Service receives until no more" / "Retrieve from server all         *)
(*                         received and queue up"; .rxPkts "deque to hold received packets"    *)
(*                                                                                             *)
(* A stream is one direction of one connection: <<p, "up">> carries the packets client p       *)
(* queues for the server, <<p, "down">> the packets the server queues for client p.  Packets   *)
(* are framed (a test packet class with a length prefix), so the byte stream of a direction is *)
(* the concatenation of its packets in queue order, and the position of everything is given by *)
(* offsets into that stream:                                                                   *)
(*     sz[s]      sizes of the packets queued so far (history)                                 *)
(*     sentb[s]   bytes the sender's socket has accepted                                       *)
(*     recvb[s]   bytes the receiver's socket has handed over                                  *)
(*     parsed[s]  packets delivered to the receiver's .rxPkts                                  *)
(* The environment decides, per service call and connection, how many bytes the socket accepts *)
(* (a: everything beyond is refused with would-block / a partial send) and how many of the     *)
(* bytes in flight have arrived (r), in which pieces (c: bytes per recv).  The binding checks   *)
(* the bytes themselves against the stream (this module only moves offsets).                   *)
EXTENDS Integers, Sequences, FiniteSets, TLC

CONSTANTS NPeers,    \* client stacks 1..NPeers, each connected to the server stack
          MaxUp,     \* packets each client queues
          MaxDown,   \* packets the server queues per client
          Sizes,     \* packet sizes in bytes (length prefix included)
          Chunks,    \* bytes per recv offered to the receiving side
          MaxSvc,    \* service calls during a behaviour
          MaxB       \* bound of the per-call byte budgets (at least the length of the longest stream)

Peers == 1..NPeers
Dirs == {"up", "down"}
Streams == Peers \X Dirs

VARIABLES sz, sentb, recvb, parsed, nsvc
vars == <<sz, sentb, recvb, parsed, nsvc>>

RECURSIVE Sum(_, _)
Sum(q, k) == IF k = 0 THEN 0 ELSE q[k] + Sum(q, k - 1)     \* bytes of the first k packets
Total(s) == Sum(sz[s], Len(sz[s]))
\* number of complete packets within the first n bytes of stream s
Whole(s, n) == Cardinality({k \in 1..Len(sz[s]) : Sum(sz[s], k) <= n})

Init == /\ sz = [s \in Streams |-> <<>>]
        /\ sentb = [s \in Streams |-> 0] /\ recvb = [s \in Streams |-> 0] /\ parsed = [s \in Streams |-> 0]
        /\ nsvc = 0

\* the application on the sending side of stream <<p, d>> queues a packet of n bytes.  how = "new": a fresh packet;
\* how = "same": the very packet object it queued last on this stream, once more (what exchanging.Exchange does when
\* it redoes a transmission: stack.transmit(self.tx)).  The model only knows the content, so both are one action: a packet
\* handed to transmit() belongs to the caller and is the same packet afterwards
Hows == {"new", "same"}
Transmit(p, d, n, how) ==
    /\ how \in Hows
    /\ how = "same" => (Len(sz[<<p, d>>]) > 0 /\ n = sz[<<p, d>>][Len(sz[<<p, d>>])])
    /\ Len(sz[<<p, d>>]) < (IF d = "up" THEN MaxUp ELSE MaxDown)
    /\ sz' = [sz EXCEPT ![<<p, d>>] = Append(@, n)]
    /\ UNCHANGED <<sentb, recvb, parsed, nsvc>>

Pending(s) == Total(s) - sentb[s]      \* bytes queued and not yet accepted by the sender's socket
Flight(s) == sentb[s] - recvb[s]       \* bytes accepted by the sender's socket, not yet handed to the receiver

\* client p services (serviceAll): its socket accepts a more bytes of its up stream, r more bytes of its down stream
\* arrive (c = bytes per recv); every complete packet that has arrived is delivered
ServeClient(p, a, r, c) ==
    LET u == <<p, "up">>
        d == <<p, "down">> IN
    /\ nsvc < MaxSvc
    /\ a <= Pending(u) /\ r <= Flight(d)                 \* normal form of the budgets
    /\ sentb' = [sentb EXCEPT ![u] = @ + a]
    /\ recvb' = [recvb EXCEPT ![d] = @ + r]
    /\ parsed' = [parsed EXCEPT ![d] = Whole(d, recvb[d] + r)]
    /\ nsvc' = nsvc + 1
    /\ UNCHANGED sz

\* the server services (serviceAll): per connection p its socket accepts a[p] more bytes of the down stream and r[p]
\* more bytes of the up stream arrive
ServeServer(a, r, c) ==
    /\ nsvc < MaxSvc
    /\ \A p \in Peers : a[p] <= Pending(<<p, "down">>) /\ r[p] <= Flight(<<p, "up">>)
    /\ sentb' = [s \in Streams |-> IF s[2] = "down" THEN sentb[s] + a[s[1]] ELSE sentb[s]]
    /\ recvb' = [s \in Streams |-> IF s[2] = "up" THEN recvb[s] + r[s[1]] ELSE recvb[s]]
    /\ parsed' = [s \in Streams |-> IF s[2] = "up" THEN Whole(s, recvb[s] + r[s[1]]) ELSE parsed[s]]
    /\ nsvc' = nsvc + 1
    /\ UNCHANGED sz

Next == \/ \E p \in Peers, d \in Dirs, n \in Sizes, how \in Hows : Transmit(p, d, n, how)
        \/ \E p \in Peers, a \in 0..MaxB, r \in 0..MaxB, c \in Chunks : ServeClient(p, a, r, c)
        \/ \E a \in [Peers -> 0..MaxB], r \in [Peers -> 0..MaxB], c \in Chunks : ServeServer(a, r, c)
Spec == Init /\ [][Next]_vars

(* ---------------- properties ---------------- *)
\* bytes reach the peer in order and nothing is invented: the receiver holds a prefix of what the sender's socket took,
\* which is a prefix of what was queued
PeerGetsExactBytesInOrder == \A s \in Streams : 0 <= recvb[s] /\ recvb[s] <= sentb[s] /\ sentb[s] <= Total(s)
\* every received byte is in exactly one delivered packet, except the bytes of a packet still incomplete
EveryRxByteInExactlyOnePacket ==
    \A s \in Streams : /\ Sum(sz[s], parsed[s]) <= recvb[s]
                       /\ parsed[s] < Len(sz[s]) => recvb[s] < Sum(sz[s], parsed[s] + 1)
\* nothing is lost on the way: whenever the environment takes everything, everything queued arrives as packets
Progress == [][\A s \in Streams : (sentb'[s] = Total(s) /\ recvb'[s] = sentb'[s] /\ recvb'[s] # recvb[s])
                                      => parsed'[s] = Len(sz[s])]_vars
=============================================================================
