-------------------------- MODULE ConnClientTrace --------------------------
(* Binding B for ConnClient.tla: a recorded execution of a real tcp.Client / tcp.ClientTls over *)
(* scripted socket doubles (seeded random answers of connect_ex, do_handshake, send, recv) is a *)
(* sequence of events                                                                           *)
(*   {"ev": action, "via", "rc", "hs": the call and the answers the double gave | "a": the      *)
(*    answer to send / recv, "sock", "gen", "accepted", "connected", "cutoff" (absent after an  *)
(*    explicit close: not documented), "txes", "sent": what the call added to the bytes any     *)
(*    socket accepted, "rxbs", "res", "obs"}                                                    *)
(* preceded by a header event {"ev": "Init", "kind": "plain" | "tls"}.  The implementation's    *)
(* choices (alt) are not recorded: TLC looks for one that explains the recorded state.          *)
EXTENDS ConnClient, TraceBatch

VARIABLES tid, l
tvars == <<vars, tid, l>>

Ev == EvAt(tid, l)

TraceInit == /\ tid \in 1..NTraces
             /\ l = 2
             /\ Init
             /\ kind = EvAt(tid, 1).kind

Logged == /\ sock' = Ev.sock /\ gen' = Ev.gen
          /\ accepted' = Ev.accepted /\ connected' = Ev.connected
          /\ HasField(Ev, "cutoff") => cutoff' = Ev.cutoff
          /\ txes' = Ev.txes /\ wire' = wire \o Ev.sent /\ rxbs' = Ev.rxbs
          /\ res' = Ev.res /\ obs' = Ev.obs

\* an answer the double held ready but was not asked for is recorded as "na": any offer explains it
Offer(x, all) == IF x = "na" THEN all \cup {"na"} ELSE {x}

Consume(name) == l <= TraceLen(tid) /\ Ev.ev = name /\ l' = l + 1 /\ UNCHANGED tid

TraceNext ==
    \/ Consume("Open") /\ Open /\ Logged
    \/ Consume("Reopen") /\ (\E alt \in Alts : Reopen(alt) /\ Logged)
    \/ Consume("Close") /\ (\E alt \in Alts : Close(alt) /\ Logged)
    \/ Consume("Connect") /\ (\E alt \in Alts, rc \in Offer(Ev.rc, AllRcs), hs \in Offer(Ev.hs, AllHss) :
                                Connect(Ev.via, rc, hs, alt) /\ Logged)
    \/ Consume("Queue") /\ Queue /\ Logged
    \/ Consume("ServiceTx") /\ ServiceTx(Ev.a) /\ Logged
    \/ Consume("ServiceRx") /\ ServiceRx(Ev.a) /\ Logged

TraceSpec == TraceInit /\ [][TraceNext]_tvars
TraceOK == TraceConstraint(tid, l)
=============================================================================
