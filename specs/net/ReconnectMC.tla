----------------------------- MODULE ReconnectMC -----------------------------
(* Reconnect.tla with a history variable counting service calls, for the bounded response part  *)
(* of property C27: once the server listens and the reconnect timeout has elapsed, a            *)
(* reconnectable client is connected within a bounded number of service calls.                  *)
(*                                                                                              *)
(* w = unsuccessful service calls in a row made while a connection was *due*: the client is     *)
(* reconnectable, not connected, the server listens, and the client is not just waiting for its *)
(* timer (cut off, or a connection attempt lost for good, with time left on the timer).  The    *)
(* count starts again when the environment interferes (server up / down, reset, an attempt      *)
(* refused, the application reopening) and when the timer expires anew: the statement bounds the calls       *)
(* needed *after the reconnect timeout*; a clock that lets the whole timeout pass between two   *)
(* service calls again and again (timeout shorter than the service period) is not an            *)
(* environment in which any timeout driven client can be expected to connect.                   *)
EXTENDS Reconnect

CONSTANT K          \* the bound
VARIABLE w
mcvars == <<vars, w>>

Due == CanAuto /\ up /\ ~alive
Waiting == (cutoff \/ sk = "stuck") /\ rem > 0

MCInit == Init /\ w = 0
MCNext == \/ \E dt \in 1..MaxAdv : Advance(dt) /\ w' = (IF rem > 0 /\ rem' = 0 THEN 0 ELSE w)
          \/ (ServerUp \/ ServerDown \/ (\E kind \in ResetKinds : Reset(kind)) \/ Refuse \/ UserReopen) /\ w' = 0
          \/ \E r \in {"ok", "prog", "refused", "na"}, lazy \in BOOLEAN :
                 Service(r, lazy) /\ w' = (IF Due /\ ~Waiting /\ ~alive' /\ ~(r = "refused" /\ tries' = 1) THEN w + 1 ELSE 0)
MCSpec == MCInit /\ [][MCNext]_mcvars

\* connected within K + 1 service calls
BoundedResponse == w <= K
=============================================================================
