------------------------------ MODULE TxStream ------------------------------
(* Byte-stream transports of ioflo.aio (property C24): tcp.Client / ClientTls, the server side  *)
(* connection objects tcp.Incomer / IncomerTls and serial.Driver.  Written from the docstrings: *)
(*   tx(data)           "Queue data onto .txes"                                                 *)
(*   serviceTxes()      "For each tx if all bytes sent then keep sending until partial send or  *)
(*                       no more to send.  If partial send reattach and return"                 *)
(*   send(data)         "Perform non blocking send on connected socket.  Return number of bytes *)
(*                       sent"; what was sent goes to the wire log (WireLog.writeTx: "Write      *)
(*                       bytes data transmitted to destination address")                        *)
(*   receive()          "If no data then returns None.  If connection closed then returns       *)
(*                       empty.  Otherwise returns data"; received data goes to WireLog.writeRx *)
(*   serviceReceives()  "Service receives until no more" - appends to .rxbs                     *)
(*   serviceReceiveOnce "Retrieve from server only one reception"                               *)
(*   catRxbs()          "Return copy and clear .rxbs";  clearRxbs() "Clear .rxbs"               *)
(*   connect()          "Attempt nonblocking connect.  Returns True if successful, False if not *)
(*                       so try again later"; TLS: "Connected when both accepted connection and *)
(*                       TLS handshake complete"                                                *)
(*   .cutoff            "True when detect connection closed on far side"                        *)
(*                                                                                              *)
(* The answers of the socket (or serial device) are the environment: every service action takes *)
(* the *script* of answers the socket gave during that call, chosen by TLC (binding A) or       *)
(* recorded from a seeded random double (binding B).  An answer is a record [k, n, d]:           *)
(*   send:  k = "full" | "part" (n bytes, 0 < n < length) | "zero" | "block" | "loss"           *)
(*   recv:  k = "data" (d = the chunk) | "block" | "closed" | "loss" | "empty" (serial only)    *)
(* "loss" is a connection-loss error (property C25 says which); it is here because nothing may  *)
(* be lost or repeated across it either.                                                        *)
(* Bytes are integers; the harness maps them to byte values.                                    *)
EXTENDS Integers, Sequences, FiniteSets, TLC

CONSTANTS Flavors,   \* subset of {"client", "clienttls", "incomer", "incomertls", "serial", "device"}
          Modes,     \* subset of {"tx", "rx", "both"}: which side of the transport a behaviour of the model exercises
          MaxMsgs,   \* messages queued during a behaviour
          MaxLen,    \* bytes per message
          MaxRx,     \* bytes the peer delivers during a behaviour
          MaxChunks  \* chunks delivered within one service call

VARIABLES flavor,     \* the transport class (fixed in the initial state)
          mode,       \* bounds of the model's exploration (fixed in the initial state; no action depends on it)
          txes,       \* queue of messages still to send (head first)
          wire,       \* every byte the socket accepted, in order
          wlog,       \* payload bytes in the wire log's transmit side
          queued,     \* history: every byte ever queued, in order (= the buffers the caller handed to tx(), which a
                      \* transport must leave as they are: a caller may queue the very same buffer again)
          first,      \* history: the first message ever queued; the model queues it again later (a frame that is re-sent)
          rxbs,       \* receive buffer
          rlog,       \* payload bytes in the wire log's receive side
          delivered,  \* history: every byte the socket handed out
          taken,      \* history: bytes removed from rxbs by catRxbs
          accepted,   \* TCP connection established
          connected,  \* transport usable (plain: accepted; TLS: handshake done; serial: device opened)
          cutoff,     \* far side closed / connection lost
          res,        \* result of the last operation
          act         \* the last operation and the environment's answers to it (TLC only labels actions whose
                      \* parameters range over constant sets, so the replay harness reads the step from here)
vars == <<flavor, mode, txes, wire, wlog, queued, first, rxbs, rlog, delivered, taken, accepted, connected, cutoff, res, act>>

IsClient == flavor \in {"client", "clienttls"}
IsTls == flavor \in {"clienttls", "incomertls"}
IsSerial == flavor \in {"serial", "device"}
Same0 == UNCHANGED <<flavor, mode>>
Same == Same0 /\ UNCHANGED first

R(k, n, d) == [k |-> k, n |-> n, d |-> d]
Full == R("full", 0, <<>>)
Zero == R("zero", 0, <<>>)
Block == R("block", 0, <<>>)
Loss == R("loss", 0, <<>>)
Closed == R("closed", 0, <<>>)
Empty == R("empty", 0, <<>>)
Part(n) == R("part", n, <<>>)
Data(d) == R("data", 0, d)

Act(a, s, c, h) == [a |-> a, s |-> s, c |-> c, h |-> h]
None == [t |-> "none"]
Bool(b) == [t |-> "bool", v |-> b]
Bytes(s) == [t |-> "bytes", v |-> s]

RECURSIVE Flat(_)
Flat(q) == IF q = <<>> THEN <<>> ELSE Head(q) \o Flat(Tail(q))

Init == /\ flavor \in Flavors /\ mode \in Modes
        /\ txes = <<>> /\ wire = <<>> /\ wlog = <<>> /\ queued = <<>> /\ first = <<>>
        /\ rxbs = <<>> /\ rlog = <<>> /\ delivered = <<>> /\ taken = <<>>
        /\ accepted = ~IsClient /\ connected = ~IsClient
        /\ cutoff = FALSE /\ res = None /\ act = Act("Init", <<>>, "", "")

(* ---------------- queueing ---------------- *)
\* (m may be empty: a zero length message contributes nothing to the stream and must not hold up the queue)
Queue(m) == /\ txes' = Append(txes, m) /\ queued' = queued \o m
            /\ first' = (IF first = <<>> THEN m ELSE first)
            /\ res' = None /\ act' = Act("Queue", m, "", "") /\ Same0
            /\ UNCHANGED <<wire, wlog, rxbs, rlog, delivered, taken, accepted, connected, cutoff>>

(* ---------------- transmit ---------------- *)
\* the transport only touches its socket while usable and not cut off
Usable == connected /\ (IsSerial \/ ~cutoff)

\* One documented pass over queue q answering with script s.  ok: s is exactly what such a pass consumes.
RECURSIVE Pass(_, _)
Pass(q, s) ==
    IF q = <<>> THEN [q |-> q, out |-> <<>>, cut |-> FALSE, ok |-> (s = <<>>)]
    ELSE IF s = <<>> THEN [q |-> q, out |-> <<>>, cut |-> FALSE, ok |-> FALSE]
    ELSE LET r == Head(s)
             m == Head(q)
             last == (Tail(s) = <<>>) IN
         IF m = <<>> THEN
             \* an empty message: whatever the socket answers short of an error, all (zero) of its bytes are sent and
             \* the pass goes on with the next message ("if all bytes sent then keep sending")
             CASE r.k \in {"full", "zero", "block"} ->
                     LET p == Pass(Tail(q), Tail(s)) IN [q |-> p.q, out |-> p.out, cut |-> p.cut, ok |-> p.ok]
               [] r.k = "loss" -> [q |-> Tail(q), out |-> <<>>, cut |-> TRUE, ok |-> last /\ ~IsSerial]
               [] OTHER -> [q |-> q, out |-> <<>>, cut |-> FALSE, ok |-> FALSE]
         ELSE
         CASE r.k = "full" ->
                 LET p == Pass(Tail(q), Tail(s)) IN [q |-> p.q, out |-> m \o p.out, cut |-> p.cut, ok |-> p.ok]
           [] r.k = "part" ->
                 LET good == r.n > 0 /\ r.n < Len(m) IN
                 [q |-> IF good THEN <<SubSeq(m, r.n + 1, Len(m))>> \o Tail(q) ELSE q,
                  out |-> IF good THEN SubSeq(m, 1, r.n) ELSE <<>>, cut |-> FALSE, ok |-> last /\ good]
           [] r.k \in {"zero", "block"} -> [q |-> q, out |-> <<>>, cut |-> FALSE, ok |-> last]
           [] r.k = "loss" -> [q |-> q, out |-> <<>>, cut |-> TRUE, ok |-> last /\ ~IsSerial]
           [] OTHER -> [q |-> q, out |-> <<>>, cut |-> FALSE, ok |-> FALSE]

ServiceTx(s) ==
    /\ IF Usable
       THEN LET p == Pass(txes, s) IN
            /\ p.ok
            /\ txes' = p.q /\ wire' = wire \o p.out /\ wlog' = wlog \o p.out
            /\ cutoff' = (cutoff \/ p.cut)
       ELSE s = <<>> /\ UNCHANGED <<txes, wire, wlog, cutoff>>
    /\ res' = None /\ act' = Act("ServiceTx", s, "", "") /\ Same
    /\ UNCHANGED <<queued, rxbs, rlog, delivered, taken, accepted, connected>>

\* serial.Driver.serviceTxOnce: "Service one data on the .txes deque to send through device"
ServiceTxOnce(s) ==
    /\ IsSerial
    /\ IF Usable /\ txes # <<>>
       THEN /\ Len(s) = 1
            /\ LET p == Pass(<<Head(txes)>>, s) IN
               /\ p.ok
               /\ txes' = p.q \o Tail(txes) /\ wire' = wire \o p.out /\ wlog' = wlog \o p.out
       ELSE s = <<>> /\ UNCHANGED <<txes, wire, wlog>>
    /\ res' = None /\ act' = Act("ServiceTxOnce", s, "", "") /\ Same
    /\ UNCHANGED <<queued, rxbs, rlog, delivered, taken, accepted, connected, cutoff>>

(* ---------------- receive ---------------- *)
\* serviceReceives: data chunks are appended in arrival order until the socket has no more
RECURSIVE Recv(_)
Recv(s) ==
    IF s = <<>> THEN [in |-> <<>>, cut |-> FALSE, ok |-> FALSE]       \* a pass always ends with a non-data answer
    ELSE LET r == Head(s)
             last == (Tail(s) = <<>>) IN
         CASE r.k = "data" -> LET p == Recv(Tail(s)) IN [in |-> r.d \o p.in, cut |-> p.cut, ok |-> p.ok /\ r.d # <<>>]
           [] r.k = "block" -> [in |-> <<>>, cut |-> FALSE, ok |-> last]
           [] r.k = "empty" -> [in |-> <<>>, cut |-> FALSE, ok |-> last /\ IsSerial]
           [] r.k \in {"closed", "loss"} -> [in |-> <<>>, cut |-> TRUE, ok |-> last /\ ~IsSerial]
           [] OTHER -> [in |-> <<>>, cut |-> FALSE, ok |-> FALSE]

ServiceRx(s) ==
    /\ IF Usable
       THEN LET p == Recv(s) IN
            /\ p.ok
            /\ rxbs' = rxbs \o p.in /\ rlog' = rlog \o p.in /\ delivered' = delivered \o p.in
            /\ cutoff' = (cutoff \/ p.cut)
       ELSE s = <<>> /\ UNCHANGED <<rxbs, rlog, delivered, cutoff>>
    /\ res' = None /\ act' = Act("ServiceRx", s, "", "") /\ Same
    /\ UNCHANGED <<txes, wire, wlog, queued, taken, accepted, connected>>

\* serviceReceiveOnce: exactly one answer of the socket
ServiceRxOnce(s) ==
    /\ IF Usable
       THEN /\ Len(s) = 1
            /\ LET r == s[1]
                   p == IF r.k = "data" THEN [in |-> r.d, cut |-> FALSE, ok |-> r.d # <<>>] ELSE Recv(s) IN
               /\ p.ok
               /\ rxbs' = rxbs \o p.in /\ rlog' = rlog \o p.in /\ delivered' = delivered \o p.in
               /\ cutoff' = (cutoff \/ p.cut)
       ELSE s = <<>> /\ UNCHANGED <<rxbs, rlog, delivered, cutoff>>
    /\ res' = None /\ act' = Act("ServiceRxOnce", s, "", "") /\ Same
    /\ UNCHANGED <<txes, wire, wlog, queued, taken, accepted, connected>>

\* catRxbs: "Return copy and clear .rxbs"
Cat == /\ ~IsSerial
       /\ res' = Bytes(rxbs) /\ taken' = taken \o rxbs /\ rxbs' = <<>> /\ act' = Act("Cat", <<>>, "", "") /\ Same
       /\ UNCHANGED <<txes, wire, wlog, queued, rlog, delivered, accepted, connected, cutoff>>

\* clearRxbs: "Clear .rxbs" (all transports)
Clear == /\ res' = None /\ taken' = taken \o rxbs /\ rxbs' = <<>> /\ act' = Act("Clear", <<>>, "", "") /\ Same
         /\ UNCHANGED <<txes, wire, wlog, queued, rlog, delivered, accepted, connected, cutoff>>

(* ---------------- connecting (clients) ---------------- *)
\* One serviceConnect() call.  c = answer of the TCP connect ("ok" | "pending" | "na" when already accepted);
\* h = answer of the TLS handshake ("ok" | "want" | "na" when there is no handshake in this call).
Connect(c, h) ==
    /\ IsClient /\ ~connected
    /\ IF accepted THEN c = "na" ELSE c \in {"ok", "pending"}
    /\ accepted' = (accepted \/ c = "ok")
    /\ IF IsTls /\ accepted' THEN h \in {"ok", "want"} ELSE h = "na"
    /\ connected' = IF IsTls THEN h = "ok" ELSE accepted'
    /\ res' = Bool(connected') /\ act' = Act("Connect", <<>>, c, h) /\ Same
    /\ UNCHANGED <<txes, wire, wlog, queued, rxbs, rlog, delivered, taken, cutoff>>

(* ---------------- the model's choice of environment answers ---------------- *)
\* bounds of the exploration: the two directions are independent, so they are explored deeply one at a time ("tx", "rx")
\* and together with smaller bounds ("both")
Min(a, b) == IF a < b THEN a ELSE b
BMsgs == CASE mode = "tx" -> MaxMsgs [] mode = "rx" -> 0 [] OTHER -> Min(1, MaxMsgs)
BLen == CASE mode = "tx" -> MaxLen [] mode = "rx" -> 0 [] OTHER -> Min(2, MaxLen)
BRx == CASE mode = "tx" -> 0 [] mode = "rx" -> MaxRx [] OTHER -> 1
BChunks == CASE mode = "tx" -> 0 [] mode = "rx" -> MaxChunks [] OTHER -> 1
NextMsg(n) == [i \in 1..n |-> Len(queued) + i]
NextChunk(off, n) == [i \in 1..n |-> Len(delivered) + off + i]
Fulls(j) == [i \in 1..j |-> Full]
TxTerminals(m) == {Zero, Block} \cup {Part(k) : k \in 1..(Len(m) - 1)} \cup (IF IsSerial THEN {} ELSE {Loss})
RECURSIVE TxScripts(_)
TxScripts(q) ==
    IF q = <<>> THEN {<<>>}
    ELSE IF Head(q) = <<>>
         THEN {<<a>> \o t : a \in {Full, Block}, t \in TxScripts(Tail(q))} \cup (IF IsSerial THEN {} ELSE {<<Loss>>})
         ELSE {<<Full>> \o t : t \in TxScripts(Tail(q))} \cup {<<t>> : t \in TxTerminals(Head(q))}
RxTerminals == IF IsSerial THEN {Block, Empty} ELSE {Block, Closed, Loss}
Room == BRx - Len(delivered)
\* scripts of up to MaxChunks chunks (sizes 1 or 2) followed by a terminal answer
RECURSIVE ChunkSeqs(_, _, _)
ChunkSeqs(off, k, room) ==
    {<<>>} \cup (IF k = 0 THEN {} ELSE
                 UNION {{<<Data(NextChunk(off, n))>> \o rest : rest \in ChunkSeqs(off + n, k - 1, room - n)}
                        : n \in {x \in 1..2 : x <= room}})
RxScripts == {c \o <<t>> : c \in ChunkSeqs(0, BChunks, Room), t \in RxTerminals}
RxOnce == {<<t>> : t \in RxTerminals} \cup {<<Data(NextChunk(0, n))>> : n \in {x \in 1..2 : x <= Room}}

TxSide == mode # "rx"
RxSide == mode # "tx"
Next == \/ \E n \in 1..BLen : Len(queued) + n <= BMsgs * BLen /\ Len(txes) < BMsgs /\ Queue(NextMsg(n))
        \/ mode = "tx" /\ Len(txes) < BMsgs /\ (\A i \in 1..Len(txes) : txes[i] # <<>>) /\ Queue(<<>>)     \* a zero length message
        \/ first # <<>> /\ queued = first /\ TxSide /\ Len(queued) + Len(first) <= BMsgs * BLen /\ Len(txes) < BMsgs
              /\ Queue(first)    \* the same frame once more, before or after (part of) its first copy went out
        \/ TxSide /\ \E s \in (IF Usable THEN TxScripts(txes) ELSE {<<>>}) : ServiceTx(s)
        \/ TxSide /\ \E s \in (IF Usable /\ txes # <<>> THEN TxScripts(<<Head(txes)>>) ELSE {<<>>}) : ServiceTxOnce(s)
        \/ RxSide /\ \E s \in (IF Usable THEN RxScripts ELSE {<<>>}) : ServiceRx(s)
        \/ RxSide /\ \E s \in (IF Usable THEN RxOnce ELSE {<<>>}) : ServiceRxOnce(s)
        \/ RxSide /\ Cat
        \/ RxSide /\ Clear
        \/ \E c \in {"ok", "pending", "na"}, h \in {"ok", "want", "na"} : Connect(c, h)
Spec == Init /\ [][Next]_vars

(* ---------------- properties ---------------- *)
\* nothing lost, repeated or reordered: what is on the wire followed by what is still queued is what was queued
Conservation == wire \o Flat(txes) = queued
\* the wire log records exactly what the socket accepted
WlogEqualsWire == wlog = wire
\* received chunks are appended to the receive buffer in arrival order, and logged
RxInOrder == taken \o rxbs = delivered /\ rlog = delivered
\* a partial send never leaves an empty residue in the queue (only the caller puts zero length messages there)
Empties(q) == Cardinality({i \in 1..Len(q) : q[i] = <<>>})
NoEmptyResidue == [][(act'.a # "Queue") => Empties(txes') <= Empties(txes)]_vars
\* once cut off a transport neither sends nor receives
CutoffStops == [][(cutoff /\ ~IsSerial) => (wire' = wire /\ delivered' = delivered /\ cutoff')]_vars
\* nothing is sent before the transport is connected
NoTxBeforeConnect == ~connected => wire = <<>>
=============================================================================
