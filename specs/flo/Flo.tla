--------------------------------- MODULE Flo ---------------------------------
(* Small-step interpreter of the FloScript run-time semantics of ioflo, written from the       *)
(* documentation (class docstrings of Skedder, Tasker, Framer, Frame, Transiter, Suspender,     *)
(* the builder's verb docstrings, the README) and the property statements C02-C12.              *)
(*                                                                                             *)
(* The machine is PROGRAM-PARAMETRIC: `prog` is an immutable variable holding one house         *)
(* (see vf/flo/prog.py for the JSON shape; the same value is printed as FloScript text and      *)
(* built by the real Builder).  A scheduler run is a sequence of small steps; every step an     *)
(* observer can see carries a label in `lab` (tick boundaries, environment writes, recorder     *)
(* actions, a runner yielding its status, the end of the run); all other steps are silent.      *)
(*                                                                                             *)
(*  Skedder:  each tick, the ready taskers are dispatched in house order; one that is due is    *)
(*            sent its current desire and requeued at retime + period (aborted ones leave);     *)
(*            the run ends after a tick in which nothing is started/running, or when nothing    *)
(*            is scheduled; however it ends every tasker still scheduled gets one abort.        *)
(*  Framer:   control x status table of the runner; enterAll / exitAll / segue / recur;          *)
(*            transitions (go) with entry guards; plain and conditional auxiliaries; bids;      *)
(*            done; elapsed / recurred clocks.                                                  *)
(*  Needs:    comparison conditions with tolerance, share-valued goals, numbers / strings /      *)
(*            booleans and truthiness (C21, operator Check of FloNeeds.tla); `is updated` /      *)
(*            `is changed` conditions over share stamps and marks (C20).                         *)
(* The recursive procedures of a framer run are flattened into the work list `todo`.            *)
EXTENDS Integers, Sequences, FiniteSets, TLC, FloNeeds

VARIABLES
    prog,      \* the program (immutable)
    phase,     \* "init" | "tick" | "between" | "sweep" | "end"
    now,       \* store time in quanta
    tickn,     \* tick counter
    pending,   \* entries of this tick not yet dispatched  <<[t, retime, period]>>
    ready,     \* entries already requeued (next tick's pending)
    more,      \* some tasker was started/running in this tick
    cur,       \* tasker being dispatched by the skedder ("" none)
    fs,        \* framer name -> run-time record
    store,     \* share name -> value (field `value`; an int in units of 1/Scale, a string or a boolean)
    stamps,    \* watched share -> store time of its last update (-1: not updated since the build)
    xstore,    \* watched share -> its second field [has, v] (absent until another field is put into the share or written from outside)
    marks,     \* mark id <<kind, share, framer, key>> -> [es, ts, set, val, x]   (C20)
    todo,      \* work list of micro operations (head first)
    entered,   \* frame key -> number of enters minus exits (history, for bracketing)
    crashed,   \* "" | "error" | "interrupt": why the loop was left
    sweeps,    \* tasker -> number of aborts sent by the final sweep (history)
    lab        \* label of the last step (observation)

vars == <<prog, phase, now, tickn, pending, ready, more, cur, fs, store, stamps, xstore, marks, todo, entered, crashed, sweeps, lab>>

Silent == [k |-> "silent"]

(* ------------------------------------------------------------------------------------------ *)
(* Static structure of the program                                                            *)
Framers == DOMAIN prog.framers
FrameKeys == DOMAIN prog.frames
Fr(k) == prog.frames[k]
Shares == DOMAIN prog.shares

RECURSIVE Up(_), Down(_)
Up(k) == IF Fr(k).over = "" THEN <<k>> ELSE Up(Fr(k).over) \o <<k>>
Down(k) == IF Fr(k).under = "" THEN <<>> ELSE <<Fr(k).under>> \o Down(Fr(k).under)
Outline(k) == Up(k) \o Down(k)        \* top ... k ... primary unders ... leaf
HeadOf(k) == Up(k)                    \* top ... k

Reverse(s) == [i \in 1..Len(s) |-> s[Len(s) + 1 - i]]
Range(s) == {s[i] : i \in 1..Len(s)}
Names(ks) == [i \in 1..Len(ks) |-> Fr(ks[i]).name]
IndexIn(s, x) == IF x \in Range(s) THEN CHOOSE i \in 1..Len(s) : s[i] = x ELSE 0

\* ExEn (docstring of Framer.ExEn): first index where nears[i] is far or differs from far's outline
ExEnIndex(nears, far) ==
    LET fars == Outline(far)
        l == IF Len(nears) < Len(fars) THEN Len(nears) ELSE Len(fars)
        S == {i \in 1..l : nears[i] = far \/ nears[i] # fars[i]}
    IN IF S = {} THEN 0 ELSE CHOOSE i \in S : \A j \in S : i <= j
Exits(nears, far) == LET i == ExEnIndex(nears, far) IN IF i = 0 THEN <<>> ELSE SubSeq(nears, i, Len(nears))
Enters(nears, far) == LET i == ExEnIndex(nears, far) IN IF i = 0 THEN <<>> ELSE SubSeq(Outline(far), i, Len(Outline(far)))
Reexens(nears, far) == LET i == ExEnIndex(nears, far) IN IF i = 0 THEN nears ELSE SubSeq(nears, 1, i - 1)

Running(f) == fs[f].status \in {"started", "running"}

(* ------------------------------------------------------------------------------------------ *)
(* Conditions (needs) - pure                                                                   *)
Cmp(a, op, b) == CASE op = "==" -> a = b [] op = "!=" -> a # b [] op = "<" -> a < b
                   [] op = "<=" -> a <= b [] op = ">=" -> a >= b [] op = ">" -> a > b

AuxesOf(k) == Fr(k).auxes

\* numbers in the store are integers in units of 1/Scale (a program with Scale = 2 has halves)
Scale == IF "scale" \in DOMAIN prog THEN prog.scale ELSE 1
\* quanta per store unit: converts a share holding seconds into the quanta of the framer clocks
Qpu == IF "qpu" \in DOMAIN prog THEN prog.qpu ELSE 16

\* C21: `state <op> goal [+- tol]`, state = a share or a framer clock, goal = a literal or a share
CheckState(f, n) == CASE n.src = "share"    -> [t |-> n.st, v |-> store[n.share]]
                      [] n.src = "elapsed"  -> Num(fs[f].elapsed)                 \* quanta
                      [] n.src = "recurred" -> Num(fs[f].recurred * Scale)
CheckGoal(n) == IF n.gk = "lit" THEN [t |-> n.gt, v |-> n.goal]
                ELSE [t |-> n.gt, v |-> IF n.src = "elapsed" THEN store[n.goal] * Qpu ELSE store[n.goal]]

NeedRaw(f, n) ==
    CASE n.k = "always"   -> TRUE
      [] n.k = "cmp"      -> Cmp(store[n.share], n.op, n.goal)
      [] n.k = "cmpshare" -> Cmp(store[n.share], n.op, store[n.goal])
      [] n.k = "bool"     -> store[n.share] # 0
      [] n.k = "check"    -> Check(CheckState(f, n), n.op, CheckGoal(n), n.tol)
      [] n.k = "truthy"   -> Truthy([t |-> n.st, v |-> store[n.share]])
      [] n.k = "elapsed"  -> Cmp(fs[f].elapsed, n.op, n.goal)
      [] n.k = "recurred" -> Cmp(fs[f].recurred, n.op, n.goal)
      [] n.k = "done"     -> fs[n.who].done
      [] n.k = "status"   -> fs[n.who].status = n.is
      [] n.k = "auxdone"  -> LET as == AuxesOf(n.frame) IN
                             IF n.mode = "any" THEN \E i \in 1..Len(as) : fs[as[i]].done
                             ELSE IF n.mode = "all" THEN as # <<>> /\ \A i \in 1..Len(as) : fs[as[i]].done
                             ELSE fs[n.mode].done
Need(f, n) == IF n.neg THEN ~NeedRaw(f, n) ELSE NeedRaw(f, n)
AllNeeds(f, ns) == \A i \in 1..Len(ns) : Need(f, ns[i])

(* ---- C20: `share is updated|changed [in frame F] [by marker]` on a transition ---------------- *)
(* A mark belongs to a share and is named, within its framer, by the `by` marker or else by the  *)
(* frame (the named frame of the `in frame` form, else the frame of the transition).  It is set  *)
(*   - on entry to the named frame, before the frame's enter actions (only the `in frame` form), *)
(*   - whenever a transition guarded by it is taken (transit sub-context).                       *)
(* `updated`: the share was updated after the mark was last set; an update in the same tick as   *)
(* an entry reset counts, one in the same tick as a taken-transition reset does not; before the  *)
(* mark is first set any update counts.  (When both kinds of reset happened in the tick of the   *)
(* update the two clauses pull in opposite directions: either answer is admitted.)               *)
(* `changed`: some field differs from (or was added since) the snapshot taken at those moments;  *)
(* true before the first snapshot.                                                               *)
IsMarkNeed(n) == n.k \in {"updated", "changed"}
MarkKey(k, n) == IF n.by # "" THEN n.by ELSE Fr(IF n.frame # "" THEN n.frame ELSE k).name
MarkId(k, n) == <<n.k, n.share, Fr(k).framer, MarkKey(k, n)>>
\* every use of a marker condition: [k: frame of the transition, n: the need]
MarkUses == UNION {UNION {{[k |-> k, n |-> Fr(k).precur[j].needs[i]] :
                              i \in {i \in 1..Len(Fr(k).precur[j].needs) : IsMarkNeed(Fr(k).precur[j].needs[i])}} :
                          j \in {j \in 1..Len(Fr(k).precur) : Fr(k).precur[j].k = "go"}} : k \in FrameKeys}
MarkIds == {MarkId(u.k, u.n) : u \in MarkUses}
NoMark == [es |-> -1, ts |-> -1, set |-> FALSE, val |-> 0, x |-> [has |-> FALSE, v |-> 0]]
\* the marks set on entry to frame k
EntryMarkIds(k) == {MarkId(u.k, u.n) : u \in {u \in MarkUses : u.n.frame = k}}
Watched == DOMAIN stamps

SetMark(m, id, how) ==
    IF id[1] = "updated" THEN (IF how = "entry" THEN [m EXCEPT !.es = now] ELSE [m EXCEPT !.ts = now])
    ELSE [m EXCEPT !.set = TRUE, !.val = store[id[2]], !.x = xstore[id[2]]]
ResetMarks(ids, how) == [id \in DOMAIN marks |-> IF id \in ids THEN SetMark(marks[id], id, how) ELSE marks[id]]

Max2(a, b) == IF a >= b THEN a ELSE b
\* which case of the statement decides an `updated` condition (also names the vacuity guards)
UpdatedCase(id) ==
    LET st == stamps[id[2]]  m == marks[id]  ms == Max2(m.es, m.ts) IN
    IF st = -1 THEN "never"                 \* not updated at all since the build
    ELSE IF ms = -1 THEN "first"            \* mark not yet set: any update counts
    ELSE IF st > ms THEN "later"
    ELSE IF st < ms THEN "earlier"
    ELSE IF m.ts # ms THEN "entry"          \* same tick as an entry reset only: counts
    ELSE IF m.es # ms THEN "transit"        \* same tick as a taken-transition reset only: does not
    ELSE "both"
UpdatedOut(id) == LET c == UpdatedCase(id) IN
    IF c \in {"first", "later", "entry"} THEN {TRUE} ELSE IF c = "both" THEN BOOLEAN ELSE {FALSE}
ChangedCase(id) == LET m == marks[id] IN
    IF ~m.set THEN "nosnap"                               \* true before the first snapshot
    ELSE IF store[id[2]] # m.val THEN "differs"           \* a field value differs from the snapshot
    ELSE IF xstore[id[2]].has /\ ~m.x.has THEN "added"    \* a field was added since the snapshot
    ELSE IF xstore[id[2]] # m.x THEN "differs" ELSE "same"
ChangedOut(id) == {ChangedCase(id) # "same"}

\* admissible truth values of one clause / of a conjunction evaluated for the transition act of frame k
NeedOut(f, k, n) == LET r == IF n.k = "updated" THEN UpdatedOut(MarkId(k, n))
                             ELSE IF n.k = "changed" THEN ChangedOut(MarkId(k, n)) ELSE {NeedRaw(f, n)} IN
                    IF n.neg THEN {~b : b \in r} ELSE r
NeedsOut(f, k, ns) == {b \in BOOLEAN : \/ b /\ \A i \in 1..Len(ns) : TRUE \in NeedOut(f, k, ns[i])
                                       \/ ~b /\ \E i \in 1..Len(ns) : FALSE \in NeedOut(f, k, ns[i])}
MarkIdsIn(k, ns) == {MarkId(k, ns[i]) : i \in {i \in 1..Len(ns) : IsMarkNeed(ns[i])}}
\* case tag of a transition act: the deciding case of its first marker condition ("plain": it has none)
GoCase(k, a) ==
    IF a.k # "go" THEN "plain"
    ELSE LET idx == {i \in 1..Len(a.needs) : IsMarkNeed(a.needs[i])} IN
         IF idx = {} THEN "plain"
         ELSE LET n == a.needs[CHOOSE i \in idx : \A j \in idx : i <= j]  id == MarkId(k, n) IN
              IF n.k = "updated" THEN UpdatedCase(id) ELSE ChangedCase(id)

\* Entry guards.  A frame may be entered iff its before-enter conditions hold, none of its
\* auxiliaries is owned by a frame that is not being exited, and every auxiliary could start.
RECURSIVE CanEnterFrame(_, _, _), CanStart(_, _)
CanStart(f, depth) ==
    LET ks == Outline(prog.framers[f].first) IN
    /\ \A i \in 1..Len(ks) : CanEnterFrame(ks[i], <<>>, depth)
    /\ \A i, j \in 1..Len(ks) : i < j => Range(Fr(ks[i]).auxes) \cap Range(Fr(ks[j]).auxes) = {}
CanEnterFrame(k, exits, depth) ==
    /\ AllNeeds(Fr(k).framer, Fr(k).benter)
    /\ \A i \in 1..Len(AuxesOf(k)) :
          LET a == AuxesOf(k)[i] IN
          /\ ~(fs[a].main # "" /\ fs[a].main # k /\ fs[a].main \notin Range(exits))
          /\ (depth > 0 => CanStart(a, depth - 1))
MaxAuxDepth == 3
\* an original auxiliary is never active under two frames at once: two frames entered together may
\* not both carry it
NoDoubleClaim(enters) == \A i, j \in 1..Len(enters) :
    i < j => Range(AuxesOf(enters[i])) \cap Range(AuxesOf(enters[j])) = {}
CanEnter(enters, exits) == /\ enters # <<>>
                           /\ \A i \in 1..Len(enters) : CanEnterFrame(enters[i], exits, MaxAuxDepth)
                           /\ NoDoubleClaim(enters)
CheckStart(f) == CanStart(f, MaxAuxDepth)

(* ------------------------------------------------------------------------------------------ *)
(* Work-list operations                                                                        *)
Op(name) == [op |-> name]
Push(ops) == todo' = ops \o Tail(todo)
Pop == todo' = Tail(todo)
H == todo[1]

SetF(f, rec) == fs' = [fs EXCEPT ![f] = rec]

ActsOf(k, ctx) == Fr(k)[ctx]
ActOps(f, k, ctx) == [i \in 1..Len(ActsOf(k, ctx)) |-> [op |-> "act", f |-> f, k |-> k, ctx |-> ctx, i |-> i]]

RECURSIVE Flatten(_)
Flatten(ss) == IF ss = <<>> THEN <<>> ELSE Head(ss) \o Flatten(Tail(ss))

\* projection of a framer that a Yield label carries (public state of the framer)
Proj(f) == [status |-> fs[f].status, desire |-> fs[f].desire, done |-> fs[f].done,
            active |-> (IF fs[f].active = "" THEN "" ELSE Fr(fs[f].active).name),
            actives |-> Names(fs[f].actives),
            elapsed |-> fs[f].elapsed, recurred |-> fs[f].recurred, period |-> fs[f].period]

(* ---- skedder level ---- *)
Entry(t, retime, period) == [t |-> t, retime |-> retime, period |-> period]

Init ==
    /\ phase = "init" /\ now = 0 /\ tickn = 0 /\ pending = <<>> /\ ready = <<>> /\ more = FALSE /\ cur = ""
    /\ fs = [f \in Framers |->
               [status |-> "stopped",
                desire |-> (IF prog.framers[f].sched = "active" THEN "start" ELSE "stop"),
                period |-> prog.framers[f].period, done |-> TRUE, active |-> "", actives |-> <<>>,
                fstamp |-> 0, elapsed |-> 0, recurred |-> 0, main |-> ""]]
    /\ store = prog.shares
    /\ stamps = [s \in {id[2] : id \in MarkIds} |-> -1]
    /\ xstore = [s \in {id[2] : id \in MarkIds} |-> NoMark.x]
    /\ marks = [id \in MarkIds |-> NoMark]
    /\ todo = <<>>
    /\ entered = [k \in FrameKeys |-> 0]
    /\ crashed = ""
    /\ sweeps = [f \in Framers |-> 0]
    /\ lab = Silent

\* the run starts: every taskable is scheduled at the current time
StartRun ==
    /\ phase = "init"
    /\ phase' = "tick"
    /\ pending' = [i \in 1..Len(prog.order) |-> Entry(prog.order[i], 0, prog.framers[prog.order[i]].period)]
    /\ ready' = <<>> /\ more' = FALSE
    /\ lab' = [k |-> "Tick", n |-> 0, now |-> 0]
    /\ UNCHANGED <<stamps, xstore, marks, prog, now, tickn, cur, fs, store, todo, entered, crashed, sweeps>>

\* next entry of this tick: not yet due -> requeued as is; due -> sent its current desire
Dispatch ==
    /\ phase = "tick" /\ todo = <<>> /\ pending # <<>>
    /\ LET e == Head(pending) IN
       /\ pending' = Tail(pending)
       /\ IF e.retime > now
          THEN /\ ready' = Append(ready, e)
               /\ more' = (more \/ Running(e.t))
               /\ UNCHANGED <<todo, cur>>
          ELSE /\ todo' = << [op |-> "run", t |-> e.t, ctl |-> fs[e.t].desire],
                             [op |-> "yield", t |-> e.t, ctl |-> fs[e.t].desire, top |-> TRUE],
                             [op |-> "requeue", e |-> e] >>
               /\ cur' = e.t
               /\ UNCHANGED <<ready, more>>
    /\ lab' = Silent
    /\ UNCHANGED <<stamps, xstore, marks, prog, phase, now, tickn, fs, store, entered, crashed, sweeps>>

Requeue ==
    /\ todo # <<>> /\ H.op = "requeue"
    /\ LET t == H.e.t IN
       /\ IF fs[t].status = "aborted"
          THEN UNCHANGED ready                   \* an aborted tasker never runs again
          ELSE ready' = Append(ready, Entry(t, H.e.retime + fs[t].period, fs[t].period))
       /\ more' = (more \/ Running(t))
    /\ Pop /\ cur' = ""
    /\ lab' = Silent
    /\ UNCHANGED <<stamps, xstore, marks, prog, phase, now, tickn, pending, fs, store, entered, crashed, sweeps>>

\* all entries seen: the run goes on only if something is scheduled and something started/runs
EndTick ==
    /\ phase = "tick" /\ todo = <<>> /\ pending = <<>>
    /\ IF ready = <<>> \/ ~more
       THEN phase' = "sweep" /\ pending' = ready /\ ready' = <<>>
       ELSE phase' = "between" /\ UNCHANGED <<pending, ready>>
    /\ lab' = Silent
    /\ UNCHANGED <<stamps, xstore, marks, prog, now, tickn, more, cur, fs, store, todo, entered, crashed, sweeps>>

\* a write of a share stamps it with the store time, whether or not the value differs
Stamped(S) == [s \in DOMAIN stamps |-> IF s \in S THEN now ELSE stamps[s]]

\* environment between ticks: an input share is written from outside
EnvSet(s, v) ==
    /\ phase = "between"
    /\ store' = [store EXCEPT ![s] = v]
    /\ stamps' = Stamped({s})
    /\ lab' = [k |-> "Env", share |-> s, val |-> v]
    /\ UNCHANGED <<xstore, marks, prog, phase, now, tickn, pending, ready, more, cur, fs, todo, entered, crashed, sweeps>>

\* environment between ticks: a field other than the share's data field is written from outside (it is added to the
\* share if the share does not have it yet); only watched shares keep track of it
EnvSetF(s, v) ==
    /\ phase = "between"
    /\ xstore' = [x \in DOMAIN xstore |-> IF x = s THEN [has |-> TRUE, v |-> v] ELSE xstore[x]]
    /\ stamps' = Stamped({s})
    /\ lab' = [k |-> "EnvF", share |-> s, val |-> v]
    /\ UNCHANGED <<store, marks, prog, phase, now, tickn, pending, ready, more, cur, fs, todo, entered, crashed, sweeps>>
FieldedShares == IF "fielded" \in DOMAIN prog THEN Range(prog.fielded) ELSE {}

\* environment between ticks: keyboard interrupt
Interrupt ==
    /\ phase = "between"
    /\ phase' = "sweep" /\ pending' = ready /\ ready' = <<>> /\ crashed' = "interrupt"
    /\ lab' = [k |-> "Interrupt"]
    /\ UNCHANGED <<stamps, xstore, marks, prog, now, tickn, more, cur, fs, store, todo, entered, sweeps>>

NextTick ==
    /\ phase = "between"
    /\ phase' = "tick" /\ now' = now + prog.tick /\ tickn' = tickn + 1
    /\ pending' = ready /\ ready' = <<>> /\ more' = FALSE
    /\ lab' = [k |-> "Tick", n |-> tickn + 1, now |-> now + prog.tick]
    /\ UNCHANGED <<stamps, xstore, marks, prog, cur, fs, store, todo, entered, crashed, sweeps>>

\* final sweep: exactly one abort to every tasker still scheduled
Sweep ==
    /\ phase = "sweep" /\ todo = <<>> /\ pending # <<>>
    /\ LET e == Head(pending) IN
       /\ pending' = Tail(pending)
       /\ todo' = << [op |-> "run", t |-> e.t, ctl |-> "abort"],
                     [op |-> "yield", t |-> e.t, ctl |-> "abort", top |-> TRUE] >>
       /\ sweeps' = [sweeps EXCEPT ![e.t] = @ + 1]
       /\ cur' = e.t
    /\ lab' = Silent
    /\ UNCHANGED <<stamps, xstore, marks, prog, phase, now, tickn, ready, more, fs, store, entered, crashed>>

EndRun ==
    /\ phase = "sweep" /\ todo = <<>> /\ pending = <<>>
    /\ phase' = "end" /\ cur' = ""
    /\ lab' = [k |-> "End", reraised |-> (crashed = "error")]
    /\ UNCHANGED <<stamps, xstore, marks, prog, now, tickn, pending, ready, more, fs, store, todo, entered, crashed, sweeps>>

(* ---- runner: control x status table (docstring of Framer / Tasker runners) ---- *)
RunOp ==
    /\ todo # <<>> /\ H.op = "run"
    /\ LET t == H.t  ctl == H.ctl  st == fs[t].status  r == fs[t]
           stopped == st \in {"stopped", "readied"}
           running == st \in {"started", "running"} IN
       CASE st = "aborted" ->
              \* an aborted tasker stays aborted whatever it is sent
              SetF(t, [r EXCEPT !.desire = "abort"]) /\ Pop
         [] st # "aborted" /\ ctl = "run" /\ running ->
              /\ Push(<< [op |-> "segue", f |-> t], [op |-> "recur", f |-> t],
                         [op |-> "setStatus", f |-> t, s |-> "running"] >>)
              /\ UNCHANGED fs
         [] st # "aborted" /\ ctl = "run" /\ stopped ->
              SetF(t, [r EXCEPT !.desire = "start"]) /\ Pop
         [] st # "aborted" /\ ctl = "ready" /\ stopped ->
              /\ IF CheckStart(t) THEN SetF(t, [r EXCEPT !.status = "readied"])
                 ELSE SetF(t, [r EXCEPT !.status = "stopped", !.desire = "stop"])
              /\ Pop
         [] st # "aborted" /\ ctl = "ready" /\ running -> UNCHANGED fs /\ Pop
         [] st # "aborted" /\ ctl = "start" /\ stopped ->
              IF CheckStart(t)
              THEN /\ SetF(t, [r EXCEPT !.desire = "run"])
                   /\ Push(<< [op |-> "enterAll", f |-> t], [op |-> "recur", f |-> t],
                              [op |-> "setStatus", f |-> t, s |-> "started"] >>)
              ELSE SetF(t, [r EXCEPT !.status = "stopped", !.desire = "stop"]) /\ Pop
         [] st # "aborted" /\ ctl = "start" /\ running ->
              SetF(t, [r EXCEPT !.desire = "run"]) /\ Pop
         [] st # "aborted" /\ ctl = "stop" /\ running ->
              /\ SetF(t, [r EXCEPT !.desire = "stop"])
              /\ Push(<< [op |-> "exitAll", f |-> t, abort |-> TRUE],
                         [op |-> "setStatus", f |-> t, s |-> "stopped"] >>)
         [] st # "aborted" /\ ctl = "stop" /\ stopped -> UNCHANGED fs /\ Pop
         [] st # "aborted" /\ ctl = "abort" /\ running ->
              /\ UNCHANGED fs
              /\ Push(<< [op |-> "exitAll", f |-> t, abort |-> FALSE],
                         [op |-> "setAborted", f |-> t] >>)
         [] st # "aborted" /\ ctl = "abort" /\ stopped ->
              SetF(t, [r EXCEPT !.status = "aborted", !.desire = "abort"]) /\ Pop
    /\ lab' = Silent
    /\ UNCHANGED <<stamps, xstore, marks, prog, phase, now, tickn, pending, ready, more, cur, store, entered, crashed, sweeps>>

SetStatus ==
    /\ todo # <<>> /\ H.op \in {"setStatus", "setAborted"}
    /\ IF H.op = "setStatus" THEN SetF(H.f, [fs[H.f] EXCEPT !.status = H.s])
       ELSE SetF(H.f, [fs[H.f] EXCEPT !.status = "aborted", !.desire = "abort"])
    /\ Pop /\ lab' = Silent
    /\ UNCHANGED <<stamps, xstore, marks, prog, phase, now, tickn, pending, ready, more, cur, store, entered, crashed, sweeps>>

\* the runner yields its status (observable)
Yield ==
    /\ todo # <<>> /\ H.op = "yield"
    /\ Pop
    /\ lab' = [k |-> "Yield", t |-> H.t, ctl |-> H.ctl, top |-> H.top] @@ Proj(H.t)
    /\ UNCHANGED <<stamps, xstore, marks, prog, phase, now, tickn, pending, ready, more, cur, fs, store, entered, crashed, sweeps>>

(* ---- entering and exiting ---- *)
EnterAll ==
    /\ todo # <<>> /\ H.op = "enterAll"
    /\ LET f == H.f  first == prog.framers[f].first IN
       /\ SetF(f, [fs[f] EXCEPT !.done = FALSE, !.active = first, !.actives = Outline(first)])
       /\ Push(<< [op |-> "enterFrames", f |-> f, ks |-> Outline(first)] >>)
    /\ lab' = Silent
    /\ UNCHANGED <<stamps, xstore, marks, prog, phase, now, tickn, pending, ready, more, cur, store, entered, crashed, sweeps>>

\* entering a non-empty list of frames restarts the framer's elapsed time and iteration count
EnterFrames ==
    /\ todo # <<>> /\ H.op = "enterFrames"
    /\ LET f == H.f  ks == H.ks IN
       /\ IF ks # <<>> THEN SetF(f, [fs[f] EXCEPT !.fstamp = now, !.elapsed = 0, !.recurred = 0]) ELSE UNCHANGED fs
       /\ Push([i \in 1..Len(ks) |-> [op |-> "enterFrame", f |-> f, k |-> ks[i]]])
    /\ lab' = Silent
    /\ UNCHANGED <<stamps, xstore, marks, prog, phase, now, tickn, pending, ready, more, cur, store, entered, crashed, sweeps>>

\* a frame's entry marks, its enter actions, then its plain auxiliaries start at their first frame
EnterFrame ==
    /\ todo # <<>> /\ H.op = "enterFrame"
    /\ LET f == H.f  k == H.k  as == AuxesOf(k) IN
       /\ Push(ActOps(f, k, "enter") \o
               Flatten([i \in 1..Len(as) |-> << [op |-> "setMain", a |-> as[i], k |-> k],
                                                [op |-> "enterAll", f |-> as[i]] >>]))
       /\ entered' = [entered EXCEPT ![k] = @ + 1]
       \* the marks naming this frame (`in frame` form) are set first, before the enter actions
       /\ marks' = IF DOMAIN marks = {} THEN marks ELSE ResetMarks(EntryMarkIds(k), "entry")
    /\ lab' = Silent
    /\ UNCHANGED <<stamps, xstore, prog, phase, now, tickn, pending, ready, more, cur, fs, store, crashed, sweeps>>

SetMain ==
    /\ todo # <<>> /\ H.op = "setMain"
    /\ SetF(H.a, [fs[H.a] EXCEPT !.main = H.k])
    /\ Pop /\ lab' = Silent
    /\ UNCHANGED <<stamps, xstore, marks, prog, phase, now, tickn, pending, ready, more, cur, store, entered, crashed, sweeps>>

\* exit every active frame bottom-up, then deactivate (abort = stop: the done flag is left alone)
ExitAll ==
    /\ todo # <<>> /\ H.op = "exitAll"
    /\ LET f == H.f
           \* every entered frame: the full outline, including frames suspended by a conditional auxiliary
           ks == IF fs[f].active = "" THEN <<>> ELSE Reverse(Outline(fs[f].active)) IN
       Push([i \in 1..Len(ks) |-> [op |-> "exitFrame", f |-> f, k |-> ks[i]]] \o
            << [op |-> "deactivate", f |-> f, abort |-> H.abort] >>)
    /\ lab' = Silent
    /\ UNCHANGED <<stamps, xstore, marks, prog, phase, now, tickn, pending, ready, more, cur, fs, store, entered, crashed, sweeps>>

Deactivate ==
    /\ todo # <<>> /\ H.op = "deactivate"
    /\ SetF(H.f, [fs[H.f] EXCEPT !.active = "", !.actives = <<>>, !.done = (IF H.abort THEN @ ELSE TRUE)])
    /\ Pop /\ lab' = Silent
    /\ UNCHANGED <<stamps, xstore, marks, prog, phase, now, tickn, pending, ready, more, cur, store, entered, crashed, sweeps>>

\* a frame's auxiliaries are exited first (and released), then its exit actions run.  A conditional
\* auxiliary of the frame that is still running is exited with its main frame; whether that happens
\* before or after the frame's own exit actions is not documented (condFirst \in BOOLEAN).
CondAuxesOf(k) == LET acts == Fr(k).precur
                      idx == {i \in 1..Len(acts) : acts[i].k = "auxif"} IN
                  {acts[i].aux : i \in idx}
\* the active frames of a framer whose active frame is a: the outline of a, cut at the first (top-most)
\* frame that has a running conditional auxiliary (C05 / C10: the frames below stay suspended for as
\* long as the auxiliary runs, also when a transition taken above the main frame keeps the main frame, and
\* also when an outer conditional auxiliary completes while an inner one is still running)
CutOutlineOf(a, F) ==
    LET full == Outline(a)
        mains == {i \in 1..Len(full) : \E x \in CondAuxesOf(full[i]) : ~F[x].done /\ F[x].main = full[i]} IN
    IF mains = {} THEN full ELSE SubSeq(full, 1, CHOOSE i \in mains : \A j \in mains : i <= j)
RECURSIVE SetToSeqOps(_, _)
SetToSeqOps(S, k) == IF S = {} THEN <<>>
                     ELSE LET x == CHOOSE y \in S : TRUE IN
                          << [op |-> "forceExit", x |-> x, k |-> k] >> \o SetToSeqOps(S \ {x}, k)
\* The order in which SEVERAL still-running conditional auxiliaries of one frame are exited is not documented
\* either: the candidate order or its reverse (rev \in BOOLEAN; every order for up to two of them).
ExitFrame(condFirst, rev) ==
    /\ todo # <<>> /\ H.op = "exitFrame"
    /\ LET f == H.f  k == H.k  as == AuxesOf(k)
           plain == Flatten([i \in 1..Len(as) |-> << [op |-> "exitAll", f |-> as[i], abort |-> FALSE],
                                                     [op |-> "setMain", a |-> as[i], k |-> ""] >>])
           cond0 == SetToSeqOps({x \in CondAuxesOf(k) : ~fs[x].done /\ fs[x].main = k}, k)
           cond == IF rev THEN Reverse(cond0) ELSE cond0 IN
       /\ Push(IF condFirst THEN plain \o cond \o ActOps(f, k, "exit")
                            ELSE plain \o ActOps(f, k, "exit") \o cond)
       /\ entered' = [entered EXCEPT ![k] = @ - 1]
    /\ lab' = Silent
    /\ UNCHANGED <<stamps, xstore, marks, prog, phase, now, tickn, pending, ready, more, cur, fs, store, crashed, sweeps>>

ForceExit ==
    /\ todo # <<>> /\ H.op = "forceExit"
    /\ IF ~fs[H.x].done /\ fs[H.x].main = H.k
       THEN Push(<< [op |-> "exitAll", f |-> H.x, abort |-> FALSE], [op |-> "setMain", a |-> H.x, k |-> ""] >>)
       ELSE Pop
    /\ lab' = Silent
    /\ UNCHANGED <<stamps, xstore, marks, prog, phase, now, tickn, pending, ready, more, cur, fs, store, entered, crashed, sweeps>>

Activate ==
    /\ todo # <<>> /\ H.op = "activate"
    /\ SetF(H.f, [fs[H.f] EXCEPT !.active = H.k, !.actives = CutOutlineOf(H.k, fs)])
    /\ Pop /\ lab' = Silent
    /\ UNCHANGED <<stamps, xstore, marks, prog, phase, now, tickn, pending, ready, more, cur, store, entered, crashed, sweeps>>

(* ---- one framer run: segue (clocks, auxiliaries' transitions, own transitions) then recur ---- *)
Segue ==
    /\ todo # <<>> /\ H.op = "segue"
    /\ LET f == H.f  ks == fs[f].actives IN
       /\ SetF(f, [fs[f] EXCEPT !.elapsed = now - fs[f].fstamp, !.recurred = @ + 1])
       /\ Push(Flatten([i \in 1..Len(ks) |->
                          [j \in 1..Len(AuxesOf(ks[i])) |-> [op |-> "segue", f |-> AuxesOf(ks[i])[j]]]])
               \o << [op |-> "precur", f |-> f, ks |-> ks, j |-> 1] >>)
    /\ lab' = Silent
    /\ UNCHANGED <<stamps, xstore, marks, prog, phase, now, tickn, pending, ready, more, cur, store, entered, crashed, sweeps>>

Recur ==
    /\ todo # <<>> /\ H.op = "recur"
    /\ LET f == H.f  ks == fs[f].actives IN
       Push([i \in 1..Len(ks) |-> [op |-> "recurFrame", f |-> f, k |-> ks[i]]])
    /\ lab' = Silent
    /\ UNCHANGED <<stamps, xstore, marks, prog, phase, now, tickn, pending, ready, more, cur, fs, store, entered, crashed, sweeps>>

\* recur actions of the frame, then each plain auxiliary recurs right after
RecurFrame ==
    /\ todo # <<>> /\ H.op = "recurFrame"
    /\ LET f == H.f  k == H.k  as == AuxesOf(k) IN
       Push(ActOps(f, k, "recur") \o [i \in 1..Len(as) |-> [op |-> "recur", f |-> as[i]]])
    /\ lab' = Silent
    /\ UNCHANGED <<stamps, xstore, marks, prog, phase, now, tickn, pending, ready, more, cur, fs, store, entered, crashed, sweeps>>

\* Precur walk: frames top-down, each frame's precur acts in order; the first interrupter that fires
\* (a transition taken, a conditional auxiliary running) ends the walk for this run.
\* (the parameter c only names the deciding case of a marker condition, for the vacuity guards)
HeadCase == IF H.ks = <<>> THEN "plain"
            ELSE IF H.j > Len(Fr(Head(H.ks)).precur) THEN "plain" ELSE GoCase(Head(H.ks), Fr(Head(H.ks)).precur[H.j])
AtCase(c) == /\ todo # <<>> /\ H.op = "precur"
             /\ (IF DOMAIN marks = {} THEN "plain" ELSE HeadCase) = c
PrecurBody ==
    /\ LET f == H.f  ks == H.ks  j == H.j IN
       IF ks = <<>> THEN Pop /\ UNCHANGED <<fs, marks>>
       ELSE LET k == Head(ks)  acts == Fr(k).precur IN
            IF j > Len(acts)
            THEN Push(<< [op |-> "precur", f |-> f, ks |-> Tail(ks), j |-> 1] >>) /\ UNCHANGED <<fs, marks>>
            ELSE LET a == acts[j]
                     cont == [op |-> "precur", f |-> f, ks |-> ks, j |-> j + 1] IN
                 CASE a.k = "go" ->
                        LET far == a.far
                            nears == Outline(fs[f].active)   \* the full outline: suspended frames included
                            exits == Exits(nears, far)
                            enters == Enters(nears, far)
                            reex == Reexens(nears, far) IN
                        \E ok \in (IF DOMAIN marks = {} THEN {AllNeeds(f, a.needs)} ELSE NeedsOut(f, k, a.needs)) :
                        IF ok /\ CanEnter(enters, exits)
                        THEN \* transit acts (the marks guarding this transition are set), exits bottom-up,
                             \* re-exits bottom-up, re-enters top-down, enters, activate
                             /\ marks' = IF DOMAIN marks = {} THEN marks ELSE ResetMarks(MarkIdsIn(k, a.needs), "transit")
                             /\ Push([i \in 1..Len(a.transit) |-> [op |-> "tract", f |-> f, k |-> k, j |-> j, i |-> i]]
                                     \o [i \in 1..Len(exits) |-> [op |-> "exitFrame", f |-> f, k |-> Reverse(exits)[i]]]
                                     \o Flatten([i \in 1..Len(reex) |-> ActOps(f, Reverse(reex)[i], "rexit")])
                                     \o Flatten([i \in 1..Len(reex) |-> ActOps(f, reex[i], "renter")])
                                     \o << [op |-> "enterFrames", f |-> f, ks |-> enters],
                                           [op |-> "activate", f |-> f, k |-> far] >>)
                             /\ UNCHANGED fs
                        ELSE Push(<<cont>>) /\ UNCHANGED <<fs, marks>>
                   [] a.k = "auxif" ->
                        LET x == a.aux IN
                        IF fs[x].done
                        THEN \* idle: fire when the conditions hold, the aux is free, and it can start
                             IF AllNeeds(f, a.needs) /\ ~(fs[x].main # "" /\ fs[x].main # k) /\ CheckStart(x)
                             THEN /\ Push(<< [op |-> "setMain", a |-> x, k |-> k],
                                             [op |-> "enterAll", f |-> x], [op |-> "recur", f |-> x],
                                             [op |-> "suspend", f |-> f, k |-> k, x |-> x, first |-> TRUE, cont |-> cont] >>)
                                  /\ UNCHANGED <<fs, marks>>
                             ELSE Push(<<cont>>) /\ UNCHANGED <<fs, marks>>
                        ELSE IF fs[x].main = k
                        THEN \* running under this frame: it runs every tick regardless of its conditions
                             /\ Push(<< [op |-> "segue", f |-> x], [op |-> "recur", f |-> x],
                                        [op |-> "suspend", f |-> f, k |-> k, x |-> x, first |-> FALSE, cont |-> cont] >>)
                             /\ UNCHANGED <<fs, marks>>
                        ELSE \* running under another frame: never active under two frames at once
                             Push(<<cont>>) /\ UNCHANGED <<fs, marks>>
                   [] OTHER ->
                        \* an ordinary action placed in the precur context
                        Push(<< [op |-> "act", f |-> f, k |-> k, ctx |-> "precur", i |-> j], cont >>) /\ UNCHANGED <<fs, marks>>
    \* (silent; the label only remembers which case decided a marker condition, for the vacuity guards)
    /\ lab' = IF DOMAIN marks = {} THEN Silent
              ELSE IF HeadCase = "plain" THEN Silent ELSE [k |-> "silent", case |-> HeadCase]
    /\ UNCHANGED <<stamps, xstore, prog, phase, now, tickn, pending, ready, more, cur, store, entered, crashed, sweeps>>

PrecurWalk   == AtCase("plain") /\ PrecurBody
\* transitions guarded by an `is updated` condition, by the case of the statement that decides it
GoUpdNever   == AtCase("never") /\ PrecurBody
GoUpdFirst   == AtCase("first") /\ PrecurBody
GoUpdLater   == AtCase("later") /\ PrecurBody
GoUpdEarlier == AtCase("earlier") /\ PrecurBody
GoUpdEntry   == AtCase("entry") /\ PrecurBody
GoUpdTransit == AtCase("transit") /\ PrecurBody
GoUpdBoth    == AtCase("both") /\ PrecurBody
\* ... by an `is changed` condition
GoChgNoSnap  == AtCase("nosnap") /\ PrecurBody
GoChgDiffers == AtCase("differs") /\ PrecurBody
GoChgSame    == AtCase("same") /\ PrecurBody
GoChgAdded   == AtCase("added") /\ PrecurBody
MarkedGo == GoUpdNever \/ GoUpdFirst \/ GoUpdLater \/ GoUpdEarlier \/ GoUpdEntry \/ GoUpdTransit \/ GoUpdBoth
            \/ GoChgNoSnap \/ GoChgDiffers \/ GoChgSame \/ GoChgAdded

\* after a conditional auxiliary ran: complete -> exit it, release it, restore the suspended frames
\* (which resume in this same run); not complete -> the frames below its main frame are suspended.
\* Whether the transition clauses of the frames BELOW the main frame are still looked at in the run
\* in which the auxiliary completes is not documented: both are allowed (resume \in BOOLEAN).
Suspend(resume) ==
    /\ todo # <<>> /\ H.op = "suspend"
    /\ LET f == H.f  k == H.k  x == H.x IN
       IF fs[x].done
       THEN /\ Push(<< [op |-> "exitAll", f |-> x, abort |-> FALSE], [op |-> "setMain", a |-> x, k |-> ""],
                       [op |-> "reactivate", f |-> f, first |-> H.first, resume |-> resume, cont |-> H.cont] >>)
            /\ UNCHANGED fs
       ELSE /\ SetF(f, [fs[f] EXCEPT !.actives = HeadOf(k)])
            /\ Pop       \* interrupter fired: the precur walk ends here (cont is dropped)
    /\ lab' = Silent
    /\ UNCHANGED <<stamps, xstore, marks, prog, phase, now, tickn, pending, ready, more, cur, store, entered, crashed, sweeps>>

Reactivate ==
    /\ todo # <<>> /\ H.op = "reactivate"
    /\ LET f == H.f
           full == CutOutlineOf(fs[f].active, fs)   \* the completed auxiliary is done by now
           c == H.cont
           \* frames of the restored outline that lie below the frames the walk still has
           below == SubSeq(full, Len(fs[f].actives) + 1, Len(full)) IN
       /\ SetF(f, [fs[f] EXCEPT !.actives = full])
       /\ Push(<< IF H.resume /\ ~H.first THEN [c EXCEPT !.ks = @ \o below] ELSE c >>)
    /\ lab' = Silent
    /\ UNCHANGED <<stamps, xstore, marks, prog, phase, now, tickn, pending, ready, more, cur, store, entered, crashed, sweeps>>

(* ---- actions ---- *)
Targets(f, who) ==
    IF who = <<"me">> THEN <<f>> ELSE IF who = <<"all">> THEN prog.order ELSE who

RECURSIVE BidAll(_, _, _, _)
BidAll(F, ts, ctl, period) ==
    IF ts = <<>> THEN F
    ELSE LET t == Head(ts)
             r == [F[t] EXCEPT !.desire = ctl,
                               !.period = IF period >= 0 /\ ctl \in {"start", "run", "ready"} THEN period ELSE @] IN
         BidAll([F EXCEPT ![t] = r], Tail(ts), ctl, period)

ActRec(a) == a.k = "rec"
DoAct ==
    /\ todo # <<>> /\ H.op \in {"act", "tract"}
    /\ LET f == H.f  k == H.k
           a == IF H.op = "act" THEN Fr(k)[H.ctx][H.i] ELSE Fr(k).precur[H.j].transit[H.i]
           ctx == IF H.op = "act" THEN H.ctx ELSE "transit" IN
       CASE a.k = "rec" ->
              /\ Pop /\ UNCHANGED <<fs, store, stamps, xstore, phase, pending, ready, crashed>>
              /\ lab' = [k |-> "Rec", framer |-> f, frame |-> Fr(k).name, ctx |-> ctx, tag |-> a.tag]
         [] a.k = "put" ->
              /\ store' = [store EXCEPT ![a.share] = a.val] /\ stamps' = Stamped({a.share})
              /\ Pop /\ lab' = Silent /\ UNCHANGED <<fs, xstore, phase, pending, ready, crashed>>
         [] a.k = "putf" ->
              \* a put into another field of the share: the field is created if absent; the share is stamped
              /\ xstore' = [xstore EXCEPT ![a.share] = [has |-> TRUE, v |-> a.val]] /\ stamps' = Stamped({a.share})
              /\ Pop /\ lab' = Silent /\ UNCHANGED <<fs, store, phase, pending, ready, crashed>>
         [] a.k = "inc" ->
              /\ store' = [store EXCEPT ![a.share] = @ + a.by] /\ stamps' = Stamped({a.share})
              /\ Pop /\ lab' = Silent /\ UNCHANGED <<fs, xstore, phase, pending, ready, crashed>>
         [] a.k = "copy" ->
              /\ store' = [store EXCEPT ![a.dst] = store[a.src]] /\ stamps' = Stamped({a.dst})
              /\ Pop /\ lab' = Silent /\ UNCHANGED <<fs, xstore, phase, pending, ready, crashed>>
         [] a.k = "bid" ->
              /\ fs' = BidAll(fs, Targets(f, a.who), a.ctl, a.period)
              /\ Pop /\ lab' = Silent /\ UNCHANGED <<store, stamps, xstore, phase, pending, ready, crashed>>
         [] a.k = "done" ->
              /\ fs' = [fs EXCEPT ![IF a.who = "me" THEN f ELSE a.who].done = TRUE]
              /\ Pop /\ lab' = Silent /\ UNCHANGED <<store, stamps, xstore, phase, pending, ready, crashed>>
         [] a.k = "fiat" ->
              \* a fiat drives a slave's runner directly, inside the current run
              \* and reports whether the requested state was reached
              /\ Push(<< [op |-> "run", t |-> a.who, ctl |-> a.ctl],
                         [op |-> "yield", t |-> a.who, ctl |-> a.ctl, top |-> FALSE],
                         [op |-> "fiatRet", t |-> a.who, ctl |-> a.ctl] >>)
              /\ lab' = Silent /\ UNCHANGED <<fs, store, stamps, xstore, phase, pending, ready, crashed>>
         [] a.k = "raise" ->
              \* an exception (or a keyboard interrupt) out of an action unwinds the whole run of the
              \* tasker the skedder is dispatching: that tasker is dead (aborted, not requeued); the loop
              \* is left and everything still scheduled is swept
              /\ todo' = <<>>
              /\ fs' = [fs EXCEPT ![cur].status = "aborted", ![cur].desire = "abort"]
              /\ phase' = "sweep" /\ pending' = pending \o ready /\ ready' = <<>>
              /\ crashed' = a.what
              /\ lab' = [k |-> "Raise", what |-> a.what]
              /\ UNCHANGED <<store, stamps, xstore>>
    /\ UNCHANGED <<marks, prog, now, tickn, more, cur, entered, sweeps>>


(* ------------------------------------------------------------------------------------------ *)
(* Properties (evaluated on the specification's own behaviours and, through FloTrace, on every *)
(* recorded execution of the real code)                                                        *)
Quiescent == todo = <<>>
Taskables == Range(prog.order)
Slaves == {g \in Framers : prog.framers[g].sched = "slave"}

\* C05: a started/running framer's active frames are the outline of its active frame, cut at the
\* main frame of a running conditional auxiliary; a stopped/aborted framer has none
RunningCondMain(f) == {k \in Range(Outline(fs[f].active)) :
                         \E x \in CondAuxesOf(k) : ~fs[x].done /\ fs[x].main = k}
ActivesAreOutline ==
    Quiescent => \A f \in Taskables \cup Slaves :
        IF Running(f)
        THEN fs[f].actives = CutOutlineOf(fs[f].active, fs)
        ELSE \/ fs[f].actives = <<>> /\ fs[f].active = ""
             \/ crashed # "" /\ fs[f].status = "aborted"   \* the tasker an exception unwound is dead as it was

\* C06: enter and exit alternate ...
Alternate == \A k \in FrameKeys : entered[k] \in {0, 1}
\* ... and at every quiescent point the frames entered but not exited are exactly the FULL outlines
\* of the active framers and of their active auxiliaries, suspended frames included
RECURSIVE Expected(_, _)
Expected(f, depth) ==
    IF fs[f].active = "" \/ depth = 0 THEN {}
    ELSE LET ks == Range(Outline(fs[f].active)) IN
         ks \cup UNION {UNION {Expected(AuxesOf(k)[i], depth - 1) : i \in 1..Len(AuxesOf(k))} : k \in ks}
            \cup UNION {UNION {Expected(x, depth - 1) : x \in {y \in CondAuxesOf(k) : ~fs[y].done /\ fs[y].main = k}} : k \in ks}
Bracket == (Quiescent /\ crashed # "error" /\ ~(crashed = "interrupt" /\ \E f \in Taskables : fs[f].status = "aborted" /\ fs[f].active # "")) =>
    {k \in FrameKeys : entered[k] = 1} = UNION {Expected(f, MaxAuxDepth + 1) : f \in Taskables \cup Slaves}

\* C09: an original auxiliary is owned by at most one frame, and exactly while it is active
AuxOwnership == Quiescent => \A a \in Framers :
    prog.framers[a].sched = "aux" => ((fs[a].main # "") <=> (fs[a].active # ""))

\* C03: when the run has ended every framer has exited all its frames and the sweep sent at most one abort
EndClean == phase = "end" =>
    /\ \A f \in Taskables : sweeps[f] <= 1
    /\ \A f \in Taskables : fs[f].status = "aborted"

\* C02: an aborted tasker is never scheduled again; each tasker is scheduled at most once
ScheduledOnce == \A i, j \in 1..Len(pending \o ready) :
    i # j => (pending \o ready)[i].t # (pending \o ready)[j].t
AbortedNotScheduled == (Quiescent /\ phase = "between") =>
    \A i \in 1..Len(ready) : fs[ready[i].t].status # "aborted"

\* C20: stamps and marks never run ahead of the store time
MarksSane == /\ \A s \in DOMAIN stamps : stamps[s] <= now
             /\ \A id \in DOMAIN marks : marks[id].es <= now /\ marks[id].ts <= now
\* C20: a transition guarded by `is updated` taken in this tick is not taken again for the same update:
\* right after a taken-transition reset with no entry reset in the tick the condition can only be false
\* until the share is written at a later time
TransitQuiets == \A id \in DOMAIN marks :
    (id[1] = "updated" /\ marks[id].ts = now /\ marks[id].es # now /\ stamps[id[2]] <= now) => UpdatedOut(id) = {FALSE}

Reached(ctl) == CASE ctl = "ready" -> "readied" [] ctl = "start" -> "started" [] ctl = "run" -> "running"
                  [] ctl = "stop" -> "stopped" [] ctl = "abort" -> "aborted"
FiatRet ==
    /\ todo # <<>> /\ H.op = "fiatRet"
    /\ Pop
    /\ lab' = [k |-> "Fiat", t |-> H.t, ctl |-> H.ctl, ok |-> (fs[H.t].status = Reached(H.ctl))]
    /\ UNCHANGED <<stamps, xstore, marks, prog, phase, now, tickn, pending, ready, more, cur, fs, store, entered, crashed, sweeps>>

MachineStep == FiatRet \/ RunOp \/ SetStatus \/ Yield \/ EnterAll \/ EnterFrames \/ EnterFrame \/ SetMain \/ ExitAll
               \/ Deactivate \/ (\E b, rv \in BOOLEAN : ExitFrame(b, rv)) \/ ForceExit \/ Activate \/ Segue \/ Recur \/ RecurFrame \/ PrecurWalk \/ MarkedGo
               \/ (\E b \in BOOLEAN : Suspend(b)) \/ Reactivate \/ DoAct \/ Requeue

\* values the environment may write into an input share
EnvValsOf(s) == IF "envvals" \in DOMAIN prog THEN Range(prog.envvals[s]) ELSE {0, 1}
Core == StartRun \/ Dispatch \/ EndTick \/ NextTick \/ Sweep \/ EndRun \/ MachineStep \/ Interrupt
Next == Core \/ (\E s \in Range(prog.inputs) : \E v \in EnvValsOf(s) : EnvSet(s, v))
             \/ (\E s \in FieldedShares : \E v \in {0, 1} : EnvSetF(s, v))

Spec == Init /\ [][Next]_vars
=============================================================================
