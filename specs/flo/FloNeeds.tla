------------------------------- MODULE FloNeeds -------------------------------
(* Truth of FloScript comparison conditions (property C21), written from the property statement  *)
(* and the builder's need grammar (docstring of Builder.makeNeed):                               *)
(*                                                                                              *)
(*     [not] state <op> goal [+- tolerance]      <op> one of  ==  !=  <  <=  >=  >                *)
(*     [not] state                               (bare: truthiness of the state field)           *)
(*                                                                                              *)
(*   `==`  means  goal-|tol| <= state <= goal+|tol|  for numbers and equality otherwise,          *)
(*   `!=`  is its complement, the ordering operators compare state with goal (the tolerance is   *)
(*   "ignored unless comparison == or !=", docstring of Need.Check).                             *)
(*                                                                                              *)
(* Values are TAGGED records [t |-> "n" | "s" | "b", v |-> ...]:                                 *)
(*   "n" numbers, v an integer in grid units (the harness scales: halves are v/2, times are      *)
(*       quanta), so dyadic rationals and their float images are exact;                          *)
(*   "s" strings; "b" booleans.                                                                  *)
(* The operators are only defined where the documentation defines the comparison: ordering of    *)
(* two numbers or of two strings; equality of anything.  (Ordering a string against a number,    *)
(* ordering booleans and tolerances on booleans are not documented and are not used.)            *)
EXTENDS Integers, Sequences

NAbs(x) == IF x < 0 THEN -x ELSE x

Num(v) == [t |-> "n", v |-> v]
Str(v) == [t |-> "s", v |-> v]
Boo(v) == [t |-> "b", v |-> v]

\* the order of the strings used by the checks (lexicographic order of these literals)
StrOrder == <<"", "a", "ab", "b">>
StrRank(s) == CHOOSE i \in 1..Len(StrOrder) : StrOrder[i] = s

BothNum(a, b) == a.t = "n" /\ b.t = "n"
\* plain equality: values of different kinds are never equal
SameValue(a, b) == a.t = b.t /\ a.v = b.v
\* state lies in the closed band of half-width |tol| around goal
WithinBand(state, goal, tol) == goal.v - NAbs(tol) <= state.v /\ state.v <= goal.v + NAbs(tol)

Equal(state, goal, tol) == IF BothNum(state, goal) THEN WithinBand(state, goal, tol) ELSE SameValue(state, goal)

Less(a, b) == CASE a.t = "n" /\ b.t = "n" -> a.v < b.v
                [] a.t = "s" /\ b.t = "s" -> StrRank(a.v) < StrRank(b.v)

Check(state, op, goal, tol) ==
    CASE op = "==" -> Equal(state, goal, tol)
      [] op = "!=" -> ~Equal(state, goal, tol)
      [] op = "<"  -> Less(state, goal)
      [] op = "<=" -> Less(state, goal) \/ SameValue(state, goal)
      [] op = ">=" -> Less(goal, state) \/ SameValue(state, goal)
      [] op = ">"  -> Less(goal, state)

\* bare `if state`: truthiness of the field
Truthy(x) == CASE x.t = "n" -> x.v # 0
               [] x.t = "s" -> x.v # ""
               [] x.t = "b" -> x.v

\* a clause is optionally negated with `not`; clauses are joined with `and`
Negated(neg, b) == IF neg THEN ~b ELSE b
=============================================================================
