---------------------------- MODULE RearRazeTrace ----------------------------
(* Binding B for RearRaze.tla: events recorded from real runs of scripts that rear and raze     *)
(* clones at run time.  Header: {"ev":"Header"}; then                                            *)
(*   {"ev":"Static","frame","name","inner":[..]}  clones declared in the script (after build)    *)
(*   {"ev":"Rear","frame","name","inner":[..],"auxes":[names of the frame afterwards]}           *)
(*   {"ev":"Raze","frame","which","auxes":[..]}                                                  *)
(*   {"ev":"Run","frame","ran":[names of clones whose recorder ran in this run of the framer]}   *)
EXTENDS RearRaze, TraceBatch
VARIABLES tid, l
tvars == <<vars, tid, l>>
Ev == EvAt(tid, l)
SetOf(s) == {s[i] : i \in 1..Len(s)}
TraceInit == tid \in 1..NTraces /\ l = 2 /\ Init
Consume(name) == l <= TraceLen(tid) /\ Ev.ev = name /\ l' = l + 1 /\ UNCHANGED tid
After(f) == [i \in 1..Len(auxes'[f]) |-> auxes'[f][i].name] = Ev.auxes
TraceNext ==
    \/ Consume("Static") /\ Static(Ev.frame, Ev.name, SetOf(Ev.inner))
    \/ Consume("Rear") /\ Rear(Ev.frame, Ev.name, SetOf(Ev.inner)) /\ After(Ev.frame)
    \/ Consume("Raze") /\ Raze(Ev.frame, Ev.which) /\ After(Ev.frame)
    \/ Consume("Run") /\ Run(Ev.frame, SetOf(Ev.ran))
TraceSpec == TraceInit /\ [][TraceNext]_tvars
TraceOK == TraceConstraint(tid, l)
=============================================================================
