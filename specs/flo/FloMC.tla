-------------------------------- MODULE FloMC --------------------------------
(* Model-checking wrapper for Flo.tla: the program is chosen in the initial state from a JSON   *)
(* file of generated programs, the environment (input writes, keyboard interrupt between ticks) *)
(* is fully nondeterministic, runs are bounded by MaxTicks.                                     *)
EXTENDS Flo, Json, IOUtils

CONSTANT MaxTicks
Progs == JsonDeserialize(IOEnv.PROGS_FILE)

MCInit == /\ prog \in {Progs[i] : i \in 1..Len(Progs)}
          /\ Init
\* after MaxTicks the only way on is the interrupt (so every run ends and is swept)
MCNext == \/ StartRun \/ Dispatch \/ EndTick \/ Sweep \/ EndRun \/ MachineStep \/ Interrupt
          \/ (tickn < MaxTicks /\ NextTick)
          \/ (tickn < MaxTicks /\ \E s \in Range(prog.inputs), v \in EnvVals : EnvSet(s, v) /\ store[s] # v)
MCSpec == MCInit /\ [][MCNext]_vars
\* the label is an observation only
View == <<prog, phase, now, tickn, pending, ready, more, cur, fs, store, todo, entered, crashed, sweeps>>
\* every run terminates (checked without state constraint: the tick bound is in the next-state relation)
Terminates == <>(phase = "end")
\* fairness: the machine itself keeps stepping, and between ticks the clock eventually ticks or the
\* interrupt arrives (the environment may not write inputs forever instead)
FairSpec == /\ MCSpec
            /\ WF_vars(StartRun \/ Dispatch \/ EndTick \/ Sweep \/ EndRun \/ MachineStep)
            /\ WF_vars((tickn < MaxTicks /\ NextTick) \/ Interrupt)
=============================================================================
