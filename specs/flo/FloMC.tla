-------------------------------- MODULE FloMC --------------------------------
(* Model-checking wrapper for Flo.tla: the program is chosen in the initial state from a JSON   *)
(* file of generated programs, the environment (input writes, keyboard interrupt between ticks) *)
(* is fully nondeterministic, runs are bounded by MaxTicks.                                     *)
EXTENDS Flo, Json, IOUtils

CONSTANT MaxTicks
Progs == JsonDeserialize(IOEnv.PROGS_FILE)

MCInit == /\ prog \in {Progs[i] : i \in 1..Len(Progs)}
          /\ Init
\* after MaxTicks the only way on is the interrupt (so every run ends and is swept)
MCNext == \/ StartRun \/ Dispatch \/ EndTick \/ Sweep \/ EndRun \/ MachineStep \/ Interrupt
          \/ (tickn < MaxTicks /\ NextTick)
          \* a write of the same value is only observable on a watched share (it stamps the share)
          \/ (tickn < MaxTicks /\ \E s \in Range(prog.inputs) : \E v \in EnvValsOf(s) :
                  EnvSet(s, v) /\ (store[s] # v \/ (s \in Watched /\ stamps[s] # now)))
          \/ (tickn < MaxTicks /\ \E s \in FieldedShares \cap Watched : \E v \in {0, 1} :
                  EnvSetF(s, v) /\ (xstore[s] # [has |-> TRUE, v |-> v] \/ stamps[s] # now))
MCSpec == MCInit /\ [][MCNext]_vars
\* the label is an observation only
View == <<prog, phase, now, tickn, pending, ready, more, cur, fs, store, stamps, xstore, marks, todo, entered, crashed, sweeps>>
\* every run terminates (checked without state constraint: the tick bound is in the next-state relation)
Terminates == <>(phase = "end")
\* fairness: the machine itself keeps stepping, and between ticks the clock eventually ticks or the
\* interrupt arrives (the environment may not write inputs forever instead)
FairSpec == /\ MCSpec
            /\ WF_vars(StartRun \/ Dispatch \/ EndTick \/ Sweep \/ EndRun \/ MachineStep)
            /\ WF_vars((tickn < MaxTicks /\ NextTick) \/ Interrupt)
=============================================================================
