------------------------------- MODULE FloTrace -------------------------------
(* Binding B for Flo.tla.  A trace is the event stream recorded from one real Skedder.run() of  *)
(* the program in its header: {"ev":"Header","prog":...} then Tick / Env / Interrupt / Rec /     *)
(* Yield / Raise / End events.  Every observable step of the specification must be the next     *)
(* recorded event with exactly the same fields (a Yield carries the framer's public state:      *)
(* status, desire, done, active frame, active outline, elapsed, recurred, period); silent steps *)
(* (work-list expansions) consume nothing.                                                      *)
EXTENDS Flo, TraceBatch

VARIABLES tid, l
tvars == <<vars, tid, l>>

Ev == EvAt(tid, l)

TraceInit ==
    /\ tid \in 1..NTraces
    /\ l = 2
    /\ prog = EvAt(tid, 1).prog
    /\ Init

\* the label of the step just taken is the next recorded event, field by field
Matches(lb, e) == /\ e.ev = lb.k
                  /\ \A f \in DOMAIN lb \ {"k"} : f \in DOMAIN e /\ e[f] = lb[f]

\* a Tick event also carries the values of the program's shares as read from the real store at that tick
\* boundary (only shares that were ever written): they must equal the specification's store
StoreAgrees(e) == (e.ev = "Tick" /\ HasField(e, "store")) =>
                     \A s \in DOMAIN e.store : s \in DOMAIN store' /\ store'[s] = e.store[s]

Observe == IF lab'.k = "silent" THEN UNCHANGED <<tid, l>>
           ELSE /\ l <= TraceLen(tid)
                /\ Matches(lab', Ev)
                /\ StoreAgrees(Ev)
                /\ l' = l + 1 /\ UNCHANGED tid

TraceNext ==
    \/ Core /\ Observe
    \/ /\ l <= TraceLen(tid) /\ Ev.ev = "Env"
       /\ EnvSet(Ev.share, Ev.val) /\ Observe
    \/ /\ l <= TraceLen(tid) /\ Ev.ev = "EnvF"
       /\ EnvSetF(Ev.share, Ev.val) /\ Observe

TraceSpec == TraceInit /\ [][TraceNext]_tvars
TraceOK == TraceConstraint(tid, l)
\* vacuity guard of C20 (used as a second CONSTRAINT): reports which case of the statement decided a transition
CaseSeen == ("case" \in DOMAIN lab) => PrintT(<<"CASE", lab.case>>)
=============================================================================
