----------------------------- MODULE FloNeedsTable -----------------------------
(* Binding C for property C21: the grid of need instances and their expected truth values,       *)
(* computed with the operators of FloNeeds.tla (written from the property statement), plus the   *)
(* algebra of the comparison checked over the whole grid.  The table is written once at start-up *)
(* (TABLE_OUT); the harness runs every row end to end as `go yes if <need>`.                     *)
(*                                                                                              *)
(* Numbers are integers in HALVES (v stands for v/2) except for the clause source "elapsed",     *)
(* where they are time quanta.  A clause:                                                        *)
(*   [k: "cmp"|"truthy", neg, src: "share"|"elapsed"|"recurred", state, op, gk: "lit"|"share",   *)
(*    goal, tol]         (state / goal tagged values; for the clocks `state` is the value the     *)
(*                        clock has when the condition is evaluated: see ElapsedAt / RecurredAt)  *)
EXTENDS FloNeeds, FiniteSets, SequencesExt, TLC, Json, IOUtils

CONSTANTS NMax,          \* numbers -NMax..NMax (in halves)
          ElapsedAt,     \* value of the elapsed clock (quanta) when the transition is evaluated
          RecurredAt     \* value of the recurred clock (in halves: 2 = one iteration)

OpSeq == <<"==", "!=", "<", "<=", ">=", ">">>
Ops == 1..6
EqOps == 1..2
Nums == (-NMax)..NMax
Tols == {0, 1, 2, -1, -2}       \* 0, 0.5, 1.0 and negative tolerances (the absolute value is used)
StrSeq == <<"a", "b", "">>
GkSeq == <<"lit", "share">>
Half == ElapsedAt \div 2

Cl(neg, src, state, op, gk, goal, tol) ==
    [k |-> "cmp", neg |-> neg, src |-> src, state |-> state, op |-> op, gk |-> gk, goal |-> goal, tol |-> tol]
Tr(neg, state) ==
    [k |-> "truthy", neg |-> neg, src |-> "share", state |-> state, op |-> "", gk |-> "lit", goal |-> Num(0), tol |-> 0]

(* The grid is enumerated as tuples of small integers <<family, neg, state, op, gk, goal, tol>> (TLC handles large *)
(* sets of integer tuples much faster than sets of records) and decoded into clauses.                             *)
\* 1: numbers in halves, every operator, direct / share goal, every tolerance
F1 == {<<1, n, s, o, k, g, t>> : n \in 0..1, s \in Nums, o \in Ops, k \in 1..2, g \in Nums, t \in Tols}
\* 2: strings "a", "b"
F2 == {<<2, n, s, o, k, g, t>> : n \in 0..1, s \in 1..2, o \in Ops, k \in 1..2, g \in 1..2, t \in {0, 1}}
\* 3: booleans (0/1), == and != only
F3 == {<<3, n, s, o, k, g, 0>> : n \in 0..1, s \in 0..1, o \in EqOps, k \in 1..2, g \in 0..1}
\* 4 / 5: a string is never equal to a number (`equality otherwise`): number state / string goal and the reverse
F4 == {<<4, n, s, o, k, g, t>> : n \in 0..1, s \in {-2, 0, 1, 2}, o \in EqOps, k \in 1..2, g \in 1..2, t \in {0, 1}}
F5 == {<<5, n, s, o, k, g, t>> : n \in 0..1, s \in 1..2, o \in EqOps, k \in 1..2, g \in {-2, 0, 1, 2}, t \in {0, 1}}
\* 6 / 7 / 8: bare `if state` on numbers, strings (incl. the empty string), booleans
F6 == {<<6, n, s, 0, 1, 0, 0>> : n \in 0..1, s \in Nums}
F7 == {<<7, n, s, 0, 1, 0, 0>> : n \in 0..1, s \in 1..3}
F8 == {<<8, n, s, 0, 1, 0, 0>> : n \in 0..1, s \in 0..1}
\* 9 / 10: the framer clocks, on the boundary and one step either side (half a tick / half an iteration), and 0
F9 == {<<9, n, ElapsedAt, o, k, g, t>> : n \in 0..1, o \in Ops, k \in 1..2,
                                           g \in {ElapsedAt - Half, ElapsedAt, ElapsedAt + Half, 0}, t \in {0, Half, -Half}}
F10 == {<<10, n, RecurredAt, o, k, g, t>> : n \in 0..1, o \in Ops, k \in 1..2,
                                             g \in {RecurredAt - 1, RecurredAt, RecurredAt + 1, 0}, t \in {0, 1, -1}}
\* 11..14: the same number comparisons on operands of LARGE magnitude: state and goal shifted alike by +-10^6 and
\* +-10^9 (in halves: 2*10^6, 2*10^9; still 32-bit integers and exact as floats), the tolerance unchanged.  The
\* written comparison goal-|tol| <= state <= goal+|tol| is translation invariant, so the truth values are those of
\* the unshifted rows (lemma TranslationInvariant) - whatever the magnitude of the operands.
Offset(fam) == CASE fam = 11 -> 2000000 [] fam = 12 -> -2000000 [] fam = 13 -> 2000000000 [] fam = 14 -> -2000000000
BigFams == 11..14
FBig == {<<f, n, s, o, k, g, t>> : f \in BigFams, n \in 0..1, s \in (-3)..3, o \in Ops, k \in 1..2, g \in 0..1, t \in {0, 1, 2, -1}}
\* 15: which field of the goal share an indirect goal reads when the script does not spell it out.  The need grammar
\* (docstring of Builder.makeNeed) is  goal: [(value, field) in] indirect  - the prefix is optional and `value` is the
\* default field; the resolve rules of NeedIndirect ("default rules for field"): a goal share that has `value` ->
\* `value`; one that has fields but no `value` -> the state's field; one with NO fields yet -> `value`.  A spelled-out
\* field is used as written.  <<15, neg, state, op, statefield, goalshape, spelled>>:
\*   statefield 1 = value (implicit), 2 = an explicit other field;
\*   goalshape  1 = the goal share has `value` when the need is resolved, 2 = it has the state's field and no `value`,
\*              3 = it is EMPTY (not initialised; its producer writes it at run time);
\*   spelled    0 = default, 1 = `value in goal`, 2 = `<state's field> in goal`.
\* (a goal share that only has other fields is not covered by the documentation and is left out.)
\* The goal value (1.0) is published at run time into the field the rules name; the clause is true iff the written
\* comparison holds against THAT value.
FieldCombos == {<<1, 1, 0>>, <<1, 1, 1>>, <<2, 1, 0>>, <<2, 1, 1>>,       \* goal has value
                <<2, 2, 0>>, <<2, 2, 2>>,                                   \* goal has the state's field only
                <<1, 3, 0>>, <<1, 3, 1>>, <<2, 3, 0>>, <<2, 3, 1>>, <<2, 3, 2>>}   \* goal empty at resolve time
F15 == {<<15, n, s, o, c[1], c[2], c[3]>> : n \in 0..1, s \in {0, 2, 3}, o \in Ops, c \in FieldCombos}
FieldName(i) == IF i = 1 THEN "value" ELSE "other"
GoalFieldOf(sf, shape, spelled) ==
    IF spelled # 0 THEN FieldName(spelled)
    ELSE CASE shape = 1 -> "value" [] shape = 2 -> FieldName(sf) [] shape = 3 -> "value"
Codes == F15 \cup FBig \cup F1 \cup F2 \cup F3 \cup F4 \cup F5 \cup F6 \cup F7 \cup F8 \cup F9 \cup F10

Decode(c) ==
    LET fam == c[1]  neg == c[2] = 1  s == c[3]  g == c[6]
        op == IF c[4] = 0 THEN "" ELSE OpSeq[c[4]]  gk == GkSeq[c[5]]  t == c[7] IN
    CASE fam = 1 -> Cl(neg, "share", Num(s), op, gk, Num(g), t)
      [] fam = 2 -> Cl(neg, "share", Str(StrSeq[s]), op, gk, Str(StrSeq[g]), t)
      [] fam = 3 -> Cl(neg, "share", Boo(s = 1), op, gk, Boo(g = 1), t)
      [] fam = 4 -> Cl(neg, "share", Num(s), op, gk, Str(StrSeq[g]), t)
      [] fam = 5 -> Cl(neg, "share", Str(StrSeq[s]), op, gk, Num(g), t)
      [] fam = 6 -> Tr(neg, Num(s))
      [] fam = 7 -> Tr(neg, Str(StrSeq[s]))
      [] fam = 8 -> Tr(neg, Boo(s = 1))
      [] fam = 9 -> Cl(neg, "elapsed", Num(s), op, gk, Num(g), t)
      [] fam = 10 -> Cl(neg, "recurred", Num(s), op, gk, Num(g), t)
      [] fam = 15 -> Cl(neg, "share", Num(s), op, "share", Num(2), 0) @@
                     [sf |-> FieldName(c[5]), gshape |-> c[6], gspell |-> IF c[7] = 0 THEN "" ELSE FieldName(c[7]),
                      gfield |-> GoalFieldOf(c[5], c[6], c[7])]
      [] fam \in BigFams -> Cl(neg, "share", Num(Offset(fam) + s), op, gk, Num(Offset(fam) + g), t)

ClauseRaw(c) == IF c.k = "truthy" THEN Truthy(c.state) ELSE Check(c.state, c.op, c.goal, c.tol)
ClauseTruth(c) == Negated(c.neg, ClauseRaw(c))
\* clauses are joined with `and`
RowTruth(cs) == \A i \in 1..Len(cs) : ClauseTruth(cs[i])

\* conjunctions of two and three: a pool of clauses of every kind with both truth values
Pool == << Cl(FALSE, "share", Num(1), "==", "lit", Num(2), 1),        \* 0.5 == 1.0 +- 0.5      true (on the boundary)
           Cl(FALSE, "share", Num(1), "==", "lit", Num(2), 0),        \* 0.5 == 1.0             false
           Cl(TRUE,  "share", Num(-2), ">", "share", Num(-2), 2),     \* not -1 > -1 +- 1       true
           Cl(FALSE, "share", Num(-3), ">=", "lit", Num(-2), 2),      \* -1.5 >= -1 +- 1        false (no tolerance on >=)
           Cl(FALSE, "share", Str("a"), "!=", "lit", Str("b"), 0),    \* true
           Cl(TRUE,  "share", Str("a"), "<", "share", Str("b"), 0),   \* false
           Cl(FALSE, "share", Boo(TRUE), "==", "lit", Boo(TRUE), 0),  \* true
           Cl(FALSE, "share", Boo(FALSE), "==", "share", Boo(TRUE), 0),   \* false
           Tr(FALSE, Num(-1)), Tr(FALSE, Num(0)), Tr(TRUE, Str("")), Tr(TRUE, Boo(TRUE)),
           Cl(FALSE, "elapsed", Num(ElapsedAt), "==", "lit", Num(ElapsedAt + Half), Half),   \* true
           Cl(FALSE, "recurred", Num(RecurredAt), "<", "lit", Num(RecurredAt), 1),            \* false
           Cl(FALSE, "share", Num(2000000002), "==", "lit", Num(2000000000), 1) >>            \* 10^9+1 == 10^9 +- 0.5   false
NP == Len(Pool)
PairSet == {<<a, b>> : a \in 1..NP, b \in 1..NP}
TripleSet == {<<a, b, c>> : a \in 1..NP, b \in 1..NP, c \in 1..NP}
PoolRow(ix) == [j \in 1..Len(ix) |-> Pool[ix[j]]]

Row(cs) == [cl |-> cs, expect |-> RowTruth(cs)]
Table == LET s1 == SetToSeq(Codes)  s2 == SetToSeq(PairSet)  s3 == SetToSeq(TripleSet) IN
         [i \in 1..(Len(s1) + Len(s2) + Len(s3)) |->
            IF i <= Len(s1) THEN Row(<<Decode(s1[i])>>)
            ELSE IF i <= Len(s1) + Len(s2) THEN Row(PoolRow(s2[i - Len(s1)]))
            ELSE Row(PoolRow(s3[i - Len(s1) - Len(s2)]))]
ASSUME JsonSerialize(IOEnv.TABLE_OUT, Table)

(* ---- the algebra of the written comparison, over the whole grid ---- *)
CmpCodes == {c \in Codes : c[1] \notin {6, 7, 8}}
Orderable(c) == c.state.t = c.goal.t /\ c.state.t \in {"n", "s"}
With(c, op) == Check(c.state, op, c.goal, c.tol)
\* `!=` is the complement of `==`
NeComplement == \A x \in CmpCodes : LET c == Decode(x) IN With(c, "!=") = ~With(c, "==")
\* the ordering operators are those of a total order
OrderTotal == \A x \in CmpCodes : LET c == Decode(x) IN Orderable(c) =>
    /\ With(c, ">=") = ~With(c, "<") /\ With(c, "<=") = ~With(c, ">")
    /\ With(c, "<=") = (With(c, "<") \/ SameValue(c.state, c.goal))
    /\ ~(With(c, "<") /\ With(c, ">"))
\* only the absolute value of the tolerance matters, and only for == and !=
TolAbs == \A x \in CmpCodes : LET c == Decode(x) IN
    Check(c.state, c.op, c.goal, c.tol) = Check(c.state, c.op, c.goal, -c.tol)
TolOnlyEq == \A x \in CmpCodes : LET c == Decode(x) IN
    c.op \notin {"==", "!="} => Check(c.state, c.op, c.goal, c.tol) = Check(c.state, c.op, c.goal, 0)
\* with zero tolerance == is equality; a wider band accepts more
ZeroTol == \A x \in CmpCodes : LET c == Decode(x) IN Check(c.state, "==", c.goal, 0) = SameValue(c.state, c.goal)
BandMonotone == \A x \in CmpCodes : LET c == Decode(x) IN BothNum(c.state, c.goal) =>
    (Check(c.state, "==", c.goal, c.tol) => Check(c.state, "==", c.goal, NAbs(c.tol) + 1))
\* the band is closed: exactly |tol| away is inside, one grid step further is outside
BandClosed == \A g \in Nums, t \in Tols :
    /\ Check(Num(g + NAbs(t)), "==", Num(g), t) /\ Check(Num(g - NAbs(t)), "==", Num(g), t)
    /\ ~Check(Num(g + NAbs(t) + 1), "==", Num(g), t) /\ ~Check(Num(g - NAbs(t) - 1), "==", Num(g), t)
\* rows of every length occur with both truth values (vacuity)
BothValues == \A b \in BOOLEAN :
    /\ \A fam \in 1..15 : \E x \in Codes : x[1] = fam /\ ClauseTruth(Decode(x)) = b
    /\ \E ix \in PairSet : RowTruth(PoolRow(ix)) = b
    /\ \E ix \in TripleSet : RowTruth(PoolRow(ix)) = b

\* shifting state and goal alike changes nothing, for every operator and tolerance
TranslationInvariant == \A x \in FBig : LET c == Decode(x) IN
    Check(c.state, c.op, c.goal, c.tol) = Check(Num(x[3]), c.op, Num(x[6]), c.tol)

ASSUME NeComplement
ASSUME TranslationInvariant
ASSUME OrderTotal
ASSUME TolAbs
ASSUME TolOnlyEq
ASSUME ZeroTol
ASSUME BandMonotone
ASSUME BandClosed
ASSUME BothValues
ASSUME PrintT(<<"ROWS", Cardinality(Codes) + Cardinality(PairSet) + Cardinality(TripleSet), Cardinality(Codes)>>)

VARIABLE c
Init == c = 0
Next == UNCHANGED c
Spec == Init /\ [][Next]_c
=============================================================================
