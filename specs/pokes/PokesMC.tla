-------------------------------- MODULE PokesMC --------------------------------
(* Model checking of Pokes.tla on programs of TWO verb instances over the shares a, b: every pair drawn from a reduced   *)
(* instance space (constants), every initial shape of the shares, both resolution orders, every interleaving of at most *)
(* MaxActs acts over the ticks 0..MaxTick, the scheduler rewriting the control data at any time.  What one instance      *)
(* creates while it is resolved changes the defaults of the other; what one writes the other reads.                      *)
EXTENDS Pokes

CONSTANTS Shapes,     \* indices into ShapeSeq: the shapes the shares a and b start with
          Lists,      \* indices into ListSeq: destination field lists tried
          SLists,     \* indices into ListSeq: source field lists tried
          Datas,      \* indices into DataSeq
          Kinds,      \* value kinds the shares hold (1 numbers, 2 a text in x, 3 None in y / value)
          MaxTick, MaxActs

ShareSeq == <<"a", "b">>
ShapeSeq == << <<>>, <<"value">>, <<"x">>, <<"x", "y">>, <<"y", "x">> >>
ListSeq == << <<>>, <<"value">>, <<"x">>, <<"y">>, <<"x", "y">>, <<"y", "x">>, <<"value", "x">>, <<"x", "x">> >>
DataSeq == << [k |-> <<"value">>, v |-> <<5>>], [k |-> <<"x">>, v |-> <<5>>], [k |-> <<"x", "y">>, v |-> <<5, 6>>],
              [k |-> <<"y", "x">>, v |-> <<0 - 3, None>>], [k |-> <<"x">>, v |-> <<StrBase + 7>>] >>
DirectVerbs == <<"put", "set", "inc">>
DirectConn == <<"into", "with", "with">>
IndirectVerbs == <<"copy", "set", "inc">>
IndirectConn == <<"into", "from", "from">>
BidSeq == << [ctl |-> "start", who |-> <<"g">>, pk |-> "lit", pv |-> 0 - 2, sfl |-> <<>>],
             [ctl |-> "run", who |-> <<"me", "g">>, pk |-> "ind", pv |-> 0, sfl |-> <<>>],
             [ctl |-> "ready", who |-> <<>>, pk |-> "ind", pv |-> 0, sfl |-> <<"x">>],
             [ctl |-> "stop", who |-> <<"g">>, pk |-> "none", pv |-> 0, sfl |-> <<>>] >>
DoneSeq == << <<>>, <<"s">>, <<"s", "me">> >>

Val0(s, f, kind) ==
    LET base == IF s = "a" THEN 10 ELSE 20
        off == IF f = "value" THEN 0 ELSE IF f = "x" THEN 1 ELSE 2
    IN IF kind = 2 /\ f = "x" THEN StrBase + base
       ELSE IF kind = 3 /\ f # "x" THEN None
       ELSE base + off
MkShare(s, shape, kind) ==
    [keys |-> shape, vals |-> [i \in 1..Len(shape) |-> Val0(s, shape[i], kind)], stamp |-> NoStamp]
Blank == [verb |-> "", conn |-> "", form |-> "direct", dst |-> "a", dfl |-> <<>>, dk |-> <<>>, dv |-> <<>>,
          src |-> "a", sfl |-> <<>>, ctl |-> "", who |-> <<>>, pk |-> "none", pv |-> 0]

Codes == {<<1, v, d, fl, da, 0>> : v \in 1..3, d \in 1..2, fl \in Lists, da \in Datas}
         \cup {<<2, v, d, s, fl, sl>> : v \in 1..3, d \in 1..2, s \in 1..2, fl \in Lists, sl \in SLists}
         \cup {<<3, b, s, 0, 0, 0>> : b \in 1..Len(BidSeq), s \in 1..2}
         \cup {<<4, w, 0, 0, 0, 0>> : w \in 1..Len(DoneSeq)}
Decode(c) ==
    CASE c[1] = 1 -> [Blank EXCEPT !.verb = DirectVerbs[c[2]], !.conn = DirectConn[c[2]], !.form = "direct",
                                   !.dst = ShareSeq[c[3]], !.dfl = ListSeq[c[4]], !.dk = DataSeq[c[5]].k, !.dv = DataSeq[c[5]].v]
      [] c[1] = 2 -> [Blank EXCEPT !.verb = IndirectVerbs[c[2]], !.conn = IndirectConn[c[2]], !.form = "indirect",
                                   !.dst = ShareSeq[c[3]], !.src = ShareSeq[c[4]], !.dfl = ListSeq[c[5]], !.sfl = ListSeq[c[6]]]
      [] c[1] = 3 -> [Blank EXCEPT !.verb = "bid", !.ctl = BidSeq[c[2]].ctl, !.who = BidSeq[c[2]].who, !.pk = BidSeq[c[2]].pk,
                                   !.pv = BidSeq[c[2]].pv, !.sfl = BidSeq[c[2]].sfl, !.src = ShareSeq[c[3]]]
      [] c[1] = 4 -> [Blank EXCEPT !.verb = "done", !.who = DoneSeq[c[2]]]

Framers == {"f", "g", "s"}
Ctl0 == [t \in Framers |-> [desire |-> "stop", period |-> 1]]
Dn0 == [t \in Framers |-> FALSE]

VARIABLE acts          \* acts taken so far (bounds the exploration)
mvars == <<vars, acts>>

\* the two instances act in any order: unordered pairs
Rank(c) == ((((c[1] * 10 + c[2]) * 10 + c[3]) * 10 + c[4]) * 10 + c[5]) * 10 + c[6]
Init == \E c1 \in Codes, c2 \in Codes, sa \in Shapes, sb \in Shapes, kd \in Kinds :
        /\ Rank(c1) <= Rank(c2)
        /\ prog = <<Decode(c1), Decode(c2)>>
        /\ store = [a |-> MkShare("a", ShapeSeq[sa], kd), b |-> MkShare("b", ShapeSeq[sb], kd)]
        /\ plan = <<Unplanned, Unplanned>> /\ phase = "build" /\ now = NoStamp
        /\ ctl = Ctl0 /\ dn = Dn0 /\ last = [op |-> "Init", k |-> 0] /\ acts = 0

Building == \E k \in 1..2 : Resolve(k) /\ UNCHANGED acts
Refusing == (RefuseParse \/ RefuseResolve) /\ UNCHANGED acts
Clock == now < MaxTick /\ Tick /\ UNCHANGED acts
\* the scheduler took the bids, the framers' runners cleared the done flags
Rewrite == (ctl # Ctl0 \/ dn # Dn0) /\ Sked(Ctl0, Dn0) /\ UNCHANGED acts
Acting == \E k \in 1..2 : acts < MaxActs /\ Acts(k) /\ acts' = acts + 1
Raising == \E k \in 1..2 : acts < MaxActs /\ BidRaises(k) /\ acts' = acts + 1
Next == Building \/ Refusing \/ Clock \/ Rewrite \/ Acting \/ Raising
Spec == Init /\ [][Next]_mvars
=============================================================================
