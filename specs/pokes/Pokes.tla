-------------------------------- MODULE Pokes --------------------------------
(* The data-moving verbs of FloScript (extra check X-pokes):                                          *)
(*                                                                                                    *)
(*     put  data into destination                   (buildPut,  PokeDirect)                            *)
(*     copy source into destination                 (buildCopy, PokeIndirect)                          *)
(*     set  destination with data | from source     (buildSet,  GoalDirect / GoalIndirect)             *)
(*     inc  destination with data | from source     (buildInc,  IncDirect / IncIndirect)               *)
(*     bid  control tasker ... [at period]          (buildBid,  WantStart ...) period: number | share *)
(*     done [tasker ...]                            (buildDone, CompleteDone)                          *)
(*                                                                                                    *)
(*   data:        [value] value  |  field value [field value ...]        (docstring of parseDirect)   *)
(*   source,                                                                                          *)
(*   destination: [(value, fields) in] indirect                           (docstring of parseFields)   *)
(*                                                                                                    *)
(* Written from the docstrings of these build methods and actor classes, of Actor._prepareDstFields,  *)
(* _prepareSrcDstFields, _verifyShareFields ("when a share has field == 'value' it will be the only   *)
(* field"), of Share.update ("create field if not already exist, set stamp to store.stamp") and from   *)
(* ChangeLog.md (20081112: "if data field is value then only one field is allowed", "warnings at parse *)
(* time if share or field does not exist when created dynamically for put, inc, copy, set"; 20160528:  *)
(* "Dropped 'to' and 'by' connectives from 'set'", "Dropped 'by' ... Deprecated 'to' connective of     *)
(* 'inc'").                                                                                            *)
(*                                                                                                    *)
(* A verb instance lives twice: it is RESOLVED once while the script is built (the field lists get    *)
(* their defaults, the 'value'-is-alone rule is enforced, missing shares / fields are created holding *)
(* None) and it ACTS every time its frame context runs, at the store time `now` of that tick.          *)
(*                                                                                                    *)
(*   prog    the verb instances of the script (immutable)                                              *)
(*   store   share name |-> [keys: fields in order, vals: their values, stamp]                         *)
(*   plan    per instance: not yet resolved | the resolved field lists                                 *)
(*   phase   "build" | "run" | "refused" (the builder refused the script)                              *)
(*   now     store time in ticks (NoStamp while the script is being built: the store has no time yet)   *)
(*   ctl     framer |-> [desire, period]  as last written by a bid (the scheduler rewrites it at ticks) *)
(*   dn      framer |-> done flag                                                                      *)
(*   last    the step just taken (observation only)                                                    *)
(*                                                                                                    *)
(* Values are integers: numbers as they are, None = -1000, strings are codes >= 10000 (TLC compares    *)
(* only like with like).  A stamp is a tick number, NoStamp (-1) for "never stamped".                  *)
(*                                                                                                    *)
(* Where the documentation is silent the specification is nondeterministic:                            *)
(*   - an inc that meets a value that is not a number reports it and goes on (IncDirect: "in case      *)
(*     value is not a number"): it never raises; which of the other fields of a vector inc were        *)
(*     incremented and whether the share was stamped is left open (FailOutcomes);                      *)
(*   - a transfer inside ONE share whose lists overlap (copy x y in s into y x in s) may read all       *)
(*     fields first or field by field: both results are allowed (Sim / Seq);                           *)
(*   - inc of a string by a string, a bid period that is not a number: Unspecified, anything goes.      *)
EXTENDS Integers, Sequences, FiniteSets, TLC

None == -1000
NoStamp == -1
StrBase == 10000
IsNum(v) == v > None /\ v < StrBase
IsStr(v) == v >= StrBase

VARIABLES prog, store, plan, phase, now, ctl, dn, last
vars == <<prog, store, plan, phase, now, ctl, dn, last>>

Range(s) == {s[i] : i \in 1..Len(s)}
IndexOf(s, k) == CHOOSE i \in 1..Len(s) : s[i] = k
Max(a, b) == IF a >= b THEN a ELSE b

(* ------------------------------------------------------------------ shares *)
HasF(sh, f) == f \in Range(sh.keys)
ValOf(sh, f) == sh.vals[IndexOf(sh.keys, f)]
IsEmpty(sh) == sh.keys = <<>>
\* share[f] = v : an existing field keeps its place, a new one goes last
SetF(sh, f, v) == IF HasF(sh, f) THEN [sh EXCEPT !.vals[IndexOf(sh.keys, f)] = v]
                  ELSE [sh EXCEPT !.keys = Append(@, f), !.vals = Append(@, v)]
RECURSIVE WriteAll(_, _, _)
WriteAll(sh, fs, vs) == IF fs = <<>> THEN sh ELSE WriteAll(SetF(sh, Head(fs), Head(vs)), Tail(fs), Tail(vs))
\* "create any non existent ... fields":  dst[field] = None
RECURSIVE CreateAll(_, _)
CreateAll(sh, fs) == IF fs = <<>> THEN sh
                     ELSE CreateAll(IF HasF(sh, Head(fs)) THEN sh ELSE SetF(sh, Head(fs), None), Tail(fs))
Stamped(sh, t) == [sh EXCEPT !.stamp = t]
EmptyShare == [keys |-> <<>>, vals |-> <<>>, stamp |-> NoStamp]

(* ------------------------------------------------------------------ verb instances *)
(* [verb, conn, form: "direct"|"indirect", dst, dfl, dk, dv, src, sfl,  ctl, who, pk: "none"|"lit"|"ind", pv]        *)
(*  dfl / sfl: the field lists as written (<<>> = no `fields in` clause); dk / dv: the direct data, field by field   *)
(*  (a lone value is the field "value")                                                                              *)
IsMove(I) == I.verb \in {"put", "copy", "set", "inc"}
Direct(I) == I.form = "direct"
ValueNotAlone(fs) == Len(fs) > 1 /\ "value" \in Range(fs)

\* the grammar of the build methods: which connective introduces which kind of operand
GoodForm(I) ==
    CASE I.verb = "put"  -> I.form = "direct" /\ I.conn = "into"
      [] I.verb = "copy" -> I.form = "indirect" /\ I.conn = "into"
      [] I.verb \in {"set", "inc"} -> (I.form = "direct" /\ I.conn = "with") \/ (I.form = "indirect" /\ I.conn = "from")
      [] OTHER -> TRUE
\* errors the builder finds in the command alone
ParseError(I) ==
    IsMove(I) /\ \/ ~GoodForm(I)
                 \/ ValueNotAlone(I.dfl)                  \* "Field = 'value' with multiple fields"
                 \/ Direct(I) /\ ValueNotAlone(I.dk)      \* "Direct data field = 'value' must be only field"
                 \/ ~Direct(I) /\ ValueNotAlone(I.sfl)
\* `inc ... with "text"`: the builder says "not a number"; the grammar (`inc destination with data`) does not, and a
\* text met at run time is reported by the actor: both refusals are accepted
SoftParseError(I) == I.verb = "inc" /\ Direct(I) /\ \E i \in 1..Len(I.dv) : IsStr(I.dv[i])

\* _prepareSrcDstFields: "empty source fields so assign defaults"
SrcFields(I, st) ==
    IF I.sfl # <<>> THEN I.sfl
    ELSE IF IsEmpty(st[I.src]) THEN <<"value">>              \* "empty src: use value field"
    ELSE IF HasF(st[I.src], "value") THEN <<"value">>        \* "use value field"
    ELSE IF I.dfl # <<>> THEN I.dfl                          \* "use destination fields for source fields"
    ELSE st[I.src].keys                                      \* "use pre-existing source fields"
FromFields(I, st) == IF Direct(I) THEN I.dk ELSE SrcFields(I, st)
\* _verifyShareFields: "updating fields in share won't violate the condition that when a share has field == 'value'
\* it will be the only field"
Violates(sh, fs) ==
    \/ ValueNotAlone(fs)
    \/ ~IsEmpty(sh) /\ \E i \in 1..Len(fs) : ~HasF(sh, fs[i]) /\ (HasF(sh, "value") \/ fs[i] = "value")
\* the source side is settled first: its missing fields are created holding None ...
SrcDone(I, st) == IF Direct(I) THEN st ELSE [st EXCEPT ![I.src] = CreateAll(@, SrcFields(I, st))]
\* ... then the destination side ("no destination fields so assign defaults": the value field if the destination has
\* one, else the source fields); when source and destination are ONE share the destination is judged with the source
\* fields in place, so that the rule about 'value' holds for what the build leaves behind
DstFields(I, st) ==
    IF I.dfl # <<>> THEN I.dfl ELSE IF HasF(SrcDone(I, st)[I.dst], "value") THEN <<"value">> ELSE FromFields(I, st)
ResolveError(I, st) ==
    IsMove(I) /\ \/ ~Direct(I) /\ Violates(st[I.src], SrcFields(I, st))
                 \/ Violates(SrcDone(I, st)[I.dst], DstFields(I, st))
                 \/ Len(FromFields(I, st)) # Len(DstFields(I, st))     \* "Unequal number of source and destination fields"
\* the store after a successful resolve: missing source fields, then missing destination fields, created holding None
Created(I, st) ==
    IF ~IsMove(I) THEN st ELSE [SrcDone(I, st) EXCEPT ![I.dst] = CreateAll(@, DstFields(I, st))]
Planned(I, st) == IF IsMove(I) THEN [st |-> "ok", dF |-> DstFields(I, st), sF |-> FromFields(I, st)]
                  ELSE [st |-> "ok", dF |-> <<>>, sF |-> IF I.pk = "ind" /\ I.sfl = <<>> THEN <<"value">> ELSE I.sfl]
Unplanned == [st |-> "new", dF |-> <<>>, sF |-> <<>>]
\* bid ... at field in share: the field has to be there (a missing one is created by the actor with a value the
\* documentation does not name: such programs are outside the specification)
BidWellFormed(I, st) ==
    I.verb = "bid" =>
        /\ I.ctl \in {"stop", "abort"} => I.pk = "none"
        /\ I.pk = "ind" => HasF(st[I.src], IF I.sfl = <<>> THEN "value" ELSE I.sfl[1])

(* ------------------------------------------------------------------ what an act may leave behind *)
\* the operands of field i: what the destination holds and what is brought
Bring(I, P, st, i) == IF Direct(I) THEN I.dv[i] ELSE ValOf(st[I.src], P.sF[i])
Held(I, P, st, i) == ValOf(st[I.dst], P.dF[i])
IsInc(I) == I.verb = "inc"
NewVal(I, P, st, i) == IF IsInc(I) THEN Held(I, P, st, i) + Bring(I, P, st, i) ELSE Bring(I, P, st, i)
FieldOk(I, P, st, i) == IsInc(I) => IsNum(Held(I, P, st, i)) /\ IsNum(Bring(I, P, st, i))
N(P) == Len(P.dF)
\* inc of a text by a text: the documentation speaks of numbers only
Unspecified(I, P, st) == IsInc(I) /\ \E i \in 1..N(P) : IsStr(Held(I, P, st, i)) /\ IsStr(Bring(I, P, st, i))
AllOk(I, P, st) == \A i \in 1..N(P) : FieldOk(I, P, st, i)

\* all operands read first, then the destination fields written in the order of the lists
Sim(I, P, st) == WriteAll(st[I.dst], P.dF, [i \in 1..N(P) |-> NewVal(I, P, st, i)])
\* field by field (differs from Sim only when a field written earlier is read later)
RECURSIVE SeqFrom(_, _, _, _)
SeqFrom(I, P, st, i) ==
    IF i > N(P) THEN st
    ELSE IF ~FieldOk(I, P, st, i) THEN st
    ELSE SeqFrom(I, P, [st EXCEPT ![I.dst] = SetF(@, P.dF[i], NewVal(I, P, st, i))], i + 1)
Seq_(I, P, st) == SeqFrom(I, P, st, 1)[I.dst]
\* an inc that met a non-number: no field that is not a number changes; which of the others were incremented and
\* whether the share was stamped is open, but changed data is stamped data ("one time stamp applies to the whole data")
Pick(S, P) == SelectSeq([i \in 1..N(P) |-> i], LAMBDA i : i \in S)
WriteSome(I, P, st, S) ==
    LET ix == Pick(S, P)
    IN WriteAll(st[I.dst], [j \in 1..Len(ix) |-> P.dF[ix[j]]], [j \in 1..Len(ix) |-> NewVal(I, P, st, ix[j])])
FailOutcomes(I, P, st, t) ==
    LET good == {i \in 1..N(P) : FieldOk(I, P, st, i)}
        old == st[I.dst]
    IN {o \in {Stamped(WriteSome(I, P, st, S), s) : S \in SUBSET good, s \in {old.stamp, t}} :
            <<o.keys, o.vals>> # <<old.keys, old.vals>> => o.stamp = t}
\* the destination share after instance I (resolved as P) acted at time t on store st
Outcomes(I, P, st, t) ==
    IF AllOk(I, P, st) THEN {Stamped(Sim(I, P, st), t), Stamped(Seq_(I, P, st), t)} ELSE FailOutcomes(I, P, st, t)

(* ------------------------------------------------------------------ actions *)
Me == "f"                    \* every instance of a program stands in frames of the framer f
NProg == Len(prog)
K == 1..NProg
Step(op, k) == last' = [op |-> op, k |-> k]
AllResolved == \A j \in K : plan[j].st = "ok"

\* the builder resolves one instance (in whatever order it walks the frames)
Resolve(k) ==
    /\ phase = "build" /\ plan[k].st = "new"
    /\ \A j \in K : ~ParseError(prog[j])          \* the whole script is parsed before anything is resolved
    /\ ~ResolveError(prog[k], store)
    /\ BidWellFormed(prog[k], store)
    /\ store' = Created(prog[k], store)
    /\ plan' = [plan EXCEPT ![k] = Planned(prog[k], store)]
    /\ Step("Resolve", k)
    /\ UNCHANGED <<prog, phase, now, ctl, dn>>

\* the builder refuses the script: a command is malformed, or an instance cannot be resolved against the store as it is
RefuseParse ==
    /\ phase = "build" /\ \A j \in K : plan[j].st = "new"
    /\ \E j \in K : ParseError(prog[j]) \/ SoftParseError(prog[j])
    /\ phase' = "refused" /\ Step("Refuse", 0) /\ UNCHANGED <<prog, store, plan, now, ctl, dn>>
RefuseResolve ==
    /\ phase = "build" /\ \A j \in K : ~ParseError(prog[j])
    /\ \E j \in K : plan[j].st = "new" /\ ResolveError(prog[j], store)
    /\ phase' = "refused" /\ Step("Refuse", 0) /\ UNCHANGED <<prog, store, plan, now, ctl, dn>>

\* environment: the scheduler starts the run (store time 0) / advances the store time by one tick
Tick ==
    /\ \/ phase = "build" /\ AllResolved /\ phase' = "run" /\ now' = 0
       \/ phase = "run" /\ phase' = phase /\ now' = now + 1
    /\ Step("Tick", 0) /\ UNCHANGED <<prog, store, plan, ctl, dn>>
\* environment: the scheduler and the framers' own runners rewrite desires, periods and done flags
Sked(c, d) ==
    /\ phase = "run" /\ ctl' = c /\ dn' = d
    /\ Step("Sked", 0) /\ UNCHANGED <<prog, store, plan, phase, now>>

\* put / copy / set / inc instance k acts
Move(k, verb, form, ok) ==
    LET I == prog[k]  P == plan[k] IN
    /\ phase = "run" /\ I.verb = verb /\ I.form = form
    /\ ~Unspecified(I, P, store) /\ AllOk(I, P, store) = ok
    /\ \E out \in Outcomes(I, P, store, now) : store' = [store EXCEPT ![I.dst] = out]
    /\ Step(verb, k) /\ UNCHANGED <<prog, plan, phase, now, ctl, dn>>
Put(k) == Move(k, "put", "direct", TRUE)
Copy(k) == Move(k, "copy", "indirect", TRUE)
SetWith(k) == Move(k, "set", "direct", TRUE)
SetFrom(k) == Move(k, "set", "indirect", TRUE)
IncWith(k) == Move(k, "inc", "direct", TRUE)
IncFrom(k) == Move(k, "inc", "indirect", TRUE)
IncNotNumber(k) == \E form \in {"direct", "indirect"} : Move(k, "inc", form, FALSE)

\* "bid control [me]", "done [me]": no tasker named means the framer itself
Targets(I) == IF I.who = <<>> THEN {Me} ELSE {IF I.who[i] = "me" THEN Me ELSE I.who[i] : i \in 1..Len(I.who)}
BidPeriod(I, P, st) == IF I.pk = "lit" THEN I.pv ELSE ValOf(st[I.src], P.sF[1])
\* bid control taskers [at period]: "tasker.desire = control", "tasker.period = max(0.0, period)"
Bid(k) ==
    LET I == prog[k]  P == plan[k] IN
    /\ phase = "run" /\ I.verb = "bid"
    /\ I.pk # "none" => IsNum(BidPeriod(I, P, store))
    /\ ctl' = [t \in DOMAIN ctl |->
                 IF t \in Targets(I)
                 THEN [desire |-> I.ctl, period |-> IF I.pk = "none" THEN ctl[t].period ELSE Max(0, BidPeriod(I, P, store))]
                 ELSE ctl[t]]
    /\ Step("bid", k) /\ UNCHANGED <<prog, store, plan, phase, now, dn>>
\* done [taskers]: "set done state to True"
Done(k) ==
    LET I == prog[k] IN
    /\ phase = "run" /\ I.verb = "done"
    /\ dn' = [t \in DOMAIN dn |-> dn[t] \/ t \in Targets(I)]
    /\ Step("done", k) /\ UNCHANGED <<prog, store, plan, phase, now, ctl>>

\* outside the documentation: an inc of a text by a text leaves some destination share sh; a bid whose period is not
\* a number may raise
Unspec(k, sh) ==
    LET I == prog[k]  P == plan[k] IN
    /\ phase = "run" /\ IsMove(I) /\ Unspecified(I, P, store)
    /\ store' = [store EXCEPT ![I.dst] = sh]
    /\ Step("unspec", k) /\ UNCHANGED <<prog, plan, phase, now, ctl, dn>>
BidRaises(k) ==
    LET I == prog[k]  P == plan[k] IN
    /\ phase = "run" /\ I.verb = "bid" /\ I.pk # "none" /\ ~IsNum(BidPeriod(I, P, store))
    /\ Step("raise", k) /\ UNCHANGED <<prog, store, plan, phase, now, ctl, dn>>

Acts(k) == \/ Put(k) \/ Copy(k) \/ SetWith(k) \/ SetFrom(k) \/ IncWith(k) \/ IncFrom(k) \/ IncNotNumber(k)
           \/ Bid(k) \/ Done(k)

(* ------------------------------------------------------------------ properties *)
Shares == DOMAIN store
Distinct(s) == \A i, j \in 1..Len(s) : s[i] = s[j] => i = j
IsPrefix(s, t) == Len(s) <= Len(t) /\ \A i \in 1..Len(s) : s[i] = t[i]
WellFormed == \A s \in Shares : Len(store[s].keys) = Len(store[s].vals) /\ Distinct(store[s].keys)
\* ChangeLog 20081112 / _verifyShareFields: a share with a field `value` has no other field
ValueAlone == \A s \in Shares : HasF(store[s], "value") => Len(store[s].keys) = 1
StampNotAhead == \A s \in Shares : store[s].stamp <= now
RunMeansResolved == phase = "run" => AllResolved

MoveVerbs == {"put", "copy", "set", "inc"}
Moved == last'.op \in MoveVerbs
LI == prog[last'.k]
LP == plan[last'.k]
DataOf(sh) == <<sh.keys, sh.vals>>

\* building creates fields holding None and nothing else: no value changes, nothing is stamped, the order stays
BuildOnlyCreates ==
    [][phase = "build" /\ phase' = "build" =>
        \A s \in Shares : /\ store'[s].stamp = store[s].stamp
                          /\ IsPrefix(store[s].keys, store'[s].keys) /\ IsPrefix(store[s].vals, store'[s].vals)
                          /\ \A i \in (Len(store[s].vals) + 1)..Len(store'[s].vals) : store'[s].vals[i] = None]_vars
\* a refused script stays refused and nothing acts
RefusedIsFinal == [][phase = "refused" => UNCHANGED vars]_vars
\* "source untouched": an act changes no share but its destination
OnlyDestination == [][Moved => \A s \in Shares \ {LI.dst} : store'[s] = store[s]]_vars
\* "destination gets exactly the listed fields": no other field changes, no field appears at run time, the order stays
ListedFieldsOnly ==
    [][Moved => /\ store'[LI.dst].keys = store[LI.dst].keys
                /\ \A i \in 1..Len(store[LI.dst].keys) :
                      store[LI.dst].keys[i] \notin Range(LP.dF) => store'[LI.dst].vals[i] = store[LI.dst].vals[i]]_vars
\* "destination stamp = current store stamp": an act that succeeds stamps its destination, changed data is stamped data
DestinationStamped ==
    [][Moved => /\ AllOk(LI, LP, store) => store'[LI.dst].stamp = now
                /\ DataOf(store'[LI.dst]) # DataOf(store[LI.dst]) => store'[LI.dst].stamp = now
                /\ store'[LI.dst].stamp \in {store[LI.dst].stamp, now}]_vars
\* positional matching: "a field of same name in source and destination will not be copied to each other unless
\* appear in same place in both field lists" (stated where reading first and reading field by field agree)
Independent == Direct(LI) \/ LI.src # LI.dst
PositionalTransfer ==
    [][Moved /\ LI.verb # "inc" /\ Independent /\ Distinct(LP.dF) =>
        \A i \in 1..N(LP) : ValOf(store'[LI.dst], LP.dF[i]) = Bring(LI, LP, store, i)]_vars
\* "if multiple fields then vector increment": field-wise sums
IncAddsFieldwise ==
    [][Moved /\ LI.verb = "inc" /\ Independent /\ Distinct(LP.dF) /\ AllOk(LI, LP, store) =>
        \A i \in 1..N(LP) : ValOf(store'[LI.dst], LP.dF[i]) = Held(LI, LP, store, i) + Bring(LI, LP, store, i)]_vars
\* an inc never turns a non-number into something else
NonNumbersStay ==
    [][Moved /\ LI.verb = "inc" =>
        \A i \in 1..N(LP) : ~FieldOk(LI, LP, store, i) => ValOf(store'[LI.dst], LP.dF[i]) = Held(LI, LP, store, i)]_vars
\* bids and done write control data only, and only of their targets; a period is never negative
ControlOnly ==
    [][last'.op \in {"bid", "done"} =>
        /\ store' = store
        /\ \A t \in DOMAIN ctl : t \notin Targets(LI) => ctl'[t] = ctl[t] /\ dn'[t] = dn[t]
        /\ \A t \in DOMAIN ctl : t \in Targets(LI) /\ last'.op = "bid" => ctl'[t].desire = LI.ctl /\ ctl'[t].period >= 0]_vars
=============================================================================
