------------------------------ MODULE PokesTable ------------------------------
(* Binding C for X-pokes: TLC enumerates small verb instances over a store of two shares (a, b) with the fields      *)
(* value / x / y, checks the properties of Pokes.tla on the behaviour of each one-instance program                    *)
(*     build (Resolve | Refuse)  ->  tick 0  ->  tick 1  ->  the instance acts once                                    *)
(* and writes the table  instance, initial store |-> refused? / store after the build / admissible stores after the   *)
(* act (TABLE_OUT).  The harness prints every row as a FloScript program, builds it with the real Builder, runs it     *)
(* with the real Skedder and compares the store.                                                                       *)
(*                                                                                                                     *)
(* Families of instances (tuples of small integers, decoded by Decode):                                                *)
(*   "direct"    put / set with / inc with : destination share, its field list, the data, the shapes of a and b,       *)
(*               the kind of values the shares hold                                                                    *)
(*   "indirect"  copy / set from / inc from : destination and source share (the same one included), both field lists,  *)
(*               shapes, value kinds                                                                                   *)
(*   "conn"      every verb with every connective (into with from to by) and both kinds of operand                     *)
EXTENDS Pokes, SequencesExt, Json, IOUtils

CONSTANTS Families,      \* which of the families 1 (direct), 2 (indirect), 3 (conn) to enumerate
          Shards, NShards \* the instances whose code falls into one of these shards (of NShards)

ShareSeq == <<"a", "b">>
\* fields a share starts with, in order
ShapeSeq == << <<>>, <<"value">>, <<"x">>, <<"y">>, <<"x", "y">>, <<"y", "x">> >>
\* field lists as written in the command (1..7 are used for destinations: no field twice)
ListSeq == << <<>>, <<"value">>, <<"x">>, <<"y">>, <<"x", "y">>, <<"y", "x">>, <<"value", "x">>, <<"x", "x">> >>
\* direct data: fields, values, and whether a lone value is written without its field name
DataSeq == << [k |-> <<"value">>, v |-> <<5>>, bare |-> TRUE],
              [k |-> <<"value">>, v |-> <<5>>, bare |-> FALSE],
              [k |-> <<"x">>, v |-> <<5>>, bare |-> FALSE],
              [k |-> <<"y">>, v |-> <<6>>, bare |-> FALSE],
              [k |-> <<"x", "y">>, v |-> <<5, 6>>, bare |-> FALSE],
              [k |-> <<"y", "x">>, v |-> <<6, 5>>, bare |-> FALSE],
              [k |-> <<"value", "x">>, v |-> <<5, 6>>, bare |-> FALSE],
              [k |-> <<"x">>, v |-> <<StrBase + 7>>, bare |-> FALSE],
              [k |-> <<"value">>, v |-> <<None>>, bare |-> TRUE],
              [k |-> <<"x", "y">>, v |-> <<0 - 3, None>>, bare |-> FALSE] >>
DirectVerbs == <<"put", "set", "inc">>
DirectConn == <<"into", "with", "with">>
IndirectVerbs == <<"copy", "set", "inc">>
IndirectConn == <<"into", "from", "from">>
ConnSeq == <<"into", "with", "from", "to", "by">>
AllVerbs == <<"put", "copy", "set", "inc">>
FormSeq == <<"direct", "indirect">>

\* what the shares hold: kind 1 numbers; kind 2 a text in every field x; kind 3 None in the fields y and value
Val0(s, f, kind) ==
    LET base == IF s = "a" THEN 10 ELSE 20
        off == IF f = "value" THEN 0 ELSE IF f = "x" THEN 1 ELSE 2
    IN IF kind = 2 /\ f = "x" THEN StrBase + base
       ELSE IF kind = 3 /\ f # "x" THEN None
       ELSE base + off
MkShare(s, shape, kind) ==
    [keys |-> shape, vals |-> [i \in 1..Len(shape) |-> Val0(s, shape[i], kind)], stamp |-> NoStamp]
MkStore(sa, sb, kind) == [a |-> MkShare("a", ShapeSeq[sa], kind), b |-> MkShare("b", ShapeSeq[sb], kind)]

Blank == [verb |-> "", conn |-> "", form |-> "direct", dst |-> "a", dfl |-> <<>>, dk |-> <<>>, dv |-> <<>>,
          src |-> "a", sfl |-> <<>>, ctl |-> "", who |-> <<>>, pk |-> "none", pv |-> 0]

\* inc is tried on every kind of value, copy as well (texts and None are copied like numbers)
Kinds(fam, v) == IF v = 3 \/ (fam = 2 /\ v = 1) THEN 1..3 ELSE {1}
DirectCodes == {<<1, v, d, fl, da, sa, sb, kd>> : v \in 1..3, d \in 1..2, fl \in 1..7, da \in 1..Len(DataSeq),
                                                 sa \in 1..6, sb \in 1..6, kd \in 1..3}
IndirectCodes == {<<2, v, d, s, fl, sl, sa, sb, kd>> : v \in 1..3, d \in 1..2, s \in 1..2, fl \in 1..7, sl \in 1..8,
                                                      sa \in 1..6, sb \in 1..6, kd \in 1..3}
\* a connective that is not the verb's: refused whatever the operand; the verb's own connectives are paired with
\* their kind of operand (`set s with <share>` and `put <share> into s` read the share name as a value, a path: not
\* cases of their own); `inc ... to` is "deprecated", not dropped: left out
ConnCodes == {c \in {<<3, v, cn, fm>> : v \in 1..4, cn \in 1..5, fm \in 1..2} :
                 /\ ~(AllVerbs[c[2]] = "inc" /\ ConnSeq[c[3]] = "to")
                 /\ ~(AllVerbs[c[2]] = "put" /\ ConnSeq[c[3]] = "into" /\ FormSeq[c[4]] = "indirect")
                 /\ AllVerbs[c[2]] \in {"set", "inc"} =>
                        /\ ConnSeq[c[3]] = "with" => FormSeq[c[4]] = "direct"
                        /\ ConnSeq[c[3]] = "from" => FormSeq[c[4]] = "indirect"}

RECURSIVE Mix(_, _)
Mix(c, i) == IF i > Len(c) THEN 0 ELSE c[i] + 11 * Mix(c, i + 1)
InShard(c) == (Mix(c, 1) % NShards) \in Shards

Codes == (IF 1 \in Families THEN {c \in DirectCodes : c[8] \in Kinds(1, c[2]) /\ InShard(c)} ELSE {})
         \cup (IF 2 \in Families THEN {c \in IndirectCodes : c[9] \in Kinds(2, c[2]) /\ InShard(c)} ELSE {})
         \cup (IF 3 \in Families THEN ConnCodes ELSE {})

Decode(c) ==
    IF c[1] = 1 THEN
        [I |-> [Blank EXCEPT !.verb = DirectVerbs[c[2]], !.conn = DirectConn[c[2]], !.form = "direct",
                             !.dst = ShareSeq[c[3]], !.dfl = ListSeq[c[4]], !.dk = DataSeq[c[5]].k, !.dv = DataSeq[c[5]].v],
         bare |-> DataSeq[c[5]].bare, store |-> MkStore(c[6], c[7], c[8])]
    ELSE IF c[1] = 2 THEN
        [I |-> [Blank EXCEPT !.verb = IndirectVerbs[c[2]], !.conn = IndirectConn[c[2]], !.form = "indirect",
                             !.dst = ShareSeq[c[3]], !.src = ShareSeq[c[4]], !.dfl = ListSeq[c[5]], !.sfl = ListSeq[c[6]]],
         bare |-> FALSE, store |-> MkStore(c[7], c[8], c[9])]
    ELSE
        [I |-> [Blank EXCEPT !.verb = AllVerbs[c[2]], !.conn = ConnSeq[c[3]], !.form = FormSeq[c[4]],
                             !.dst = "a", !.src = "b", !.dk = <<"x">>, !.dv = <<5>>],
         bare |-> FALSE, store |-> MkStore(3, 3, 1)]

\* ---------------------------------------------------------------- model: one instance per behaviour
Framers == {"f", "g"}
Init == \E c \in Codes :
        /\ prog = <<Decode(c).I>> /\ store = Decode(c).store
        /\ plan = <<Unplanned>> /\ phase = "build" /\ now = NoStamp
        /\ ctl = [t \in Framers |-> [desire |-> "stop", period |-> 0]] /\ dn = [t \in Framers |-> FALSE]
        /\ last = [op |-> "Init", k |-> 0]
Acted == last.op \in MoveVerbs
Clock == now < 1 /\ Tick
Act1 == now = 1 /\ ~Acted /\ Acts(1)
Next == Resolve(1) \/ RefuseParse \/ RefuseResolve \/ Clock \/ Act1
Spec == Init /\ [][Next]_vars

\* ---------------------------------------------------------------- table for the harness
Row(c) ==
    LET D == Decode(c)
        I == D.I
        st0 == D.store
        err == ParseError(I) \/ ResolveError(I, st0)
        st1 == IF err THEN st0 ELSE Created(I, st0)
        P == IF err THEN Unplanned ELSE Planned(I, st0)
    IN [code |-> c, I |-> I, bare |-> D.bare, store |-> st0,
        res |-> IF err THEN "error" ELSE IF SoftParseError(I) THEN "either" ELSE "ok",
        built |-> st1,
        plan |-> P,
        unspec |-> IF err THEN FALSE ELSE Unspecified(I, P, st1),
        allok |-> IF err THEN FALSE ELSE AllOk(I, P, st1),
        outs |-> IF err \/ Unspecified(I, P, st1) THEN <<>>
                 ELSE SetToSeq({[st1 EXCEPT ![I.dst] = o] : o \in Outcomes(I, P, st1, 1)})]
Table == LET cs == SetToSeq(Codes) IN [i \in DOMAIN cs |-> Row(cs[i])]
ASSUME JsonSerialize(IOEnv.TABLE_OUT, Table)
=============================================================================
